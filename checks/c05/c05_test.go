//go:build verif

package consensus_test

// C05 — commit certificates are accepted only with >2/3 distinct valid signatures.
//
// For validator sets of n = 1..7 deterministic keys a real block of height 1 is
// built with the real block manager. Every commit vote list of a finite grammar
// (per-validator item kind x duplicate variant x item order) is then offered to
// five entry points of the real code and the verdict is compared with the
// property statement:
//   VerifyBlock            CommitVoteList.VerifyBlock(block, validators)
//   VerifyBlock(decoded)   the same list after Bytes() / NewCommitVoteSetFromBytes
//   Import                 block.Manager.Import of a height-2 block carrying the list
//                          (verifyNewBlock -> verifyProofForLastBlock)
//   Propose                block.Manager.Propose(parent, list) (what consensus does with its own votes)
//   processBlock           consensus.processBlock (fast sync) on a started real engine

import (
	"bytes"
	"fmt"
	"io"
	"os"
	"path/filepath"
	"sort"
	"strings"
	"sync"
	"sync/atomic"
	"testing"
	"time"

	"github.com/icon-project/goloop/block"
	"github.com/icon-project/goloop/common"
	"github.com/icon-project/goloop/common/codec"
	"github.com/icon-project/goloop/common/crypto"
	"github.com/icon-project/goloop/common/log"
	"github.com/icon-project/goloop/common/wallet"
	"github.com/icon-project/goloop/consensus"
	"github.com/icon-project/goloop/module"
	"github.com/icon-project/goloop/test"
	"github.com/icon-project/goloop/verifshim/ev"
)

const (
	c05Absent = iota
	c05Valid
	c05WrongBlock
	c05WrongRound
	c05WrongPSID
	c05Prevote
	c05Foreign
	c05Garbage
	c05Kinds
)

var c05KindName = []string{"absent", "valid", "wrong-block", "wrong-round", "wrong-partset", "prevote", "non-validator", "unrecoverable-sig"}

// c05Spec is one commit vote list of the grammar.
type c05Spec struct {
	N     int   `json:"n"`
	Round int32 `json:"round"`
	Kinds []int `json:"kinds"` // per validator
	Dup   int   `json:"dup"`   // 0 none, 1 first valid item repeated, 2 second valid signature (other timestamp) of the first valid signer
	Order []int `json:"order,omitempty"`
}

func (s c05Spec) String() string {
	var ks []string
	for _, k := range s.Kinds {
		ks = append(ks, c05KindName[k])
	}
	return fmt.Sprintf("n=%d round=%d items=[%s] dup=%d order=%v", s.N, s.Round, strings.Join(ks, ","), s.Dup, s.Order)
}

func c05Wallet(seed byte) module.Wallet {
	sk, err := crypto.ParsePrivateKey(bytes.Repeat([]byte{seed}, 32))
	if err != nil {
		panic(err)
	}
	w, err := wallet.NewFromPrivateKey(sk)
	if err != nil {
		panic(err)
	}
	return w
}

type c05T struct{ fails int32 }

func (t *c05T) Errorf(format string, args ...interface{}) {
	atomic.AddInt32(&t.fails, 1)
	fmt.Printf("C05 fixture assertion: "+format+"\n", args...)
}
func (t *c05T) Logf(format string, args ...any) {}

type c05Env struct {
	n          int
	t          *c05T
	wallets    []module.Wallet
	foreign    module.Wallet
	gs         string
	node       *test.Node
	blk1       module.Block
	blk1Bytes  []byte
	validators module.ValidatorList
	vidx       []int // wallet i -> validator index
	psid       *consensus.PartSetIDAndAppData
	hdr        block.V2HeaderFormat
	body       block.V2BodyFormat
	ts0        int64

	sigMu sync.Mutex
	sigs  map[string]common.Signature

	nodeB    *test.Node
	blk1ForB module.BlockData

	sigPrefix string // set while the validator-set history family runs
}

func (e *c05Env) ensureNodeB() {
	if e.nodeB != nil {
		return
	}
	e.nodeB = test.NewNode(e.t, test.UseGenesis(e.gs), test.UseWallet(c05Wallet(0x73)), test.SetTimeoutPropose(time.Hour))
	c05Quiet(e.nodeB)
	if err := e.nodeB.CS.Start(); err != nil {
		panic(err)
	}
	h, nv, before := consensus.VerifC05EngineState(e.nodeB.CS)
	if h != 1 || nv != e.n || !before {
		panic(fmt.Sprintf("harness: engine state h=%d validators=%d", h, nv))
	}
	bd, err := e.nodeB.BM.NewBlockDataFromReader(bytes.NewReader(e.blk1Bytes))
	if err != nil {
		panic(err)
	}
	e.blk1ForB = bd
}

func c05Quiet(n *test.Node) {
	n.Chain.Logger().SetOutput(io.Discard)
	n.Chain.Logger().SetLevel(log.PanicLevel)
}

// c05NewEnv builds the chain for n validators. setupErr is set (and the
// environment unusable for Import) when the block manager refuses to propose
// on top of block 1 with the complete valid certificate.
func c05NewEnv(n int) (e *c05Env, setupErr error) {
	e = &c05Env{n: n, t: &c05T{}, sigs: map[string]common.Signature{}}
	var vs []string
	for i := 0; i < n; i++ {
		w := c05Wallet(byte(0x31 + i))
		e.wallets = append(e.wallets, w)
		vs = append(vs, fmt.Sprintf("%q", w.Address().String()))
	}
	e.foreign = c05Wallet(0x71)
	e.gs = fmt.Sprintf(`{
		"accounts": [
			{"name": "treasury", "address": "hx1000000000000000000000000000000000000000", "balance": "0x0"},
			{"name": "god", "address": "hx0000000000000000000000000000000000000000", "balance": "0x0"}
		],
		"message": "", "nid": "0x1",
		"chain": {"validatorList": [ %s ]}
	}`, strings.Join(vs, ", "))
	e.node = test.NewNode(e.t, test.UseGenesis(e.gs), test.UseWallet(c05Wallet(0x72)), test.SetTimeoutPropose(time.Hour))
	c05Quiet(e.node)
	e.node.ProposeFinalizeBlock(consensus.NewEmptyCommitVoteList())
	e.blk1 = e.node.LastBlock
	if e.blk1.Height() != 1 {
		panic("harness: block 1 not finalized")
	}
	var buf bytes.Buffer
	if err := e.blk1.Marshal(&buf); err != nil {
		panic(err)
	}
	e.blk1Bytes = buf.Bytes()
	psb := consensus.NewPartSetBuffer(consensus.ConfigBlockPartSize)
	if _, err := psb.Write(e.blk1Bytes); err != nil {
		panic(err)
	}
	e.psid = psb.PartSet().ID().WithAppData(0)
	g, err := e.node.BM.GetBlockByHeight(0)
	if err != nil {
		panic(err)
	}
	e.validators = g.NextValidators()
	if e.validators.Len() != n {
		panic(fmt.Sprintf("harness: %d validators designated by genesis, want %d", e.validators.Len(), n))
	}
	for _, w := range e.wallets {
		ix := e.validators.IndexOf(w.Address())
		if ix < 0 {
			panic("harness: validator wallet not in the set")
		}
		e.vidx = append(e.vidx, ix)
	}
	e.ts0 = e.blk1.Timestamp()
	// template block of height 2, proposed with the full valid list
	all := make([]int, n)
	for i := range all {
		all[i] = c05Valid
	}
	full := e.build(c05Spec{N: n, Kinds: all})
	var bc module.BlockCandidate
	var err2, cbErr error
	if p := ev.Catch(func() { bc, err2, cbErr = test.ProposeBlock(e.node.BM, e.blk1.ID(), full) }); p != "" {
		return e, fmt.Errorf("panic: %s", p)
	}
	if err2 != nil || cbErr != nil || bc == nil {
		return e, fmt.Errorf("Propose with all %d valid precommits: err=%v cbErr=%v", n, err2, cbErr)
	}
	var hb, bb bytes.Buffer
	if err := bc.MarshalHeader(&hb); err != nil {
		panic(err)
	}
	if err := bc.MarshalBody(&bb); err != nil {
		panic(err)
	}
	codec.BC.MustUnmarshalFromBytes(hb.Bytes(), &e.hdr)
	codec.BC.MustUnmarshalFromBytes(bb.Bytes(), &e.body)
	bc.Dispose()
	if atomic.LoadInt32(&e.t.fails) != 0 {
		panic("harness: fixture assertion failed during setup")
	}
	return e, nil
}

func (e *c05Env) close() {
	if e.nodeB != nil {
		e.nodeB.Close()
		e.nodeB = nil
	}
	e.node.Close()
}

func (e *c05Env) sig(key string, mk func() common.Signature) common.Signature {
	e.sigMu.Lock()
	defer e.sigMu.Unlock()
	if s, ok := e.sigs[key]; ok {
		return s
	}
	s := mk()
	e.sigs[key] = s
	return s
}

func (e *c05Env) itemTS(i int) int64 { return e.ts0 + 1 + int64(i) }

// item returns the list entry of validator i for the given kind; the list
// header is (round, real part-set id of block 1).
func (e *c05Env) item(i int, kind int, round int32, ts int64) consensus.VerifC05Item {
	h := e.blk1.Height()
	bid := e.blk1.ID()
	key := fmt.Sprintf("%d/%d/%d/%d", i, kind, round, ts)
	s := e.sig(key, func() common.Signature {
		switch kind {
		case c05Valid:
			return consensus.VerifC05Sign(e.wallets[i], consensus.VoteTypePrecommit, h, round, bid, e.psid, ts)
		case c05WrongBlock:
			return consensus.VerifC05Sign(e.wallets[i], consensus.VoteTypePrecommit, h, round, bytes.Repeat([]byte{0xEE}, len(bid)), e.psid, ts)
		case c05WrongRound:
			return consensus.VerifC05Sign(e.wallets[i], consensus.VoteTypePrecommit, h, round+1, bid, e.psid, ts)
		case c05WrongPSID:
			other := (&consensus.PartSetID{Count: e.psid.ID().Count + 1, Hash: e.psid.ID().Hash}).WithAppData(0)
			return consensus.VerifC05Sign(e.wallets[i], consensus.VoteTypePrecommit, h, round, bid, other, ts)
		case c05Prevote:
			return consensus.VerifC05Sign(e.wallets[i], consensus.VoteTypePrevote, h, round, bid, e.psid, ts)
		case c05Foreign:
			return consensus.VerifC05Sign(e.foreign, consensus.VoteTypePrecommit, h, round, bid, e.psid, ts)
		case c05Garbage:
			return consensus.VerifC05ZeroSignature()
		}
		panic("kind")
	})
	return consensus.VerifC05Item{Timestamp: ts, Signature: s}
}

func (e *c05Env) build(s c05Spec) *consensus.CommitVoteList {
	var items []consensus.VerifC05Item
	firstValid := -1
	for i, k := range s.Kinds {
		if k == c05Absent {
			continue
		}
		if k == c05Valid && firstValid < 0 {
			firstValid = i
		}
		items = append(items, e.item(i, k, s.Round, e.itemTS(i)))
	}
	if s.Dup != 0 && firstValid >= 0 {
		switch s.Dup {
		case 1:
			items = append(items, e.item(firstValid, c05Valid, s.Round, e.itemTS(firstValid)))
		case 2:
			items = append(items, e.item(firstValid, c05Valid, s.Round, e.itemTS(firstValid)+100))
		}
	}
	if s.Order != nil && len(s.Order) == len(items) {
		p := make([]consensus.VerifC05Item, len(items))
		for to, from := range s.Order {
			p[to] = items[from]
		}
		items = p
	}
	return consensus.VerifC05List(s.Round, e.psid, items)
}

// expectation derived from the statement alone.
type c05Expect struct {
	strict       bool // list must be accepted: every item valid, all signers distinct, 3*valid > 2n
	sound        bool // >2/3 distinct valid signers present (maybe next to bad items)
	badKinds     []string
	hasGarbage   bool
	hasDup       bool
	distinctGood int
	voted        []bool // by validator index
}

func (e *c05Env) expect(s c05Spec) c05Expect {
	x := c05Expect{voted: make([]bool, e.n)}
	seen := map[string]bool{}
	anyValid := false
	allValid := true
	for i, k := range s.Kinds {
		switch k {
		case c05Absent:
		case c05Valid:
			x.distinctGood++
			x.voted[e.vidx[i]] = true
			anyValid = true
		default:
			allValid = false
			if !seen[c05KindName[k]] {
				seen[c05KindName[k]] = true
				x.badKinds = append(x.badKinds, c05KindName[k])
			}
			if k == c05Garbage {
				x.hasGarbage = true
			}
		}
	}
	sort.Strings(x.badKinds)
	x.hasDup = s.Dup != 0 && anyValid
	x.sound = 3*x.distinctGood > 2*e.n
	x.strict = allValid && !x.hasDup && x.sound
	return x
}

const (
	c05PVerify  = "VerifyBlock"
	c05PDecoded = "VerifyBlock(decoded)"
	c05PImport  = "Import"
	c05PPropose = "Propose"
	c05PProcess = "processBlock"
)

type c05Checker struct {
	r        *ev.Run
	accepted sync.Map // point -> *int64
	rejected sync.Map
	dupOK    int64 // processBlock accepted a list with a repeated signer next to a sound majority
	cbErrs   int64
	sigs     sync.Map // violation signature -> *int64 (all of them, also the ones ev stops printing)
}

func (c *c05Checker) violation(sig, detail string, cs c05Case) {
	v, _ := c.sigs.LoadOrStore(sig, new(int64))
	atomic.AddInt64(v.(*int64), 1)
	c.r.Violation(sig, detail, cs)
}

func (c *c05Checker) count(m *sync.Map, p string) {
	v, _ := m.LoadOrStore(p, new(int64))
	atomic.AddInt64(v.(*int64), 1)
}

type c05Case struct {
	Spec     c05Spec        `json:"spec"`
	Point    string         `json:"point"`
	Scenario *c05VSScenario `json:"scenario,omitempty"` // validator-set history family
}

func (c *c05Checker) why(x c05Expect, n int) string {
	var w []string
	if len(x.badKinds) > 0 {
		w = append(w, "items:"+strings.Join(x.badKinds, "+"))
	}
	if x.hasDup {
		w = append(w, "duplicate-signer")
	}
	if !x.sound {
		w = append(w, "too-few-valid")
	}
	return strings.Join(w, ",")
}

// judge compares one entry point's verdict with the statement.
func (c *c05Checker) judge(e *c05Env, s c05Spec, x c05Expect, point string, accepted bool, panicked string, detail string) {
	c.r.Eval(1)
	strictPoint := point != c05PProcess
	if e.sigPrefix != "" {
		point = point + "(" + strings.TrimSuffix(e.sigPrefix, ":") + ")"
	}
	cs := c05Case{Spec: s, Point: point}
	if panicked != "" {
		what := c.why(x, e.n)
		if what == "" {
			what = "valid-list"
		}
		sig := fmt.Sprintf("panic-instead-of-verdict[%s]@%s", what, point)
		if x.hasGarbage {
			// the list holds an entry whose signature recovers to no public key
			sig = "panic-on-unrecoverable-signature-item@" + point
		}
		c.violation(sig, fmt.Sprintf("%s panicked on %v: %s", point, s, panicked), cs)
		return
	}
	if accepted {
		c.count(&c.accepted, point)
	} else {
		c.count(&c.rejected, point)
	}
	switch {
	case accepted && !x.sound:
		c.violation(fmt.Sprintf("accepted-without-two-thirds[%s]@%s", c.why(x, e.n), point),
			fmt.Sprintf("%s accepted %v: only %d of %d validators carry a valid signature over the block %s", point, s, x.distinctGood, e.n, detail), cs)
	case accepted && !x.strict && strictPoint:
		c.violation(fmt.Sprintf("accepted-list-with-bad-entries[%s]@%s", c.why(x, e.n), point),
			fmt.Sprintf("%s accepted %v %s", point, s, detail), cs)
	case accepted && !x.strict && !strictPoint:
		if len(x.badKinds) > 0 {
			c.violation(fmt.Sprintf("accepted-list-with-bad-entries[%s]@%s", c.why(x, e.n), point),
				fmt.Sprintf("%s accepted %v %s", point, s, detail), cs)
		} else {
			atomic.AddInt64(&c.dupOK, 1) // repeated signer next to a sound majority: tolerated at the fast-sync entry (see note)
		}
	case !accepted && x.strict:
		c.violation(fmt.Sprintf("valid-certificate-rejected@%s", point),
			fmt.Sprintf("%s rejected %v (%d of %d valid, all distinct) %s", point, s, x.distinctGood, e.n, detail), cs)
	}
}

func (e *c05Env) eval(c *c05Checker, s c05Spec, points map[string]bool) {
	x := e.expect(s)
	list := e.build(s)
	if points[c05PVerify] {
		var voted []bool
		var err error
		p := ev.Catch(func() { voted, err = list.VerifyBlock(e.blk1, e.validators) })
		c.judge(e, s, x, c05PVerify, p == "" && err == nil, p, fmt.Sprintf("(err=%v)", err))
		if p == "" && err == nil && x.strict {
			if fmt.Sprint(voted) != fmt.Sprint(x.voted) {
				c.violation("voted-bitmap-wrong@VerifyBlock", fmt.Sprintf("%v: voted=%v want %v", s, voted, x.voted), c05Case{Spec: s, Point: c05PVerify})
			}
		}
	}
	if points[c05PDecoded] {
		var err error
		var dec module.CommitVoteSet
		p := ev.Catch(func() {
			dec = consensus.NewCommitVoteSetFromBytes(list.Bytes())
			if dec == nil {
				err = fmt.Errorf("not decodable")
				return
			}
			_, err = dec.VerifyBlock(e.blk1, e.validators)
		})
		c.judge(e, s, x, c05PDecoded, p == "" && err == nil, p, fmt.Sprintf("(err=%v)", err))
	}
	if points[c05PImport] {
		hdr, body := e.hdr, e.body
		hdr.VotesHash = list.Hash()
		hdr.Timestamp = list.Timestamp()
		body.Votes = list.Bytes()
		var buf bytes.Buffer
		codec.BC.Marshal(&buf, &hdr)
		codec.BC.Marshal(&buf, &body)
		ch := make(chan error, 1)
		var err error
		p := ev.Catch(func() {
			_, err = e.node.BM.Import(bytes.NewReader(buf.Bytes()), 0, func(bc module.BlockCandidate, err error) {
				if bc != nil {
					bc.Dispose()
				}
				ch <- err
			})
		})
		detail := fmt.Sprintf("(err=%v)", err)
		if p == "" && err == nil {
			select {
			case cbErr := <-ch:
				if cbErr != nil {
					atomic.AddInt64(&c.cbErrs, 1)
					detail = fmt.Sprintf("(certificate accepted; later stage: %v)", cbErr)
				}
			case <-time.After(60 * time.Second):
				c.r.Sanity(false, "Import callback did not arrive for %v", s)
			}
		}
		c.judge(e, s, x, c05PImport, p == "" && err == nil, p, detail)
	}
	if points[c05PPropose] {
		ch := make(chan error, 1)
		var err error
		p := ev.Catch(func() {
			_, err = e.node.BM.Propose(e.blk1.ID(), list, func(bc module.BlockCandidate, err error) {
				if bc != nil {
					bc.Dispose()
				}
				ch <- err
			})
		})
		detail := fmt.Sprintf("(err=%v)", err)
		if p == "" && err == nil {
			select {
			case cbErr := <-ch:
				if cbErr != nil {
					atomic.AddInt64(&c.cbErrs, 1)
					detail = fmt.Sprintf("(certificate accepted; later stage: %v)", cbErr)
				}
			case <-time.After(60 * time.Second):
				c.r.Sanity(false, "Propose callback did not arrive for %v", s)
			}
		}
		c.judge(e, s, x, c05PPropose, p == "" && err == nil, p, detail)
	}
	if points[c05PProcess] {
		e.ensureNodeB()
		consumed, rejected, p := consensus.VerifC05ProcessBlock(e.nodeB.CS, e.blk1ForB, list.Bytes())
		if p == "" && consumed == rejected {
			c.violation("neither-consumed-nor-rejected@processBlock", fmt.Sprintf("%v consumed=%v rejected=%v", s, consumed, rejected), c05Case{Spec: s, Point: c05PProcess})
		}
		c.judge(e, s, x, c05PProcess, p == "" && consumed, p, "")
		if consumed {
			// the engine has moved on (commit): next case gets a fresh one
			e.nodeB.Close()
			e.nodeB = nil
		}
	}
}

// ---------------------------------------------------------------- the space

func c05Perms(n int) [][]int {
	var out [][]int
	p := make([]int, n)
	for i := range p {
		p[i] = i
	}
	var rec func(k int)
	rec = func(k int) {
		if k == n {
			out = append(out, append([]int(nil), p...))
			return
		}
		for i := k; i < n; i++ {
			p[k], p[i] = p[i], p[k]
			rec(k + 1)
			p[k], p[i] = p[i], p[k]
		}
	}
	rec(0)
	return out
}

func c05Items(s c05Spec) int {
	c, anyValid := 0, false
	for _, k := range s.Kinds {
		if k != c05Absent {
			c++
		}
		if k == c05Valid {
			anyValid = true
		}
	}
	if s.Dup != 0 && anyValid {
		c++
	}
	return c
}

// c05Space enumerates the lists for n validators.
//
//	full      full product of item kinds (8^n) x dup variants
//	otherwise all valid/absent subsets x (no mutation | one position replaced by one bad kind) x dup variants
//	perms     additionally every order of the items
func c05Space(n int, full, perms bool, rounds []int32, fn func(s c05Spec)) {
	emit := func(kinds []int, round int32) {
		anyValid := false
		for _, k := range kinds {
			if k == c05Valid {
				anyValid = true
			}
		}
		for dup := 0; dup <= 2; dup++ {
			if dup != 0 && !anyValid {
				continue
			}
			s := c05Spec{N: n, Round: round, Kinds: append([]int(nil), kinds...), Dup: dup}
			fn(s)
			if perms {
				for pi, p := range c05Perms(c05Items(s)) {
					if pi == 0 {
						continue // identity already done
					}
					s2 := s
					s2.Order = p
					fn(s2)
				}
			}
		}
	}
	for _, round := range rounds {
		if full {
			kinds := make([]int, n)
			for {
				emit(kinds, round)
				i := n - 1
				for ; i >= 0; i-- {
					kinds[i]++
					if kinds[i] < c05Kinds {
						break
					}
					kinds[i] = 0
				}
				if i < 0 {
					break
				}
			}
			continue
		}
		for mask := 0; mask < 1<<uint(n); mask++ {
			kinds := make([]int, n)
			for i := 0; i < n; i++ {
				if mask>>uint(i)&1 == 1 {
					kinds[i] = c05Valid
				}
			}
			emit(kinds, round)
			for pos := 0; pos < n; pos++ {
				for k := c05WrongBlock; k < c05Kinds; k++ {
					old := kinds[pos]
					kinds[pos] = k
					emit(kinds, round)
					kinds[pos] = old
				}
			}
		}
	}
}

type c05Plan struct {
	VSets  string   `json:"validator_set_history,omitempty"` // "standalone" | "engine"
	N      int      `json:"n"`
	Full   bool     `json:"full_product"`
	Perms  bool     `json:"all_item_orders"`
	Rounds []int32  `json:"rounds"`
	Points []string `json:"entry_points"`
	Lists  int64    `json:"lists"`
	Done   bool     `json:"complete"`
	WallS  float64  `json:"wall_s"`
}

func TestVerifC05(t *testing.T) {
	r := ev.Start(t, "C05", "exploration")
	r.Rule("commit vote lists for a real height-1 block and validator sets of n=1..7 keys: per validator one of {absent, valid precommit, valid key over another block id / another round / another part-set id, prevote, non-validator key, unrecoverable 65-byte signature}, optionally one repeated signer (same item again, or a second valid signature with another timestamp); full product 8^n for small n, all signer subsets x at most one bad item for larger n, all item orders for n<=3; each list offered to VerifyBlock, VerifyBlock after encode/decode, block manager Import of a height-2 block carrying it, block manager Propose, and consensus.processBlock; non-trivial = distinct list with at least one item")
	r.Assume("validator set of block 1 = validators designated by the genesis block (checked at setup)",
		"wrong-target signatures recover to an address outside the validator set (true unless a 160-bit collision)",
		"processBlock (fast sync) is judged for soundness (accept => >2/3 distinct valid signers, no forged/foreign/garbage entry); a repeated signer next to a sound majority is counted there, not alarmed: the raw list is not persisted on that path")
	work := filepath.Join(ev.Root(), ".work", "c05", "tmp")
	if s := os.Getenv("VERIF_SCRATCH"); s != "" {
		work = filepath.Join(s, "tmp")
	}
	os.RemoveAll(work)
	os.MkdirAll(work, 0o755)
	os.Setenv("TMPDIR", work)
	defer os.RemoveAll(work)
	log.GlobalLogger().SetOutput(io.Discard)

	c := &c05Checker{r: r}
	all := []string{c05PVerify, c05PDecoded, c05PImport, c05PPropose, c05PProcess}
	toSet := func(ps []string) map[string]bool {
		m := map[string]bool{}
		for _, p := range ps {
			m[p] = true
		}
		return m
	}

	if ev.Replaying() {
		var cs c05Case
		ev.ReplayCase(&cs)
		if cs.Scenario != nil {
			c05NewVS(c).run(*cs.Scenario)
			r.Finish(false)
			return
		}
		e, serr := c05NewEnv(cs.Spec.N)
		defer e.close()
		if serr != nil {
			r.Violation("valid-certificate-rejected@Propose(setup)", serr.Error(), cs)
		} else {
			e.eval(c, cs.Spec, toSet([]string{cs.Point}))
		}
		r.Finish(false)
		return
	}

	cheap := []string{c05PVerify, c05PDecoded}
	var plans []*c05Plan
	if r.Quick() {
		plans = []*c05Plan{
			{N: 1, Full: true, Perms: true, Rounds: []int32{0, 1}, Points: all},
			{N: 2, Full: true, Perms: true, Rounds: []int32{0, 1}, Points: all},
			{N: 3, Full: true, Perms: true, Rounds: []int32{0}, Points: all},
			{N: 4, Full: true, Rounds: []int32{0}, Points: cheap},
			{N: 4, Rounds: []int32{0}, Points: all},
			{N: 5, Rounds: []int32{0}, Points: all},
			{N: 6, Rounds: []int32{0}, Points: cheap},
			{N: 7, Rounds: []int32{0}, Points: cheap},
			{N: 4, VSets: "standalone", Points: []string{c05PVerify, "toVoteList"}},
			{N: 4, VSets: "engine", Rounds: []int32{0}, Points: all},
		}
	} else {
		plans = []*c05Plan{
			{N: 1, Full: true, Perms: true, Rounds: []int32{0, 1}, Points: all},
			{N: 2, Full: true, Perms: true, Rounds: []int32{0, 1}, Points: all},
			{N: 3, Full: true, Perms: true, Rounds: []int32{0, 1}, Points: all},
			{N: 4, Full: true, Rounds: []int32{0, 1}, Points: all},
			{N: 5, Full: true, Rounds: []int32{0}, Points: all},
			{N: 6, Full: true, Rounds: []int32{0}, Points: cheap},
			{N: 5, Rounds: []int32{1}, Points: all},
			{N: 6, Rounds: []int32{0, 1}, Points: all},
			{N: 7, Rounds: []int32{0, 1}, Points: all},
			{N: 4, VSets: "standalone", Points: []string{c05PVerify, "toVoteList"}},
			{N: 4, VSets: "engine", Rounds: []int32{0}, Points: all},
		}
	}
	var stop int32
	var sampleMu sync.Mutex
	sampled := map[string]bool{}
	ev.Par(len(plans), len(plans), func(pi int) {
		pl := plans[pi]
		t0 := time.Now()
		defer func() { pl.WallS = time.Since(t0).Seconds() }()
		if pl.VSets == "standalone" {
			vs := c05NewVS(c)
			scs := c05VSScenarios(r.Thorough())
			ev.Par(len(scs), 8, func(i int) {
				if atomic.LoadInt32(&stop) != 0 {
					return
				}
				if i%64 == 0 && r.Expired() {
					atomic.StoreInt32(&stop, 1)
					return
				}
				vs.run(scs[i])
				atomic.AddInt64(&pl.Lists, 1)
				r.Nontrivial("vs:" + scs[i].String())
			})
			r.Eval(int(atomic.LoadInt64(&vs.evals)))
			pl.Done = atomic.LoadInt32(&stop) == 0
			return
		}
		e, serr := c05NewEnv(pl.N)
		defer e.close()
		if serr != nil {
			all := make([]int, pl.N)
			for i := range all {
				all[i] = c05Valid
			}
			c.violation("valid-certificate-rejected@Propose(setup)", serr.Error(), c05Case{Spec: c05Spec{N: pl.N, Kinds: all}, Point: c05PPropose})
			return
		}
		pts := toSet(pl.Points)
		if pl.VSets == "engine" {
			pl.Lists = int64(e.vsEngineFamily(c, pts, &stop))
			pl.Done = atomic.LoadInt32(&stop) == 0
			return
		}
		var specs []c05Spec
		c05Space(pl.N, pl.Full, pl.Perms, pl.Rounds, func(s c05Spec) { specs = append(specs, s) })
		heavy := pts[c05PImport] || pts[c05PPropose] || pts[c05PProcess]
		run := func(i int) {
			if atomic.LoadInt32(&stop) != 0 {
				return
			}
			if i%256 == 0 && r.Expired() {
				atomic.StoreInt32(&stop, 1)
				return
			}
			s := specs[i]
			e.eval(c, s, pts)
			atomic.AddInt64(&pl.Lists, 1)
			if c05Items(s) > 0 {
				r.Nontrivial(s.String())
			}
			x := e.expect(s)
			key := fmt.Sprintf("%d/%v/%v", pl.N, x.strict, c.why(x, pl.N))
			sampleMu.Lock()
			if !sampled[key] && len(sampled) < 6 && (x.strict || pl.N >= 3) {
				sampled[key] = true
				r.Sample(map[string]interface{}{"list": s, "statement_accepts": x.strict, "why_not": c.why(x, pl.N)})
			}
			sampleMu.Unlock()
		}
		if heavy {
			for i := range specs {
				run(i) // block manager / engine are stateful: one list at a time
			}
		} else {
			ev.Par(len(specs), 8, run)
		}
		pl.Done = atomic.LoadInt32(&stop) == 0
		if atomic.LoadInt32(&e.t.fails) != 0 {
			r.Sanity(false, "fixture assertions failed for n=%d", pl.N)
		}
	})
	complete := true
	for _, pl := range plans {
		if !pl.Done {
			complete = false
		}
	}
	r.Set("plans", plans)
	acc, rej := map[string]int64{}, map[string]int64{}
	c.accepted.Range(func(k, v interface{}) bool { acc[k.(string)] = *(v.(*int64)); return true })
	c.rejected.Range(func(k, v interface{}) bool { rej[k.(string)] = *(v.(*int64)); return true })
	r.Set("accepted", acc)
	r.Set("rejected", rej)
	r.Set("processBlock_accepted_repeated_signer_with_sound_majority", c.dupOK)
	r.Set("accepted_certificate_failed_later_stage", c.cbErrs)
	vs := map[string]int64{}
	c.sigs.Range(func(k, v interface{}) bool { vs[k.(string)] = *(v.(*int64)); return true })
	if len(vs) > 0 {
		r.Set("violating_cases_by_signature", vs)
		var keys []string
		for k := range vs {
			keys = append(keys, k)
		}
		sort.Strings(keys)
		for _, k := range keys {
			fmt.Printf("C05 cases with signature %-70s %d\n", k, vs[k])
		}
	}
	if complete && r.Violations() == 0 {
		for _, p := range all {
			r.Sanity(acc[p] > 0 && rej[p] > 0, "entry point %s accepted=%d rejected=%d", p, acc[p], rej[p])
		}
		r.Sanity(c.cbErrs == 0, "%d accepted certificates failed in a later import/propose stage", c.cbErrs)
	}
	r.Finish(complete)
}
