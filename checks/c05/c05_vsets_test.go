//go:build verif

package consensus_test

// C05, validator-set history family.
//
// "… from more than two thirds of distinct members of the validator set
// designated by its parent": the set designated by the parent is a
// state.ValidatorSnapshot S. Executing the block derives a ValidatorState from S
// and edits it (Replace/SetAt/Add/Remove/Set). None of that may change what S
// answers. Here every single edit and every sequence of two edits of a state
// derived from the REAL snapshot object is applied, and afterwards
//   * S itself is compared with its recorded answers and with the model
//     (IndexOf for members and outsiders, Get, Len, Hash, Bytes),
//   * every commit vote list over the six keys (4 members, 2 outsiders; each key
//     absent or signing a valid precommit) is verified against S with
//     CommitVoteList.VerifyBlock and CommitVoteList.toVoteList: the verdict must
//     be what it was before the edit (differential) and what the statement says
//     (> 2/3 distinct members of S, no outsider),
//   * the same lists are verified against the NEW snapshot with its own model.
// A second part applies every single edit to a state derived from the snapshot
// objects held by the real block manager / consensus engine and re-runs a slice
// of the commit-vote product at all five entry points.

import (
	"bytes"
	"fmt"
	"strings"
	"sync/atomic"

	"github.com/icon-project/goloop/common/db"
	"github.com/icon-project/goloop/consensus"
	"github.com/icon-project/goloop/module"
	"github.com/icon-project/goloop/service/state"
	"github.com/icon-project/goloop/verifshim/ev"
)

// keys 0..3 are the members of S (in this order), 4 and 5 are outsiders X and Y
const c05VSKeys = 6

type c05VSEdit struct {
	Op   string `json:"op"` // replace | setat | add | remove | set
	I    int    `json:"i,omitempty"`
	K    int    `json:"k,omitempty"`    // key used as the new validator / removed validator
	List []int  `json:"list,omitempty"` // for set
}

func (e c05VSEdit) String() string {
	switch e.Op {
	case "replace":
		return fmt.Sprintf("Replace(k%d->k%d)", e.I, e.K)
	case "setat":
		return fmt.Sprintf("SetAt(%d,k%d)", e.I, e.K)
	case "add":
		return fmt.Sprintf("Add(k%d)", e.K)
	case "remove":
		return fmt.Sprintf("Remove(k%d)", e.K)
	}
	return fmt.Sprintf("Set(%v)", e.List)
}

type c05VSScenario struct {
	TableBuilt bool        `json:"index_table_built"` // S.IndexOf called once before deriving the state
	Snap       string      `json:"snapshot"`          // none | end | each
	Edits      []c05VSEdit `json:"edits"`
}

func (s c05VSScenario) String() string {
	var es []string
	for _, e := range s.Edits {
		es = append(es, e.String())
	}
	return fmt.Sprintf("table=%v snapshot=%s edits=[%s]", s.TableBuilt, s.Snap, strings.Join(es, ", "))
}

func c05VSEdits() []c05VSEdit {
	var es []c05VSEdit
	for _, out := range []int{4, 5} {
		for i := 0; i < 4; i++ {
			es = append(es, c05VSEdit{Op: "replace", I: i, K: out})
			es = append(es, c05VSEdit{Op: "setat", I: i, K: out})
		}
		es = append(es, c05VSEdit{Op: "add", K: out})
	}
	for k := 0; k < 5; k++ {
		es = append(es, c05VSEdit{Op: "remove", K: k})
	}
	es = append(es,
		c05VSEdit{Op: "set", List: []int{0, 1, 2, 4}},
		c05VSEdit{Op: "set", List: []int{3, 2, 1, 0}},
		c05VSEdit{Op: "set", List: []int{4, 5}},
		c05VSEdit{Op: "set", List: []int{0, 1, 2, 3, 4}},
	)
	return es
}

// model of the edited list (keys in order); mirrors the documented semantics
func c05VSModelApply(l []int, e c05VSEdit) []int {
	idx := func(k int) int {
		for i, x := range l {
			if x == k {
				return i
			}
		}
		return -1
	}
	switch e.Op {
	case "replace":
		i := idx(e.I)
		if i < 0 || e.I == e.K || idx(e.K) >= 0 {
			return l
		}
		n := append([]int(nil), l...)
		n[i] = e.K
		return n
	case "setat":
		if e.I >= len(l) || l[e.I] == e.K || idx(e.K) >= 0 {
			return l
		}
		n := append([]int(nil), l...)
		n[e.I] = e.K
		return n
	case "add":
		if idx(e.K) >= 0 {
			return l
		}
		return append(append([]int(nil), l...), e.K)
	case "remove":
		i := idx(e.K)
		if i < 0 {
			return l
		}
		n := append([]int(nil), l[:i]...)
		return append(n, l[i+1:]...)
	}
	return append([]int(nil), e.List...)
}

type c05VS struct {
	c       *c05Checker
	wallets []module.Wallet
	vals    []module.Validator
	blk     *c05VSBlock
	psid    *consensus.PartSetIDAndAppData
	lists   []*consensus.CommitVoteList // index = bitmask over the six keys
	evals   int64

	pristine    []string
	pristineAns c05VSAnswers
}

type c05VSBlock struct {
	module.BlockData
	id []byte
}

func (b *c05VSBlock) Height() int64 { return 7 }
func (b *c05VSBlock) ID() []byte    { return b.id }

type c05VSCase struct {
	Scenario c05VSScenario `json:"scenario"`
	What     string        `json:"what"`
}

func c05NewVS(c *c05Checker) *c05VS {
	v := &c05VS{c: c}
	for k := 0; k < c05VSKeys; k++ {
		w := c05Wallet(byte(0x51 + k))
		v.wallets = append(v.wallets, w)
		val, err := state.ValidatorFromAddress(w.Address())
		if err != nil {
			panic(err)
		}
		v.vals = append(v.vals, val)
	}
	v.blk = &c05VSBlock{id: bytes.Repeat([]byte{0x77}, 32)}
	v.psid = (&consensus.PartSetID{Count: 1, Hash: bytes.Repeat([]byte{0x78}, 32)}).WithAppData(0)
	items := make([]consensus.VerifC05Item, c05VSKeys)
	for k := range items {
		ts := int64(1000 + k)
		items[k] = consensus.VerifC05Item{Timestamp: ts, Signature: consensus.VerifC05Sign(v.wallets[k], consensus.VoteTypePrecommit, 7, 0, v.blk.id, v.psid, ts)}
	}
	for mask := 0; mask < 1<<c05VSKeys; mask++ {
		var it []consensus.VerifC05Item
		for k := 0; k < c05VSKeys; k++ {
			if mask>>uint(k)&1 == 1 {
				it = append(it, items[k])
			}
		}
		v.lists = append(v.lists, consensus.VerifC05List(0, v.psid, it))
	}
	S0, err := state.ValidatorSnapshotFromSlice(db.NewMapDB(), v.vals[:4])
	if err != nil {
		panic(err)
	}
	v.pristine = v.verdicts(S0)
	v.pristineAns, _ = v.answers(S0)
	return v
}

// verdicts of VerifyBlock and toVoteList for all 64 lists against vl.
// 'A' accepted, 'R' rejected, 'P' panic; for accepted lists the voted bitmap /
// index list is appended so that a wrong slot attribution is visible too.
func (v *c05VS) verdicts(vl module.ValidatorList) []string {
	out := make([]string, len(v.lists))
	for mask, l := range v.lists {
		atomic.AddInt64(&v.evals, 2)
		var voted []bool
		var err error
		r := "R"
		if p := ev.Catch(func() { voted, err = l.VerifyBlock(v.blk, vl) }); p != "" {
			r = "P"
		} else if err == nil {
			r = "A" + fmt.Sprint(voted)
		}
		idx, err2, p2 := consensus.VerifC05ToVoteList(l, 7, v.blk.id, vl)
		t := "R"
		if p2 != "" {
			t = "P"
		} else if err2 == nil {
			t = "A" + fmt.Sprint(idx)
		}
		out[mask] = r + "|" + t
	}
	return out
}

// what the statement says for a list (bitmask of signing keys) against a set (keys in order)
func c05VSExpect(set []int, mask int) string {
	pos := map[int]int{}
	for i, k := range set {
		pos[k] = i
	}
	voted := make([]bool, len(set))
	var idx []int
	members, outsider := 0, false
	for k := 0; k < c05VSKeys; k++ {
		if mask>>uint(k)&1 == 0 {
			continue
		}
		if i, ok := pos[k]; ok {
			voted[i] = true
			idx = append(idx, i)
			members++
		} else {
			outsider = true
		}
	}
	r, t := "R", "R"
	if !outsider {
		t = "A" + fmt.Sprint(idx)
		if len(set) > 0 && 3*members > 2*len(set) {
			r = "A" + fmt.Sprint(voted)
		}
	}
	if len(set) == 0 {
		// VerifyBlock/enoughVote with an empty validator set is outside the property (no parent designates it)
		return ""
	}
	return r + "|" + t
}

func (v *c05VS) report(sig string, sc c05VSScenario, what string) {
	sc2 := sc
	v.c.violation(sig, fmt.Sprintf("%v: %s", sc, what), c05Case{Spec: c05Spec{N: 4}, Point: "validator-set-history", Scenario: &sc2})
}

type c05VSAnswers struct {
	indexOf  [c05VSKeys]int
	getAddrs []string
	length   int
	hash     string
	bytes    string
}

func (v *c05VS) answers(vl module.ValidatorList) (a c05VSAnswers, panicked string) {
	panicked = ev.Catch(func() {
		for k := 0; k < c05VSKeys; k++ {
			a.indexOf[k] = vl.IndexOf(v.wallets[k].Address())
		}
		a.length = vl.Len()
		for i := 0; i < a.length; i++ {
			x, ok := vl.Get(i)
			if !ok || x == nil {
				a.getAddrs = append(a.getAddrs, "?")
			} else {
				a.getAddrs = append(a.getAddrs, x.Address().String())
			}
		}
		a.hash = string(vl.Hash())
		a.bytes = string(vl.Bytes())
	})
	return
}

func (v *c05VS) modelAnswers(set []int) (idx [c05VSKeys]int, addrs []string) {
	for k := range idx {
		idx[k] = -1
	}
	for i, k := range set {
		idx[k] = i
		addrs = append(addrs, v.wallets[k].Address().String())
	}
	return
}

// run executes one scenario on fresh real objects.
func (v *c05VS) run(sc c05VSScenario) {
	v.c.r.Eval(1)
	S, err := state.ValidatorSnapshotFromSlice(db.NewMapDB(), v.vals[:4])
	if err != nil {
		panic(err)
	}
	setS := []int{0, 1, 2, 3}
	// verdicts before the edit: those of a pristine snapshot with the same content
	// (computed once); the node "has used the set" = one IndexOf builds S's lazily
	// created address table
	before := v.pristine
	ansBefore := v.pristineAns
	if sc.TableBuilt {
		S.IndexOf(v.wallets[0].Address())
	}
	st := state.ValidatorStateFromSnapshot(S)
	cur := setS
	var N state.ValidatorSnapshot
	for i, e := range sc.Edits {
		if p := ev.Catch(func() {
			switch e.Op {
			case "replace":
				_ = st.Replace(v.vals[e.I], v.vals[e.K])
			case "setat":
				_ = st.SetAt(e.I, v.vals[e.K])
			case "add":
				_ = st.Add(v.vals[e.K])
			case "remove":
				_ = st.Remove(v.vals[e.K])
			case "set":
				var l []module.Validator
				for _, k := range e.List {
					l = append(l, v.vals[k])
				}
				_ = st.Set(l)
			}
		}); p != "" {
			v.report("panic-in-validator-state-edit", sc, fmt.Sprintf("%v panicked: %s", e, p))
			return
		}
		cur = c05VSModelApply(cur, e)
		if sc.Snap == "each" || (sc.Snap == "end" && i == len(sc.Edits)-1) {
			N = st.GetSnapshot()
		}
	}
	// 1. the parent's snapshot itself
	ans, p := v.answers(S)
	if p != "" {
		v.report("parent-snapshot-panics-after-edit-of-derived-state", sc, p)
		return
	}
	mIdx, mAddrs := v.modelAnswers(setS)
	switch {
	case ans.indexOf != mIdx:
		v.report("parent-snapshot-changed-by-edit-of-derived-state[IndexOf]", sc, fmt.Sprintf("S.IndexOf(k0..k5)=%v, S holds k0..k3 so it must be %v", ans.indexOf, mIdx))
	case ans.length != 4 || fmt.Sprint(ans.getAddrs) != fmt.Sprint(mAddrs):
		v.report("parent-snapshot-changed-by-edit-of-derived-state[Get/Len]", sc, fmt.Sprintf("S.Len()=%d S.Get=%v", ans.length, ans.getAddrs))
	case ans.hash != ansBefore.hash || ans.bytes != ansBefore.bytes:
		v.report("parent-snapshot-changed-by-edit-of-derived-state[Hash/Bytes]", sc, "S.Hash()/S.Bytes() differ from the values before the edit")
	}
	// 2. commit vote lists against the parent's snapshot
	after := v.verdicts(S)
	for mask := range after {
		want := c05VSExpect(setS, mask)
		if before != nil && before[mask] != after[mask] {
			v.report("verdict-against-parent-set-changed-after-edit-of-derived-state", sc,
				fmt.Sprintf("list signed by keys %06b: VerifyBlock|toVoteList said %s before the edit and %s after it (statement: %s)", mask, before[mask], after[mask], want))
			break
		}
		if after[mask] != want {
			v.report("verdict-against-parent-set-differs-from-statement-after-edit-of-derived-state", sc,
				fmt.Sprintf("list signed by keys %06b: VerifyBlock|toVoteList = %s, statement (members k0..k3, >2/3 distinct) = %s", mask, after[mask], want))
			break
		}
	}
	// 3. the new set with its own model
	var nl interface {
		IndexOf(module.Address) int
		Len() int
	} = st
	if N != nil {
		nl = N
	}
	nIdx, _ := v.modelAnswers(cur)
	var got [c05VSKeys]int
	if p := ev.Catch(func() {
		for k := 0; k < c05VSKeys; k++ {
			got[k] = nl.IndexOf(v.wallets[k].Address())
		}
	}); p != "" {
		v.report("panic-in-new-validator-set", sc, p)
		return
	}
	if got != nIdx || nl.Len() != len(cur) {
		v.report("new-validator-set-differs-from-model", sc, fmt.Sprintf("IndexOf(k0..k5)=%v Len=%d, model %v (keys %v)", got, nl.Len(), nIdx, cur))
		return
	}
	if N != nil && len(cur) > 0 {
		nv := v.verdicts(N)
		for mask := range nv {
			if want := c05VSExpect(cur, mask); nv[mask] != want {
				v.report("verdict-against-new-set-differs-from-statement", sc,
					fmt.Sprintf("new set keys %v, list signed by keys %06b: VerifyBlock|toVoteList = %s, statement = %s", cur, mask, nv[mask], want))
				break
			}
		}
	}
}

func c05VSScenarios(thorough bool) []c05VSScenario {
	edits := c05VSEdits()
	var out []c05VSScenario
	for _, tb := range []bool{true, false} {
		for _, snap := range []string{"end", "none", "each"} {
			for _, e := range edits {
				if snap == "each" {
					continue // same as "end" for one edit
				}
				out = append(out, c05VSScenario{tb, snap, []c05VSEdit{e}})
			}
			if !thorough && !(tb && snap == "end") {
				continue
			}
			for _, e1 := range edits {
				for _, e2 := range edits {
					if !thorough && (e1.K == 5 || e2.K == 5) {
						continue // quick: second outsider only in single edits
					}
					out = append(out, c05VSScenario{tb, snap, []c05VSEdit{e1, e2}})
				}
			}
		}
	}
	return out
}

// c05EngineEdits: every single edit applied to states derived from the snapshot
// objects that the real block manager (node A) and the real consensus engine
// (node B) hold; then a slice of the commit-vote product at all entry points.
func (e *c05Env) vsEngineFamily(c *c05Checker, pts map[string]bool, stop *int32) (scenarios int) {
	outsiders := []module.Validator{}
	for _, w := range []module.Wallet{e.foreign, c05Wallet(0x74)} {
		v, err := state.ValidatorFromAddress(w.Address())
		if err != nil {
			panic(err)
		}
		outsiders = append(outsiders, v)
	}
	member := func(vl module.ValidatorList, i int) module.Validator {
		v, _ := vl.Get(e.vidx[i])
		return v
	}
	apply := func(vl module.ValidatorList, ed c05VSEdit) string {
		S, ok := vl.(state.ValidatorSnapshot)
		if !ok {
			return fmt.Sprintf("validator list of type %T is not a state.ValidatorSnapshot", vl)
		}
		st := state.ValidatorStateFromSnapshot(S)
		out := outsiders[(ed.K+1)%2] // K is 4 or 5 in the edit alphabet
		switch ed.Op {
		case "replace":
			_ = st.Replace(member(vl, ed.I), out)
		case "setat":
			_ = st.SetAt(e.vidx[ed.I], out)
		case "add":
			_ = st.Add(out)
		case "remove":
			if ed.K < 4 {
				_ = st.Remove(member(vl, ed.K))
			}
		case "set":
			_ = st.Set([]module.Validator{member(vl, 0), member(vl, 1), member(vl, 2), out})
		}
		_ = st.GetSnapshot()
		return ""
	}
	// lists: all valid/absent subsets, and each with one position signed by the outsider instead
	var rejects, accepts []c05Spec
	c05Space(4, false, false, []int32{0}, func(s c05Spec) {
		if s.Dup != 0 {
			return
		}
		for _, k := range s.Kinds {
			if k != c05Absent && k != c05Valid && k != c05Foreign {
				return
			}
		}
		if e.expect(s).strict {
			accepts = append(accepts, s)
		} else {
			rejects = append(rejects, s)
		}
	})
	for _, ed := range c05VSEdits() {
		if ed.Op == "set" && len(ed.List) != 4 || ed.Op == "remove" && ed.K >= 4 {
			continue
		}
		if atomic.LoadInt32(stop) != 0 || c.r.Expired() {
			atomic.StoreInt32(stop, 1)
			return
		}
		scenarios++
		e.sigPrefix = "after-edit-of-derived-validator-state:"
		e.ensureNodeB()
		var msg string
		if p := ev.Catch(func() {
			msg = apply(e.validators, ed)
			if msg == "" {
				msg = apply(consensus.VerifC05EngineValidators(e.nodeB.CS), ed)
			}
		}); p != "" {
			c.violation("panic-in-validator-state-edit", fmt.Sprintf("%v: %s", ed, p), c05Case{Spec: c05Spec{N: 4}, Point: ed.String()})
			continue
		}
		if msg != "" {
			c.r.Sanity(false, "%s", msg)
			return
		}
		for _, s := range rejects {
			e.eval(c, s, pts)
		}
		// the complete certificate (with the vote of a possibly replaced member) last: it consumes the engine
		e.eval(c, accepts[len(accepts)-1], pts)
		e.sigPrefix = ""
	}
	return
}
