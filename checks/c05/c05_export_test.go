//go:build verif

package consensus

// In-package half of the C05 harness: builds commit vote lists item by item
// (the item type is unexported) and drives consensus.processBlock with a fake
// fastsync.BlockResult. The exploration itself lives in c05_test.go
// (package consensus_test, which may import test/ and block/).

import (
	"github.com/icon-project/goloop/common"
	"github.com/icon-project/goloop/common/crypto"
	"github.com/icon-project/goloop/common/db"
	"github.com/icon-project/goloop/module"
)

// VerifC05Item is one (timestamp, signature) entry of a commit vote list.
type VerifC05Item struct {
	Timestamp int64
	Signature common.Signature
}

// VerifC05Sign signs a vote with exactly the given content.
func VerifC05Sign(w module.Wallet, vt VoteType, height int64, round int32, bid []byte, psid *PartSetIDAndAppData, ts int64) common.Signature {
	m := newVoteMessage()
	m.Height = height
	m.Round = round
	m.Type = vt
	m.SetRoundDecision(bid, psid, nil)
	m.Timestamp = ts
	if err := m.Sign(w); err != nil {
		panic(err)
	}
	return m.Signature
}

// VerifC05ZeroSignature is a well-formed 65-byte signature (r=s=v=0) from which
// no public key can be recovered.
func VerifC05ZeroSignature() common.Signature {
	sig, err := crypto.ParseSignature(make([]byte, 65))
	if err != nil {
		panic(err)
	}
	return common.Signature{Signature: sig}
}

// VerifC05List assembles a commit vote list.
func VerifC05List(round int32, psid *PartSetIDAndAppData, items []VerifC05Item) *CommitVoteList {
	vl := &CommitVoteList{}
	vl.Round = round
	vl.BlockPartSetIDAndAppData = psid
	vl.Items = make([]blockCommitVoteItem, len(items))
	for i, it := range items {
		vl.Items[i] = blockCommitVoteItem{Timestamp: it.Timestamp, Signature: it.Signature}
	}
	return vl
}

type verifC05BR struct {
	blk      module.BlockData
	votes    []byte
	consumed bool
	rejected bool
}

func (b *verifC05BR) Block() module.BlockData { return b.blk }
func (b *verifC05BR) Votes() []byte           { return b.votes }
func (b *verifC05BR) Consume()                { b.consumed = true }
func (b *verifC05BR) Reject()                 { b.rejected = true }

// VerifC05ProcessBlock feeds (blk, votes) to the fast-sync entry point of a
// started consensus engine. The height vote set is emptied first, so that each
// call judges its own list only (a rejected call may have stored the valid
// votes that preceded the offending item). A panic is returned as text; the
// engine's mutex is released in every case.
func VerifC05ProcessBlock(c module.Consensus, blk module.BlockData, votes []byte) (consumed, rejected bool, panicked string) {
	cs := c.(*consensus)
	cs.mutex.Lock()
	defer cs.mutex.Unlock()
	defer func() {
		if x := recover(); x != nil {
			panicked = "panic: " + toString(x)
		}
	}()
	cs.hvs.reset(cs.validators.Len())
	br := &verifC05BR{blk: blk, votes: votes}
	cs.processBlock(br)
	return br.consumed, br.rejected, ""
}

// VerifC05EngineState reports (height, number of validators, step<commit) of a started engine.
func VerifC05EngineState(c module.Consensus) (int64, int, bool) {
	cs := c.(*consensus)
	cs.mutex.Lock()
	defer cs.mutex.Unlock()
	n := 0
	if cs.validators != nil {
		n = cs.validators.Len()
	}
	return cs.height, n, cs.step < stepCommit
}

func toString(x interface{}) string {
	switch v := x.(type) {
	case error:
		return v.Error()
	case string:
		return v
	}
	return "panic"
}

// VerifC05EngineValidators returns the validator list object the engine checks
// fast-synced commit votes against (the set designated by its last block).
func VerifC05EngineValidators(c module.Consensus) module.ValidatorList {
	cs := c.(*consensus)
	cs.mutex.Lock()
	defer cs.mutex.Unlock()
	return cs.validators
}

// VerifC05ToVoteList runs the real CommitVoteList.toVoteList (the conversion
// used by processBlock and by WALRecordBytesFromCommitVoteListBytes) against
// the given validator list and returns, per item, the index the list assigns to
// the recovered signer.
func VerifC05ToVoteList(cvl *CommitVoteList, height int64, bid []byte, validators module.ValidatorList) (idx []int, err error, panicked string) {
	defer func() {
		if x := recover(); x != nil {
			panicked = "panic: " + toString(x)
		}
	}()
	vl, err := cvl.toVoteList(height, bid, nil, validators, module.ZeroNTSHashEntryList{}, db.NewMapDB())
	if err != nil {
		return nil, err, ""
	}
	for i := 0; i < vl.Len(); i++ {
		idx = append(idx, validators.IndexOf(vl.Get(i).address()))
	}
	return idx, nil, ""
}
