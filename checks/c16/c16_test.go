//go:build verif

package service_test

import (
	"bytes"
	"encoding/json"
	"fmt"
	"math/big"
	"sort"
	"strings"
	"sync"
	"sync/atomic"
	"testing"

	"github.com/icon-project/goloop/chain/base"
	"github.com/icon-project/goloop/common"
	"github.com/icon-project/goloop/common/codec"
	"github.com/icon-project/goloop/common/crypto"
	"github.com/icon-project/goloop/common/db"
	"github.com/icon-project/goloop/common/log"
	"github.com/icon-project/goloop/module"
	"github.com/icon-project/goloop/service"
	"github.com/icon-project/goloop/service/contract"
	"github.com/icon-project/goloop/service/scoreresult"
	"github.com/icon-project/goloop/service/state"
	"github.com/icon-project/goloop/service/trace"
	"github.com/icon-project/goloop/service/txresult"
	"github.com/icon-project/goloop/verifshim/ev"
)

// ---- constants ----------------------------------------------------------------

const (
	c16Default  = int64(100_000)
	c16Input    = int64(200)
	c16CallCost = int64(25_000)
	c16Invoke   = int64(50_000_000)
	c16Score    = "cx00000000000000000000000000000000000c0de5" // the scripted contract
	c16BigLimit = int64(2_000_000)
	c16Key      = "k1"
	c16OldValue = "old"
)

var (
	c16Payer = fixWallet(0xA1) // A: sender and fee payer
	c16Other = fixWallet(0xB2) // B: bystander EOA
	c16God   = fixWallet(0x60)
	c16Price = big.NewInt(1)
	// F+1 / XFERF act on a FRESH EOA (never touched before the transaction),
	// GSET writes storage of a FRESH contract address
	// XFERA: nested real plain TransferHandler frame payer -> hx-alias of the chain
	// SCORE; it debits the payer and then fails (InvalidAddress), so the frame of
	// the REAL handler must be rolled back
	// OG1 / OG0: SetObjGraph on the scripted contract account (which has an active
	// contract and an object graph from the setup block): OG1 stores a new graph
	// (includeGraph=true), OG0 only a new nextHash (includeGraph=false)
	c16Prims       = []string{"A+1", "A:=0", "B+1", "SET", "DEL", "EVT", "BTP", "STEP", "XFER", "F+1", "XFERF", "GSET", "XFERA", "OG1", "OG0", "DEP+", "DEP-"}
	c16PrimsQuick3 = []string{"A:=0", "OG0", "XFERF", "F+1", "XFERA"}
	c16PrimsMid3   = []string{"A:=0", "OG0", "OG1", "SET", "STEP", "XFERF", "F+1", "XFERA"}
	c16PrimsDeep4  = []string{"A:=0", "XFERA", "SET", "OG0", "STEP", "XFERF", "F+1"}
	c16CodeID      = bytes.Repeat([]byte{0xc1}, 32) // deploy tx hash = code id of the scripted contract
	c16Graph0      = []byte("graph0")
	// addresses aliasing an existing account of the other kind (accounts are keyed by the 20-byte body)
	c16HxOfSystem   = common.MustNewAddressFromString("hx0000000000000000000000000000000000000000")
	c16DeployedCx   = common.MustNewAddressFromString("cx00000000000000000000000000000000000d3b10") // made a contract account by the setup block
	c16HxOfDeployed = common.MustNewAddressFromString("hx00000000000000000000000000000000000d3b10")
	c16FreshEOA     = fixWallet(0xF7).Address()
	c16FreshCx      = common.MustNewAddressFromString("cx00000000000000000000000000000000000f4e54")
	c16Terms        = []string{"OK", "REVERT", "OOS", "INVALID", "OOB"}
	c16InData       = int64(len(`{"method":"run"}`))
)

// small step limit: default + input + two contractCall units + a bit; the third
// STEP (or a nested transfer after two STEPs) runs out of steps in place
func c16SmallLimit() int64 { return c16Default + c16Input*c16InData + 2*c16CallCost + 1000 }

// ---- scripts --------------------------------------------------------------------

// c16Script is one frame's program: actions, then a terminator. An action is a
// primitive name or "CALL" (run Nested in a new frame through cc.Call).
type c16Script struct {
	Acts   []string   `json:"acts"`
	Term   string     `json:"term"`
	Nested *c16Script `json:"nested,omitempty"`
}

func (s *c16Script) String() string {
	if s == nil {
		return "-"
	}
	var parts []string
	for _, a := range s.Acts {
		if a == "CALL" {
			parts = append(parts, "CALL{"+s.Nested.String()+"}")
		} else {
			parts = append(parts, a)
		}
	}
	return strings.Join(parts, ",") + ";" + s.Term
}

// c16Variant is a pre-state/transaction variant.
type c16Variant struct {
	Name      string `json:"name"`
	TightPay  bool   `json:"tight_payer"` // payer owns exactly stepLimit*price
	SmallStep bool   `json:"small_step_limit"`
}

const (
	c16ScoreBal = int64(3)
	c16Dep0     = int64(5000) // fee deposit of the scripted contract made by the setup block
	c16DepAdd   = int64(10)
	c16DepSub   = int64(3)
)

// c16DC is the DepositContext used to read deposit information.
type c16DC struct{}

func (c16DC) StepPrice() *big.Int        { return c16Price }
func (c16DC) BlockHeight() int64         { return 2 }
func (c16DC) DepositTerm() int64         { return 0 }
func (c16DC) DepositIssueRate() *big.Int { return big.NewInt(8) }
func (c16DC) TransactionID() []byte      { return nil }

// c16DepositOf lists the deposits of the scripted contract account.
func c16DepositOf(wss state.WorldSnapshot, addr module.Address) string {
	as := wss.GetAccountSnapshot(addr.ID())
	if as == nil {
		return "<no account>"
	}
	m, err := as.GetDepositInfo(c16DC{}, module.JSONVersionLast)
	if err != nil {
		return "<error " + err.Error() + ">"
	}
	if m == nil {
		return "<none>"
	}
	js, _ := json.Marshal(m["deposits"])
	return fmt.Sprintf("available=%v deposits=%s", m["availableDeposit"], js)
}

func c16ExpectedDeposit(eff []c16Effect) string {
	v := c16Dep0
	for _, e := range eff {
		switch e.Kind {
		case "DEP+":
			v += c16DepAdd
		case "DEP-":
			v -= c16DepSub
		}
	}
	return fmt.Sprintf("available=0x%x deposits=[{\"depositRemain\":\"0x%x\"}]", v, v)
}

var c16Variants = []c16Variant{
	{"payer-large,limit-big", false, false},
	{"payer-tight,limit-big", true, false},
	{"payer-large,limit-small", false, true},
	{"payer-tight,limit-small", true, true},
}

func (v *c16Variant) limit() int64 {
	if v.SmallStep {
		return c16SmallLimit()
	}
	return c16BigLimit
}

type c16Case struct {
	Variant int          `json:"variant"`
	Script  *c16Script   `json:"script,omitempty"` // family 1
	Pair    []*c16Script `json:"pair,omitempty"`   // family 3: two scripted transactions in one block
	Block   []txSpec     `json:"block,omitempty"`  // family 2 (real transactions, no scripted handler)
}

// ---- the scripted handler --------------------------------------------------------

// c16Effect is one surviving effect, in program order.
type c16Effect struct {
	Kind string // A+1 A:=0 B+1 SET DEL EVT BTP XFER F+1 XFERF GSET
	Pos  int    // global action counter at which it happened (tags events/messages)
}

// c16Scripter is the per-node switchboard: which script the designated contract
// runs for the next transaction, and what the frames did.
type c16Scripter struct {
	score, payer, other module.Address
	cur                 *c16Script
	flat                bool // cur is a flattened reference script (effects carry explicit tags)
	flatEff             []c16Effect
	setup               *c16Variant
	queue               []*c16Script // family 3: one script per transaction of the block
	qi                  int
	recs                []c16TxRec
	// recording of the last execution
	pos         int
	outerEff    []c16Effect
	outerErr    error
	ran         bool
	nestedFail  int
	nestedOK    int
	xferFail    int
	stepFailed  bool
	harnessErrs []string
}

func (sc *c16Scripter) reset() {
	sc.pos, sc.outerEff, sc.outerErr, sc.ran = 0, nil, nil, false
	sc.qi, sc.recs = 0, nil
	sc.nestedFail, sc.nestedOK, sc.xferFail, sc.stepFailed = 0, 0, 0, false
}

type c16Platform struct {
	base.Platform
	sc *c16Scripter
}

func (p *c16Platform) NewContractManager(dbase db.Database, dir string, logger log.Logger) (contract.ContractManager, error) {
	cm, err := p.Platform.NewContractManager(dbase, dir, logger)
	if err != nil {
		return nil, err
	}
	return &c16CM{ContractManager: cm, sc: p.sc}, nil
}

type c16CM struct {
	contract.ContractManager
	sc *c16Scripter
}

func (m *c16CM) GetHandler(from, to module.Address, value *big.Int, ctype int, data []byte) (contract.ContractHandler, error) {
	if ctype == contract.CTypeCall && to.Equal(m.sc.score) {
		return &c16Handler{sc: m.sc, outer: true, log: trace.LoggerOf(m.Logger())}, nil
	}
	return m.ContractManager.GetHandler(from, to, value, ctype, data)
}

// c16Handler implements contract.SyncContractHandler.
type c16Handler struct {
	sc     *c16Scripter
	outer  bool
	script *c16Script
	log    *trace.Logger
	eff    []c16Effect
}

func (h *c16Handler) Prepare(ctx contract.Context) (state.WorldContext, error) {
	return ctx.GetFuture([]state.LockRequest{{Lock: state.AccountWriteLock, ID: state.WorldIDStr}}), nil
}
func (h *c16Handler) SetTraceLogger(logger *trace.Logger) { h.log = logger }
func (h *c16Handler) TraceLogger() *trace.Logger          { return h.log }

func c16Tag(pos int) []byte { return []byte{byte(pos)} }

func (h *c16Handler) ExecuteSync(cc contract.CallContext) (error, *codec.TypedObj, module.Address) {
	sc := h.sc
	if h.outer {
		sc.ran = true
		if sc.setup != nil {
			return h.runSetup(cc), nil, nil
		}
		if sc.flat {
			return h.runFlat(cc), nil, nil
		}
		h.script = sc.cur
		if sc.queue != nil {
			if sc.qi >= len(sc.queue) {
				sc.harnessErrs = append(sc.harnessErrs, "more scripted transactions than scripts")
				return scoreresult.ErrUnknownFailure, nil, nil
			}
			h.script = sc.queue[sc.qi]
			sc.qi++
		}
	}
	err := h.run(cc)
	if h.outer && sc.queue != nil {
		rec := c16TxRec{}
		if err == nil {
			rec.Eff = h.eff
		} else {
			rec.Err = err.Error()
		}
		sc.recs = append(sc.recs, rec)
	}
	if h.outer {
		sc.outerErr = err
		if err == nil {
			sc.outerEff = h.eff
		}
	}
	return err, nil, nil
}

func (h *c16Handler) runSetup(cc contract.CallContext) error {
	as := cc.GetAccountState(h.sc.score.ID())
	as.SetBalance(big.NewInt(c16ScoreBal))
	if _, err := as.SetValue([]byte(c16Key), []byte(c16OldValue)); err != nil {
		return err
	}
	// make the scripted address a contract account with an ACTIVE contract and an
	// object graph, as a Java SCORE that was called before has
	if !as.InitContractAccount(c16God.Address()) {
		return fmt.Errorf("scripted account already a contract")
	}
	if _, err := as.DeployContract([]byte("verif scripted contract"), state.JavaEE, "application/java", nil, c16CodeID); err != nil {
		return err
	}
	if err := as.AcceptContract(c16CodeID, c16CodeID); err != nil {
		return err
	}
	if err := as.SetObjGraph(c16CodeID, true, 1, c16Graph0); err != nil {
		return err
	}
	// and a fee deposit (term 0 => V2 deposit, identified by the empty id)
	if err := as.AddDeposit(cc, big.NewInt(c16Dep0)); err != nil {
		return err
	}
	// a second contract account (what the deploy handler does first: InitContractAccount)
	if !cc.GetAccountState(c16DeployedCx.ID()).InitContractAccount(c16God.Address()) {
		return fmt.Errorf("contract account already initialised")
	}
	return nil
}

// apply performs one primitive effect with the given tag.
func (h *c16Handler) apply(cc contract.CallContext, kind string, tag int) error {
	sc := h.sc
	switch kind {
	case "A+1":
		as := cc.GetAccountState(sc.payer.ID())
		as.SetBalance(new(big.Int).Add(as.GetBalance(), big.NewInt(1)))
	case "A:=0":
		cc.GetAccountState(sc.payer.ID()).SetBalance(new(big.Int))
	case "B+1":
		as := cc.GetAccountState(sc.other.ID())
		as.SetBalance(new(big.Int).Add(as.GetBalance(), big.NewInt(1)))
	case "SET":
		if _, err := cc.GetAccountState(sc.score.ID()).SetValue([]byte(c16Key), append([]byte("new"), c16Tag(tag)...)); err != nil {
			return err
		}
	case "DEL":
		if _, err := cc.GetAccountState(sc.score.ID()).SetValue([]byte(c16Key), nil); err != nil {
			return err
		}
	case "F+1":
		as := cc.GetAccountState(c16FreshEOA.ID())
		as.SetBalance(new(big.Int).Add(as.GetBalance(), big.NewInt(1)))
	case "GSET":
		if _, err := cc.GetAccountState(c16FreshCx.ID()).SetValue([]byte(c16Key), append([]byte("g"), c16Tag(tag)...)); err != nil {
			return err
		}
	case "OG1":
		if err := cc.GetAccountState(sc.score.ID()).SetObjGraph(c16CodeID, true, 200+tag, append([]byte("graph"), c16Tag(tag)...)); err != nil {
			return err
		}
	case "OG0":
		if err := cc.GetAccountState(sc.score.ID()).SetObjGraph(c16CodeID, false, 100+tag, nil); err != nil {
			return err
		}
	case "DEP+":
		if err := cc.GetAccountState(sc.score.ID()).AddDeposit(cc, big.NewInt(c16DepAdd)); err != nil {
			return err
		}
	case "DEP-":
		if _, _, err := cc.GetAccountState(sc.score.ID()).WithdrawDeposit(cc, []byte{}, big.NewInt(c16DepSub)); err != nil {
			return err
		}
	case "EVT":
		cc.OnEvent(sc.score, [][]byte{[]byte("Ev(int)"), c16Tag(tag)}, [][]byte{{2}})
	case "BTP":
		cc.OnBTPMessage(1, append([]byte("msg"), c16Tag(tag)...))
	default:
		return fmt.Errorf("unknown effect %s", kind)
	}
	return nil
}

// xfer runs a nested *real* transfer handler (contract.TransferHandler obtained
// from the real contract manager) payer -> other in its own frame.
func (h *c16Handler) xfer(cc contract.CallContext, to module.Address, value *big.Int) error {
	sc := h.sc
	th, err := cc.ContractManager().GetCallHandler(sc.payer, to, value, contract.CTypeTransfer, nil)
	if err != nil {
		sc.harnessErrs = append(sc.harnessErrs, "GetCallHandler: "+err.Error())
		return err
	}
	st, used, _, _ := cc.Call(th, cc.StepAvailable())
	cc.DeductSteps(used)
	return st
}

func (h *c16Handler) run(cc contract.CallContext) error {
	sc := h.sc
	for _, a := range h.script.Acts {
		pos := sc.pos
		sc.pos++
		switch a {
		case "STEP":
			if !cc.ApplySteps(state.StepTypeContractCall, 1) {
				sc.stepFailed = true
				return scoreresult.ErrOutOfStep
			}
		case "XFER", "XFERF", "XFERA":
			to := sc.other
			if a == "XFERF" {
				to = c16FreshEOA
			} else if a == "XFERA" {
				to = c16HxOfSystem
			}
			if st := h.xfer(cc, to, big.NewInt(1)); st == nil {
				if a == "XFERA" {
					sc.harnessErrs = append(sc.harnessErrs, "transfer to the hx alias of the chain SCORE succeeded")
				}
				h.eff = append(h.eff, c16Effect{a, pos})
			} else {
				sc.xferFail++
			}
		case "CALL":
			nh := &c16Handler{sc: sc, script: h.script.Nested, log: h.log}
			st, used, _, _ := cc.Call(nh, cc.StepAvailable())
			cc.DeductSteps(used)
			if st == nil {
				sc.nestedOK++
				h.eff = append(h.eff, nh.eff...)
			} else {
				sc.nestedFail++
			}
		default:
			if err := h.apply(cc, a, pos); err != nil {
				sc.harnessErrs = append(sc.harnessErrs, err.Error())
				return err
			}
			h.eff = append(h.eff, c16Effect{a, pos})
		}
	}
	switch h.script.Term {
	case "OK":
		return nil
	case "REVERT":
		return scoreresult.New(module.StatusReverted, "scripted revert")
	case "OOS":
		avail := cc.StepAvailable()
		cc.DeductSteps(new(big.Int).Add(avail, big.NewInt(1)))
		return scoreresult.ErrOutOfStep
	case "INVALID":
		return scoreresult.InvalidParameterError.New("scripted invalid parameter")
	case "OOB":
		huge := new(big.Int).Lsh(big.NewInt(1), 120)
		if st := h.xfer(cc, sc.other, huge); st != nil {
			return st
		}
		sc.harnessErrs = append(sc.harnessErrs, "huge nested transfer succeeded")
		return scoreresult.ErrOutOfBalance
	}
	sc.harnessErrs = append(sc.harnessErrs, "unknown terminator "+h.script.Term)
	return scoreresult.ErrUnknownFailure
}

// runFlat replays a list of surviving effects straight-line in one frame.
func (h *c16Handler) runFlat(cc contract.CallContext) error {
	sc := h.sc
	for _, e := range sc.flatEff {
		if e.Kind == "XFER" || e.Kind == "XFERF" {
			to := sc.other
			if e.Kind == "XFERF" {
				to = c16FreshEOA
			}
			if st := h.xfer(cc, to, big.NewInt(1)); st != nil {
				sc.harnessErrs = append(sc.harnessErrs, "reference transfer failed: "+st.Error())
				return st
			}
			continue
		}
		if err := h.apply(cc, e.Kind, e.Pos); err != nil {
			sc.harnessErrs = append(sc.harnessErrs, err.Error())
			return err
		}
	}
	return nil
}

// ---- observation ---------------------------------------------------------------

type c16Obs struct {
	Status     int
	Used       string
	Price      string
	Logs       []string
	Msgs       []string
	Bloom      string
	BTPData    string
	NormHash   string // state hash with payer and treasury balances zeroed
	PayerBal   string
	TreasBal   string
	OtherBal   string
	Dep        string // deposit list of the scripted contract (live)
	DepStored  string // same, re-read from the flushed snapshot ("" = not re-opened)
	OG         string // object graph of the scripted contract, live: next/graphHash/data
	OGStored   string // same, from the state re-opened from the flushed snapshot ("" = not re-opened for this case)
	FreshBal   string // balance of the fresh EOA ("<absent>" if the account does not exist)
	FreshCxBal string
	FreshCxVal string // storage value of the fresh contract address
	ScoreBal   string
	ScoreVal   string
	OuterErr   string
	Effects    []c16Effect
	Ran        bool
	NestFail   int
	NestOK     int
	XferFail   int
	StepFail   bool
}

type c16Ctx struct {
	fn      *fixNode
	sc      *c16Scripter
	mk      *txMaker
	parents [4]module.Transition
	pre     [4]*c16Obs // observation of the pre-state itself (balances)
	refs    [4]map[string]*c16Obs
	realRef [4]*c16RealObs
	reopen  bool // next exec also flushes and re-opens the post-state
	treas   module.Address
}

func effKey(eff []c16Effect) string {
	var b strings.Builder
	for _, e := range eff {
		fmt.Fprintf(&b, "%s@%d,", e.Kind, e.Pos)
	}
	return b.String()
}

func c16NewCtx() (*c16Ctx, error) {
	sc := &c16Scripter{score: common.MustNewAddressFromString(c16Score), payer: c16Payer.Address(), other: c16Other.Address()}
	god := new(big.Int).Lsh(big.NewInt(1), 100)
	fn, err := newFixNode(&fixChainCfg{StepPrice: c16Price, Revision: 9, Default: c16Default, Input: c16Input, CallCost: c16CallCost,
		InvokeLimit: c16Invoke, GodBalance: god, God: c16God.Address(), OpenBTP: true},
		func(p base.Platform) base.Platform { return &c16Platform{Platform: p, sc: sc} })
	if err != nil {
		return nil, err
	}
	c := &c16Ctx{fn: fn, sc: sc, mk: &txMaker{wallets: []module.Wallet{c16Payer, c16Other, c16God}},
		treas: common.MustNewAddressFromString(fixTreasuryAddr)}
	for vi := range c16Variants {
		v := &c16Variants[vi]
		init, err := fn.node.SM.CreateInitialTransition(fn.result, fn.vl)
		if err != nil {
			return nil, err
		}
		pay := new(big.Int).Lsh(big.NewInt(1), 70)
		if v.TightPay {
			pay = new(big.Int).Mul(big.NewInt(v.limit()), c16Price)
		}
		ps := pay.String()
		seven := "7"
		txs := []module.Transaction{
			c.mk.make(txSpec{From: 2, To: c16Payer.Address().String(), Value: &ps, Limit: c16Default, Nonce: 1000}),
			c.mk.make(txSpec{From: 2, To: c16Other.Address().String(), Value: &seven, Limit: c16Default, Nonce: 1001}),
			c.mk.make(txSpec{From: 2, To: c16Score, Limit: c16BigLimit, Call: "setup", Nonce: 1002}),
		}
		sc.reset()
		sc.setup = v
		tr, err := fn.runBlockAt(init, txs, true, 3)
		sc.setup = nil
		if err != nil {
			return nil, err
		}
		for i := range txs {
			rct, err := tr.NormalReceipts().Get(i)
			if err != nil || rct.Status() != module.StatusSuccess {
				return nil, fmt.Errorf("setup transaction %d failed", i)
			}
		}
		c.parents[vi] = tr
		wss := service.VerifWorldSnapshot(tr)
		c.pre[vi] = &c16Obs{}
		c.fillState(c.pre[vi], wss)
		if c.pre[vi].Dep != c16ExpectedDeposit(nil) {
			return nil, fmt.Errorf("deposit not installed: %s want %s", c.pre[vi].Dep, c16ExpectedDeposit(nil))
		}
		if c.pre[vi].OG != c16ExpectedOG(nil) {
			return nil, fmt.Errorf("object graph not installed: %s", c.pre[vi].OG)
		}
		if c.pre[vi].FreshBal != "<absent>" || c.pre[vi].FreshCxBal != "<absent>" {
			return nil, fmt.Errorf("fresh accounts exist in the pre-state: %+v", *c.pre[vi])
		}
		if c.pre[vi].PayerBal != ps || c.pre[vi].ScoreBal != fmt.Sprint(c16ScoreBal) || c.pre[vi].ScoreVal != c16OldValue || c.pre[vi].OtherBal != "7" {
			return nil, fmt.Errorf("pre-state not installed: %+v", *c.pre[vi])
		}
		c.refs[vi] = map[string]*c16Obs{}
	}
	return c, nil
}

func (c *c16Ctx) fillState(o *c16Obs, wss state.WorldSnapshot) {
	o.PayerBal = balanceOf(wss, c.sc.payer).String()
	o.TreasBal = balanceOf(wss, c.treas).String()
	o.OtherBal = balanceOf(wss, c.sc.other).String()
	o.ScoreBal = balanceOf(wss, c.sc.score).String()
	o.OG = c16ObjGraphOf(wss, c.sc.score)
	o.Dep = c16DepositOf(wss, c.sc.score)
	o.FreshBal = "<absent>"
	if as := wss.GetAccountSnapshot(c16FreshEOA.ID()); as != nil {
		o.FreshBal = as.GetBalance().String()
	}
	o.FreshCxBal, o.FreshCxVal = "<absent>", "<absent>"
	if as := wss.GetAccountSnapshot(c16FreshCx.ID()); as != nil {
		o.FreshCxBal = as.GetBalance().String()
		if v, err := as.GetValue([]byte(c16Key)); err == nil && v != nil {
			o.FreshCxVal = string(v)
		}
	}
	o.ScoreVal = "<absent>"
	if as := wss.GetAccountSnapshot(c.sc.score.ID()); as != nil {
		if v, err := as.GetValue([]byte(c16Key)); err == nil && v != nil {
			o.ScoreVal = string(v)
		}
	}
}

// c16ObjGraphOf reads the object graph of the scripted contract: (nextHash,
// graphHash) with flags=false and the data with flags=true.
func c16ObjGraphOf(wss state.WorldSnapshot, addr module.Address) string {
	as := wss.GetAccountSnapshot(addr.ID())
	if as == nil {
		return "<no account>"
	}
	n, h, _, err := as.GetObjGraph(c16CodeID, false)
	if err != nil {
		return "<none:" + err.Error() + ">"
	}
	n2, h2, d, err := as.GetObjGraph(c16CodeID, true)
	if err != nil || n2 != n || !bytes.Equal(h, h2) {
		return fmt.Sprintf("<inconsistent next=%d/%d hash=%x/%x err=%v>", n, n2, h, h2, err)
	}
	return fmt.Sprintf("next=%d hash=%x data=%q", n, h, d)
}

func c16ExpectedOG(eff []c16Effect) string {
	n, data := 1, c16Graph0
	for _, e := range eff {
		switch e.Kind {
		case "OG1":
			n, data = 200+e.Pos, append([]byte("graph"), c16Tag(e.Pos)...)
		case "OG0":
			n = 100 + e.Pos
		}
	}
	return fmt.Sprintf("next=%d hash=%x data=%q", n, crypto.SHA3Sum256(data), data)
}

func (c *c16Ctx) normHash(wss state.WorldSnapshot) (string, error) {
	ws, err := state.WorldStateFromSnapshot(wss)
	if err != nil {
		return "", err
	}
	ws.GetAccountState(c.sc.payer.ID()).SetBalance(new(big.Int))
	ws.GetAccountState(c.treas.ID()).SetBalance(new(big.Int))
	return hexs(ws.GetSnapshot().StateHash()), nil
}

// exec runs one block [tx] with the scripter set up by the caller.
func (c *c16Ctx) exec(vi int, limit int64) (*c16Obs, error) {
	tx := c.mk.make(txSpec{From: 0, To: c16Score, Limit: limit, Call: "run", Nonce: 0})
	c.sc.reset()
	tr, err := c.fn.runBlock(c.parents[vi], []module.Transaction{tx}, true)
	if err != nil {
		return nil, err
	}
	if len(c.sc.harnessErrs) > 0 {
		return nil, fmt.Errorf("harness: %v", c.sc.harnessErrs)
	}
	wss := service.VerifWorldSnapshot(tr)
	if wss == nil {
		return nil, fmt.Errorf("no snapshot")
	}
	rct, err := tr.NormalReceipts().Get(0)
	if err != nil {
		return nil, err
	}
	o := &c16Obs{Status: int(rct.Status()), Used: rct.StepUsed().String(), Price: rct.StepPrice().String()}
	for it := rct.EventLogIterator(); it.Has(); it.Next() {
		el, err := it.Get()
		if err != nil {
			return nil, err
		}
		o.Logs = append(o.Logs, fmt.Sprintf("%s %x %x", el.Address(), el.Indexed(), el.Data()))
	}
	if l := rct.BTPMessages(); l != nil {
		for e := l.Front(); e != nil; e = e.Next() {
			o.Msgs = append(o.Msgs, fmt.Sprintf("%+v", e.Value))
		}
	}
	o.Bloom = hexs(rct.LogsBloom().Bytes())
	var res fixResult
	if _, err := codec.BC.UnmarshalFromBytes(tr.Result(), &res); err != nil {
		return nil, err
	}
	o.BTPData = hexs(res.BTPData)
	if o.NormHash, err = c.normHash(wss); err != nil {
		return nil, err
	}
	c.fillState(o, wss)
	if c.reopen {
		// flush the post-state and read the object graph back from a world
		// re-opened from the database (what a restarted node would see)
		if err := wss.Flush(); err != nil {
			return nil, err
		}
		stored, err := service.NewWorldSnapshot(c.fn.node.Chain.Database(), c.fn.plt, tr.Result(), tr.NextValidators())
		if err != nil {
			return nil, err
		}
		o.OGStored = c16ObjGraphOf(stored, c.sc.score)
		o.DepStored = c16DepositOf(stored, c.sc.score)
	}
	sc := c.sc
	o.Ran, o.Effects, o.NestFail, o.NestOK, o.XferFail, o.StepFail = sc.ran, sc.outerEff, sc.nestedFail, sc.nestedOK, sc.xferFail, sc.stepFailed
	if sc.outerErr != nil {
		o.OuterErr = sc.outerErr.Error()
	}
	return o, nil
}

// reference returns the observation of the block whose transaction performs
// exactly the given effects in a single frame and succeeds.
func (c *c16Ctx) reference(vi int, eff []c16Effect) (*c16Obs, error) {
	k := effKey(eff)
	if o, ok := c.refs[vi][k]; ok {
		return o, nil
	}
	c.sc.flat, c.sc.flatEff, c.sc.cur = true, eff, nil
	// same step limit as the case: the surviving effects are a subset of what
	// the case executed within that limit, so they fit
	o, err := c.exec(vi, c16Variants[vi].limit())
	c.sc.flat, c.sc.flatEff = false, nil
	if err != nil {
		return nil, err
	}
	if module.Status(o.Status) != module.StatusSuccess {
		return nil, fmt.Errorf("reference transaction failed (status %d) for effects %s", o.Status, k)
	}
	c.refs[vi][k] = o
	return o, nil
}

func scriptLen(s *c16Script) int {
	if s == nil {
		return 0
	}
	n := scriptLen(s.Nested)
	for _, a := range s.Acts {
		if a != "CALL" {
			n++
		}
	}
	return n
}

func (c *c16Ctx) run(cs *c16Case) (*c16Obs, error) {
	c.sc.cur, c.sc.flat = cs.Script, false
	// scripts that touch the object graph and have <= 2 actions are also read
	// back from the flushed snapshot (bounded so that the database stays small)
	c.reopen = scriptLen(cs.Script) <= 2 && (scriptHas(cs.Script, "OG0") || scriptHas(cs.Script, "OG1") || scriptHas(cs.Script, "DEP+") || scriptHas(cs.Script, "DEP-"))
	defer func() { c.reopen = false }()
	return c.exec(cs.Variant, c16Variants[cs.Variant].limit())
}

// ---- oracle -----------------------------------------------------------------------

type c16Env struct {
	r         *ev.Run
	classes   sync.Map
	twice     int64
	realCases int64
	pairCases int64
}

func (e *c16Env) count(k string) {
	v, _ := e.classes.LoadOrStore(k, new(int64))
	atomic.AddInt64(v.(*int64), 1)
}

var c16EmptyBloom = hexs(txresult.NewLogsBloom(nil).Bytes())

func hasKind(eff []c16Effect, kind string) bool {
	for _, e := range eff {
		if e.Kind == kind {
			return true
		}
	}
	return false
}

func scriptHas(s *c16Script, act string) bool {
	if s == nil {
		return false
	}
	for _, a := range s.Acts {
		if a == act {
			return true
		}
	}
	return scriptHas(s.Nested, act)
}

func (e *c16Env) check(c *c16Ctx, cs *c16Case, o *c16Obs) {
	vi := cs.Variant
	pre := c.pre[vi]
	fail := func(sig, detail string) {
		e.r.Violation(sig, fmt.Sprintf("%s\nvariant=%s script=%s\nobserved=%+v", detail, c16Variants[vi].Name, cs.Script, *o), cs)
	}
	st := module.Status(o.Status)
	used, price := bigOf(o.Used), bigOf(o.Price)
	fee := new(big.Int).Mul(used, price)
	failed := st != module.StatusSuccess

	var ref *c16Obs
	var err error
	var surviving []c16Effect
	if failed {
		ref, err = c.reference(vi, nil)
	} else {
		surviving = o.Effects
		ref, err = c.reference(vi, surviving)
	}
	if err != nil {
		e.r.Sanity(false, "reference run: %v (script=%s)", err, cs.Script)
		return
	}
	kind := "failed-tx"
	if !failed {
		kind = "successful-tx"
	}

	// (1) receipt of a failed transaction carries no logs / messages / bloom bits
	if failed {
		if len(o.Logs) != 0 {
			fail("failed-tx-has-event-logs", fmt.Sprintf("%d event logs in the receipt of a failed transaction (status %d)", len(o.Logs), st))
		}
		if len(o.Msgs) != 0 {
			fail("failed-tx-has-btp-messages", fmt.Sprintf("%d BTP messages in the receipt of a failed transaction (status %d)", len(o.Msgs), st))
		}
		if o.Bloom != c16EmptyBloom {
			fail("failed-tx-has-logs-bloom", "logs bloom of a failed transaction is not empty")
		}
	} else {
		// successful: exactly the logs / messages of the surviving frames, in order
		if strings.Join(o.Logs, "|") != strings.Join(ref.Logs, "|") {
			fail("successful-tx-event-logs-differ-from-surviving-frames", fmt.Sprintf("logs=%v reference=%v", o.Logs, ref.Logs))
		}
		if strings.Join(o.Msgs, "|") != strings.Join(ref.Msgs, "|") {
			fail("successful-tx-btp-messages-differ-from-surviving-frames", fmt.Sprintf("msgs=%v reference=%v", o.Msgs, ref.Msgs))
		}
		if o.Bloom != ref.Bloom {
			fail("successful-tx-logs-bloom-differs-from-surviving-frames", "")
		}
		nEvt, nMsg := 0, 0
		for _, f := range surviving {
			switch f.Kind {
			case "EVT":
				nEvt++
			case "BTP":
				nMsg++
			}
		}
		if len(o.Logs) != nEvt || len(o.Msgs) != nMsg {
			fail("successful-tx-log-or-message-count", fmt.Sprintf("logs=%d want %d, msgs=%d want %d", len(o.Logs), nEvt, len(o.Msgs), nMsg))
		}
	}
	// (2) world state: equal to the reference world except payer/treasury balances
	if o.NormHash != ref.NormHash {
		what := "state"
		switch {
		case o.ScoreVal != ref.ScoreVal:
			what = "contract-storage"
		case o.ScoreBal != ref.ScoreBal:
			what = "contract-balance"
		case o.OtherBal != ref.OtherBal:
			what = "bystander-balance"
		case o.FreshBal != ref.FreshBal:
			what = "fresh-account-balance"
		case o.FreshCxVal != ref.FreshCxVal || o.FreshCxBal != ref.FreshCxBal:
			what = "fresh-account-storage"
		}
		fail(kind+"-leaves-"+what+"-of-rolled-back-frame", fmt.Sprintf("normalised state hash %s, reference (surviving effects only) %s; storage=%q/%q scoreBal=%s/%s otherBal=%s/%s freshEOA=%s/%s freshCx=%s,%q/%s,%q",
			o.NormHash, ref.NormHash, o.ScoreVal, ref.ScoreVal, o.ScoreBal, ref.ScoreBal, o.OtherBal, ref.OtherBal, o.FreshBal, ref.FreshBal, o.FreshCxBal, o.FreshCxVal, ref.FreshCxBal, ref.FreshCxVal))
	}
	// object graph of the contract: the pre-state's for a failed transaction,
	// the last surviving SetObjGraph otherwise (explicit, not via the reference)
	if want := c16ExpectedOG(surviving); o.OG != want {
		fail(kind+"-object-graph-differs-from-surviving-frames", fmt.Sprintf("object graph after the transaction: %s\nexpected (pre-state + surviving SetObjGraph calls): %s\nsingle-frame reference: %s", o.OG, want, ref.OG))
	} else if o.OGStored != "" && o.OGStored != want {
		fail(kind+"-stored-object-graph-differs-from-surviving-frames", fmt.Sprintf("object graph re-read from the flushed snapshot: %s\nlive: %s expected: %s", o.OGStored, o.OG, want))
	}
	if o.OGStored != "" {
		e.count("object-graph-reread-from-flushed-snapshot")
	}
	// fee deposit of the contract: pre-state's after a failure, else the surviving deposit operations
	if want := c16ExpectedDeposit(surviving); o.Dep != want {
		fail(kind+"-deposit-differs-from-surviving-frames", fmt.Sprintf("deposits after the transaction: %s\nexpected: %s", o.Dep, want))
	} else if o.DepStored != "" && o.DepStored != want {
		fail(kind+"-stored-deposit-differs-from-surviving-frames", fmt.Sprintf("deposits re-read from the flushed snapshot: %s expected %s", o.DepStored, want))
	}
	if scriptHas(cs.Script, "DEP+") || scriptHas(cs.Script, "DEP-") {
		switch {
		case failed:
			e.count("deposit-changed-then-tx-failed")
		case hasKind(surviving, "DEP+") || hasKind(surviving, "DEP-"):
			e.count("deposit-change-survived")
		default:
			e.count("deposit-changed-in-rolled-back-frame-of-successful-tx")
		}
	}
	if o.BTPData != ref.BTPData {
		fail(kind+"-btp-digest-differs", fmt.Sprintf("btp digest %s reference %s", o.BTPData, ref.BTPData))
	}
	// (3) payer pays exactly the fee (plus its surviving scripted +1s), treasury gets the fee
	wantPayer := new(big.Int).Sub(bigOf(pre.PayerBal), fee)
	for _, f := range surviving {
		switch f.Kind {
		case "A+1":
			wantPayer.Add(wantPayer, big.NewInt(1))
		case "XFER", "XFERF":
			wantPayer.Sub(wantPayer, big.NewInt(1))
		}
	}
	if bigOf(o.PayerBal).Cmp(wantPayer) != 0 {
		fail(kind+"-payer-balance", fmt.Sprintf("payer pre=%s post=%s fee=%s want=%s", pre.PayerBal, o.PayerBal, fee, wantPayer))
	}
	if want := new(big.Int).Add(bigOf(pre.TreasBal), fee); bigOf(o.TreasBal).Cmp(want) != 0 {
		fail(kind+"-treasury-balance", fmt.Sprintf("treasury pre=%s post=%s fee=%s", pre.TreasBal, o.TreasBal, fee))
	}
	if !failed {
		nf := 0
		for _, f := range surviving {
			if f.Kind == "F+1" || f.Kind == "XFERF" {
				nf++
			}
		}
		want := "<absent>"
		if nf > 0 {
			want = fmt.Sprint(nf)
		}
		if o.FreshBal != want {
			fail("successful-tx-fresh-account-balance", fmt.Sprintf("fresh EOA balance %s, surviving credits %d", o.FreshBal, nf))
		}
	}
	if used.Cmp(big.NewInt(c16Variants[vi].limit())) > 0 || used.Cmp(big.NewInt(c16Default)) < 0 {
		fail("stepUsed-out-of-range", fmt.Sprintf("used=%s", used))
	}
	// (4) agreement of the receipt with what the scripted frames returned
	if !o.Ran {
		e.r.Sanity(false, "scripted handler did not run: %s", cs.Script)
	}
	if o.OuterErr != "" && !failed {
		fail("handler-returned-error-but-receipt-success", o.OuterErr)
	}
	if o.OuterErr == "" && failed {
		// legitimate only when the script's surviving effects left the payer
		// unable to pay the fee (rollback-on-out-of-balance branch)
		left := bigOf(pre.PayerBal)
		for _, f := range o.Effects {
			switch f.Kind {
			case "A+1":
				left.Add(left, big.NewInt(1))
			case "A:=0":
				left.SetInt64(0)
			case "XFER", "XFERF":
				left.Sub(left, big.NewInt(1))
			}
		}
		if st != module.StatusOutOfBalance || left.Cmp(fee) >= 0 {
			fail("handler-succeeded-but-receipt-failed", fmt.Sprintf("status=%d payer-after-script=%s fee=%s", st, left, fee))
		} else {
			e.count("fee-rollback-after-successful-script")
		}
	}
	// explicit values (independent of the reference run) for a failed transaction
	if failed {
		if o.ScoreVal != pre.ScoreVal || o.ScoreBal != pre.ScoreBal || o.OtherBal != pre.OtherBal {
			fail("failed-tx-changed-observed-values", fmt.Sprintf("storage %q->%q scoreBal %s->%s otherBal %s->%s", pre.ScoreVal, o.ScoreVal, pre.ScoreBal, o.ScoreBal, pre.OtherBal, o.OtherBal))
		}
		if o.FreshBal != "<absent>" || o.FreshCxBal != "<absent>" || o.FreshCxVal != "<absent>" {
			fail("failed-tx-created-fresh-account", fmt.Sprintf("fresh EOA balance=%s, fresh contract address balance=%s storage=%q (both must stay absent)", o.FreshBal, o.FreshCxBal, o.FreshCxVal))
		}
	}
	// vacuity classes
	if failed {
		e.count(fmt.Sprintf("failed:status-%d", st))
	} else {
		e.count("success")
	}
	if o.NestFail > 0 && !failed {
		e.count("nested-failed-outer-succeeded")
	}
	if o.NestOK > 0 && failed {
		e.count("nested-succeeded-outer-failed")
	}
	if o.XferFail > 0 {
		e.count("nested-real-transfer-failed")
	}
	if scriptHas(cs.Script, "OG0") || scriptHas(cs.Script, "OG1") {
		switch {
		case failed:
			e.count("object-graph-set-then-tx-failed")
		case hasKind(surviving, "OG0") || hasKind(surviving, "OG1"):
			e.count("object-graph-change-survived")
		default:
			e.count("object-graph-set-in-rolled-back-frame-of-successful-tx")
		}
	}
	if scriptHas(cs.Script, "XFERA") {
		if failed {
			e.count("real-transfer-frame-failed-after-debit,tx-failed")
		} else {
			e.count("real-transfer-frame-failed-after-debit,tx-succeeded")
		}
	}
	if !failed && (hasKind(surviving, "XFER") || hasKind(surviving, "XFERF")) {
		e.count("nested-real-transfer-succeeded")
	}
	if scriptHas(cs.Script, "F+1") || scriptHas(cs.Script, "XFERF") || scriptHas(cs.Script, "GSET") {
		if failed {
			e.count("fresh-account-touched-then-tx-failed")
		} else if hasKind(surviving, "F+1") || hasKind(surviving, "XFERF") || hasKind(surviving, "GSET") {
			e.count("fresh-account-effect-survived")
		} else {
			e.count("fresh-account-touched-in-rolled-back-frame-of-successful-tx")
		}
	}
	if o.StepFail {
		e.count("ran-out-of-steps-in-place")
	}
}

func (o *c16Obs) same(p *c16Obs) bool { return fmt.Sprintf("%+v", *o) == fmt.Sprintf("%+v", *p) }

// ---- enumeration ------------------------------------------------------------------

// c16Shape: total number of primitive actions t split as a before the nested
// call, m inside it, b after it (or no nested call), and the terminators.
type c16Shape struct {
	t, a, m, b int
	call       bool
	nterm      string
	oterm      string
}

func c16Shapes(maxT int) []c16Shape {
	var out []c16Shape
	for t := 0; t <= maxT; t++ {
		for _, ot := range c16Terms {
			out = append(out, c16Shape{t: t, a: t, oterm: ot})
			for a := 0; a <= t; a++ {
				for m := 0; a+m <= t; m++ {
					for _, nt := range c16Terms {
						out = append(out, c16Shape{t: t, a: a, m: m, b: t - a - m, call: true, nterm: nt, oterm: ot})
					}
				}
			}
		}
	}
	return out
}

func (sh *c16Shape) build(prims []int, alphabet []string) *c16Script {
	name := func(ix []int) []string {
		var o []string
		for _, i := range ix {
			o = append(o, alphabet[i])
		}
		return o
	}
	if !sh.call {
		return &c16Script{Acts: name(prims), Term: sh.oterm}
	}
	acts := name(prims[:sh.a])
	acts = append(acts, "CALL")
	acts = append(acts, name(prims[sh.a+sh.m:])...)
	return &c16Script{Acts: acts, Term: sh.oterm, Nested: &c16Script{Acts: name(prims[sh.a : sh.a+sh.m]), Term: sh.nterm}}
}

func TestVerifC16(t *testing.T) {
	r := ev.Start(t, "C16", "exploration")
	maxT := r.Pick(3, 4)
	r.Rule(fmt.Sprintf("family 1 (scripted): all scripts with <= %d primitive actions in total from {A+1,A:=0,B+1,SET,DEL,EVT,BTP,STEP,XFER(nested real TransferHandler frame payer->existing B),F+1(direct credit of a FRESH EOA),XFERF(nested real transfer payer->the FRESH EOA),GSET(storage write on a FRESH contract address),XFERA(nested real plain TransferHandler frame payer->hx alias of the chain SCORE: debits, then fails InvalidAddress),OG1(SetObjGraph with a new graph on the scripted contract account),OG0(SetObjGraph with includeGraph=false: only a new nextHash),DEP+(AddDeposit 10 to the fee deposit the contract got in the setup block),DEP-(partial WithdrawDeposit 3)} laid out as outer-before / one optional nested cc.Call frame / outer-after (every split), nested and outer terminator each from {OK,REVERT(32),OOS,INVALID,OOB}, on 4 variants {payer balance = stepLimit*price | large} x {step limit large | small}; total = 4 (thorough only) on the two opposite variants over {A:=0,XFERA,SET,OG0,STEP,XFERF,F+1}; thorough total = 3: all 15 primitives on the two opposite variants, {A:=0,OG0,OG1,SET,STEP,XFERF,F+1,XFERA} on the other two; quick: total <= 1 on all variants, total = 2 on the two opposite variants, total = 3 on the first variant over {A:=0,OG0,XFERF,F+1,XFERA}. Family 2 (no scripted handler): real v3 transactions through the real handlers that fail after a partial effect, see real_tx_family in coverage. A case = (variant, script) or (variant, block); every case is executed by a real transition", maxT))
	r.Assume("the designated contract address runs a scripted contract.SyncContractHandler installed through a ContractManager wrapper (FixtureConfig.NewPlatform); everything else is real",
		"reference for the expected world: the same machinery executing, in ONE frame, exactly the effects of the frames that returned success (metamorphic); payer/treasury balances are compared explicitly and zeroed before hashing",
		"which frames failed is known to the harness because its own handler returns the errors; step accounting, frame snapshot/reset, receipts are goloop's",
		"basic platform, revision 9, step price 1, BTP network #1 open, no fee sharing")
	env := &c16Env{r: r}

	if ev.Replaying() {
		var cs c16Case
		ev.ReplayCase(&cs)
		c, err := c16NewCtx()
		if err != nil {
			t.Fatalf("ctx: %v", err)
		}
		defer c.fn.Close()
		if len(cs.Pair) > 0 {
			r.Eval(1)
			if o, err := c.execPair(cs.Variant, cs.Pair); err != nil {
				r.Violation("transition-failed", err.Error(), &cs)
			} else {
				env.checkPair(c, &cs, o)
			}
			r.Finish(false)
			return
		}
		if cs.Script == nil {
			u := c.realUniverse()
			ref, err := c.execReal(u, cs.Variant, nil)
			if err != nil {
				t.Fatalf("reference: %v", err)
			}
			r.Eval(1)
			if o, err := c.execReal(u, cs.Variant, cs.Block); err != nil {
				r.Violation("transition-failed", err.Error(), &cs)
			} else {
				env.checkReal(c, u, &cs, ref, o)
			}
			r.Finish(false)
			return
		}
		r.Eval(1)
		o, err := c.run(&cs)
		if err != nil {
			r.Violation("transition-failed", err.Error(), &cs)
		} else {
			env.check(c, &cs, o)
		}
		r.Finish(false)
		return
	}

	type chunk struct {
		vi   int
		sh   c16Shape
		real bool
		pair bool
		i1   int
	}
	var chunks []chunk
	// family 2 first (cheap): variants 0 (payer large) and 1 (payer owns exactly 2M)
	nReal, _ := c16RealTxs(0)
	for vi := 0; vi < 2; vi++ {
		for i1 := range nReal {
			chunks = append(chunks, chunk{vi: vi, real: true, i1: i1})
		}
	}
	// family 3: all ordered pairs of the pair scripts; variant 0 (thorough: also variant 2).
	// Only payer-large variants: a tight payer cannot afford two transactions.
	for _, vi := range []int{0, 2} {
		if vi == 2 && r.Quick() {
			continue
		}
		for i1 := range c16PairScripts() {
			chunks = append(chunks, chunk{vi: vi, pair: true, i1: i1})
		}
	}
	for _, sh := range c16Shapes(maxT) {
		for vi := range c16Variants {
			if r.Quick() && ((sh.t == 3 && vi != 0) || (sh.t == 2 && vi != 0 && vi != 3)) {
				continue
			}
			if sh.t == 4 && vi != 0 && vi != 3 {
				continue // thorough: total = 4 on the two opposite variants only
			}
			chunks = append(chunks, chunk{vi: vi, sh: sh})
		}
	}
	// short scripts first: a capped run has then seen every outcome class and all of total <= 3
	sort.SliceStable(chunks, func(i, j int) bool { return chunks[i].sh.t < chunks[j].sh.t })

	pool := make(chan *c16Ctx, 64)
	var made []*c16Ctx
	var mu sync.Mutex
	getCtx := func() (*c16Ctx, error) {
		select {
		case c := <-pool:
			return c, nil
		default:
		}
		c, err := c16NewCtx()
		if err == nil {
			mu.Lock()
			made = append(made, c)
			mu.Unlock()
		}
		return c, err
	}
	var expired int32
	var done int64
	var samples sync.Map
	ev.Par(len(chunks), 16, func(ci int) {
		if atomic.LoadInt32(&expired) != 0 {
			return
		}
		c, err := getCtx()
		if err != nil {
			r.Sanity(false, "node: %v", err)
			return
		}
		defer func() { pool <- c }()
		ch := chunks[ci]
		if ch.pair {
			env.runPairChunk(c, ch.vi, ch.i1, func() bool {
				if atomic.LoadInt32(&expired) != 0 || r.Expired() {
					atomic.StoreInt32(&expired, 1)
					return true
				}
				return false
			})
			atomic.AddInt64(&done, 1)
			return
		}
		if ch.real {
			env.runRealChunk(c, ch.vi, ch.i1, r.Thorough(), func() bool {
				if atomic.LoadInt32(&expired) != 0 || r.Expired() {
					atomic.StoreInt32(&expired, 1)
					return true
				}
				return false
			})
			atomic.AddInt64(&done, 1)
			return
		}
		alphabet := c16Prims
		if r.Quick() && ch.sh.t == 3 {
			alphabet = c16PrimsQuick3
		}
		if r.Thorough() && ch.sh.t == 3 && ch.vi != 0 && ch.vi != 3 {
			alphabet = c16PrimsMid3
		}
		if ch.sh.t == 4 {
			alphabet = c16PrimsDeep4
		}
		dims := make([]int, ch.sh.t)
		for i := range dims {
			dims[i] = len(alphabet)
		}
		idx := make([]int, ch.sh.t)
		n := 0
		for {
			if n&31 == 0 && (atomic.LoadInt32(&expired) != 0 || r.Expired()) {
				atomic.StoreInt32(&expired, 1)
				return
			}
			cs := &c16Case{Variant: ch.vi, Script: ch.sh.build(idx, alphabet)}
			r.Eval(1)
			o, err := c.run(cs)
			if err != nil {
				r.Violation("transition-failed", fmt.Sprintf("%v script=%s", err, cs.Script), cs)
			} else {
				r.Nontrivial(fmt.Sprintf("%d/%s", cs.Variant, cs.Script))
				env.check(c, cs, o)
				if n%8 == 0 {
					atomic.AddInt64(&env.twice, 1)
					o2, err := c.run(cs)
					if err != nil || !o.same(o2) {
						r.Sanity(false, "non-deterministic execution: script=%s first=%+v second=%+v err=%v", cs.Script, *o, o2, err)
					}
				}
				if n == 5 && ci%97 == 0 {
					samples.Store(ci, map[string]interface{}{"variant": c16Variants[cs.Variant].Name, "script": cs.Script.String(), "status": o.Status, "stepUsed": o.Used, "surviving_effects": effKey(o.Effects)})
				}
			}
			n++
			// next index vector
			i := len(idx) - 1
			for ; i >= 0; i-- {
				idx[i]++
				if idx[i] < dims[i] {
					break
				}
				idx[i] = 0
			}
			if i < 0 {
				break
			}
		}
		atomic.AddInt64(&done, 1)
	})
	for _, c := range made {
		c.fn.Close()
	}

	classes := map[string]int64{}
	env.classes.Range(func(k, v interface{}) bool { classes[k.(string)] = atomic.LoadInt64(v.(*int64)); return true })
	r.Set("outcome_classes", classes)
	for _, need := range []string{"success", "nested-failed-outer-succeeded", "nested-succeeded-outer-failed", "nested-real-transfer-failed", "nested-real-transfer-succeeded",
		"real-transfer-frame-failed-after-debit,tx-failed", "real-transfer-frame-failed-after-debit,tx-succeeded",
		"object-graph-set-then-tx-failed", "object-graph-change-survived", "object-graph-set-in-rolled-back-frame-of-successful-tx",
		"object-graph-reread-from-flushed-snapshot",
		"deposit-changed-then-tx-failed", "deposit-change-survived", "deposit-changed-in-rolled-back-frame-of-successful-tx",
		"fresh-account-touched-then-tx-failed", "fresh-account-effect-survived", "fresh-account-touched-in-rolled-back-frame-of-successful-tx",
		"ran-out-of-steps-in-place", "fee-rollback-after-successful-script",
		fmt.Sprintf("failed:status-%d", module.StatusReverted), fmt.Sprintf("failed:status-%d", module.StatusOutOfStep),
		fmt.Sprintf("failed:status-%d", module.StatusOutOfBalance), fmt.Sprintf("failed:status-%d", module.StatusInvalidParameter)} {
		r.Sanity(classes[need] > 0, "class %q never occurred (%v)", need, classes)
	}
	withFresh := int64(0)
	for k, v := range classes {
		if strings.HasPrefix(k, "real:failed:") && strings.HasSuffix(k, "->freshEOA,value=true") {
			withFresh += v
		}
	}
	r.Sanity(classes[fmt.Sprintf("real:failed:status-%d->freshEOA,value=true", module.StatusContractNotFound)] > 0,
		"family 2: no call-with-value to a fresh EOA failed with ContractNotFound (%v)", classes)
	for _, alias := range []string{"hxAliasOfChainSCORE", "hxAliasOfContractAccount2", "cxAliasOfExistingEOA"} {
		k := fmt.Sprintf("real:failed:status-%d->%s,value=true", module.StatusInvalidParameter, alias)
		r.Sanity(classes[k] > 0, "family 2: no value transfer to %s failed with InvalidParameter after the debit (%v)", alias, classes)
	}
	r.Sanity(classes["real:success->freshEOA"] > 0 && classes["real:success->existingEOA"] > 0, "family 2: no successful transfer (%v)", classes)
	r.Set("real_tx_family", map[string]interface{}{
		"cases":                          atomic.LoadInt64(&env.realCases),
		"rule":                           "sender = payer (variants payer-large / payer owns exactly 2M); recipient in {fresh EOA, existing EOA, fresh cx address without contract, chain SCORE cx0, a second contract account, hx-alias of the chain SCORE (hx00..00), hx-alias of the second contract account, cx-alias of the funded existing EOA}; dataType call x method {foo,getRevision} x value {0,1,5} x stepLimit {2M, default+input}; plain transfer and message x value {0, 1, 2^90 (> balance)} x stepLimit {min-1 (message only), min, 2M}; blocks of one transaction, and blocks of two (thorough: all ordered pairs; quick: pairs over {call transactions, plain transfers of 1} with the 2M limit)",
		"oracle":                         "per receipt: failed => no logs / messages / empty bloom; balances of the whole closed universe {payer, existing EOA, fresh EOA, fresh cx, chain SCORE, second contract account, scripted cx, treasury, god} (recipients resolved by account id, so aliases map to the account they share) = did-nothing block adjusted by fee (always) and value (only on success); a fresh account not credited by a successful transaction must not exist; full state hash with the universe's balances zeroed and BTP digest equal those of the did-nothing (empty) block",
		"failed_with_value_to_fresh_EOA": withFresh,
	})
	for _, need := range []string{"pair:first-failed,second-changed-deposit-and-failed", "pair:first-failed,second-changed-deposit-and-succeeded", "pair:first-succeeded,second-failed"} {
		r.Sanity(classes[need] > 0, "family 3: class %q never occurred", need)
	}
	r.Set("two_tx_family", map[string]interface{}{
		"cases":  atomic.LoadInt64(&env.pairCases),
		"rule":   "all ordered pairs (tx1, tx2) of 79 scripts {straight-line <= 2 actions over {SET,DEP+,DEP-,B+1} x terminator {OK,REVERT,INVALID}} + {one nested frame {x; OK|REVERT} x outer {OK,REVERT}}, both transactions scripted calls in ONE block on the same world state; variant payer-large/limit-big (thorough also payer-large/limit-small)",
		"oracle": "per receipt as in family 1; final deposit list / object graph (live and re-read from the flushed snapshot), contract storage, balances = pre-state + surviving effects of the successful transactions only; payer -fees, treasury +fees; normalised full state hash and BTP digest = one transaction performing the surviving effects in one frame",
	})
	r.Set("max_total_actions", maxT)
	r.Set("chunks", len(chunks))
	r.Set("chunks_completed", atomic.LoadInt64(&done))
	r.Set("cases_run_twice_for_determinism", atomic.LoadInt64(&env.twice))
	samples.Range(func(k, v interface{}) bool { r.Sample(v); return true })
	r.Finish(atomic.LoadInt32(&expired) == 0)
}

func bigOf(s string) *big.Int {
	v, ok := new(big.Int).SetString(s, 10)
	if !ok {
		panic("bad int " + s)
	}
	return v
}
