//go:build verif

package service_test

// Shared fixture of the C15/C16 harnesses: one real test.Node per chain
// configuration (genesis executed by the real block manager), pre-states made
// by editing balances of the finalized genesis state, real signed v3
// transactions, and blocks executed through real service transitions
// (CreateInitialTransition -> CreateTransition -> Execute, synchronously
// waiting for the callbacks).

import (
	"encoding/hex"
	"encoding/json"
	"fmt"
	"math/big"
	"sync"

	"github.com/icon-project/goloop/chain/base"
	"github.com/icon-project/goloop/common"
	"github.com/icon-project/goloop/common/codec"
	"github.com/icon-project/goloop/common/crypto"
	"github.com/icon-project/goloop/common/log"
	"github.com/icon-project/goloop/common/wallet"
	"github.com/icon-project/goloop/consensus"
	"github.com/icon-project/goloop/module"
	"github.com/icon-project/goloop/service/platform/basic"
	"github.com/icon-project/goloop/service/state"
	"github.com/icon-project/goloop/service/transaction"
	"github.com/icon-project/goloop/test"
)

const (
	fixBlockTS      = int64(1_700_000_000_000_000)
	fixTreasuryAddr = "hx1000000000000000000000000000000000000000"
)

type quietT struct {
	mu   sync.Mutex
	errs []string
}

func (q *quietT) Errorf(format string, args ...interface{}) {
	q.mu.Lock()
	q.errs = append(q.errs, fmt.Sprintf(format, args...))
	q.mu.Unlock()
}
func (q *quietT) Logf(format string, args ...any) {}
func (q *quietT) Errors() []string {
	q.mu.Lock()
	defer q.mu.Unlock()
	return append([]string(nil), q.errs...)
}

// fixWallet returns a wallet with a fixed private key (deterministic address
// and, by RFC 6979, deterministic signatures).
func fixWallet(seed byte) module.Wallet {
	k := make([]byte, 32)
	for i := range k {
		k[i] = seed
	}
	k[31] = 1
	sk, err := crypto.ParsePrivateKey(k)
	if err != nil {
		panic(err)
	}
	w, err := wallet.NewFromPrivateKey(sk)
	if err != nil {
		panic(err)
	}
	return w
}

type fixChainCfg struct {
	StepPrice   *big.Int
	Revision    int
	Default     int64 // step cost "default"
	Input       int64 // step cost "input"
	CallCost    int64 // step cost "contractCall"
	InvokeLimit int64
	GodBalance  *big.Int
	God         module.Address
	OpenBTP     bool // open BTP network #1 (type "eth") in block 1
}

func (c *fixChainCfg) genesis() string {
	hx := func(v int64) string { return fmt.Sprintf("0x%x", v) }
	g := map[string]interface{}{
		"accounts": []interface{}{
			map[string]interface{}{"name": "god", "address": c.God.String(), "balance": "0x" + c.GodBalance.Text(16)},
			map[string]interface{}{"name": "treasury", "address": fixTreasuryAddr, "balance": "0x0"},
		},
		"message": "verif fixture",
		"nid":     "0x1",
		"chain": map[string]interface{}{
			"revision": hx(int64(c.Revision)),
			"fee": map[string]interface{}{
				"stepPrice": "0x" + c.StepPrice.Text(16),
				"stepLimit": map[string]interface{}{"invoke": hx(c.InvokeLimit), "query": hx(c.InvokeLimit)},
				"stepCosts": map[string]interface{}{"default": hx(c.Default), "input": hx(c.Input), "contractCall": hx(c.CallCost)},
			},
		},
	}
	b, err := json.Marshal(g)
	if err != nil {
		panic(err)
	}
	return string(b)
}

type fixNode struct {
	cfg    *fixChainCfg
	t      *quietT
	node   *test.Node
	ctx    *test.NodeContext
	plt    base.Platform
	result []byte // result of the finalized genesis block
	vl     module.ValidatorList
	gres   fixResult
	mu     sync.Mutex
}

type fixResult struct {
	StateHash         []byte
	PatchReceiptHash  []byte
	NormalReceiptHash []byte
	ExtensionData     []byte
	BTPData           []byte
}

// newFixNode boots a real node on the given genesis. wrapPlatform (optional)
// may wrap the platform (C16 uses it to wrap the contract manager).
func newFixNode(cfg *fixChainCfg, wrapPlatform func(base.Platform) base.Platform) (*fixNode, error) {
	fn := &fixNode{cfg: cfg, t: &quietT{}}
	log.GlobalLogger().SetLevel(log.PanicLevel)
	opts := []test.FixtureOption{
		test.UseGenesis(cfg.genesis()),
		test.UseSMFactory(func(ctx *test.NodeContext) module.ServiceManager {
			fn.ctx = ctx
			// silence the chain logger before anything executes
			ctx.C.Logger().SetLevel(log.PanicLevel)
			return test.NewServiceManager(ctx.C, ctx.Platform, ctx.CM, ctx.EM)
		}),
	}
	if wrapPlatform != nil {
		cf := &test.FixtureConfig{NewPlatform: func(ctx *test.NodeContext) base.Platform {
			return wrapPlatform(basic.Platform)
		}}
		opts = append(opts, test.UseConfig(cf))
	}
	fn.node = test.NewNode(fn.t, opts...)
	if es := fn.t.Errors(); len(es) > 0 {
		return nil, fmt.Errorf("node setup: %v", es)
	}
	fn.plt = fn.node.Platform
	if cfg.OpenBTP {
		// as block/manager_test.go does: make the node the validator, register
		// its BTP public key and open network #1
		const dsa = "ecdsa/secp256k1"
		fn.node.ProposeFinalizeBlockWithTX(consensus.NewEmptyCommitVoteList(),
			test.NewTx().SetValidatorsNode(fn.node).
				CallFrom(fn.node.CommonAddress(), "setBTPPublicKey", map[string]string{
					"name":   dsa,
					"pubKey": fmt.Sprintf("0x%x", fn.node.Chain.WalletFor(dsa).PublicKey()),
				}).Call("openBTPNetwork", map[string]string{
				"networkTypeName": "eth",
				"name":            "eth-test",
				"owner":           fn.node.CommonAddress().String(),
			}).String())
		if es := fn.t.Errors(); len(es) > 0 {
			return nil, fmt.Errorf("BTP setup block: %v", es)
		}
	}
	// one more (empty) block carries the result of executing the previous one
	fn.node.ProposeFinalizeBlock(consensus.NewEmptyCommitVoteList())
	if es := fn.t.Errors(); len(es) > 0 {
		return nil, fmt.Errorf("block 1: %v", es)
	}
	blk := fn.node.LastBlock
	fn.result = blk.Result()
	fn.vl = blk.NextValidators()
	if _, err := codec.BC.UnmarshalFromBytes(fn.result, &fn.gres); err != nil {
		return nil, fmt.Errorf("genesis result: %v", err)
	}
	return fn, nil
}

func (fn *fixNode) Close() { fn.node.Close() }

// preState makes the pre-state of a case with real transactions only: on a
// fresh initial transition over the finalized genesis state it executes a
// funding block in which the god account transfers exactly bals[i] to
// wallet i (zero balances get no transaction). The returned (completed, never
// finalized) transition is the parent of the case's blocks.
func (fn *fixNode) preState(mk *txMaker, godIdx int, defaultStep int64, bals []*big.Int) (module.Transition, error) {
	init, err := fn.node.SM.CreateInitialTransition(fn.result, fn.vl)
	if err != nil {
		return nil, err
	}
	var txs []module.Transaction
	for i, b := range bals {
		if b.Sign() == 0 {
			continue
		}
		v := b.String()
		txs = append(txs, mk.make(txSpec{From: godIdx, To: mk.wallets[i].Address().String(), Value: &v, Limit: defaultStep, Nonce: 1000 + i}))
	}
	tr, err := fn.runBlockAt(init, txs, true, 1)
	if err != nil {
		return nil, err
	}
	for i := range txs {
		rct, err := tr.NormalReceipts().Get(i)
		if err != nil || rct.Status() != module.StatusSuccess {
			return nil, fmt.Errorf("funding transaction %d failed", i)
		}
	}
	return tr, nil
}

type fixCB struct{ ch chan error }

func (c *fixCB) OnValidate(tr module.Transition, err error) {
	if err != nil {
		c.ch <- fmt.Errorf("validate: %w", err)
	}
}
func (c *fixCB) OnExecute(tr module.Transition, err error) {
	if err != nil {
		c.ch <- fmt.Errorf("execute: %w", err)
	} else {
		c.ch <- nil
	}
}

// runBlock executes one block of transactions on top of parent and waits for
// the callbacks. The transition is never finalized, so parent can be reused.
func (fn *fixNode) runBlock(parent module.Transition, txs []module.Transaction, validated bool) (module.Transition, error) {
	return fn.runBlockAt(parent, txs, validated, 2)
}

func (fn *fixNode) runBlockAt(parent module.Transition, txs []module.Transaction, validated bool, height int64) (module.Transition, error) {
	txl := fn.node.SM.TransactionListFromSlice(txs, module.BlockVersion2)
	bi := common.NewBlockInfo(height, fixBlockTS)
	csi := common.NewConsensusInfo(nil, nil, nil)
	tr, err := fn.node.SM.CreateTransition(parent, txl, bi, csi, validated)
	if err != nil {
		return nil, err
	}
	cb := &fixCB{ch: make(chan error, 2)}
	if _, err := tr.Execute(cb); err != nil {
		return nil, err
	}
	if err := <-cb.ch; err != nil {
		return nil, err
	}
	return tr, nil
}

// txSpec describes one v3 transaction.
type txSpec struct {
	From  int     `json:"from"`  // index into the wallets
	To    string  `json:"to"`    // address string
	Value *string `json:"value"` // decimal; nil = field absent
	Limit int64   `json:"limit"`
	Msg   bool    `json:"msg"`   // dataType message with 5 bytes of data
	Call  string  `json:"call,omitempty"` // dataType call with this method name (C16)
	Nonce int     `json:"nonce"`
}

func (s txSpec) key() string {
	v := "-"
	if s.Value != nil {
		v = *s.Value
	}
	return fmt.Sprintf("%d|%s|%s|%d|%v|%s|%d", s.From, s.To, v, s.Limit, s.Msg, s.Call, s.Nonce)
}

const fixMsgData = "0x68656c6c6f" // "hello"

type txMaker struct {
	wallets []module.Wallet
	mu      sync.Mutex
	cache   map[string]module.Transaction
}

func (m *txMaker) make(s txSpec) module.Transaction {
	k := s.key()
	m.mu.Lock()
	if tx, ok := m.cache[k]; ok {
		m.mu.Unlock()
		return tx
	}
	m.mu.Unlock()
	w := m.wallets[s.From]
	js := map[string]interface{}{
		"version":   "0x3",
		"from":      w.Address().String(),
		"to":        s.To,
		"stepLimit": fmt.Sprintf("0x%x", s.Limit),
		"timestamp": fmt.Sprintf("0x%x", fixBlockTS),
		"nid":       "0x1",
		"nonce":     fmt.Sprintf("0x%x", s.Nonce),
	}
	if s.Value != nil {
		v, ok := new(big.Int).SetString(*s.Value, 10)
		if !ok {
			panic("bad value " + *s.Value)
		}
		js["value"] = "0x" + v.Text(16)
	}
	if s.Msg {
		js["dataType"] = "message"
		js["data"] = fixMsgData
	} else if s.Call != "" {
		js["dataType"] = "call"
		js["data"] = map[string]interface{}{"method": s.Call}
	}
	raw, err := json.Marshal(js)
	if err != nil {
		panic(err)
	}
	bs, err := transaction.SerializeJSON(raw, nil, nil)
	if err != nil {
		panic(err)
	}
	bs = append([]byte("icx_sendTransaction."), bs...)
	sig, err := w.Sign(crypto.SHA3Sum256(bs))
	if err != nil {
		panic(err)
	}
	js["signature"] = sig
	raw, _ = json.Marshal(js)
	tx, err := transaction.NewTransactionFromJSON(raw)
	if err != nil {
		panic(fmt.Sprintf("tx json %s: %v", raw, err))
	}
	if err := tx.Verify(); err != nil {
		panic(fmt.Sprintf("tx does not verify %s: %v", raw, err))
	}
	m.mu.Lock()
	if m.cache == nil {
		m.cache = map[string]module.Transaction{}
	}
	m.cache[k] = tx
	m.mu.Unlock()
	return tx
}

func balanceOf(wss state.WorldSnapshot, addr module.Address) *big.Int {
	if as := wss.GetAccountSnapshot(addr.ID()); as != nil {
		return new(big.Int).Set(as.GetBalance())
	}
	return new(big.Int)
}

func hexs(b []byte) string { return hex.EncodeToString(b) }
