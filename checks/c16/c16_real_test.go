//go:build verif

package service_test

// Family 2 of C16: no scripted handler. Real signed v3 transactions through the
// real transactionHandler / TransferHandler / TransferAndCallHandler /
// CallHandler that fail AFTER a partial effect (value already moved), with
// fresh (never touched) and existing recipients.

import (
	"fmt"
	"math/big"
	"strings"
	"sync/atomic"

	"github.com/icon-project/goloop/common"
	"github.com/icon-project/goloop/common/codec"
	"github.com/icon-project/goloop/module"
	"github.com/icon-project/goloop/service"
	"github.com/icon-project/goloop/service/state"
)

const c16SystemScore = "cx0000000000000000000000000000000000000000"

// universe of family 2 (closed: every account a case can touch)
type c16RealUni struct {
	names []string
	addrs []module.Address
	fresh []bool // must not exist before the block
}

func (c *c16Ctx) realUniverse() *c16RealUni {
	u := &c16RealUni{}
	add := func(n string, a module.Address, fresh bool) {
		u.names = append(u.names, n)
		u.addrs = append(u.addrs, a)
		u.fresh = append(u.fresh, fresh)
	}
	add("payer", c.sc.payer, false)
	add("existingEOA", c.sc.other, false)
	add("freshEOA", c16FreshEOA, true)
	add("freshCx(no contract)", c16FreshCx, true)
	add("chainSCORE", state.SystemAddress, false)
	add("contractAccount2", c16DeployedCx, false)
	add("scriptedCx", c.sc.score, false)
	add("treasury", c.treas, false)
	add("god", c16God.Address(), false)
	return u
}

// index resolves an address to its account by the 20-byte id, as goloop does
// (hx/cx aliases of one body share the account).
func (u *c16RealUni) index(addr string) int {
	id := string(common.MustNewAddressFromString(addr).ID())
	for i, a := range u.addrs {
		if string(a.ID()) == id {
			return i
		}
	}
	panic("address outside the closed universe: " + addr)
}

type c16Recipient struct{ name, addr string }

func c16Recipients() []c16Recipient {
	b := c16Other.Address().String()
	return []c16Recipient{
		{"freshEOA", c16FreshEOA.String()},
		{"existingEOA", b},
		{"freshCx(no contract)", c16FreshCx.String()},
		{"chainSCORE", c16SystemScore},
		{"contractAccount2", c16DeployedCx.String()},
		{"hxAliasOfChainSCORE", c16HxOfSystem.String()},
		{"hxAliasOfContractAccount2", c16HxOfDeployed.String()},
		{"cxAliasOfExistingEOA", "cx" + b[2:]},
	}
}

func c16RecipientName(addr string) string {
	for _, r := range c16Recipients() {
		if r.addr == addr {
			return r.name
		}
	}
	return addr
}

// c16RealTxs lists the transactions of family 2 (sender = payer).
// callBig marks the subset used for quick-tier pairs.
func c16RealTxs(nonce int) (txs []txSpec, callBig []bool) {
	var recipients []string
	for _, r := range c16Recipients() {
		recipients = append(recipients, r.addr)
	}
	str := func(s string) *string { return &s }
	huge := new(big.Int).Lsh(big.NewInt(1), 90).String()
	for _, to := range recipients {
		// dataType call (with and without value)
		for _, method := range []string{"foo", "getRevision"} {
			data := int64(len(fmt.Sprintf(`{"method":"%s"}`, method)))
			min := c16Default + c16Input*data
			for _, v := range []string{"0", "1", "5"} {
				for _, lim := range []int64{c16BigLimit, min} {
					txs = append(txs, txSpec{From: 0, To: to, Value: str(v), Limit: lim, Call: method, Nonce: nonce})
					callBig = append(callBig, lim == c16BigLimit)
				}
			}
		}
		// plain transfer / message
		for _, msg := range []bool{false, true} {
			min := c16Default
			if msg {
				min += c16Input * 14
			}
			limits := []int64{min, c16BigLimit}
			if msg {
				limits = append([]int64{min - 1}, limits...) // out of step before the transfer
			}
			for _, v := range []string{"0", "1", huge} {
				for _, lim := range limits {
					txs = append(txs, txSpec{From: 0, To: to, Value: str(v), Limit: lim, Msg: msg, Nonce: nonce})
					callBig = append(callBig, !msg && v == "1" && lim == c16BigLimit)
				}
			}
		}
	}
	return
}

type c16RealObs struct {
	Status  []int
	Used    []string
	Price   []string
	NLogs   []int
	NMsgs   []int
	Bloom   []string
	Bal     []string // per universe account, "<absent>" if the account does not exist
	NormAll string   // state hash with the balances of the whole universe zeroed
	BTPData string
	OG      string // object graph of the scripted contract account (the only fixture account that has one)
}

func (c *c16Ctx) normAll(u *c16RealUni, wss state.WorldSnapshot) (string, error) {
	ws, err := state.WorldStateFromSnapshot(wss)
	if err != nil {
		return "", err
	}
	for _, a := range u.addrs {
		ws.GetAccountState(a.ID()).SetBalance(new(big.Int))
	}
	return hexs(ws.GetSnapshot().StateHash()), nil
}

func (c *c16Ctx) execReal(u *c16RealUni, vi int, specs []txSpec) (*c16RealObs, error) {
	txs := make([]module.Transaction, len(specs))
	for i, s := range specs {
		txs[i] = c.mk.make(s)
	}
	c.sc.reset()
	tr, err := c.fn.runBlock(c.parents[vi], txs, true)
	if err != nil {
		return nil, err
	}
	wss := service.VerifWorldSnapshot(tr)
	if wss == nil {
		return nil, fmt.Errorf("no snapshot")
	}
	o := &c16RealObs{}
	for i := range specs {
		rct, err := tr.NormalReceipts().Get(i)
		if err != nil {
			return nil, err
		}
		o.Status = append(o.Status, int(rct.Status()))
		o.Used = append(o.Used, rct.StepUsed().String())
		o.Price = append(o.Price, rct.StepPrice().String())
		n := 0
		for it := rct.EventLogIterator(); it.Has(); it.Next() {
			n++
		}
		o.NLogs = append(o.NLogs, n)
		m := 0
		if l := rct.BTPMessages(); l != nil {
			m = l.Len()
		}
		o.NMsgs = append(o.NMsgs, m)
		o.Bloom = append(o.Bloom, hexs(rct.LogsBloom().Bytes()))
	}
	for _, a := range u.addrs {
		if as := wss.GetAccountSnapshot(a.ID()); as != nil {
			o.Bal = append(o.Bal, as.GetBalance().String())
		} else {
			o.Bal = append(o.Bal, "<absent>")
		}
	}
	o.OG = c16ObjGraphOf(wss, c.sc.score)
	if o.NormAll, err = c.normAll(u, wss); err != nil {
		return nil, err
	}
	res, err := decodeFixResult(tr.Result())
	if err != nil {
		return nil, err
	}
	o.BTPData = hexs(res.BTPData)
	return o, nil
}

func balOrZero(s string) *big.Int {
	if s == "<absent>" {
		return new(big.Int)
	}
	return bigOf(s)
}

// checkReal applies the C16 oracle to one block of family 2.
func (e *c16Env) checkReal(c *c16Ctx, u *c16RealUni, cs *c16Case, ref, o *c16RealObs) {
	fail := func(sig, detail string) {
		var d []string
		for _, t := range cs.Block {
			d = append(d, t.key())
		}
		e.r.Violation(sig, fmt.Sprintf("%s\nvariant=%s block=%s\nobserved=%+v\ndid-nothing reference=%+v", detail, c16Variants[cs.Variant].Name, strings.Join(d, " ; "), *o, *ref), cs)
	}
	// expected balances from the receipts: fee always, value only on success
	want := make([]*big.Int, len(u.addrs))
	touched := make([]bool, len(u.addrs))
	for i := range want {
		want[i] = balOrZero(ref.Bal[i])
	}
	tIdx := u.index(c.treas.String())
	allFailed := true
	for i, t := range cs.Block {
		st := module.Status(o.Status[i])
		fee := new(big.Int).Mul(bigOf(o.Used[i]), bigOf(o.Price[i]))
		want[0].Sub(want[0], fee)
		want[tIdx].Add(want[tIdx], fee)
		to := u.index(t.To)
		kind := c16RecipientName(t.To)
		if st == module.StatusSuccess {
			allFailed = false
			v := bigOf(*t.Value)
			want[0].Sub(want[0], v)
			want[to].Add(want[to], v)
			touched[to] = true
			e.count("real:success->" + kind)
		} else {
			if o.NLogs[i] != 0 {
				fail("failed-tx-has-event-logs", fmt.Sprintf("tx%d status %d has %d event logs", i, st, o.NLogs[i]))
			}
			if o.NMsgs[i] != 0 {
				fail("failed-tx-has-btp-messages", fmt.Sprintf("tx%d status %d has %d BTP messages", i, st, o.NMsgs[i]))
			}
			if o.Bloom[i] != c16EmptyBloom {
				fail("failed-tx-has-logs-bloom", fmt.Sprintf("tx%d", i))
			}
			withValue := t.Value != nil && *t.Value != "0"
			e.count(fmt.Sprintf("real:failed:status-%d->%s,value=%v", st, kind, withValue))
		}
	}
	for i := range u.addrs {
		got := balOrZero(o.Bal[i])
		if got.Cmp(want[i]) != 0 {
			role := "bystander"
			switch {
			case i == 0:
				role = "payer"
			case i == tIdx:
				role = "treasury"
			default:
				for _, t := range cs.Block {
					if u.index(t.To) == i {
						role = "recipient(" + c16RecipientName(t.To) + ")"
					}
				}
			}
			fail("real-tx-"+role+"-balance-differs-from-fee-only-accounting", fmt.Sprintf("%s: did-nothing=%s post=%s want=%s (fee always, value only on success)", u.names[i], ref.Bal[i], o.Bal[i], want[i]))
		}
		// an account that did not exist and received nothing from a successful tx must still not exist
		if u.fresh[i] && !touched[i] && o.Bal[i] != "<absent>" {
			fail("failed-tx-created-fresh-account", fmt.Sprintf("%s exists after the block with balance %s although no successful transaction touched it", u.names[i], o.Bal[i]))
		}
	}
	// full state except the universe's balances, and the BTP digest, equal the did-nothing block
	if o.NormAll != ref.NormAll {
		k := "block-with-successes"
		if allFailed {
			k = "failed-tx"
		}
		fail("real-"+k+"-state-differs-from-did-nothing-reference", fmt.Sprintf("normalised state hash %s, reference %s", o.NormAll, ref.NormAll))
	}
	if o.BTPData != ref.BTPData {
		fail("real-tx-btp-digest-differs", "")
	}
	if o.OG != ref.OG || o.OG != c16ExpectedOG(nil) {
		fail("real-tx-object-graph-changed", fmt.Sprintf("object graph of the contract account %s, did-nothing block %s", o.OG, ref.OG))
	}
}

// runRealChunk: single block [tx1] and the pairs [tx1, tx2].
func (e *c16Env) runRealChunk(c *c16Ctx, vi, i1 int, thorough bool, stop func() bool) {
	u := c.realUniverse()
	ref := c.realRef[vi]
	if ref == nil {
		var err error
		if ref, err = c.execReal(u, vi, nil); err != nil {
			e.r.Sanity(false, "did-nothing reference block: %v", err)
			return
		}
		for i, f := range u.fresh {
			if f && ref.Bal[i] != "<absent>" {
				e.r.Sanity(false, "fresh account %s exists in the reference", u.names[i])
				return
			}
		}
		c.realRef[vi] = ref
	}
	first, big1 := c16RealTxs(0)
	second, big2 := c16RealTxs(1)
	run := func(block []txSpec, twice bool) {
		cs := &c16Case{Variant: vi, Block: block}
		e.r.Eval(1)
		o, err := c.execReal(u, vi, block)
		if err != nil {
			e.r.Violation("transition-failed", fmt.Sprintf("%v block=%v", err, block), cs)
			return
		}
		var k []string
		for _, t := range block {
			k = append(k, t.key())
		}
		e.r.Nontrivial(fmt.Sprintf("real/%d/%s", vi, strings.Join(k, ";")))
		e.checkReal(c, u, cs, ref, o)
		atomic.AddInt64(&e.realCases, 1)
		if twice {
			o2, err := c.execReal(u, vi, block)
			if err != nil || fmt.Sprintf("%+v", *o) != fmt.Sprintf("%+v", *o2) {
				e.r.Sanity(false, "non-deterministic execution of real block %v", k)
			}
		}
	}
	run([]txSpec{first[i1]}, true)
	for i2 := range second {
		if stop() {
			return
		}
		if !thorough && !(big1[i1] && big2[i2]) {
			continue
		}
		run([]txSpec{first[i1], second[i2]}, i2%8 == 0)
	}
}

func decodeFixResult(bs []byte) (*fixResult, error) {
	var res fixResult
	if _, err := codec.BC.UnmarshalFromBytes(bs, &res); err != nil {
		return nil, err
	}
	return &res, nil
}
