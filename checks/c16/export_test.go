//go:build verif

package service

import (
	"github.com/icon-project/goloop/module"
	"github.com/icon-project/goloop/service/state"
)

// VerifWorldSnapshot returns the world snapshot a completed transition
// produced (nil before completion). Read-only accessor for the verif harness:
// it lets the harness read every account of the post-state without flushing
// the transition to the database.
func VerifWorldSnapshot(tr module.Transition) state.WorldSnapshot {
	t := tr.(*transition)
	t.mutex.Lock()
	defer t.mutex.Unlock()
	if t.step != stepComplete {
		return nil
	}
	return t.worldSnapshot
}
