//go:build verif

package service_test

// Family 3 of C16: TWO scripted transactions executed in sequence on the SAME
// world state (one block). A roll-back of the first transaction must not make
// the live account share mutable sub-objects (deposits, ...) with the snapshot
// that becomes the roll-back point of the second one.

import (
	"fmt"
	"math/big"
	"strings"
	"sync/atomic"

	"github.com/icon-project/goloop/module"
	"github.com/icon-project/goloop/service"
)

var c16PairPrims = []string{"SET", "DEP+", "DEP-", "B+1"}

// c16PairScripts: straight-line scripts of <= 2 actions x {OK,REVERT,INVALID},
// and scripts consisting of one nested frame {x; OK|REVERT} x outer {OK,REVERT}.
func c16PairScripts() []*c16Script {
	var out []*c16Script
	var seqs [][]string
	seqs = append(seqs, nil)
	for _, a := range c16PairPrims {
		seqs = append(seqs, []string{a})
	}
	for _, a := range c16PairPrims {
		for _, b := range c16PairPrims {
			seqs = append(seqs, []string{a, b})
		}
	}
	for _, q := range seqs {
		for _, t := range []string{"OK", "REVERT", "INVALID"} {
			out = append(out, &c16Script{Acts: q, Term: t})
		}
	}
	for _, a := range c16PairPrims {
		for _, nt := range []string{"OK", "REVERT"} {
			for _, ot := range []string{"OK", "REVERT"} {
				out = append(out, &c16Script{Acts: []string{"CALL"}, Term: ot, Nested: &c16Script{Acts: []string{a}, Term: nt}})
			}
		}
	}
	return out
}

type c16TxRec struct {
	Eff []c16Effect
	Err string
}

type c16PairObs struct {
	Status []int
	Used   []string
	Price  []string
	NLogs  []int
	NMsgs  []int
	Bloom  []string
	Recs   []c16TxRec
	Post   c16Obs // state part only
}

func (c *c16Ctx) execPair(vi int, scripts []*c16Script) (*c16PairObs, error) {
	lim := c16Variants[vi].limit()
	txs := make([]module.Transaction, len(scripts))
	for i := range scripts {
		txs[i] = c.mk.make(txSpec{From: 0, To: c16Score, Limit: lim, Call: "run", Nonce: i})
	}
	c.sc.reset()
	c.sc.cur, c.sc.flat = nil, false
	c.sc.queue = scripts
	defer func() { c.sc.queue = nil }()
	tr, err := c.fn.runBlock(c.parents[vi], txs, true)
	if err != nil {
		return nil, err
	}
	if len(c.sc.harnessErrs) > 0 {
		return nil, fmt.Errorf("harness: %v", c.sc.harnessErrs)
	}
	if c.sc.qi != len(scripts) || len(c.sc.recs) != len(scripts) {
		return nil, fmt.Errorf("scripted handler ran %d times for %d transactions", c.sc.qi, len(scripts))
	}
	wss := service.VerifWorldSnapshot(tr)
	if wss == nil {
		return nil, fmt.Errorf("no snapshot")
	}
	o := &c16PairObs{Recs: c.sc.recs}
	for i := range scripts {
		rct, err := tr.NormalReceipts().Get(i)
		if err != nil {
			return nil, err
		}
		o.Status = append(o.Status, int(rct.Status()))
		o.Used = append(o.Used, rct.StepUsed().String())
		o.Price = append(o.Price, rct.StepPrice().String())
		n := 0
		for it := rct.EventLogIterator(); it.Has(); it.Next() {
			n++
		}
		o.NLogs = append(o.NLogs, n)
		m := 0
		if l := rct.BTPMessages(); l != nil {
			m = l.Len()
		}
		o.NMsgs = append(o.NMsgs, m)
		o.Bloom = append(o.Bloom, hexs(rct.LogsBloom().Bytes()))
	}
	c.fillState(&o.Post, wss)
	if o.Post.NormHash, err = c.normHash(wss); err != nil {
		return nil, err
	}
	res, err := decodeFixResult(tr.Result())
	if err != nil {
		return nil, err
	}
	o.Post.BTPData = hexs(res.BTPData)
	if err := wss.Flush(); err != nil {
		return nil, err
	}
	stored, err := service.NewWorldSnapshot(c.fn.node.Chain.Database(), c.fn.plt, tr.Result(), tr.NextValidators())
	if err != nil {
		return nil, err
	}
	o.Post.OGStored = c16ObjGraphOf(stored, c.sc.score)
	o.Post.DepStored = c16DepositOf(stored, c.sc.score)
	return o, nil
}

func (e *c16Env) checkPair(c *c16Ctx, cs *c16Case, o *c16PairObs) {
	vi := cs.Variant
	pre := c.pre[vi]
	fail := func(sig, detail string) {
		var d []string
		for _, s := range cs.Pair {
			d = append(d, s.String())
		}
		e.r.Violation(sig, fmt.Sprintf("%s\nvariant=%s transactions=[%s]\nobserved=%+v", detail, c16Variants[vi].Name, strings.Join(d, " | "), *o), cs)
	}
	var surviving []c16Effect
	fees := new(big.Int)
	nFailed := 0
	for i := range cs.Pair {
		st := module.Status(o.Status[i])
		fees.Add(fees, new(big.Int).Mul(bigOf(o.Used[i]), bigOf(o.Price[i])))
		if st == module.StatusSuccess {
			if o.Recs[i].Err != "" {
				fail("handler-returned-error-but-receipt-success", fmt.Sprintf("tx%d: %s", i, o.Recs[i].Err))
			}
			surviving = append(surviving, o.Recs[i].Eff...)
			if o.NLogs[i] != 0 || o.NMsgs[i] != 0 {
				fail("successful-tx-log-or-message-count", fmt.Sprintf("tx%d logs=%d msgs=%d want 0", i, o.NLogs[i], o.NMsgs[i]))
			}
		} else {
			nFailed++
			if o.Recs[i].Err == "" {
				fail("handler-succeeded-but-receipt-failed", fmt.Sprintf("tx%d status=%d", i, st))
			}
			if o.NLogs[i] != 0 {
				fail("failed-tx-has-event-logs", fmt.Sprintf("tx%d", i))
			}
			if o.NMsgs[i] != 0 {
				fail("failed-tx-has-btp-messages", fmt.Sprintf("tx%d", i))
			}
			if o.Bloom[i] != c16EmptyBloom {
				fail("failed-tx-has-logs-bloom", fmt.Sprintf("tx%d", i))
			}
		}
	}
	kind := "tx-sequence-with-failure"
	if nFailed == 0 {
		kind = "tx-sequence-all-successful"
	}
	p := &o.Post
	// explicit expectations from the surviving effects of the successful transactions
	if want := c16ExpectedDeposit(surviving); p.Dep != want {
		fail(kind+"-deposit-differs-from-surviving-effects", fmt.Sprintf("deposits %s expected %s", p.Dep, want))
	} else if p.DepStored != want {
		fail(kind+"-stored-deposit-differs-from-surviving-effects", fmt.Sprintf("deposits re-read from the flushed snapshot %s expected %s", p.DepStored, want))
	}
	if want := c16ExpectedOG(surviving); p.OG != want || p.OGStored != want {
		fail(kind+"-object-graph-changed", fmt.Sprintf("live %s stored %s expected %s", p.OG, p.OGStored, want))
	}
	wantVal, wantOther := pre.ScoreVal, bigOf(pre.OtherBal)
	for _, f := range surviving {
		switch f.Kind {
		case "SET":
			wantVal = "new" + string(c16Tag(f.Pos))
		case "B+1":
			wantOther.Add(wantOther, big.NewInt(1))
		}
	}
	if p.ScoreVal != wantVal || p.OtherBal != wantOther.String() || p.ScoreBal != pre.ScoreBal {
		fail(kind+"-storage-or-balance-differs-from-surviving-effects", fmt.Sprintf("storage %q want %q, bystander %s want %s, contract balance %s want %s", p.ScoreVal, wantVal, p.OtherBal, wantOther, p.ScoreBal, pre.ScoreBal))
	}
	if want := new(big.Int).Sub(bigOf(pre.PayerBal), fees); bigOf(p.PayerBal).Cmp(want) != 0 {
		fail(kind+"-payer-balance", fmt.Sprintf("payer %s want %s (pre - fees)", p.PayerBal, want))
	}
	if want := new(big.Int).Add(bigOf(pre.TreasBal), fees); bigOf(p.TreasBal).Cmp(want) != 0 {
		fail(kind+"-treasury-balance", fmt.Sprintf("treasury %s want %s", p.TreasBal, want))
	}
	// whole world: equal to ONE transaction performing the surviving effects in one frame
	ref, err := c.reference(vi, surviving)
	if err != nil {
		e.r.Sanity(false, "pair reference: %v", err)
		return
	}
	if p.NormHash != ref.NormHash {
		fail(kind+"-state-differs-from-surviving-effects-reference", fmt.Sprintf("normalised state hash %s reference %s", p.NormHash, ref.NormHash))
	}
	if p.BTPData != ref.BTPData {
		fail(kind+"-btp-digest-differs", "")
	}
	// vacuity
	touched := func(s *c16Script) bool { return scriptHas(s, "DEP+") || scriptHas(s, "DEP-") }
	f0 := module.Status(o.Status[0]) != module.StatusSuccess
	f1 := module.Status(o.Status[1]) != module.StatusSuccess
	switch {
	case f0 && f1 && touched(cs.Pair[1]):
		e.count("pair:first-failed,second-changed-deposit-and-failed")
	case f0 && !f1 && touched(cs.Pair[1]):
		e.count("pair:first-failed,second-changed-deposit-and-succeeded")
	case !f0 && f1:
		e.count("pair:first-succeeded,second-failed")
	}
	atomic.AddInt64(&e.pairCases, 1)
}

func (e *c16Env) runPairChunk(c *c16Ctx, vi, i1 int, stop func() bool) {
	scripts := c16PairScripts()
	for i2 := range scripts {
		if stop() {
			return
		}
		cs := &c16Case{Variant: vi, Pair: []*c16Script{scripts[i1], scripts[i2]}}
		e.r.Eval(1)
		o, err := c.execPair(vi, cs.Pair)
		if err != nil {
			e.r.Violation("transition-failed", fmt.Sprintf("%v pair=%s|%s", err, scripts[i1], scripts[i2]), cs)
			continue
		}
		e.r.Nontrivial(fmt.Sprintf("pair/%d/%s|%s", vi, scripts[i1], scripts[i2]))
		e.checkPair(c, cs, o)
		if i2%8 == 0 {
			o2, err := c.execPair(vi, cs.Pair)
			if err != nil || fmt.Sprintf("%+v", *o) != fmt.Sprintf("%+v", *o2) {
				e.r.Sanity(false, "non-deterministic execution of pair %s|%s", scripts[i1], scripts[i2])
			}
		}
	}
}
