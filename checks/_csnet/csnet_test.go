//go:build verif

package consensus

// csnet: real consensus engines (this package's *consensus) over fakes that the
// harness owns completely. See /verif/DESIGN.md §2.5.
//
//   - chain/wallets: fixed private keys, 4 validators
//   - network manager: protocol handlers *record* what the engine sends, no peers
//     (gossip syncer and fastsync stay inert)
//   - block manager: tiny deterministic blocks; Propose/ImportBlock callbacks are
//     queued and completed by explorer events; Finalize is the observation point
//   - WAL manager: record-level, in memory, synced/unsynced distinguished
//   - time: consensus.go / syncer.go are compiled against verifshim/vclock, so the
//     four consensus timeouts are explorer events and Now() is virtual
//
// One process drives one node at a time (vclock.Use), the explorers shard by
// process.

import (
	"bytes"
	"context"
	"encoding/binary"
	"encoding/hex"
	"fmt"
	"io"
	"os"
	"path"
	"runtime/debug"
	"sort"
	"strings"
	"time"

	"github.com/icon-project/goloop/btp"
	"github.com/icon-project/goloop/common"
	"github.com/icon-project/goloop/common/codec"
	"github.com/icon-project/goloop/common/crypto"
	"github.com/icon-project/goloop/common/db"
	"github.com/icon-project/goloop/common/log"
	"github.com/icon-project/goloop/common/wallet"
	"github.com/icon-project/goloop/module"
	"github.com/icon-project/goloop/network"
	"github.com/icon-project/goloop/service/state"
	"github.com/icon-project/goloop/verifshim/vclock"
)

// ---------------------------------------------------------------- blocks

type fBlockHeader struct {
	Height    int64
	PrevID    []byte
	Proposer  []byte
	Timestamp int64
	Tag       string
	Bad       bool // import of a Bad block fails (Byzantine-crafted invalid block)
}

type fTxList struct{ module.TransactionList }

func (fTxList) Hash() []byte { return nil }

type fBlock struct {
	module.BlockCandidate // nil: any method not overridden below panics loudly
	hdr                   fBlockHeader
	raw                   []byte
	id                    []byte
	vl                    module.ValidatorList
}

func newFBlock(h fBlockHeader, vl module.ValidatorList) *fBlock {
	raw := codec.BC.MustMarshalToBytes(&h)
	return &fBlock{hdr: h, raw: raw, id: crypto.SHA3Sum256(raw), vl: vl}
}

func (b *fBlock) Version() int                               { return module.BlockVersion2 }
func (b *fBlock) ID() []byte                                 { return b.id }
func (b *fBlock) Hash() []byte                               { return b.id }
func (b *fBlock) Height() int64                              { return b.hdr.Height }
func (b *fBlock) PrevID() []byte                             { return b.hdr.PrevID }
func (b *fBlock) Timestamp() int64                           { return b.hdr.Timestamp }
func (b *fBlock) Result() []byte                             { return nil }
func (b *fBlock) Votes() module.CommitVoteSet                { return NewEmptyCommitVoteList() }
func (b *fBlock) NextValidators() module.ValidatorList       { return b.vl }
func (b *fBlock) NextValidatorsHash() []byte                 { return b.vl.Hash() }
func (b *fBlock) NormalTransactions() module.TransactionList { return fTxList{} }
func (b *fBlock) PatchTransactions() module.TransactionList  { return fTxList{} }
func (b *fBlock) Proposer() module.Address {
	if len(b.hdr.Proposer) == 0 {
		return nil
	}
	a, err := common.NewAddress(b.hdr.Proposer)
	if err != nil {
		return nil
	}
	return a
}
func (b *fBlock) MarshalHeader(w io.Writer) error { _, err := w.Write(b.raw); return err }
func (b *fBlock) MarshalBody(w io.Writer) error   { return nil }
func (b *fBlock) Marshal(w io.Writer) error       { _, err := w.Write(b.raw); return err }
func (b *fBlock) NTSHashEntryList() (module.NTSHashEntryList, error) {
	return module.ZeroNTSHashEntryList{}, nil
}
func (b *fBlock) BTPDigest() (module.BTPDigest, error)   { return nil, nil }
func (b *fBlock) BTPSection() (module.BTPSection, error) { return nil, nil }
func (b *fBlock) NextProofContextMap() (module.BTPProofContextMap, error) {
	return btp.ZeroProofContextMap, nil
}
func (b *fBlock) NetworkSectionFilter() module.BitSetFilter { return module.BitSetFilter{} }
func (b *fBlock) Copy() module.Block                        { return b }
func (b *fBlock) Dup() module.BlockCandidate                { return b }
func (b *fBlock) Dispose()                                  {}

func (b *fBlock) partSet() PartSet {
	psb := NewPartSetBuffer(ConfigBlockPartSize)
	_ = b.MarshalHeader(psb)
	_ = b.MarshalBody(psb)
	return psb.PartSet()
}

// ---------------------------------------------------------------- block manager

type fPending struct {
	kind     string // "propose" | "import"
	blk      *fBlock
	force    bool
	cb       func(module.BlockCandidate, error)
	canceled bool
	done     bool
}

func (p *fPending) Cancel() bool {
	if p.done || p.canceled {
		return false
	}
	p.canceled = true
	return true
}

type fBM struct {
	module.BlockManager
	node      *csNode
	blocks    map[int64]*fBlock
	last      *fBlock
	pending   []*fPending
	cancelled []*fPending
	proposals int
}

func (bm *fBM) GetLastBlock() (module.Block, error) { return bm.last, nil }
func (bm *fBM) GetBlockByHeight(h int64) (module.Block, error) {
	if b, ok := bm.blocks[h]; ok {
		return b, nil
	}
	return nil, fmt.Errorf("no block %d", h)
}
func (bm *fBM) GetGenesisData() (module.Block, module.CommitVoteSet, error) { return nil, nil, nil }
func (bm *fBM) WaitForTransaction(parentID []byte, cb func()) (bool, error) { return false, nil }
func (bm *fBM) Term()                                                       {}
func (bm *fBM) NewBlockDataFromReader(r io.Reader) (module.BlockData, error) {
	raw, err := io.ReadAll(r)
	if err != nil {
		return nil, err
	}
	var h fBlockHeader
	rest, err := codec.BC.UnmarshalFromBytes(raw, &h)
	if err != nil {
		return nil, err
	}
	if len(rest) != 0 {
		return nil, fmt.Errorf("trailing bytes")
	}
	return newFBlock(h, bm.node.env.vl), nil
}
func (bm *fBM) live() []*fPending {
	keep := bm.pending[:0]
	for _, p := range bm.pending {
		if !p.canceled && !p.done {
			keep = append(keep, p)
		} else if p.canceled && !p.done {
			bm.cancelled = append(bm.cancelled, p)
		}
	}
	bm.pending = keep
	return keep
}

// zombies are requests the engine cancelled but whose callback may already have been
// dispatched by the (real) block manager when Cancel() was called: the engine has to
// tolerate such a late callback. Only the two most recent ones are kept.
func (bm *fBM) zombies() []*fPending {
	var z []*fPending
	for _, p := range bm.cancelled {
		if !p.done {
			z = append(z, p)
		}
	}
	if len(z) > 2 {
		z = z[len(z)-2:]
	}
	return z
}

func (bm *fBM) Propose(parentID []byte, votes module.CommitVoteSet, cb func(module.BlockCandidate, error)) (module.Canceler, error) {
	bm.proposals++
	blk := newFBlock(fBlockHeader{
		Height:    bm.last.Height() + 1,
		PrevID:    parentID,
		Proposer:  bm.node.w.Address().Bytes(),
		Timestamp: bm.node.env.blockTS(bm.node.idx, bm.node.totalProposals+bm.proposals),
		Tag:       fmt.Sprintf("n%d.p%d", bm.node.idx, bm.node.totalProposals+bm.proposals),
	}, bm.node.env.vl)
	p := &fPending{kind: "propose", blk: blk, cb: cb}
	bm.pending = append(bm.pending, p)
	return p, nil
}
func (bm *fBM) ImportBlock(bd module.BlockData, flags int, cb func(module.BlockCandidate, error)) (module.Canceler, error) {
	blk, ok := bd.(*fBlock)
	if !ok {
		return nil, fmt.Errorf("foreign block type %T", bd)
	}
	p := &fPending{kind: "import", blk: blk, force: flags&module.ImportByForce != 0, cb: cb}
	bm.pending = append(bm.pending, p)
	return p, nil
}
func (bm *fBM) Finalize(bc module.BlockCandidate) error {
	blk := bc.(*fBlock)
	if blk.Height() != bm.last.Height()+1 || !bytes.Equal(blk.PrevID(), bm.last.ID()) {
		return fmt.Errorf("finalize: not a child of last block")
	}
	// Finalize is an externally visible, durable effect (the real block manager
	// writes the block to its database before it returns): a crash can fall
	// right before it, and what was finalized survives a restart.
	bm.node.effect("finalize")
	bm.blocks[blk.Height()] = blk
	bm.last = blk
	bm.node.durable = append(bm.node.durable, blk)
	bm.node.finalized = append(bm.node.finalized, hex.EncodeToString(blk.ID()))
	bm.node.finalizedRound = append(bm.node.finalizedRound, bm.node.cs.commitRound)
	ok, why := bm.node.recountCert(blk)
	if len(bm.node.finalized) == 1 {
		bm.node.finCertOK, bm.node.finCertWhy = ok, why
	} else if !ok && bm.node.finCertOK {
		bm.node.finCertOK, bm.node.finCertWhy = false, fmt.Sprintf("height %d: %s", blk.Height(), why)
	}
	return nil
}

// ---------------------------------------------------------------- network

type fSent struct {
	Proto uint16
	Bytes []byte
}

type fPH struct {
	node *csNode
	name string
}

func (ph *fPH) record(pi module.ProtocolInfo, b []byte) {
	if ph.name != "consensus" {
		return
	}
	ph.node.effect("send")
	cp := append([]byte(nil), b...)
	ph.node.observeOwn(pi.Uint16(), cp)
	ph.node.out = append(ph.node.out, fSent{pi.Uint16(), cp})
	if ph.node.onSend != nil {
		ph.node.onSend(pi.Uint16(), cp)
	}
}
func (ph *fPH) Broadcast(pi module.ProtocolInfo, b []byte, bt module.BroadcastType) error {
	ph.record(pi, b)
	return nil
}
func (ph *fPH) Multicast(pi module.ProtocolInfo, b []byte, role module.Role) error {
	ph.record(pi, b)
	return nil
}
func (ph *fPH) Unicast(pi module.ProtocolInfo, b []byte, id module.PeerID) error {
	ph.record(pi, b)
	return nil
}
func (ph *fPH) GetPeers() []module.PeerID { return nil }

type fNM struct {
	module.NetworkManager
	node *csNode
}

func (nm *fNM) RegisterReactor(name string, pi module.ProtocolInfo, reactor module.Reactor, piList []module.ProtocolInfo, priority uint8, policy module.NotRegisteredProtocolPolicy) (module.ProtocolHandler, error) {
	return &fPH{nm.node, name}, nil
}
func (nm *fNM) RegisterReactorForStreams(name string, pi module.ProtocolInfo, reactor module.Reactor, piList []module.ProtocolInfo, priority uint8, policy module.NotRegisteredProtocolPolicy) (module.ProtocolHandler, error) {
	return &fPH{nm.node, name}, nil
}
func (nm *fNM) UnregisterReactor(reactor module.Reactor) error                  { return nil }
func (nm *fNM) SetRole(version int64, role module.Role, peers ...module.PeerID) {}
func (nm *fNM) GetPeers() []module.PeerID                                       { return nil }
func (nm *fNM) GetPeersByRole(role module.Role) []module.PeerID                 { return nil }

// ---------------------------------------------------------------- service manager / regulator / chain

type fSM struct {
	module.ServiceManager
	node *csNode
}

func (sm *fSM) GetMembers(result []byte) (module.MemberList, error) { return nil, nil }
func (sm *fSM) GetMinimizeBlockGen(result []byte) bool              { return false }
func (sm *fSM) GetRoundLimit(result []byte, vl int) int64           { return 0 }
func (sm *fSM) GetRevision(result []byte) module.Revision {
	return module.Revision(sm.node.env.revision)
}
func (sm *fSM) SendPatch(patch module.Patch) error { return nil }
func (sm *fSM) SendDoubleSignReport(result []byte, vh []byte, data []module.DoubleSignData) error {
	sm.node.dsReports++
	return nil
}
func (sm *fSM) BTPNetworkTypeFromResult(result []byte, ntid int64) (module.BTPNetworkType, error) {
	return nil, fmt.Errorf("no btp")
}

type fRegulator struct{}

func (fRegulator) MaxTxCount() int                                             { return 1000 }
func (fRegulator) OnPropose(now time.Time)                                     {}
func (fRegulator) CommitTimeout() time.Duration                                { return time.Second }
func (fRegulator) MinCommitTimeout() time.Duration                             { return 200 * time.Millisecond }
func (fRegulator) OnTxExecution(count int, ed time.Duration, fd time.Duration) {}
func (fRegulator) SetBlockInterval(i time.Duration, d time.Duration)           {}

type fChain struct {
	module.Chain
	node *csNode
	dbs  db.Database
	lg   log.Logger
}

func (c *fChain) MaxBlockTxBytes() int                              { return 1024 * 1024 }
func (c *fChain) Database() db.Database                             { return c.dbs }
func (c *fChain) CommitVoteSetDecoder() module.CommitVoteSetDecoder { return NewCommitVoteSetFromBytes }
func (c *fChain) ServiceManager() module.ServiceManager             { return c.node.sm }
func (c *fChain) MetricContext() context.Context                    { return nil }
func (c *fChain) CID() int                                          { return 1 }
func (c *fChain) NID() int                                          { return 1 }
func (c *fChain) Logger() log.Logger                                { return c.lg }
func (c *fChain) NetworkManager() module.NetworkManager             { return c.node.nm }
func (c *fChain) BlockManager() module.BlockManager                 { return c.node.bm }
func (c *fChain) Regulator() module.Regulator                       { return fRegulator{} }
func (c *fChain) Wallet() module.Wallet                             { return c.node.w }
func (c *fChain) WalletFor(dsa string) module.BaseWallet            { return nil }

// ---------------------------------------------------------------- record-level WAL

// memWAL keeps, per log id, the durable (synced) records and the records
// written but not yet synced. A crash keeps exactly the durable ones
// (byte-level tears are the business of C02/C03 over crashfs).
type memWAL struct {
	synced   map[string][][]byte
	unsynced map[string][][]byte
	node     *csNode
}

func newMemWAL() *memWAL {
	return &memWAL{synced: map[string][][]byte{}, unsynced: map[string][][]byte{}}
}

type memWALReader struct{ data [][]byte }

func (r *memWALReader) ReadBytes() ([]byte, error) {
	if len(r.data) == 0 {
		return nil, io.EOF
	}
	b := r.data[0]
	r.data = r.data[1:]
	return b, nil
}
func (r *memWALReader) Close() error          { return nil }
func (r *memWALReader) CloseAndRepair() error { return nil }

type memWALWriter struct {
	w  *memWAL
	id string
}

func (w *memWALWriter) WriteBytes(b []byte) (int, error) {
	if w.w.node != nil {
		w.w.node.effect("wal-write")
	}
	w.w.unsynced[w.id] = append(w.w.unsynced[w.id], append([]byte(nil), b...))
	return len(b), nil
}
func (w *memWALWriter) Sync() error {
	if w.w.node != nil {
		w.w.node.effect("wal-sync")
	}
	w.w.synced[w.id] = append(w.w.synced[w.id], w.w.unsynced[w.id]...)
	w.w.unsynced[w.id] = nil
	return nil
}
func (w *memWALWriter) Close() error { return nil }

func (w *memWAL) OpenForRead(id string) (WALReader, error) {
	id = path.Base(id)
	return &memWALReader{data: append([][]byte(nil), w.synced[id]...)}, nil
}
func (w *memWAL) OpenForWrite(id string, cfg *WALConfig) (WALWriter, error) {
	return &memWALWriter{w, path.Base(id)}, nil
}
func (w *memWAL) crash() {
	w.unsynced = map[string][][]byte{}
}

// ---------------------------------------------------------------- environment and node

type csEnv struct {
	n          int
	wallets    []module.Wallet
	vl         module.ValidatorList
	genesis    *fBlock
	revision   int
	t0         time.Time
	walFactory func(node *csNode) WALManager // nil = memWAL
}

func (e *csEnv) blockTS(idx, seq int) int64 {
	return common.UnixMicroFromTime(e.t0) + int64(idx*10+seq)
}

func newCSEnv(n int) *csEnv {
	e := &csEnv{n: n, t0: time.Unix(1700000000, 0)}
	var vs []module.Validator
	for i := 0; i < n; i++ {
		sk := bytes.Repeat([]byte{byte(0x11 * (i + 1))}, 32)
		pk, err := crypto.ParsePrivateKey(sk)
		if err != nil {
			panic(err)
		}
		w, err := wallet.NewFromPrivateKey(pk)
		if err != nil {
			panic(err)
		}
		e.wallets = append(e.wallets, w)
		v, err := state.ValidatorFromAddress(w.Address())
		if err != nil {
			panic(err)
		}
		vs = append(vs, v)
	}
	vl, err := state.ValidatorSnapshotFromSlice(db.NewMapDB(), vs)
	if err != nil {
		panic(err)
	}
	e.vl = vl
	e.genesis = newFBlock(fBlockHeader{Height: 0, Tag: "genesis", Timestamp: common.UnixMicroFromTime(e.t0) - 1000}, vl)
	return e
}

type csNode struct {
	env   *csEnv
	idx   int
	w     module.Wallet
	chain *fChain
	bm    *fBM
	nm    *fNM
	sm    *fSM
	wal   WALManager
	mwal  *memWAL
	world *vclock.World
	cs    *consensus

	out            []fSent
	onSend         func(proto uint16, b []byte)
	finalized      []string
	finalizedRound []int32
	durable        []*fBlock // finalized chain above genesis: the block store survives restarts
	panicked       string
	dsReports      int
	finCertOK      bool
	finCertWhy     string

	// C02 bookkeeping, kept by the harness across restarts
	signed      map[string]string // (kind,height,round) of every own signed vote/proposal handed to the network -> hash of the signed content
	equivocated string            // first conflict found
	notDurable  string            // first own vote/proposal sent while its WAL record was not durable
	// crash injection inside a step: effects are WAL writes, WAL syncs and network sends
	effects        int
	failAt         int // crash (panic with errInjectedCrash) before the failAt-th effect of the current step; 0 = off
	crashedInStep  bool
	voteKeys       map[*VoteMessage]string
	resigned       int                      // own votes/proposals handed to the network after a restart
	durableCheck   func(record []byte) bool // is this round-WAL record durable right now?
	restarts       int
	totalProposals int
}

var csDebug = os.Getenv("VERIF_DEBUG") != ""

type injectedCrash struct{}

var errInjectedCrash = injectedCrash{}

// effect is called by the fakes before every externally visible effect of the
// engine (WAL write, WAL sync, network send).
func (n *csNode) effect(kind string) {
	n.effects++
	if n.failAt > 0 && n.effects == n.failAt {
		n.failAt = 0
		panic(errInjectedCrash)
	}
}

var csLogger = func() log.Logger {
	l := log.New()
	l.SetLevel(log.PanicLevel)
	return l
}()

func newCSNode(env *csEnv, idx int) *csNode {
	n := &csNode{env: env, idx: idx, w: env.wallets[idx]}
	n.world = vclock.NewWorld(env.t0)
	if env.walFactory != nil {
		n.wal = env.walFactory(n)
	} else {
		n.mwal = newMemWAL()
		n.mwal.node = n
		n.wal = n.mwal
		n.durableCheck = func(rec []byte) bool {
			for _, r := range n.mwal.synced["round"] {
				if bytes.Equal(r, rec) {
					return true
				}
			}
			return false
		}
	}
	n.boot()
	return n
}

// boot builds a fresh engine on the node's persistent parts (WAL) and starts it.
func (n *csNode) boot() {
	n.chain = &fChain{node: n, dbs: db.NewMapDB(), lg: csLogger}
	n.nm = &fNM{node: n}
	n.sm = &fSM{node: n}
	n.bm = &fBM{node: n, blocks: map[int64]*fBlock{0: n.env.genesis}, last: n.env.genesis}
	for _, b := range n.durable {
		n.bm.blocks[b.Height()] = b
		n.bm.last = b
	}
	vclock.Use(n.world)
	n.cs = New(n.chain, "wal", n.wal, nil, nil, nil, 0)
	n.guard(func() {
		if err := n.cs.Start(); err != nil {
			panic(fmt.Sprintf("Start: %v", err))
		}
	})
}

// guard runs fn against this node's engine, converting an engine panic into a
// recorded observation (C01 oracle (c)).
func (n *csNode) guard(fn func()) {
	vclock.Use(n.world)
	defer func() {
		if x := recover(); x != nil {
			if _, ok := x.(injectedCrash); ok {
				n.crashedInStep = true
				return
			}
			if n.panicked == "" {
				n.panicked = fmt.Sprint(x)
			}
			if csDebug {
				fmt.Printf("engine panic node %d: %v\n%s\n", n.idx, x, debug.Stack())
			}
			// the engine mutex may be left locked by the panic: the node is dead
		}
	}()
	fn()
}

func (n *csNode) dead() bool { return n.panicked != "" }

// deliver hands a wire message to the engine exactly as the network layer does.
func (n *csNode) deliver(proto uint16, b []byte, from module.PeerID) {
	if n.dead() {
		return
	}
	if from == nil {
		from = network.NewPeerIDFromAddress(n.env.wallets[(n.idx+1)%n.env.n].Address())
	}
	n.guard(func() {
		_, _ = n.cs.OnReceive(module.ProtocolInfo(proto), b, from)
	})
}

func (n *csNode) pendingTimers() []*vclock.Timer {
	var out []*vclock.Timer
	for _, t := range n.world.Pending() {
		if t.D == configRoundStateMessageInterval {
			continue // gossip syncer's periodic round-state timer: inert without peers
		}
		out = append(out, t)
	}
	return out
}

func (n *csNode) fireTimer() bool {
	if n.dead() {
		return false
	}
	ts := n.pendingTimers()
	if len(ts) == 0 {
		return false
	}
	n.guard(func() { n.world.Fire(ts[0]) })
	return true
}

// complete finishes the k-th live block-manager request. Import succeeds unless
// the block is marked Bad.
func (n *csNode) complete(k int) bool {
	if n.dead() {
		return false
	}
	live := n.bm.live()
	if k >= len(live) {
		return false
	}
	p := live[k]
	p.done = true
	n.guard(func() {
		switch p.kind {
		case "propose":
			p.cb(p.blk, nil)
		case "import":
			if p.blk.hdr.Bad || p.blk.Height() != n.bm.last.Height()+1 || !bytes.Equal(p.blk.PrevID(), n.bm.last.ID()) {
				p.cb(nil, fmt.Errorf("invalid block"))
			} else {
				p.cb(p.blk, nil)
			}
		}
	})
	return true
}

// completeLate runs the callback of the k-th cancelled-but-dispatched request.
func (n *csNode) completeLate(k int) bool {
	if n.dead() {
		return false
	}
	n.bm.live()
	z := n.bm.zombies()
	if k >= len(z) {
		return false
	}
	p := z[k]
	p.done = true
	n.guard(func() {
		switch p.kind {
		case "propose":
			p.cb(p.blk, nil)
		case "import":
			if p.blk.hdr.Bad || p.blk.Height() != n.bm.last.Height()+1 || !bytes.Equal(p.blk.PrevID(), n.bm.last.ID()) {
				p.cb(nil, fmt.Errorf("invalid block"))
			} else {
				p.cb(p.blk, nil)
			}
		}
	})
	return true
}

// crashRestart models power loss: volatile state, timers and pending
// block-manager requests vanish; the WAL keeps what was synced; the clock moves
// on so that anything re-signed after the restart is distinguishable.
func (n *csNode) crashRestart() {
	n.restarts++
	n.totalProposals += n.bm.proposals
	n.world.DropAll()
	if n.mwal != nil {
		n.mwal.crash()
	}
	n.world.NowT = n.world.NowT.Add(3 * time.Second)
	n.panicked = ""
	n.voteKeys = nil
	n.boot()
}

func (n *csNode) takeOut() []fSent {
	o := n.out
	n.out = nil
	return o
}

// ---------------------------------------------------------------- projection

func shortHex(b []byte) string {
	if len(b) > 5 {
		b = b[:5]
	}
	return hex.EncodeToString(b)
}

func bpsProj(b *blockPartSet) string {
	if b.PartSet == nil {
		if b.block != nil {
			return "noPS+blk"
		}
		return "-"
	}
	id := b.ID()
	return fmt.Sprintf("%s/%d:%s:%v:%v", shortHex(id.Hash), id.Count, b.GetMask().String(), b.block != nil, b.validatedBlock != nil)
}

// voteKey identifies a stored vote by its FULL wire form (signature and every field, also the
// ones the signature does not cover): two votes with the same signed content but different
// encodings (e.g. rebuilt from a commit vote list) are written differently to the WAL later.
func (n *csNode) voteKey(m *VoteMessage) string {
	if m == nil {
		return "."
	}
	if k, ok := n.voteKeys[m]; ok {
		return k
	}
	bs, err := msgCodec.MarshalToBytes(m)
	if err != nil {
		bs = m.hash()
	}
	k := shortHex(crypto.SHA3Sum256(bs))
	if n.voteKeys == nil {
		n.voteKeys = map[*VoteMessage]string{}
	}
	n.voteKeys[m] = k
	return k
}

// projection is the canonical local state of the engine: everything its future
// behaviour can depend on (checked differentially by the explorers: a key that
// is reached through two different histories must have equal successors).
func (n *csNode) projection(knownPS [][]byte) string {
	if n.dead() {
		return "PANIC:" + n.panicked
	}
	cs := n.cs
	var sb strings.Builder
	fmt.Fprintf(&sb, "H%d R%d S%d lk%d[%s] pol%d cur[%s] cr%d nu%v sy%v|", cs.height, cs.round, cs.step,
		cs.lockedRound, bpsProj(&cs.lockedBlockParts), cs.proposalPOLRound, bpsProj(&cs.currentBlockParts),
		cs.commitRound, cs.consumedNonunicast, cs.syncing)
	rounds := make([]int, 0, len(cs.hvs._votes))
	for r := range cs.hvs._votes {
		rounds = append(rounds, int(r))
	}
	sort.Ints(rounds)
	for _, r := range rounds {
		rv := cs.hvs._votes[int32(r)]
		empty := true
		for t := 0; t < int(numberOfVoteTypes); t++ {
			if rv[t] != nil && rv[t].count > 0 {
				empty = false
			}
		}
		if empty {
			continue
		}
		fmt.Fprintf(&sb, "r%d", r)
		for t := 0; t < int(numberOfVoteTypes); t++ {
			sb.WriteByte('{')
			if rv[t] != nil {
				for _, m := range rv[t].msgs {
					sb.WriteString(n.voteKey(m))
					sb.WriteByte(',')
				}
			}
			sb.WriteByte('}')
		}
	}
	sb.WriteString("|T")
	for _, t := range n.pendingTimers() {
		fmt.Fprintf(&sb, "%d,", t.D/time.Millisecond)
	}
	sb.WriteString("|B")
	for _, p := range n.bm.live() {
		fmt.Fprintf(&sb, "%s%v:%s,", p.kind[:1], p.force, shortHex(p.blk.ID()))
	}
	sb.WriteString("|Z")
	for _, p := range n.bm.zombies() {
		fmt.Fprintf(&sb, "%s%v:%s,", p.kind[:1], p.force, shortHex(p.blk.ID()))
	}
	sb.WriteString("|C")
	for _, h := range knownPS {
		if cs.bpmCache.Get(h, 0) != nil {
			sb.WriteString(shortHex(h))
			sb.WriteByte(',')
		}
	}
	fmt.Fprintf(&sb, "|npt%v", cs.nextProposeTime.After(n.world.NowT))
	fmt.Fprintf(&sb, "|now%d|prop%d", n.world.NowT.Sub(n.env.t0)/time.Second, n.totalProposals+n.bm.proposals)
	if n.mwal != nil {
		sb.WriteString("|W")
		for _, id := range []string{"round", "lock", "commit"} {
			fmt.Fprintf(&sb, "%s:", id[:1])
			for _, r := range n.mwal.synced[id] {
				sb.WriteString(shortHex(crypto.SHA3Sum256(canonWALRecord(r))))
				sb.WriteByte(',')
			}
			sb.WriteByte('/')
			for _, r := range n.mwal.unsynced[id] {
				sb.WriteString(shortHex(crypto.SHA3Sum256(canonWALRecord(r))))
				sb.WriteByte(',')
			}
		}
	}
	if len(n.finalized) > 0 {
		fmt.Fprintf(&sb, "|FIN%v", n.finalized)
	}
	fmt.Fprintf(&sb, "|S%s|E%s|D%s", n.signedProj(), n.equivocated, n.notDurable)
	return sb.String()
}

func sha3(b []byte) []byte { return crypto.SHA3Sum256(b) }

// canonWALRecord is the form of a WAL record the projection hashes.  A vote
// list record encodes each prototype's NTSVoteBases as written in memory, and
// the engine holds both nil and zero-length slices for "no NTS votes"
// (votebase.go normalises the two for RoundDecisionDigest, and a VoteMessage
// encodes both as "absent"); the record read back is the same list of votes
// either way, so the two encodings are one state.  Anything that is not a
// well-formed vote list record is hashed as written.
func canonWALRecord(r []byte) []byte {
	if len(r) < 2 || binary.BigEndian.Uint16(r[:2]) != uint16(ProtoVoteList) {
		return r
	}
	m, err := UnmarshalMessage(uint16(ProtoVoteList), r[2:])
	if err != nil {
		return r
	}
	vlm, ok := m.(*VoteListMessage)
	if !ok || vlm.VoteList == nil {
		return r
	}
	for i := range vlm.VoteList.Prototypes {
		if len(vlm.VoteList.Prototypes[i].NTSVoteBases) == 0 {
			vlm.VoteList.Prototypes[i].NTSVoteBases = nil
		}
	}
	for i := range vlm.VoteList.VoteItems {
		if len(vlm.VoteList.VoteItems[i].NTSDProofParts) == 0 {
			vlm.VoteList.VoteItems[i].NTSDProofParts = nil
		}
	}
	b, err := msgCodec.MarshalToBytes(vlm)
	if err != nil {
		return r
	}
	return append(append([]byte(nil), r[:2]...), b...)
}

// recountCert is the harness' own count of the commit certificate the engine
// holds when it calls Finalize: precommits of its commit round, re-decoded from
// their wire form (so no cached key/hash of the engine is trusted), each signed
// by the validator of its slot over exactly this block and part set.
func (n *csNode) recountCert(blk *fBlock) (bool, string) {
	cs := n.cs
	votes := cs.hvs.votesFor(cs.commitRound, VoteTypePrecommit)
	psid := blk.partSet().ID()
	count := 0
	for idx, m := range votes.msgs {
		if m == nil {
			continue
		}
		raw, err := msgCodec.MarshalToBytes(m)
		if err != nil {
			continue
		}
		m2 := newVoteMessage()
		if _, err := msgCodec.UnmarshalFromBytes(raw, m2); err != nil {
			continue
		}
		if m2.Verify(cs) != nil {
			continue
		}
		v, ok := n.env.vl.Get(idx)
		if !ok || m2.address() == nil || !m2.address().Equal(v.Address()) {
			continue
		}
		if m2.Height != blk.Height() || m2.Round != cs.commitRound || m2.Type != VoteTypePrecommit {
			continue
		}
		if !bytes.Equal(m2.BlockID, blk.ID()) || m2.BlockPartSetIDAndNTSVoteCount == nil || !m2.BlockPartSetIDAndNTSVoteCount.ID().Equal(psid) {
			continue
		}
		count++
	}
	if 3*count > 2*n.env.n {
		return true, ""
	}
	return false, fmt.Sprintf("only %d of %d valid precommits for the finalized block in round %d", count, n.env.n, cs.commitRound)
}

// observeOwn is the C02 oracle: every vote or proposal signed by this validator
// that reaches the network is remembered (across restarts); a second one for the
// same (type, height, round) with different signed content is an equivocation,
// and a message whose WAL record is not durable at the moment of sending
// violates "remembered before sent".
func (n *csNode) observeOwn(proto uint16, b []byte) {
	if proto != uint16(ProtoVote) && proto != uint16(ProtoProposal) {
		return
	}
	m, err := UnmarshalMessage(proto, b)
	if err != nil {
		return
	}
	var key, content string
	switch x := m.(type) {
	case *VoteMessage:
		if x.address() == nil || !x.address().Equal(n.w.Address()) {
			return
		}
		key = fmt.Sprintf("%v/h%d/r%d", x.Type, x.Height, x.Round)
		content = hex.EncodeToString(x.hash())
	case *ProposalMessage:
		if x.address() == nil || !x.address().Equal(n.w.Address()) {
			return
		}
		key = fmt.Sprintf("proposal/h%d/r%d", x.Height, x.Round)
		content = hex.EncodeToString(x.hash())
	}
	if n.signed == nil {
		n.signed = map[string]string{}
	}
	if old, ok := n.signed[key]; ok && old != content && n.equivocated == "" {
		n.equivocated = fmt.Sprintf("%s signed twice with different content (%s… vs %s…) after %d restart(s)", key, old[:10], content[:10], n.restarts)
	}
	n.signed[key] = content
	if n.restarts > 0 {
		n.resigned++
	}
	if n.durableCheck != nil && n.notDurable == "" {
		rec := make([]byte, 2+len(b))
		rec[0], rec[1] = byte(proto>>8), byte(proto)
		copy(rec[2:], b)
		if !n.durableCheck(rec) {
			n.notDurable = fmt.Sprintf("%s handed to the network while its WAL record is not durable", key)
		}
	}
}

func (n *csNode) signedProj() string {
	ks := make([]string, 0, len(n.signed))
	for k, v := range n.signed {
		ks = append(ks, k+"="+v[:8])
	}
	sort.Strings(ks)
	return strings.Join(ks, ",")
}

// fBR is a fast-sync block result as a (possibly Byzantine) peer would deliver it.
type fBR struct {
	blk      module.BlockData
	votes    []byte
	consumed bool
	rejected bool
}

func (b *fBR) Block() module.BlockData { return b.blk }
func (b *fBR) Votes() []byte           { return b.votes }
func (b *fBR) Consume()                { b.consumed = true }
func (b *fBR) Reject()                 { b.rejected = true }

// deliverBlockResult hands a block + commit vote list to the engine through the
// same entry point the fast-sync client uses.
func (n *csNode) deliverBlockResult(raw []byte, votes []byte) {
	if n.dead() {
		return
	}
	blk, err := n.bm.NewBlockDataFromReader(bytes.NewReader(raw))
	if err != nil {
		return
	}
	n.guard(func() { n.cs.ReceiveBlockResult(&fBR{blk: blk, votes: votes}) })
}
