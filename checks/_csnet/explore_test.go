//go:build verif

package consensus

// Compositional explicit-state explorer over real engines (DESIGN.md §2.5).
//
// A node's behaviour depends only on its own event history, so the explorer keeps
// a memo table (local state, event) -> (local state', messages sent) that is
// FILLED BY RUNNING THE REAL ENGINE: the shortest known local history of the
// source state is replayed on a fresh engine (or a still-live instance is
// reused), the event is applied, and the engine is projected to a canonical key.
// The global search (tuple of local states + message bag + crash budget) runs
// over that table and touches a real engine only on a miss.
//
// Soundness of the projection is checked, not assumed: when a local state has
// been reached through two different histories, every later miss from it is
// executed from BOTH histories and the results compared.

import (
	"encoding/hex"
	"fmt"
	"os"
	"sort"
	"strings"

	"github.com/icon-project/goloop/module"
)

// evBlockResult-k delivers block-result descriptor k (a Byzantine peer answering a block
// fetch with a block and a commit vote list of its choosing)
const evBlockResult = int32(-1000)

type brDesc struct {
	block string // block name
	round int32
	mask  uint8 // signers whose precommits for (round, block) are put into the commit vote list
}

const (
	evTimer    = int32(-1)
	evCrash    = int32(-3)
	evComplete = int32(-10) // evComplete-k completes the k-th live bm request (k < 10)
	evLate     = int32(-20) // evLate-k runs the callback of the k-th cancelled-but-dispatched bm request (k < 10)
)

type xMsg struct {
	Proto uint16
	Bytes []byte
	Desc  string
	// decoded summary (for menus, traces and oracles)
	Kind   string // proposal | part | prevote | precommit | votelist | other
	Height int64
	Round  int32
	Signer int // validator index or -1
	Block  string
}

type msgTable struct {
	env      *csEnv
	byKey    map[string]int
	msgs     []*xMsg
	blocks   map[string]*fBlock // named blocks (for block-result events)
	psIDs    [][]byte           // known part-set hashes (for the bpmCache projection)
	blkNames map[string]string
}

func newMsgTable(env *csEnv) *msgTable {
	return &msgTable{env: env, byKey: map[string]int{}, blkNames: map[string]string{}}
}

func (mt *msgTable) nameBlock(id []byte, name string) { mt.blkNames[hex.EncodeToString(id)] = name }

func (mt *msgTable) registerBlock(name string, b *fBlock) {
	if mt.blocks == nil {
		mt.blocks = map[string]*fBlock{}
	}
	mt.blocks[name] = b
}

// precommitOf returns the id of the first known precommit of signer for (round, block), or -1.
func (mt *msgTable) precommitOf(signer int, round int32, block string) int32 {
	for id, m := range mt.msgs {
		if m.Kind == "precommit" && m.Signer == signer && m.Round == round && m.Block == block {
			return int32(id)
		}
	}
	return -1
}

// namePS names a part-set hash (proposals and block parts carry it, not the block id).
func (mt *msgTable) namePS(hash []byte, name string) {
	mt.blkNames["ps:"+hex.EncodeToString(hash)] = name
}

func (mt *msgTable) psName(hash []byte) string {
	if n, ok := mt.blkNames["ps:"+hex.EncodeToString(hash)]; ok {
		return n
	}
	return shortHex(hash)
}

func (mt *msgTable) blockName(id []byte) string {
	if id == nil {
		return "nil"
	}
	if n, ok := mt.blkNames[hex.EncodeToString(id)]; ok {
		return n
	}
	return shortHex(id)
}

func (mt *msgTable) signerIndex(a module.Address) int {
	if a == nil {
		return -1
	}
	return mt.env.vl.IndexOf(a)
}

func (mt *msgTable) intern(proto uint16, b []byte) int {
	k := string([]byte{byte(proto >> 8), byte(proto)}) + string(b)
	if id, ok := mt.byKey[k]; ok {
		return id
	}
	m := &xMsg{Proto: proto, Bytes: append([]byte(nil), b...), Kind: "other", Signer: -1}
	if dm, err := UnmarshalMessage(proto, b); err == nil {
		switch x := dm.(type) {
		case *ProposalMessage:
			m.Kind, m.Height, m.Round = "proposal", x.Height, x.Round
			m.Signer = mt.signerIndex(x.address())
			m.Block = mt.psName(x.BlockPartSetID.Hash)
			m.Desc = fmt.Sprintf("proposal{V%d h%d r%d %s pol=%d}", m.Signer, x.Height, x.Round, m.Block, x.POLRound)
		case *BlockPartMessage:
			m.Kind, m.Height = "part", x.Height
			if p, err := NewPart(x.BlockPart); err == nil {
				_ = p
			}
			var pb partBinary
			if _, err := msgCodec.UnmarshalFromBytes(x.BlockPart, &pb); err == nil && len(pb.Proof) > 0 {
				h := sha3(pb.Proof[0])
				found := false
				for _, e := range mt.psIDs {
					if string(e) == string(h) {
						found = true
					}
				}
				if !found {
					mt.psIDs = append(mt.psIDs, h)
				}
				m.Block = mt.psName(h)
			}
			m.Desc = fmt.Sprintf("part{h%d i%d %s}", x.Height, x.Index, m.Block)
		case *VoteMessage:
			if x.Type == VoteTypePrevote {
				m.Kind = "prevote"
			} else {
				m.Kind = "precommit"
			}
			m.Height, m.Round = x.Height, x.Round
			m.Signer = mt.signerIndex(x.address())
			if x.BlockPartSetIDAndNTSVoteCount != nil {
				m.Block = mt.blockName(x.BlockID)
			} else {
				m.Block = "nil"
			}
			m.Desc = fmt.Sprintf("%s{V%d h%d r%d %s ts+%d}", m.Kind, m.Signer, x.Height, x.Round, m.Block, x.Timestamp-mt.env.blockTS(0, 0))
		case *VoteListMessage:
			m.Kind = "votelist"
			var parts []string
			for i := 0; i < x.VoteList.Len(); i++ {
				v := x.VoteList.Get(i)
				m.Height, m.Round = v.Height, v.Round
				parts = append(parts, fmt.Sprintf("V%d:%s", mt.signerIndex(v.address()), mt.blockName(v.BlockID)))
			}
			m.Desc = fmt.Sprintf("votelist{h%d r%d %s}", m.Height, m.Round, strings.Join(parts, ","))
		}
	}
	if m.Desc == "" {
		m.Desc = fmt.Sprintf("msg{proto=%#x len=%d}", proto, len(b))
	}
	id := len(mt.msgs)
	mt.msgs = append(mt.msgs, m)
	mt.byKey[k] = id
	return id
}

// ---------------------------------------------------------------- local states and memo

type lState struct {
	id       int32
	key      string
	hist     []hEv  // shortest known local history
	alt      []hEv  // a different history reaching the same key (for the differential check)
	fin      string // finalized block id at height 1 ("" if none)
	finRound int32
	progress int64    // (height, round, step) packed
	fins     []string // finalized block ids, height 1.. (the explored heights)
	finRnds  []int32
	finOK    bool // independent recount of the commit certificate succeeded
	finWhy   string
	panicked string
	equiv    string
	notDur   string
	restarts int
	resigned int
	round    int32
	step     int32
	locked   int32
	timers   int
	pend     int
	late     int
	terminal bool
}

// hEv is one local event: ev, optionally interrupted by a crash before its
// fail-th effect (followed by the restart).
type hEv struct{ ev, fail int32 }

type lStep struct {
	next    int32
	outs    []int32
	effects int // WAL writes + WAL syncs + network sends of the (uninterrupted) step
}

type lKey struct {
	s    int32
	ev   int32
	fail int32 // 0 = run the step to completion; k = crash before its k-th effect, then restart
}

type xStats struct {
	engineSteps  int // events applied on real engines (incl. replays)
	memoMiss     int
	rebuilds     int
	diffChecks   int
	diffMismatch int
	localStates  int
}

type explorer struct {
	env       *csEnv
	mt        *msgTable
	n         int
	correct   []int // indices of correct (real) nodes
	maxRound  int32
	maxHeight int // heights explored per validator (0 = 1): a validator that finalized that many is terminal

	states    [][]*lState         // per node
	byKey     []map[string]int32  // per node
	memo      []map[lKey]lStep    // per node
	live      []map[int32]*csNode // per node: live engine instances by current local state
	stats     xStats
	mismatch  []string
	menuIdx   map[int32]int
	brs       []brDesc
	diffEvery int             // run the differential projection check on every diffEvery-th memo miss (<=1: all)
	nodeHook  func(n *csNode) // applied to every fresh node (e.g. WAL factory side effects)
}

func newExplorer(env *csEnv, correct []int, maxRound int32) *explorer {
	x := &explorer{env: env, mt: newMsgTable(env), n: env.n, correct: correct, maxRound: maxRound}
	x.states = make([][]*lState, env.n)
	x.byKey = make([]map[string]int32, env.n)
	x.memo = make([]map[lKey]lStep, env.n)
	x.live = make([]map[int32]*csNode, env.n)
	for i := 0; i < env.n; i++ {
		x.byKey[i] = map[string]int32{}
		x.memo[i] = map[lKey]lStep{}
		x.live[i] = map[int32]*csNode{}
	}
	return x
}

func (x *explorer) freshNode(i int) *csNode {
	n := newCSNode(x.env, i)
	if x.nodeHook != nil {
		x.nodeHook(n)
	}
	return n
}

// applyEvent applies one local event to a live node and returns the ids of the
// messages it sent.
func (x *explorer) applyEvent(n *csNode, ev int32) []int32 {
	return x.applyEventFail(n, ev, 0)
}

// applyEventFail applies ev with a crash injected before the fail-th effect of
// the step (0 = none); an interrupted step is followed by the restart.
func (x *explorer) applyEventFail(n *csNode, ev int32, fail int32) []int32 {
	x.stats.engineSteps++
	n.effects, n.failAt, n.crashedInStep = 0, int(fail), false
	defer func() { n.failAt = 0 }()
	switch {
	case ev >= 0:
		m := x.mt.msgs[ev]
		n.deliver(m.Proto, m.Bytes, nil)
	case ev == evTimer:
		n.fireTimer()
	case ev == evCrash:
		n.crashRestart()
	case ev <= evBlockResult:
		raw, votes := x.blockResultBytes(x.brs[evBlockResult-ev])
		if raw != nil {
			n.deliverBlockResult(raw, votes)
		}
	case ev <= evLate:
		n.completeLate(int(evLate - ev))
	case ev <= evComplete:
		n.complete(int(evComplete - ev))
	}
	n.failAt = 0
	if n.crashedInStep {
		n.crashRestart()
	}
	var outs []int32
	for _, s := range n.takeOut() {
		outs = append(outs, int32(x.mt.intern(s.Proto, s.Bytes)))
	}
	return outs
}

// blockResultBytes builds the wire form of a block result: the block's raw bytes and
// a commit vote list made of the known precommits of the masked signers.
func (x *explorer) blockResultBytes(d brDesc) (raw []byte, votes []byte) {
	blk := x.mt.blocks[d.block]
	if blk == nil {
		return nil, nil
	}
	var msgs []*VoteMessage
	for sgn := 0; sgn < x.n; sgn++ {
		if d.mask&(1<<uint(sgn)) == 0 {
			continue
		}
		id := x.mt.precommitOf(sgn, d.round, d.block)
		if id < 0 {
			return nil, nil
		}
		m, err := UnmarshalMessage(x.mt.msgs[id].Proto, x.mt.msgs[id].Bytes)
		if err != nil {
			return nil, nil
		}
		msgs = append(msgs, m.(*VoteMessage))
	}
	cvl, err := newCommitVoteList(nil, msgs)
	if err != nil {
		return nil, nil
	}
	return blk.raw, cvl.Bytes()
}

// brEnabled: every precommit the descriptor needs exists (sent by a correct node, or in the Byzantine menu).
func (x *explorer) brEnabled(bag *bagSet, d brDesc, byz int) bool {
	if x.mt.blocks[d.block] == nil {
		return false
	}
	for sgn := 0; sgn < x.n; sgn++ {
		if d.mask&(1<<uint(sgn)) == 0 {
			continue
		}
		id := x.mt.precommitOf(sgn, d.round, d.block)
		if id < 0 {
			return false
		}
		if sgn != byz && !bag.has(id) {
			return false
		}
	}
	return true
}

func (x *explorer) describe(n *csNode) *lState {
	st := &lState{key: n.projection(x.mt.psIDs), panicked: n.panicked, equiv: n.equivocated, notDur: n.notDurable,
		restarts: n.restarts, resigned: n.resigned}
	if !n.dead() {
		st.round = n.cs.round
		st.step = int32(n.cs.step)
		st.locked = n.cs.lockedRound
		st.timers = len(n.pendingTimers())
		// how far the validator has come: the default scheduler lets the least advanced one time out first
		st.progress = (int64(n.cs.height)<<32 | int64(n.cs.round)<<8 | int64(n.cs.step))
		st.pend = len(n.bm.live())
		st.late = len(n.bm.zombies())
	}
	if len(n.finalized) > 0 {
		st.fin = n.finalized[0]
		st.finRound = n.finalizedRound[0]
		st.fins = append([]string(nil), n.finalized...)
		st.finRnds = append([]int32(nil), n.finalizedRound...)
		st.finOK, st.finWhy = n.finCertOK, n.finCertWhy
		// a validator is done when it has finalized the last explored height
		st.terminal = len(n.finalized) >= x.heights()
	}
	if n.dead() || st.round > x.maxRound {
		st.terminal = true
	}
	return st
}

func (x *explorer) heights() int {
	if x.maxHeight < 1 {
		return 1
	}
	return x.maxHeight
}

// finDesc names what a validator has finalized: "V0=B1@r0" or, with two explored
// heights, "V0=B1@r0+B5@r1".
func (x *explorer) finDesc(i int, st *lState) string {
	parts := make([]string, len(st.fins))
	for h, f := range st.fins {
		parts[h] = fmt.Sprintf("%s@r%d", x.mt.blockName(unhex(f)), st.finRnds[h])
	}
	return fmt.Sprintf("V%d=%s", i, strings.Join(parts, "+"))
}

// finConflict returns the first height (1-based) at which both validators have
// finalized and the blocks differ, 0 if there is none.
func finConflict(a, b *lState) int {
	for h := 0; h < len(a.fins) && h < len(b.fins); h++ {
		if a.fins[h] != b.fins[h] {
			return h + 1
		}
	}
	return 0
}

func (x *explorer) internState(i int, n *csNode, hist []hEv) *lState {
	d := x.describe(n)
	if id, ok := x.byKey[i][d.key]; ok {
		st := x.states[i][id]
		if st.alt == nil && !eqHist(st.hist, hist) {
			st.alt = append([]hEv(nil), hist...)
		}
		return st
	}
	d.id = int32(len(x.states[i]))
	d.hist = append([]hEv(nil), hist...)
	x.states[i] = append(x.states[i], d)
	x.byKey[i][d.key] = d.id
	x.stats.localStates++
	return d
}

func eqOuts(a, b []int32) bool {
	if len(a) != len(b) {
		return false
	}
	for i := range a {
		if a[i] != b[i] {
			return false
		}
	}
	return true
}

func eqHist(a, b []hEv) bool {
	if len(a) != len(b) {
		return false
	}
	for i := range a {
		if a[i] != b[i] {
			return false
		}
	}
	return true
}

func (x *explorer) initial(i int) *lState {
	n := x.freshNode(i)
	// messages sent during Start (none expected) are interned as well
	for _, s := range n.takeOut() {
		x.mt.intern(s.Proto, s.Bytes)
	}
	st := x.internState(i, n, nil)
	x.live[i][st.id] = n
	return st
}

func (x *explorer) rebuild(i int, hist []hEv) *csNode {
	x.stats.rebuilds++
	n := x.freshNode(i)
	n.takeOut()
	for _, h := range hist {
		x.applyEventFail(n, h.ev, h.fail)
	}
	return n
}

// step returns the memoised successor of local state s of node i under ev,
// executing the real engine on a miss.
func (x *explorer) step(i int, s int32, ev int32) lStep { return x.stepF(i, s, ev, 0) }

func (x *explorer) stepF(i int, s int32, ev int32, fail int32) lStep {
	k := lKey{s, ev, fail}
	if r, ok := x.memo[i][k]; ok {
		return r
	}
	x.stats.memoMiss++
	src := x.states[i][s]
	n := x.live[i][s]
	if n != nil {
		delete(x.live[i], s)
	} else {
		n = x.rebuild(i, src.hist)
	}
	outs := x.applyEventFail(n, ev, fail)
	effects := n.effects
	nh := append(append(make([]hEv, 0, len(src.hist)+1), src.hist...), hEv{ev, fail})
	dst := x.internState(i, n, nh)
	if len(x.live[i]) > 64 {
		for k := range x.live[i] {
			delete(x.live[i], k)
			break
		}
	}
	x.live[i][dst.id] = n
	res := lStep{next: dst.id, outs: outs, effects: effects}
	x.memo[i][k] = res
	// differential check of the projection
	if src.alt != nil && (x.diffEvery <= 1 || x.stats.memoMiss%x.diffEvery == 0) {
		x.stats.diffChecks++
		n2 := x.rebuild(i, src.alt)
		k2 := n2.projection(x.mt.psIDs)
		if k2 != src.key {
			x.stats.diffMismatch++
			x.mismatch = append(x.mismatch, fmt.Sprintf("node %d: alt history does not reproduce key\n hist=%v\n alt=%v\n key =%s\n key2=%s", i, src.hist, src.alt, src.key, k2))
		} else {
			outs2 := x.applyEventFail(n2, ev, fail)
			d2 := x.describe(n2)
			if d2.key != dst.key || !eqOuts(outs, outs2) {
				x.stats.diffMismatch++
				x.mismatch = append(x.mismatch, fmt.Sprintf("node %d: projection too coarse at ev=%s\n from key=%s\n via hist: %s outs=%v\n via alt : %s outs=%v", i, x.evName(ev), src.key, dst.key, outs, d2.key, outs2))
				if n.mwal != nil && n2.mwal != nil && os.Getenv("VERIF_DEBUG_WAL") != "" {
					for _, id := range []string{"round", "lock", "commit"} {
						fmt.Printf("DEBUGWAL %s hist: %x\nDEBUGWAL %s alt : %x\n", id, n.mwal.unsynced[id], id, n2.mwal.unsynced[id])
					}
				}
			}
		}
	}
	return res
}

func (x *explorer) evName(ev int32) string {
	switch {
	case ev >= 0:
		return "deliver " + x.mt.msgs[ev].Desc
	case ev == evTimer:
		return "timeout"
	case ev == evCrash:
		return "crash+restart"
	case ev <= evBlockResult:
		d := x.brs[evBlockResult-ev]
		return fmt.Sprintf("block result {block %s, commit votes of round %d by validators mask %04b}", d.block, d.round, d.mask)
	case ev <= evLate:
		return fmt.Sprintf("late callback of cancelled bm request #%d", evLate-ev)
	default:
		return fmt.Sprintf("complete bm request #%d", evComplete-ev)
	}
}

// ---------------------------------------------------------------- global search

const maxMsgs = 384

type bagSet [maxMsgs / 64]uint64

func (b *bagSet) has(i int32) bool { return b[i/64]&(1<<(uint(i)%64)) != 0 }
func (b *bagSet) add(i int32)      { b[i/64] |= 1 << (uint(i) % 64) }

type gState struct {
	L       [4]int32
	crashes uint8
	bag     bagSet
}

type gEdge struct {
	parent int32
	node   int8
	ev     int32
	fail   int32
}

type gResult struct {
	states      int
	transitions int
	complete    bool // frontier exhausted within the bounds
	depth       int
	violations  []gViolation
	finals      map[string]int // distinct finalized-value tuples observed (vacuity)
	capHit      string
}

type gViolation struct {
	Sig    string
	Detail string
	Trace  []gEvent
}

type gEvent struct {
	Node int    `json:"node"`
	Ev   string `json:"ev"`
	// wire form so that the trace can be replayed without the explorer's tables
	Kind  string `json:"kind"` // deliver | timeout | crash | complete
	Proto uint16 `json:"proto,omitempty"`
	Bytes string `json:"bytes,omitempty"`
	K     int    `json:"k,omitempty"`
	Blk   string `json:"block,omitempty"`               // raw block bytes of a block-result event (Bytes = commit vote list)
	Fail  int    `json:"crash_before_effect,omitempty"` // the step is interrupted by a crash before this effect (WAL write / WAL sync / send), then the node restarts
}

type searchCfg struct {
	maxCrashes int
	maxStates  int
	maxDepth   int
	stop       func() bool
	initialBag []int32
	// onlyRelevant restricts deliveries to messages of the current height
	crashable   func(node int, st *lState) bool
	crashInside bool // also crash inside every step, before each WAL write / WAL sync / send
}

func (x *explorer) search(cfg searchCfg) *gResult {
	res := &gResult{finals: map[string]int{}}
	var g0 gState
	for i := range g0.L {
		g0.L[i] = -1
	}
	for _, i := range x.correct {
		g0.L[i] = x.initial(i).id
	}
	for _, m := range cfg.initialBag {
		g0.bag.add(m)
	}
	seen := map[gState]int32{g0: 0}
	edges := []gEdge{{parent: -1}}
	frontier := []gState{g0}
	nviol := map[string]bool{}
	report := func(g gState, id int32, sig, detail string) {
		if nviol[sig] {
			return
		}
		nviol[sig] = true
		res.violations = append(res.violations, gViolation{Sig: sig, Detail: detail, Trace: x.trace(edges, id)})
	}
	check := func(g gState, id int32) {
		var fins []string
		var first *lState
		for _, i := range x.correct {
			st := x.states[i][g.L[i]]
			if st.panicked != "" {
				report(g, id, "engine-panic:"+firstLine(st.panicked), fmt.Sprintf("node V%d panicked: %s", i, st.panicked))
			}
			if st.equiv != "" {
				report(g, id, "equivocation", fmt.Sprintf("correct validator V%d equivocated: %s", i, st.equiv))
			}
			if st.notDur != "" {
				report(g, id, "sent-before-durable", fmt.Sprintf("correct validator V%d: %s", i, st.notDur))
			}
			if st.fin != "" {
				fins = append(fins, x.finDesc(i, st))
				if !st.finOK {
					report(g, id, "finalize-without-quorum", fmt.Sprintf("node V%d finalized %s but the independent recount of its precommits fails: %s", i, x.finDesc(i, st), st.finWhy))
				}
				if first == nil {
					first = st
				} else if h := finConflict(first, st); h > 0 {
					report(g, id, "disagreement", fmt.Sprintf("two correct validators finalized different blocks at height %d: %v", h, fins))
				}
			}
		}
		if len(fins) > 0 {
			res.finals[strings.Join(fins, " ")]++
		}
	}
	check(g0, 0)
	for depth := 0; len(frontier) > 0; depth++ {
		res.depth = depth
		if cfg.maxDepth > 0 && depth >= cfg.maxDepth {
			break // stated bound, not a cap: every state within maxDepth events has been visited
		}
		var next []gState
		for _, g := range frontier {
			gid := seen[g]
			if cfg.stop != nil && cfg.stop() {
				res.capHit = "wall-clock budget"
				goto done
			}
			if cfg.maxStates > 0 && len(seen) >= cfg.maxStates {
				res.capHit = fmt.Sprintf("state cap %d", cfg.maxStates)
				goto done
			}
			for _, i := range x.correct {
				st := x.states[i][g.L[i]]
				if st.terminal {
					continue
				}
				var tryF func(ev int32, fail int32) lStep
				tryF = func(ev int32, fail int32) lStep {
					r := x.stepF(i, st.id, ev, fail)
					if r.next == st.id && len(r.outs) == 0 {
						return r
					}
					ng := g
					ng.L[i] = r.next
					for _, o := range r.outs {
						if int(o) >= maxMsgs {
							panic("message table overflow")
						}
						ng.bag.add(o)
					}
					if ev == evCrash || fail > 0 {
						ng.crashes++
					}
					res.transitions++
					if _, ok := seen[ng]; ok {
						return r
					}
					id := int32(len(edges))
					seen[ng] = id
					edges = append(edges, gEdge{parent: gid, node: int8(i), ev: ev, fail: fail})
					check(ng, id)
					next = append(next, ng)
					return r
				}
				canCrash := int(g.crashes) < cfg.maxCrashes && (cfg.crashable == nil || cfg.crashable(i, st))
				try := func(ev int32) {
					r := tryF(ev, 0)
					if cfg.crashInside && canCrash {
						for k := 1; k <= r.effects; k++ {
							tryF(ev, int32(k))
						}
					}
				}
				if st.timers > 0 {
					try(evTimer)
				}
				for k := 0; k < st.pend; k++ {
					try(evComplete - int32(k))
				}
				for k := 0; k < st.late; k++ {
					try(evLate - int32(k))
				}
				nm := int32(len(x.mt.msgs))
				for m := int32(0); m < nm; m++ {
					if g.bag.has(m) {
						try(m)
					}
				}
				if canCrash {
					tryF(evCrash, 0)
				}
			}
		}
		frontier = next
	}
	res.complete = res.capHit == ""
done:
	res.states = len(seen)
	return res
}

func (x *explorer) trace(edges []gEdge, id int32) []gEvent {
	var rev []gEvent
	for id > 0 {
		e := edges[id]
		ge := gEvent{Node: int(e.node), Ev: x.evName(e.ev), Fail: int(e.fail)}
		if e.fail > 0 {
			ge.Ev += fmt.Sprintf(" [crash before effect %d of this step, restart]", e.fail)
		}
		switch {
		case e.ev >= 0:
			m := x.mt.msgs[e.ev]
			ge.Kind, ge.Proto, ge.Bytes = "deliver", m.Proto, hex.EncodeToString(m.Bytes)
		case e.ev == evTimer:
			ge.Kind = "timeout"
		case e.ev == evCrash:
			ge.Kind = "crash"
		case e.ev <= evBlockResult:
			raw, votes := x.blockResultBytes(x.brs[evBlockResult-e.ev])
			ge.Kind, ge.Bytes, ge.Blk = "blockresult", hex.EncodeToString(votes), hex.EncodeToString(raw)
		case e.ev <= evLate:
			ge.Kind, ge.K = "late", int(evLate-e.ev)
		default:
			ge.Kind, ge.K = "complete", int(evComplete-e.ev)
		}
		rev = append(rev, ge)
		id = e.parent
	}
	for i, j := 0, len(rev)-1; i < j; i, j = i+1, j-1 {
		rev[i], rev[j] = rev[j], rev[i]
	}
	return rev
}

// replayTrace runs a global event list on fresh real engines, without any
// table of the explorer, and returns what each node finalized.
func replayTrace(env *csEnv, correct []int, tr []gEvent, hook func(n *csNode)) (fins map[int]string, panics map[int]string, certOK map[int]bool) {
	fins, panics, certOK, _ = replayTraceFull(env, correct, tr, hook)
	return
}

// replayTraceFull additionally returns the C02 observations per node.
func replayTraceFull(env *csEnv, correct []int, tr []gEvent, hook func(n *csNode)) (fins map[int]string, panics map[int]string, certOK map[int]bool, c02 map[int][2]string) {
	nodes := map[int]*csNode{}
	for _, i := range correct {
		nodes[i] = newCSNode(env, i)
		if hook != nil {
			hook(nodes[i])
		}
	}
	for _, e := range tr {
		n := nodes[e.Node]
		if n == nil {
			continue
		}
		n.effects, n.failAt, n.crashedInStep = 0, e.Fail, false
		switch e.Kind {
		case "deliver":
			n.deliver(e.Proto, unhex(e.Bytes), nil)
		case "timeout":
			n.fireTimer()
		case "crash":
			n.crashRestart()
		case "complete":
			n.complete(e.K)
		case "blockresult":
			n.deliverBlockResult(unhex(e.Blk), unhex(e.Bytes))
		case "late":
			n.completeLate(e.K)
		}
		n.failAt = 0
		if n.crashedInStep {
			n.crashRestart()
		}
	}
	fins, panics, certOK, c02 = map[int]string{}, map[int]string{}, map[int]bool{}, map[int][2]string{}
	for i, n := range nodes {
		if n.equivocated != "" || n.notDurable != "" {
			c02[i] = [2]string{n.equivocated, n.notDurable}
		}
		if len(n.finalized) > 0 {
			fins[i] = strings.Join(n.finalized, "+")
			certOK[i] = n.finCertOK
		}
		if n.panicked != "" {
			panics[i] = n.panicked
		}
	}
	return
}

func firstLine(s string) string {
	if i := strings.IndexByte(s, '\n'); i >= 0 {
		s = s[:i]
	}
	if len(s) > 80 {
		s = s[:80]
	}
	return s
}

func unhex(s string) []byte {
	b, _ := hex.DecodeString(s)
	return b
}

func sortedKeys(m map[string]int) []string {
	var ks []string
	for k := range m {
		ks = append(ks, k)
	}
	sort.Strings(ks)
	return ks
}

// ---------------------------------------------------------------- deviation-bounded search
//
// Default scheduler ("synchronous network"): complete pending block-manager
// requests first; else deliver the oldest deliverable message that changes its
// receiver (lowest node first); else fire the lowest node's pending timeout.
// A *deviation* is any other enabled choice at any point:
//   - fire a pending timeout early at some node
//   - change the network partition (messages signed by validators on the other
//     side are not deliverable while the partition lasts; healing is a change too)
//   - the Byzantine validator releases one message of its menu to one node or to all
//   - deliver another deliverable message to a node than the default one (reordering)
//   - crash+restart a node
// All executions with at most D deviations are enumerated (DFS with a visited set
// that remembers the largest remaining budget a state was expanded with).

type dState struct {
	L       [4]int32
	crashes uint8
	part    uint8 // bitmask of validators on side A; 0 = no partition
	bag     bagSet
	allow   [4]allowSet // per node: released Byzantine menu entries (index into menu)
}

type allowSet [2]uint64

func (a *allowSet) has(i int) bool { return a[i/64]&(1<<(uint(i)%64)) != 0 }
func (a *allowSet) add(i int)      { a[i/64] |= 1 << (uint(i) % 64) }

type dAction struct {
	kind string // "ev" | "part" | "release"
	node int
	ev   int32
	fail int32 // crash before this effect of the step (0 = none)
	part uint8
	menu int
	to   int // node or -1 = all
}

type devCfg struct {
	maxDev       int
	maxCrashes   int
	menu         []int32
	byz          int
	stop         func() bool
	maxStates    int
	reorder      bool
	crashInside  bool             // deviation: crash inside the default next step, before each of its effects
	lagNode      int              // votes reach this node last in the default schedule (-1: none); proposals and parts are in time
	pcFirst      bool             // default scheduler delivers precommits before other messages
	lagParts     bool             // the lagging node gets votes in time and proposals/block parts late (instead of the reverse)
	preAllowNode map[int]allowSet // Byzantine strategy, per receiving node (overrides preAllow for that node)
	preAllow     allowSet         // Byzantine strategy: menu entries released to every node from the start
	prefix       []dAction        // base schedule applied before the search starts (cost 0)
}

type devResult struct {
	states, transitions, executions int
	complete                        bool
	capHit                          string
	violations                      []gViolation
	finals                          map[string]int
	maxDepth                        int
	devUsed                         [8]int
}

func (x *explorer) signerSide(part uint8, v int) bool { return part&(1<<uint(v)) != 0 }

func (x *explorer) deliverable(s *dState, i int, m int32, menuIdx map[int32]int) bool {
	if mi, ok := menuIdx[m]; ok {
		return s.allow[i].has(mi)
	}
	if !s.bag.has(m) {
		return false
	}
	if s.part == 0 {
		return true
	}
	sg := x.mt.msgs[m].Signer
	if sg < 0 {
		sg = x.partOwner(m)
	}
	if sg < 0 {
		return true
	}
	return x.signerSide(s.part, sg) == x.signerSide(s.part, i)
}

// partOwner attributes an unsigned block-part message to the proposer whose
// proposal carries that part set (first proposal seen).
func (x *explorer) partOwner(m int32) int {
	pm := x.mt.msgs[m]
	if pm.Kind != "part" {
		return -1
	}
	for _, o := range x.mt.msgs {
		if o.Kind == "proposal" && o.Block == pm.Block {
			return o.Signer
		}
	}
	return -1
}

func (x *explorer) searchDev(cfg devCfg) *devResult {
	res := &devResult{finals: map[string]int{}}
	menuIdx := map[int32]int{}
	for i, m := range cfg.menu {
		menuIdx[m] = i
	}
	if len(cfg.menu) > 128 {
		panic("menu too large")
	}
	var s0 dState
	for i := range s0.L {
		s0.L[i] = -1
	}
	for _, i := range x.correct {
		s0.L[i] = x.initial(i).id
	}
	for _, i := range x.correct {
		s0.allow[i] = cfg.preAllow
		if a, ok := cfg.preAllowNode[i]; ok {
			s0.allow[i] = a
		}
	}
	seen := map[dState]int8{}
	var path []dAction
	nviol := map[string]bool{}
	stopped := false

	pathTrace := func() []gEvent {
		var tr []gEvent
		for _, a := range path {
			if a.kind != "ev" {
				continue
			}
			ge := gEvent{Node: a.node, Ev: x.evName(a.ev), Fail: int(a.fail)}
			if a.fail > 0 {
				ge.Ev += fmt.Sprintf(" [crash before effect %d of this step, restart]", a.fail)
			}
			switch {
			case a.ev >= 0:
				m := x.mt.msgs[a.ev]
				ge.Kind, ge.Proto, ge.Bytes = "deliver", m.Proto, hex.EncodeToString(m.Bytes)
			case a.ev == evTimer:
				ge.Kind = "timeout"
			case a.ev == evCrash:
				ge.Kind = "crash"
			case a.ev <= evBlockResult:
				raw, votes := x.blockResultBytes(x.brs[evBlockResult-a.ev])
				ge.Kind, ge.Bytes, ge.Blk = "blockresult", hex.EncodeToString(votes), hex.EncodeToString(raw)
			case a.ev <= evLate:
				ge.Kind, ge.K = "late", int(evLate-a.ev)
			default:
				ge.Kind, ge.K = "complete", int(evComplete-a.ev)
			}
			tr = append(tr, ge)
		}
		return tr
	}
	report := func(sig, detail string) {
		if nviol[sig] {
			return
		}
		nviol[sig] = true
		res.violations = append(res.violations, gViolation{Sig: sig, Detail: detail, Trace: pathTrace()})
	}
	check := func(s *dState) {
		var fins []string
		var first *lState
		for _, i := range x.correct {
			st := x.states[i][s.L[i]]
			if st.panicked != "" {
				report("engine-panic:"+firstLine(st.panicked), fmt.Sprintf("node V%d panicked: %s", i, st.panicked))
			}
			if st.equiv != "" {
				report("equivocation", fmt.Sprintf("correct validator V%d equivocated: %s", i, st.equiv))
			}
			if st.notDur != "" {
				report("sent-before-durable", fmt.Sprintf("correct validator V%d: %s", i, st.notDur))
			}
			if st.fin != "" {
				fins = append(fins, x.finDesc(i, st))
				if !st.finOK {
					report("finalize-without-quorum", fmt.Sprintf("node V%d finalized %s but the independent recount of its precommits fails: %s", i, x.finDesc(i, st), st.finWhy))
				}
				if first == nil {
					first = st
				} else if h := finConflict(first, st); h > 0 {
					report("disagreement", fmt.Sprintf("two correct validators finalized different blocks at height %d: %v", h, fins))
				}
			}
		}
		if len(fins) > 0 {
			res.finals[strings.Join(fins, " ")]++
		}
	}
	apply := func(s dState, a dAction) (dState, bool) {
		switch a.kind {
		case "part":
			s.part = a.part
			return s, true
		case "release":
			changed := false
			for _, i := range x.correct {
				if (a.to < 0 || a.to == i) && !s.allow[i].has(a.menu) {
					s.allow[i].add(a.menu)
					changed = true
				}
			}
			return s, changed
		}
		st := x.states[a.node][s.L[a.node]]
		r := x.stepF(a.node, st.id, a.ev, a.fail)
		if r.next == st.id && len(r.outs) == 0 {
			return s, false
		}
		s.L[a.node] = r.next
		for _, o := range r.outs {
			if int(o) >= maxMsgs {
				panic("message table overflow")
			}
			s.bag.add(o)
		}
		if a.ev == evCrash || a.fail > 0 {
			s.crashes++
		}
		return s, true
	}
	defaultAction := func(s *dState) (dAction, bool) {
		for _, i := range x.correct {
			st := x.states[i][s.L[i]]
			if !st.terminal && st.pend > 0 {
				return dAction{kind: "ev", node: i, ev: evComplete}, true
			}
		}
		nm := int32(len(x.mt.msgs))
		// node groups: everybody but the lagging node first, the lagging node last
		// (the lagging node still gets proposals and block parts in time: only votes reach it late)
		groups := [][]int{nil, nil}
		for _, i := range x.correct {
			groups[0] = append(groups[0], i)
			if i == cfg.lagNode {
				groups[1] = append(groups[1], i)
			}
		}
		for gi, grp := range groups {
			passes := 1
			if cfg.pcFirst {
				passes = 2
			}
			for pass := 0; pass < passes; pass++ {
				for m := int32(0); m < nm; m++ {
					if cfg.pcFirst && (pass == 0) != (x.mt.msgs[m].Kind == "precommit") {
						continue
					}
					for _, i := range grp {
						st := x.states[i][s.L[i]]
						if st.terminal || !x.deliverable(s, i, m, menuIdx) {
							continue
						}
						if gi == 0 && i == cfg.lagNode {
							isVote := x.mt.msgs[m].Kind == "prevote" || x.mt.msgs[m].Kind == "precommit"
							if isVote != cfg.lagParts {
								continue
							}
						}
						r := x.step(i, st.id, m)
						if r.next != st.id || len(r.outs) > 0 {
							return dAction{kind: "ev", node: i, ev: m}, true
						}
					}
				}
			}
		}
		// nothing to deliver: a timer fires. With one explored height the lowest node
		// goes first; with several heights the least advanced validator (height, round,
		// step) goes first, so that every validator's new-height wait ends before
		// anybody's propose timeout does, as in a synchronous run (all consensus
		// timeouts have the same length, so durations cannot order them).
		best := -1
		for _, i := range x.correct {
			st := x.states[i][s.L[i]]
			if !st.terminal && st.timers > 0 {
				if x.heights() == 1 {
					return dAction{kind: "ev", node: i, ev: evTimer}, true
				}
				if best < 0 || st.progress < x.states[best][s.L[best]].progress {
					best = i
				}
			}
		}
		if best >= 0 {
			return dAction{kind: "ev", node: best, ev: evTimer}, true
		}
		return dAction{}, false
	}
	sameAction := func(a, b dAction) bool {
		return a.kind == b.kind && a.node == b.node && a.ev == b.ev && a.fail == b.fail
	}

	var dfs func(s dState, budget int, used int)
	dfs = func(s dState, budget int, used int) {
		if stopped {
			return
		}
		if prev, ok := seen[s]; ok && int(prev) >= budget+1 {
			return
		}
		if _, ok := seen[s]; !ok {
			if cfg.maxStates > 0 && len(seen) >= cfg.maxStates {
				stopped, res.capHit = true, fmt.Sprintf("state cap %d", cfg.maxStates)
				return
			}
			if len(seen)&1023 == 0 && cfg.stop != nil && cfg.stop() {
				stopped, res.capHit = true, "wall-clock budget"
				return
			}
			check(&s)
		}
		seen[s] = int8(budget + 1)
		if len(path) > res.maxDepth {
			res.maxDepth = len(path)
		}
		def, hasDef := defaultAction(&s)
		if hasDef {
			ns, _ := apply(s, def)
			res.transitions++
			path = append(path, def)
			dfs(ns, budget, used)
			path = path[:len(path)-1]
		} else {
			res.executions++
			res.devUsed[used]++
			if res.executions == 1 && os.Getenv("VERIF_DEBUG_TRACE") != "" {
				for k, a := range path {
					fmt.Printf("TRACE %3d %s V%d %s\n", k, a.kind, a.node, x.evName(a.ev))
				}
			}
		}
		if budget == 0 || stopped {
			return
		}
		alt := func(a dAction) {
			if stopped || (hasDef && sameAction(a, def)) {
				return
			}
			ns, changed := apply(s, a)
			if !changed {
				return
			}
			res.transitions++
			path = append(path, a)
			dfs(ns, budget-1, used+1)
			path = path[:len(path)-1]
		}
		if cfg.crashInside && hasDef && def.kind == "ev" && int(s.crashes) < cfg.maxCrashes {
			st := x.states[def.node][s.L[def.node]]
			r := x.stepF(def.node, st.id, def.ev, 0)
			for k := 1; k <= r.effects; k++ {
				a := def
				a.fail = int32(k)
				alt(a)
			}
		}
		maxR, minR := int32(0), int32(1<<30)
		anyLive := false
		for _, i := range x.correct {
			st := x.states[i][s.L[i]]
			if st.terminal {
				continue
			}
			anyLive = true
			if st.round > maxR {
				maxR = st.round
			}
			if st.round < minR {
				minR = st.round
			}
		}
		if !anyLive {
			return
		}
		for _, i := range x.correct {
			st := x.states[i][s.L[i]]
			if st.terminal {
				continue
			}
			if st.timers > 0 {
				alt(dAction{kind: "ev", node: i, ev: evTimer})
			}
			for k := 1; k < st.pend; k++ {
				alt(dAction{kind: "ev", node: i, ev: evComplete - int32(k)})
			}
			for k := 0; k < st.late; k++ {
				alt(dAction{kind: "ev", node: i, ev: evLate - int32(k)})
			}
			if int(s.crashes) < cfg.maxCrashes {
				alt(dAction{kind: "ev", node: i, ev: evCrash})
			}
			if cfg.reorder {
				nm := int32(len(x.mt.msgs))
				for m := int32(0); m < nm; m++ {
					if x.deliverable(&s, i, m, menuIdx) {
						alt(dAction{kind: "ev", node: i, ev: m})
					}
				}
			}
		}
		// a Byzantine peer answers a block fetch with a block and commit votes of its choosing
		for k, d := range x.brs {
			if !x.brEnabled(&s.bag, d, cfg.byz) {
				continue
			}
			for _, i := range x.correct {
				if !x.states[i][s.L[i]].terminal {
					alt(dAction{kind: "ev", node: i, ev: evBlockResult - int32(k)})
				}
			}
		}
		// partitions: every split of the validator set into two sides (side A must contain V0 to avoid mirror duplicates)
		for p := uint8(0); p < 1<<uint(x.n); p++ {
			if p != 0 && (p&1 == 0 || p == 1<<uint(x.n)-1) {
				continue
			}
			if p != s.part {
				alt(dAction{kind: "part", part: p})
			}
		}
		// Byzantine releases, restricted to rounds near the live nodes' rounds
		for mi, m := range cfg.menu {
			mm := x.mt.msgs[m]
			if mm.Kind != "part" && (mm.Round > maxR+1 || mm.Round+1 < minR) {
				continue
			}
			alt(dAction{kind: "release", menu: mi, to: -1})
			for _, i := range x.correct {
				alt(dAction{kind: "release", menu: mi, to: i})
			}
		}
	}
	s := s0
	for _, a := range cfg.prefix {
		ns, _ := apply(s, a)
		path = append(path, a)
		s = ns
		check(&s)
	}
	dfs(s, cfg.maxDev, 0)
	res.states = len(seen)
	res.complete = !stopped
	return res
}

func hexs(b []byte) string { return hex.EncodeToString(b) }
