//go:build verif

package consensus

// Directed base schedules on real engines: a tiny scripting layer used to drive
// the engines into states that are far from the synchronous happy path
// (DESIGN.md §4 C01 "base schedules"). Every step is an ordinary explorer
// event (deliver / timeout / complete / crash), recorded as a wire-level trace
// that replayTrace can run again on fresh engines.

import (
	"encoding/hex"
	"fmt"
	"strings"
)

type scenario struct {
	x     *explorer
	nodes map[int]*csNode
	trace []gEvent
	log   []string
	byz   int
	// crash injection: before the crashAt-th primitive step (send/timeout/pump
	// call, 1-based) node crashNode is crashed and restarted; 0 = never
	stepNo, crashAt, crashNode int
	hold                       map[int]bool // nodes whose block-manager requests are NOT completed automatically
	h                          int64        // height of the messages send() picks (0 = 1)
}

func (sc *scenario) tick() {
	sc.stepNo++
	if sc.crashAt > 0 && sc.stepNo == sc.crashAt {
		sc.crashAt = 0
		sc.crash(sc.crashNode)
	}
}

func newScenario(x *explorer, byz int, crashAt, crashNode int) *scenario {
	sc := &scenario{x: x, nodes: map[int]*csNode{}, byz: byz, crashAt: crashAt, crashNode: crashNode}
	for _, i := range x.correct {
		sc.nodes[i] = x.freshNode(i)
		sc.collect(i)
	}
	return sc
}

func (sc *scenario) collect(i int) {
	for _, s := range sc.nodes[i].takeOut() {
		sc.x.mt.intern(s.Proto, s.Bytes)
	}
}

func (sc *scenario) note(i int, ge gEvent) {
	n := sc.nodes[i]
	ge.Node = i
	sc.trace = append(sc.trace, ge)
	sc.log = append(sc.log, fmt.Sprintf("V%d: %-60s -> H%d R%d %v locked=%d%s", i, ge.Ev, n.cs.height, n.cs.round, n.cs.step, n.cs.lockedRound, finNote(n)))
}

func finNote(n *csNode) string {
	if len(n.finalized) > 0 {
		return " FINALIZED " + n.finalized[0][:10]
	}
	if n.panicked != "" {
		return " PANIC " + n.panicked
	}
	return ""
}

// pump completes every pending block-manager request of node i.
func (sc *scenario) pump(i int) {
	sc.tick()
	sc.pumpQuiet(i)
}

func (sc *scenario) pumpQuiet(i int) {
	if sc.hold[i] {
		return
	}
	for sc.nodes[i].complete(0) {
		sc.collect(i)
		sc.note(i, gEvent{Kind: "complete", K: 0, Ev: "complete bm request #0"})
	}
}

func (sc *scenario) timeout(i int) {
	sc.tick()
	if sc.nodes[i].fireTimer() {
		sc.collect(i)
		sc.note(i, gEvent{Kind: "timeout", Ev: "timeout"})
		sc.pumpQuiet(i)
	} else {
		sc.log = append(sc.log, fmt.Sprintf("V%d: (no timer pending)", i))
	}
}

func (sc *scenario) crash(i int) {
	sc.nodes[i].crashRestart()
	sc.collect(i)
	sc.note(i, gEvent{Kind: "crash", Ev: "crash+restart"})
	sc.pumpQuiet(i)
}

type msgPred struct {
	kind   string
	signer int // -2 = any
	round  int32
	block  string // "" = any
}

// send delivers every known message matching p to node `to`, in creation order.
func (sc *scenario) send(to int, p msgPred) int {
	sc.tick()
	cnt := 0
	for id := 0; id < len(sc.x.mt.msgs); id++ {
		m := sc.x.mt.msgs[id]
		if m.Kind != p.kind || (p.signer != -2 && m.Signer != p.signer) {
			continue
		}
		if m.Kind != "part" && m.Round != p.round {
			continue
		}
		if h := sc.h; (h == 0 && m.Height != 1) || (h != 0 && m.Height != h) {
			continue
		}
		if p.block != "" && m.Block != p.block {
			continue
		}
		if m.Signer == to && m.Kind != "part" {
			continue
		}
		sc.nodes[to].deliver(m.Proto, m.Bytes, nil)
		sc.collect(to)
		sc.note(to, gEvent{Kind: "deliver", Proto: m.Proto, Bytes: hex.EncodeToString(m.Bytes), Ev: "deliver " + m.Desc})
		sc.pumpQuiet(to)
		cnt++
	}
	if cnt == 0 {
		sc.log = append(sc.log, fmt.Sprintf("V%d: (no message matches %+v)", to, p))
	}
	return cnt
}

// result returns what every validator finalized (block ids of height 1, 2, ..
// joined by "+") and the number of distinct blocks finalized at the height with
// the most disagreement (1 = agreement).
func (sc *scenario) result() (fins map[int]string, distinct int) {
	fins = map[int]string{}
	perHeight := map[int]map[string]bool{}
	for i, n := range sc.nodes {
		if len(n.finalized) > 0 {
			fins[i] = strings.Join(n.finalized, "+")
			for h, f := range n.finalized {
				if perHeight[h] == nil {
					perHeight[h] = map[string]bool{}
				}
				perHeight[h][f] = true
			}
		}
	}
	for _, vals := range perHeight {
		if len(vals) > distinct {
			distinct = len(vals)
		}
	}
	return fins, distinct
}

// finNames renders a "+"-joined list of finalized block ids with the table's block names.
func (sc *scenario) finNames(f string) string {
	var parts []string
	for _, id := range strings.Split(f, "+") {
		parts = append(parts, sc.x.mt.blockName(unhex(id)))
	}
	return strings.Join(parts, "+")
}

// verdict evaluates the C01 oracle on the scenario's end state.
func (sc *scenario) verdict() (sig, detail string) {
	fins, distinct := sc.result()
	for i, n := range sc.nodes {
		if n.panicked != "" {
			return "engine-panic:" + firstLine(n.panicked), fmt.Sprintf("node V%d panicked: %s", i, n.panicked)
		}
		if len(n.finalized) > 0 && !n.finCertOK {
			return "finalize-without-quorum", fmt.Sprintf("node V%d finalized without a valid certificate: %s", i, n.finCertWhy)
		}
	}
	if distinct > 1 {
		var parts []string
		for _, i := range sc.x.correct {
			if f, ok := fins[i]; ok {
				parts = append(parts, fmt.Sprintf("V%d=%s (rounds %v)", i, sc.finNames(f), sc.nodes[i].finalizedRound))
			}
		}
		return "disagreement", fmt.Sprintf("two correct validators finalized different blocks at the same height: %v", parts)
	}
	return "", ""
}

// actions converts the scenario's wire-level trace into explorer actions (through
// the same explorer's message table), so that a search can start from the
// state the base schedule reaches.
func (sc *scenario) actions() []dAction {
	var as []dAction
	for _, e := range sc.trace {
		a := dAction{kind: "ev", node: e.Node}
		switch e.Kind {
		case "deliver":
			a.ev = int32(sc.x.mt.intern(e.Proto, unhex(e.Bytes)))
		case "timeout":
			a.ev = evTimer
		case "crash":
			a.ev = evCrash
		case "complete":
			a.ev = evComplete - int32(e.K)
		}
		as = append(as, a)
	}
	return as
}

// scenarioLateCommit (base schedule B3): V3 Byzantine. Round 0: V1 proposes B1,
// every correct validator sees the polka, locks B1@0 and precommits B1; V1
// collects the precommits and FINALIZES B1, while V0 and V2 see B1, B1, nil,
// time out and move on. Round 1: V2 (locked) re-proposes B1, no polka forms
// (V3 withholds), both time out into round 2, whose proposer is Byzantine.
// The state reached is the classic test of the locking rules: anything other
// than B1 finalized by V0 or V2 from here is a safety violation.
func scenarioLateCommit(x *explorer) *scenario {
	sc := newScenario(x, 3, 0, 0)
	pv := func(to, signer int, r int32, blk string) { sc.send(to, msgPred{"prevote", signer, r, blk}) }
	pc := func(to, signer int, r int32, blk string) { sc.send(to, msgPred{"precommit", signer, r, blk}) }
	sc.pump(1)
	for _, to := range []int{0, 2} {
		sc.send(to, msgPred{"proposal", 1, 0, "B1"})
		sc.send(to, msgPred{"part", -2, 0, "B1"})
	}
	sc.send(1, msgPred{"part", -2, 0, "B1"})
	for _, to := range []int{0, 1, 2} {
		for _, s := range []int{0, 1, 2} {
			pv(to, s, 0, "B1")
		}
	}
	pc(1, 0, 0, "B1")
	pc(1, 2, 0, "B1") // V1 finalizes B1
	pc(0, 2, 0, "B1")
	pc(0, 3, 0, "nil")
	pc(2, 0, 0, "B1")
	pc(2, 3, 0, "nil")
	sc.timeout(0)
	sc.timeout(2)
	// round 1: V2 is proposer and locked -> re-proposes B1 with POL round 0
	sc.send(0, msgPred{"proposal", 2, 1, "B1"})
	sc.send(0, msgPred{"part", -2, 0, "B1"})
	pv(0, 2, 1, "B1")
	pv(2, 0, 1, "B1")
	pv(0, 3, 1, "nil")
	pv(2, 3, 1, "nil")
	sc.timeout(0)
	sc.timeout(2)
	for _, to := range []int{0, 2} {
		for _, s := range []int{0, 2, 3} {
			pc(to, s, 1, "nil")
		}
	}
	return sc
}

// blockResult hands node i a fast-sync block result: the named block and a commit vote
// list made of the known precommits of the masked signers for (round, block).
func (sc *scenario) blockResult(i int, d brDesc) {
	sc.tick()
	raw, votes := sc.x.blockResultBytes(d)
	if raw == nil {
		sc.log = append(sc.log, fmt.Sprintf("V%d: (block result %+v cannot be built)", i, d))
		return
	}
	sc.nodes[i].deliverBlockResult(raw, votes)
	sc.collect(i)
	sc.note(i, gEvent{Kind: "blockresult", Bytes: hex.EncodeToString(votes), Blk: hex.EncodeToString(raw),
		Ev: fmt.Sprintf("block result {block %s, commit votes of round %d by validators mask %04b}", d.block, d.round, d.mask)})
	sc.pumpQuiet(i)
}

// late runs the callback of node i's k-th cancelled-but-dispatched block-manager request.
func (sc *scenario) late(i, k int) {
	sc.tick()
	if sc.nodes[i].completeLate(k) {
		sc.collect(i)
		sc.note(i, gEvent{Kind: "late", K: k, Ev: fmt.Sprintf("late callback of cancelled bm request #%d", k)})
	} else {
		sc.log = append(sc.log, fmt.Sprintf("V%d: (no cancelled request pending)", i))
	}
}
