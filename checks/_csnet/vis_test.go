//go:build verif

package consensus

// Visibility-policy search ("vis" mode): systematic enumeration of WHO SEES WHAT
// per round and phase, the natural parameter space of Tendermint-style safety
// scenarios (hidden polka, split polka, late commit, stale polka, re-lock, ...).
//
// All live correct nodes move through the rounds in lockstep; in each round the
// explorer enumerates, phase by phase:
//
//	phase 0  late delivery: for every subset D of the live nodes, the nodes in D
//	         receive every vote of an earlier round that exists so far
//	phase 1  proposal: the round's proposal (a correct proposer's own, or one of the
//	         Byzantine proposer's options: none, its block X, a re-proposal (b, q) of any
//	         block b with a polka in an earlier round q) reaches a subset A of the nodes;
//	         the others run into the propose timeout
//	phase 2  prevotes: the Byzantine validator picks a value w (none, nil, any block in
//	         play); a subset F of the nodes ("full viewers") receives every prevote of the
//	         round plus w, the others receive a minimal +2/3-any set that contains no
//	         polka (plus nil from the Byzantine validator) and time out
//	phase 3  precommits: same shape (full viewers may commit; the others get +2/3-any
//	         without a decision, time out and enter the next round)
//
// plus at most max_crashes crash+restart events at any phase boundary. Every
// combination of choices is enumerated (DFS with a visited set on
// (global state, round, phase)); local steps run on real engines through the
// memo table; the C01/C02 oracles are evaluated after every event.

import (
	"fmt"
	"sort"
	"strings"
)

type vState struct {
	L       [4]int32
	crashes uint8
	bag     bagSet // every message that exists: sent by a correct node or released by the Byzantine one
}

type vKey struct {
	s     vState
	round int32
	phase int8
}

type visCfg struct {
	maxRound   int32
	maxCrashes int
	byz        int
	menu       []int32
	stop       func() bool
	maxStates  int
}

func (x *explorer) searchVis(cfg visCfg) *devResult {
	res := &devResult{finals: map[string]int{}}
	var s0 vState
	for i := range s0.L {
		s0.L[i] = -1
	}
	for _, i := range x.correct {
		s0.L[i] = x.initial(i).id
	}
	seen := map[vKey]struct{}{}
	type pathEl struct {
		node int
		ev   int32
	}
	var path []pathEl
	nviol := map[string]bool{}
	stopped := false

	pathTrace := func() []gEvent {
		var tr []gEvent
		for _, a := range path {
			ge := gEvent{Node: a.node, Ev: x.evName(a.ev)}
			switch {
			case a.ev >= 0:
				m := x.mt.msgs[a.ev]
				ge.Kind, ge.Proto, ge.Bytes = "deliver", m.Proto, hexs(m.Bytes)
			case a.ev == evTimer:
				ge.Kind = "timeout"
			case a.ev == evCrash:
				ge.Kind = "crash"
			case a.ev <= evLate:
				ge.Kind, ge.K = "late", int(evLate-a.ev)
			default:
				ge.Kind, ge.K = "complete", int(evComplete-a.ev)
			}
			tr = append(tr, ge)
		}
		return tr
	}
	report := func(sig, detail string) {
		if nviol[sig] {
			return
		}
		nviol[sig] = true
		res.violations = append(res.violations, gViolation{Sig: sig, Detail: detail, Trace: pathTrace()})
	}
	check := func(s *vState) {
		var fins []string
		var first *lState
		for _, i := range x.correct {
			st := x.states[i][s.L[i]]
			if st.panicked != "" {
				report("engine-panic:"+firstLine(st.panicked), fmt.Sprintf("node V%d panicked: %s", i, st.panicked))
			}
			if st.equiv != "" {
				report("equivocation", fmt.Sprintf("correct validator V%d equivocated: %s", i, st.equiv))
			}
			if st.notDur != "" {
				report("sent-before-durable", fmt.Sprintf("correct validator V%d: %s", i, st.notDur))
			}
			if st.fin != "" {
				fins = append(fins, x.finDesc(i, st))
				if !st.finOK {
					report("finalize-without-quorum", fmt.Sprintf("node V%d finalized %s but the independent recount of its precommits fails: %s", i, x.finDesc(i, st), st.finWhy))
				}
				if first == nil {
					first = st
				} else if h := finConflict(first, st); h > 0 {
					report("disagreement", fmt.Sprintf("two correct validators finalized different blocks at height %d: %v", h, fins))
				}
			}
		}
		if len(fins) > 0 {
			res.finals[strings.Join(fins, " ")]++
		}
	}
	// apply one event to node i (pushes it on the path; caller pops via mark)
	apply := func(s *vState, i int, ev int32) bool {
		st := x.states[i][s.L[i]]
		if st.terminal {
			return false
		}
		r := x.step(i, st.id, ev)
		if r.next == st.id && len(r.outs) == 0 {
			return false
		}
		s.L[i] = r.next
		for _, o := range r.outs {
			s.bag.add(o)
		}
		if ev == evCrash {
			s.crashes++
		}
		res.transitions++
		path = append(path, pathEl{i, ev})
		check(s)
		return true
	}
	pump := func(s *vState, i int) {
		for k := 0; k < 8; k++ {
			st := x.states[i][s.L[i]]
			if st.terminal || st.pend == 0 || !apply(s, i, evComplete) {
				return
			}
		}
	}
	deliver := func(s *vState, i int, m int32) {
		if x.mt.msgs[m].Signer == i && x.mt.msgs[m].Kind != "part" {
			return
		}
		if apply(s, i, m) {
			pump(s, i)
		}
	}
	timeout := func(s *vState, i int) {
		st := x.states[i][s.L[i]]
		if !st.terminal && st.timers > 0 {
			if apply(s, i, evTimer) {
				pump(s, i)
			}
		}
	}
	live := func(s *vState) []int {
		var l []int
		for _, i := range x.correct {
			if !x.states[i][s.L[i]].terminal {
				l = append(l, i)
			}
		}
		return l
	}
	// messages of a kind/round currently in the bag, correct signers only unless byzToo
	msgsOf := func(s *vState, kind string, round int32, byzToo bool) []int32 {
		var out []int32
		for m := int32(0); m < int32(len(x.mt.msgs)); m++ {
			mm := x.mt.msgs[m]
			if !s.bag.has(m) || mm.Kind != kind || (kind != "part" && mm.Round != round) {
				continue
			}
			if !byzToo && mm.Signer == cfg.byz {
				continue
			}
			out = append(out, m)
		}
		return out
	}
	menuFind := func(kind string, round int32, block string, pol int32) int32 {
		for _, m := range cfg.menu {
			mm := x.mt.msgs[m]
			if mm.Kind != kind || mm.Block != block {
				continue
			}
			if kind == "part" {
				return m
			}
			if mm.Round != round {
				continue
			}
			if kind == "proposal" && !strings.Contains(mm.Desc, fmt.Sprintf("pol=%d}", pol)) {
				continue
			}
			return m
		}
		return -1
	}
	// blocks "in play": values carried by votes/proposals that exist
	blocksInPlay := func(s *vState) []string {
		set := map[string]bool{}
		for m := int32(0); m < int32(len(x.mt.msgs)); m++ {
			mm := x.mt.msgs[m]
			if s.bag.has(m) && (mm.Kind == "prevote" || mm.Kind == "precommit" || mm.Kind == "proposal") && mm.Block != "nil" && mm.Block != "" {
				set[mm.Block] = true
			}
		}
		var out []string
		for b := range set {
			out = append(out, b)
		}
		sort.Strings(out)
		return out
	}
	// polkas that exist among all prevotes in the bag: (round, block)
	polkas := func(s *vState, before int32) [][2]string {
		cnt := map[[2]string]map[int]bool{}
		for m := int32(0); m < int32(len(x.mt.msgs)); m++ {
			mm := x.mt.msgs[m]
			if s.bag.has(m) && mm.Kind == "prevote" && mm.Round < before && mm.Block != "nil" {
				k := [2]string{fmt.Sprint(mm.Round), mm.Block}
				if cnt[k] == nil {
					cnt[k] = map[int]bool{}
				}
				cnt[k][mm.Signer] = true
			}
		}
		var out [][2]string
		for k, v := range cnt {
			// the Byzantine validator can always add its own prevote
			n := len(v)
			if !v[cfg.byz] && cfg.byz >= 0 {
				n++
			}
			if 3*n > 2*x.n {
				out = append(out, k)
			}
		}
		sort.Slice(out, func(i, j int) bool { return out[i][0]+out[i][1] < out[j][0]+out[j][1] })
		return out
	}

	var rec func(s vState, round int32, phase int8)
	subsets := func(l []int, fn func(in map[int]bool)) {
		for mask := 0; mask < 1<<uint(len(l)); mask++ {
			in := map[int]bool{}
			for k, i := range l {
				if mask&(1<<uint(k)) != 0 {
					in[i] = true
				}
			}
			fn(in)
			if stopped {
				return
			}
		}
	}
	// branch runs fn on a copy of s and restores the path afterwards
	branch := func(s vState, fn func(s *vState)) vState {
		fn(&s)
		return s
	}
	// partial view: deliver votes of (kind, round) greedily while no value reaches +2/3 at the receiver,
	// until +2/3 of all validators have voted (counting the receiver's own vote)
	partial := func(s *vState, i int, kind string, round int32, byzNil int32) {
		votes := msgsOf(s, kind, round, false)
		counts := map[string]int{}
		total := 0
		// own vote
		for _, m := range votes {
			if x.mt.msgs[m].Signer == i {
				counts[x.mt.msgs[m].Block]++
				total++
			}
		}
		add := func(m int32) bool {
			b := x.mt.msgs[m].Block
			if 3*(counts[b]+1) > 2*x.n {
				return false
			}
			counts[b]++
			total++
			deliver(s, i, m)
			return true
		}
		if byzNil >= 0 && 3*total <= 2*x.n {
			add(byzNil)
		}
		for _, m := range votes {
			if 3*total > 2*x.n {
				break
			}
			if x.mt.msgs[m].Signer != i {
				add(m)
			}
		}
	}

	rec = func(s vState, round int32, phase int8) {
		if stopped {
			return
		}
		k := vKey{s, round, phase}
		if _, ok := seen[k]; ok {
			return
		}
		if cfg.maxStates > 0 && len(seen) >= cfg.maxStates {
			stopped, res.capHit = true, fmt.Sprintf("state cap %d", cfg.maxStates)
			return
		}
		if len(seen)&255 == 0 && cfg.stop != nil && cfg.stop() {
			stopped, res.capHit = true, "wall-clock budget"
			return
		}
		seen[k] = struct{}{}
		if len(path) > res.maxDepth {
			res.maxDepth = len(path)
		}
		lv := live(&s)
		if len(lv) == 0 || round > cfg.maxRound {
			res.executions++
			return
		}
		mark := len(path)
		// crash at this phase boundary
		if int(s.crashes) < cfg.maxCrashes {
			for _, i := range lv {
				ns := branch(s, func(s *vState) {
					if apply(s, i, evCrash) {
						pump(s, i)
					}
				})
				rec(ns, round, phase)
				path = path[:mark]
			}
		}
		proposer := proposerOf(x.n, round)
		switch phase {
		case 0: // late delivery of older votes
			subsets(lv, func(in map[int]bool) {
				ns := branch(s, func(s *vState) {
					for _, i := range lv {
						if !in[i] {
							continue
						}
						for m := int32(0); m < int32(len(x.mt.msgs)); m++ {
							mm := x.mt.msgs[m]
							if s.bag.has(m) && (mm.Kind == "prevote" || mm.Kind == "precommit") && mm.Round < round {
								deliver(s, i, m)
							}
						}
					}
				})
				rec(ns, round, 1)
				path = path[:mark]
			})
		case 1: // proposal
			type popt struct {
				block string
				pol   int32
			}
			var opts []popt
			if proposer != cfg.byz {
				opts = []popt{{"", 0}} // whatever the correct proposer proposes
			} else {
				opts = []popt{{"-", 0}, {"X", -1}}
				for _, pk := range polkas(&s, round) {
					var q int32
					fmt.Sscan(pk[0], &q)
					opts = append(opts, popt{pk[1], q})
				}
			}
			for _, o := range opts {
				subsets(lv, func(in map[int]bool) {
					if o.block == "-" && len(in) > 0 {
						return
					}
					ns := branch(s, func(s *vState) {
						var pmsgs []int32
						if proposer != cfg.byz {
							if !x.states[proposer][s.L[proposer]].terminal {
								pump(s, proposer)
							}
							pmsgs = append(pmsgs, msgsOf(s, "votelist", round, true)...)
							pmsgs = append(pmsgs, msgsOf(s, "proposal", round, false)...)
						} else if o.block != "-" {
							pm := menuFind("proposal", round, o.block, o.pol)
							if pm < 0 {
								return
							}
							s.bag.add(pm)
							if o.pol >= 0 {
								// the proof-of-lock prevotes: everything that exists for (q, block) plus the Byzantine vote
								if bv := menuFind("prevote", o.pol, o.block, 0); bv >= 0 {
									s.bag.add(bv)
								}
								for _, m := range msgsOf(s, "prevote", o.pol, true) {
									if x.mt.msgs[m].Block == o.block {
										pmsgs = append(pmsgs, m)
									}
								}
							}
							pmsgs = append(pmsgs, pm)
						}
						for _, i := range lv {
							if i == proposer {
								continue
							}
							if in[i] {
								blk := ""
								for _, m := range pmsgs {
									if x.mt.msgs[m].Kind == "proposal" {
										blk = x.mt.msgs[m].Block
									}
								}
								// parts first so that the proposal completes at once
								for m := int32(0); m < int32(len(x.mt.msgs)); m++ {
									mm := x.mt.msgs[m]
									if mm.Kind == "part" && mm.Block == blk && blk != "" {
										if _, isMenu := x.menuIdx[m]; isMenu {
											s.bag.add(m)
										}
										if s.bag.has(m) {
											deliver(s, i, m)
											break
										}
									}
								}
								for _, m := range pmsgs {
									deliver(s, i, m)
								}
							}
							// a node still waiting for a proposal runs into the propose timeout
							if st := x.states[i][s.L[i]]; !st.terminal && st.round == round && st.step <= int32(stepPropose) {
								timeout(s, i)
							}
						}
					})
					rec(ns, round, 2)
					path = path[:mark]
				})
			}
		case 2, 3: // prevotes / precommits
			kind := "prevote"
			if phase == 3 {
				kind = "precommit"
			}
			vals := []string{"-"}
			if cfg.byz >= 0 {
				vals = append(vals, "nil")
				vals = append(vals, blocksInPlay(&s)...)
			}
			for _, w := range vals {
				subsets(lv, func(full map[int]bool) {
					if w == "-" && cfg.byz >= 0 && false {
						return
					}
					ns := branch(s, func(s *vState) {
						var bw, bnil int32 = -1, -1
						if w != "-" {
							bw = menuFind(kind, round, w, 0)
							bnil = menuFind(kind, round, "nil", 0)
							if bw >= 0 {
								s.bag.add(bw)
							}
							if bnil >= 0 && len(full) < len(lv) {
								s.bag.add(bnil)
							}
						}
						for _, i := range lv {
							if full[i] {
								for _, m := range msgsOf(s, kind, round, false) {
									deliver(s, i, m)
								}
								if bw >= 0 {
									deliver(s, i, bw)
								}
							} else {
								partial(s, i, kind, round, bnil)
							}
						}
						// waiting nodes time out (prevote-wait -> precommit, precommit-wait -> next round)
						for _, i := range lv {
							st := x.states[i][s.L[i]]
							if st.terminal || st.round != round {
								continue
							}
							if phase == 2 && st.step == int32(stepPrevoteWait) {
								timeout(s, i)
							}
							if phase == 3 && st.step == int32(stepPrecommitWait) {
								timeout(s, i)
							}
						}
						if phase == 3 {
							for _, i := range lv {
								pump(s, i)
							}
						}
					})
					if phase == 2 {
						rec(ns, round, 3)
					} else {
						rec(ns, round+1, 0)
					}
					path = path[:mark]
				})
			}
		}
	}
	x.menuIdx = map[int32]int{}
	for i, m := range cfg.menu {
		x.menuIdx[m] = i
	}
	check(&s0)
	rec(s0, 0, 1)
	res.states = len(seen)
	res.complete = !stopped
	return res
}
