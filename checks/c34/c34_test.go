//go:build verif

package icsim

// C34 — staking operations conserve ICX and keep stake accounting consistent.
//
// Explicit-state breadth-first exploration of the real icsim Simulator (which
// drives the real iiss.ExtensionStateImpl): from a base state every operation of
// a small alphabet is applied, one simulator block at a time, and after EVERY
// block the invariants of the property statement are evaluated on what the
// simulator exposes (balances, account snapshots, P-Rep status, network totals).
// States are identified by the real state hashes (world state hash, validator
// hash, the five extension hashes, height) so that no abstraction is involved;
// a state is re-created by replaying its shortest operation history on a fresh
// copy-on-write layer over the base database.

import (
	"crypto/sha256"
	"fmt"
	"math/big"
	"runtime/debug"
	"sort"
	"strings"
	"sync"
	"sync/atomic"
	"testing"

	"github.com/icon-project/goloop/common"
	"github.com/icon-project/goloop/common/db"
	"github.com/icon-project/goloop/common/log"
	"github.com/icon-project/goloop/icon/icmodule"
	"github.com/icon-project/goloop/icon/iiss"
	"github.com/icon-project/goloop/icon/iiss/icstate"
	"github.com/icon-project/goloop/icon/iiss/icutils"
	"github.com/icon-project/goloop/module"
	"github.com/icon-project/goloop/service/state"
	"github.com/icon-project/goloop/verifshim/ev"
)

const (
	c34Horizon    = 25 // > longest lock (20) and unbonding period (10)
	c34TermPeriod = 10
	c34MainPReps  = 4
	c34SubPReps   = 2
	c34LockMin    = 1 // x term period
	c34LockMax    = 2
	c34UnbondMul  = 1
)

var (
	c34Quiet log.Logger
	c34ICX   = new(big.Int).Exp(big.NewInt(10), big.NewInt(18), nil)
)

func init() {
	l := log.New()
	l.SetLevel(log.FatalLevel)
	l.SetConsoleLevel(log.FatalLevel)
	c34Quiet = l
}

func c34Icx(n int64) *big.Int { return new(big.Int).Mul(big.NewInt(n), c34ICX) }

// ------------------------------------------------------------------ world

type c34Handle struct {
	stateHash, vh, ess []byte
	height             int64
	rev                module.Revision
}

type c34World struct {
	cfg      *SimConfig
	root     db.Database
	base     c34Handle
	preps    []module.Address
	bonders  []module.Address
	dusers   []module.Address
	U, V     module.Address
	universe []module.Address // every account that can hold ICX or stake
	names    []string
	idx      map[string]int
	iU, iV   int
	iTreas   int
}

func c34Config() *SimConfig {
	cfg := NewSimConfig()
	cfg.TermPeriod = c34TermPeriod
	cfg.MainPRepCount = c34MainPReps
	cfg.SubPRepCount = c34SubPReps
	cfg.ExtraMainPRepCount = 0
	cfg.LockMinMultiplier = c34LockMin
	cfg.LockMaxMultiplier = c34LockMax
	cfg.UnbondingPeriodMultiplier = c34UnbondMul
	cfg.RewardFund.Iglobal = 9_000_000_000_000_000_000 // 9 ICX / month (int64 limit)
	return cfg
}

// c34NewWorld builds the base state the way icsim.NewEnv does (revision by
// revision up to the latest one), with a small population: 6 P-Reps, their 6
// bonders, 4 background delegators, two test users U and V and a funded treasury.
func c34NewWorld() (*c34World, error) {
	cfg := c34Config()
	w := &c34World{cfg: cfg, idx: map[string]int{}}
	nPReps := int(cfg.MainPRepCount + cfg.SubPRepCount)
	w.preps = newDummyAddresses(1000, nPReps)
	w.dusers = newDummyAddresses(2000, 4)
	w.bonders = newDummyAddresses(3000, nPReps)
	w.U = newDummyAddress(5000)
	w.V = newDummyAddress(5001)

	validators := make([]module.Validator, int(cfg.MainPRepCount))
	for i := range validators {
		v, _ := state.ValidatorFromAddress(newDummyAddress(4000 + i))
		validators[i] = v
	}
	balances := map[string]*big.Int{}
	add := func(name string, a module.Address, icx int64) {
		if icx >= 0 {
			balances[icutils.ToKey(a)] = c34Icx(icx)
		}
		w.idx[icutils.ToKey(a)] = len(w.universe)
		w.universe = append(w.universe, a)
		w.names = append(w.names, name)
	}
	for i, a := range w.preps {
		add(fmt.Sprintf("p%d", i), a, 2000)
	}
	for i, a := range w.bonders {
		add(fmt.Sprintf("b%d", i), a, 10000)
	}
	for i, a := range w.dusers {
		add(fmt.Sprintf("d%d", i), a, 10000)
	}
	w.iU = len(w.universe)
	add("U", w.U, 2004)
	w.iV = len(w.universe)
	add("V", w.V, 3)
	w.iTreas = len(w.universe)
	add("treasury", treasury, 10000)
	add("system", state.SystemAddress, -1)
	add("governance", governance, -1)
	for i, v := range validators {
		add(fmt.Sprintf("node%d", i), v.Address(), -1)
	}

	revision := icmodule.ValueToRevision(icmodule.LatestRevision)
	s, err := NewSimulator(revision, validators, balances, cfg)
	if err != nil {
		return nil, err
	}
	sim := s.(*simulatorImpl)
	sim.logger = c34Quiet
	env := &Env{config: cfg, bonders: w.bonders, preps: w.preps, users: w.dusers, sim: sim}
	if err = env.init(revision); err != nil {
		return nil, err
	}
	// U and V may bond to p0 and p1
	blk := NewBlock()
	for i := 0; i < 2; i++ {
		bl := icstate.BonderList{
			common.AddressToPtr(w.bonders[i]), common.AddressToPtr(w.preps[i]),
			common.AddressToPtr(w.U), common.AddressToPtr(w.V),
		}
		blk.AddTransaction(sim.SetBonderList(w.preps[i], bl))
	}
	rcpts, err := sim.GoByBlock(nil, blk)
	if err != nil {
		return nil, err
	}
	if !checkReceipts(rcpts) {
		return nil, fmt.Errorf("SetBonderList failed")
	}
	if err = sim.Go(nil, 1); err != nil {
		return nil, err
	}
	w.root = sim.Database()
	w.base = c34HandleOf(sim)
	return w, nil
}

func c34HandleOf(sim *simulatorImpl) c34Handle {
	wss := sim.wss
	return c34Handle{
		stateHash: wss.StateHash(),
		vh:        wss.GetValidatorSnapshot().Hash(),
		ess:       wss.GetExtensionSnapshot().Bytes(),
		height:    sim.blockHeight,
		rev:       sim.revision,
	}
}

func c34Key(sim *simulatorImpl) string {
	h := c34HandleOf(sim)
	d := sha256.New()
	d.Write(h.stateHash)
	d.Write([]byte{0xff})
	d.Write(h.vh)
	d.Write([]byte{0xff})
	d.Write(h.ess)
	fmt.Fprintf(d, "|%d|%d", h.height, h.rev.Value())
	return string(d.Sum(nil))
}

func (w *c34World) open(h c34Handle, d db.Database) (*simulatorImpl, error) {
	vss, err := state.ValidatorSnapshotFromHash(d, h.vh)
	if err != nil {
		return nil, err
	}
	ess := iiss.NewExtensionSnapshot(d, h.ess)
	if ess == nil {
		return nil, fmt.Errorf("cannot reopen extension snapshot")
	}
	wss := state.NewWorldSnapshot(d, h.stateHash, vss, ess, nil)
	sim := &simulatorImpl{config: w.cfg, logger: c34Quiet, blockHeight: h.height, revision: h.rev,
		stepPrice: icmodule.BigIntZero, wss: wss}
	sim.onFinalize(wss)
	return sim, nil
}

// c34Clone returns an independent simulator positioned at the same (immutable)
// snapshot, with its own reward-calculator holder.
func c34Clone(s *simulatorImpl) *simulatorImpl {
	c := &simulatorImpl{config: s.config, logger: s.logger, blockHeight: s.blockHeight, revision: s.revision,
		stepPrice: s.stepPrice, wss: s.wss}
	c.onFinalize(c.wss)
	return c
}

// ------------------------------------------------------------------ observation

type c34Lock struct {
	Value  *big.Int
	Expire int64
	To     int // unbonds: P-Rep (universe index), else -1
}

type c34Vote struct {
	To  int
	Amt *big.Int
}

type c34Acct struct {
	bal, stake *big.Int
	unstakes   []c34Lock
	unbonds    []c34Lock
	deleg      []c34Vote
	bonds      []c34Vote
	iscore     *big.Int
	// the totals the account itself records (used by the voting-power guards)
	recUnbond, recBond, recDeleg *big.Int
}

func (a *c34Acct) sumUnstake() *big.Int {
	s := new(big.Int)
	for _, u := range a.unstakes {
		s.Add(s, u.Value)
	}
	return s
}
func (a *c34Acct) sumUnbond() *big.Int {
	s := new(big.Int)
	for _, u := range a.unbonds {
		s.Add(s, u.Value)
	}
	return s
}
func c34SumVotes(v []c34Vote) *big.Int {
	s := new(big.Int)
	for _, x := range v {
		s.Add(s, x.Amt)
	}
	return s
}
func (a *c34Acct) total() *big.Int { // everything the account owns
	t := new(big.Int).Add(a.bal, a.stake)
	return t.Add(t, a.sumUnstake())
}

type c34Prep struct {
	owner             int
	active            bool
	delegated, bonded *big.Int
}

type c34Obs struct {
	height                            int64
	supply                            *big.Int
	totalStake, totalDeleg, totalBond *big.Int
	acct                              []c34Acct
	preps                             []c34Prep
	foreign                           string // a vote / P-Rep outside the closed universe (harness error)
	// timers registered for the heights height+1 .. height+c34Horizon: height -> universe indices
	unstakeTimers, unbondTimers map[int64][]int
	corrupt                     []string // structurally broken real state (judged as a violation)
}

const c34NilEntry = -2

// digest renders everything observed, for the persistence (older state unchanged) oracle.
func (o *c34Obs) digest() string {
	var sb strings.Builder
	fmt.Fprintf(&sb, "h=%d supply=%s ts=%s td=%s tb=%s\n", o.height, o.supply, o.totalStake, o.totalDeleg, o.totalBond)
	for i := range o.acct {
		a := &o.acct[i]
		fmt.Fprintf(&sb, "a%d bal=%s stake=%s us=%s ub=", i, a.bal, a.stake, c34FmtLocks(a.unstakes))
		for _, u := range a.unbonds {
			fmt.Fprintf(&sb, "%d:%s@%d ", u.To, u.Value, u.Expire)
		}
		sb.WriteString(" d=")
		for _, v := range a.deleg {
			fmt.Fprintf(&sb, "%d:%s ", v.To, v.Amt)
		}
		sb.WriteString(" b=")
		for _, v := range a.bonds {
			fmt.Fprintf(&sb, "%d:%s ", v.To, v.Amt)
		}
		fmt.Fprintf(&sb, " is=%s rec=%v/%v/%v\n", a.iscore, a.recUnbond, a.recBond, a.recDeleg)
	}
	for _, p := range o.preps {
		fmt.Fprintf(&sb, "p%d act=%v d=%s b=%s\n", p.owner, p.active, p.delegated, p.bonded)
	}
	for _, m := range []map[int64][]int{o.unstakeTimers, o.unbondTimers} {
		hs := make([]int64, 0, len(m))
		for h := range m {
			hs = append(hs, h)
		}
		sort.Slice(hs, func(i, j int) bool { return hs[i] < hs[j] })
		for _, h := range hs {
			fmt.Fprintf(&sb, "t%d=%v ", h, m[h])
		}
		sb.WriteString("|")
	}
	return sb.String()
}

func (w *c34World) observe(sim *simulatorImpl) *c34Obs {
	es := sim.getReadonlyExtensionState()
	o := &c34Obs{height: sim.blockHeight, supply: new(big.Int).Set(sim.TotalSupply()),
		totalStake: new(big.Int).Set(es.State.GetTotalStake()),
		totalDeleg: new(big.Int).Set(es.State.GetTotalDelegation()),
		totalBond:  new(big.Int).Set(es.State.GetTotalBond())}
	o.acct = make([]c34Acct, len(w.universe))
	isNil := func(a module.Address) bool {
		if a == nil {
			return true
		}
		if p, ok := a.(*common.Address); ok && p == nil {
			return true
		}
		return false
	}
	find := func(a module.Address) int {
		if isNil(a) {
			o.corrupt = append(o.corrupt, "nil address in an account's vote/unbond list or P-Rep list")
			return c34NilEntry
		}
		if i, ok := w.idx[icutils.ToKey(a)]; ok {
			return i
		}
		o.foreign = a.String()
		return -1
	}
	// timer lists are judged by the oracle: a nil or unknown element is just a wrong element
	findT := func(a module.Address) int {
		if isNil(a) {
			return c34NilEntry
		}
		if i, ok := w.idx[icutils.ToKey(a)]; ok {
			return i
		}
		return -1
	}
	for i, addr := range w.universe {
		a := &o.acct[i]
		a.bal = new(big.Int).Set(sim.GetBalance(addr))
		a.stake = new(big.Int)
		a.iscore = new(big.Int)
		if i == w.iU || i == w.iV {
			if is, err := es.GetIScore(addr, sim.revision.Value(), nil); err == nil && is != nil {
				a.iscore.Set(is)
			}
		}
		as := es.State.GetAccountSnapshot(addr)
		if as == nil {
			continue
		}
		a.stake.Set(as.Stake())
		a.recUnbond = new(big.Int).Set(as.Unbond())
		a.recBond = new(big.Int).Set(as.Bond())
		a.recDeleg = new(big.Int).Set(as.Delegating())
		for _, u := range as.UnStakes() {
			a.unstakes = append(a.unstakes, c34Lock{new(big.Int).Set(u.GetValue()), u.GetExpire(), -1})
		}
		for _, u := range as.Unbonds() {
			a.unbonds = append(a.unbonds, c34Lock{new(big.Int).Set(u.Value()), u.Expire(), find(u.Address())})
		}
		for _, d := range as.Delegations() {
			a.deleg = append(a.deleg, c34Vote{find(d.To()), new(big.Int).Set(d.Amount())})
		}
		for _, b := range as.Bonds() {
			a.bonds = append(a.bonds, c34Vote{find(b.To()), new(big.Int).Set(b.Amount())})
		}
	}
	o.unstakeTimers, o.unbondTimers = map[int64][]int{}, map[int64][]int{}
	for h := o.height + 1; h <= o.height+c34Horizon; h++ {
		if ts := es.State.GetUnstakingTimerSnapshot(h); ts != nil {
			for it := ts.Iterator(); it.Has(); it.Next() {
				if a, ok := it.Get(); ok || true {
					_ = ok
					o.unstakeTimers[h] = append(o.unstakeTimers[h], findT(a))
				}
			}
		}
		if ts := es.State.GetUnbondingTimerSnapshot(h); ts != nil {
			for it := ts.Iterator(); it.Has(); it.Next() {
				if a, ok := it.Get(); ok || true {
					_ = ok
					o.unbondTimers[h] = append(o.unbondTimers[h], findT(a))
				}
			}
		}
	}
	for _, p := range es.State.GetPReps(false) {
		o.preps = append(o.preps, c34Prep{find(p.Owner()), p.IsActive(), new(big.Int).Set(p.Delegated()), new(big.Int).Set(p.Bonded())})
	}
	sort.Slice(o.preps, func(i, j int) bool { return o.preps[i].owner < o.preps[j].owner })
	return o
}

// ------------------------------------------------------------------ operations

const (
	c34OpStake = iota
	c34OpDelegate
	c34OpBond
	c34OpTransfer
	c34OpClaim
	c34OpRegister
	c34OpUnregister
	c34OpDisqualify
	c34OpGo1
	c34OpGoTermEnd
	c34OpGoTimer
	c34OpStakeReverted // setStake executed inside a frame that is rolled back afterwards
)

// c34GoByBlockReverted is simulatorImpl.GoByBlock for one transaction whose enclosing frame fails
// AFTER the call returned (a SCORE that calls setStake and then reverts, out of step, ...): the
// world state is rolled back to the snapshot taken before the transaction, exactly as GoByBlock
// (and the service) do for a failed transaction.
func c34GoByBlockReverted(sim *simulatorImpl, tx Transaction) error {
	wss := sim.wss
	blockHeight := sim.blockHeight + 1
	wc := NewWorldContext(newWorldState(wss, false), blockHeight, sim.Revision(), nil, sim.stepPrice)
	if err := sim.onExecutionBegin(wc); err != nil {
		return err
	}
	if _, err := sim.onBaseTx(wc); err != nil {
		return err
	}
	snap := wc.GetSnapshot()
	cc := NewCallContext(wc, tx.From())
	_ = sim.executeTx(cc, tx)
	if err := wc.Reset(snap); err != nil {
		return err
	}
	if err := sim.onExecutionEnd(wc); err != nil {
		return err
	}
	wss = wc.GetSnapshot()
	if err := wss.Flush(); err != nil {
		return err
	}
	sim.onFinalize(wss)
	sim.wss = wss
	sim.blockHeight = blockHeight
	return nil
}

type c34Op struct {
	Name  string
	Kind  int
	Who   int      // 0 = U, 1 = V
	Icx   int64    // stake / transfer amount
	Votes [][2]int // (P-Rep number, ICX)
}

func c34Alphabet() []c34Op {
	var ops []c34Op
	for _, n := range []int64{0, 1, 2, 3} {
		ops = append(ops, c34Op{Name: fmt.Sprintf("U.setStake(%d)", n), Kind: c34OpStake, Who: 0, Icx: n})
	}
	ops = append(ops,
		c34Op{Name: "U.setDelegation()", Kind: c34OpDelegate, Who: 0},
		c34Op{Name: "U.setDelegation(p0:1)", Kind: c34OpDelegate, Who: 0, Votes: [][2]int{{0, 1}}},
		c34Op{Name: "U.setDelegation(p0:1,p1:1)", Kind: c34OpDelegate, Who: 0, Votes: [][2]int{{0, 1}, {1, 1}}},
		c34Op{Name: "U.setBond()", Kind: c34OpBond, Who: 0},
		c34Op{Name: "U.setBond(p0:1)", Kind: c34OpBond, Who: 0, Votes: [][2]int{{0, 1}}},
		c34Op{Name: "U.setBond(p0:2)", Kind: c34OpBond, Who: 0, Votes: [][2]int{{0, 2}}},
		c34Op{Name: "U.setBond(p1:2)", Kind: c34OpBond, Who: 0, Votes: [][2]int{{1, 2}}},
		c34Op{Name: "U.claimIScore()", Kind: c34OpClaim, Who: 0},
		c34Op{Name: "U.registerPRep()", Kind: c34OpRegister, Who: 0},
		c34Op{Name: "U.unregisterPRep()", Kind: c34OpUnregister, Who: 0},
		c34Op{Name: "V.setStake(0)", Kind: c34OpStake, Who: 1, Icx: 0},
		c34Op{Name: "V.setStake(2)", Kind: c34OpStake, Who: 1, Icx: 2},
		c34Op{Name: "V.setDelegation()", Kind: c34OpDelegate, Who: 1},
		c34Op{Name: "V.setDelegation(p0:2)", Kind: c34OpDelegate, Who: 1, Votes: [][2]int{{0, 2}}},
		c34Op{Name: "U.setStake(3)-then-frame-reverts", Kind: c34OpStakeReverted, Who: 0, Icx: 3},
		c34Op{Name: "U.setStake(0)-then-frame-reverts", Kind: c34OpStakeReverted, Who: 0, Icx: 0},
		c34Op{Name: "U.transfer(V,1)", Kind: c34OpTransfer, Who: 0, Icx: 1},
		c34Op{Name: "V.transfer(U,1)", Kind: c34OpTransfer, Who: 1, Icx: 1},
		c34Op{Name: "gov.disqualifyPRep(p0)", Kind: c34OpDisqualify},
		c34Op{Name: "go(1)", Kind: c34OpGo1},
		c34Op{Name: "goToTermEnd", Kind: c34OpGoTermEnd},
		c34Op{Name: "goToNextTimerExpiry", Kind: c34OpGoTimer},
	)
	return ops
}

type c34Viol struct{ sig, detail string }

type c34Stats struct {
	blocks, txOK, txFail, unstakePaid, unstakeCreated, claimPaid, slashed, regs, termEnds, unbondExpired int64
}

// c34Apply executes op on sim (one or more blocks) and checks every block.
// enabled=false: the op has no effect to explore in this state (e.g. no timer pending).
func (w *c34World) apply(sim *simulatorImpl, op *c34Op, pre *c34Obs, st *c34Stats, check bool) (post *c34Obs, viol []c34Viol, enabled bool, herr error) {
	who := w.iU
	if op.Who == 1 {
		who = w.iV
	}
	from := w.universe[who]
	var tx Transaction
	blocks := int64(1)
	switch op.Kind {
	case c34OpStake, c34OpStakeReverted:
		tx = sim.SetStake(from, c34Icx(op.Icx))
	case c34OpDelegate:
		ds := icstate.Delegations{}
		for _, v := range op.Votes {
			ds = append(ds, icstate.NewDelegation(common.AddressToPtr(w.preps[v[0]]), c34Icx(int64(v[1]))))
		}
		tx = sim.SetDelegation(from, ds)
	case c34OpBond:
		bs := icstate.Bonds{}
		for _, v := range op.Votes {
			bs = append(bs, icstate.NewBond(common.AddressToPtr(w.preps[v[0]]), c34Icx(int64(v[1]))))
		}
		tx = sim.SetBond(from, bs)
	case c34OpTransfer:
		to := w.V
		if op.Who == 1 {
			to = w.U
		}
		tx = sim.Transfer(from, to, c34Icx(op.Icx))
	case c34OpClaim:
		tx = sim.ClaimIScore(from)
	case c34OpRegister:
		tx = sim.RegisterPRep(from, newDummyPRepInfo(77))
	case c34OpUnregister:
		tx = sim.UnregisterPRep(from)
	case c34OpDisqualify:
		tx = sim.DisqualifyPRep(governance, w.preps[0])
	case c34OpGo1:
	case c34OpGoTermEnd:
		blocks = sim.TermSnapshot().GetEndHeight() - sim.blockHeight
		if blocks <= 0 {
			blocks = 1
		}
	case c34OpGoTimer:
		next := int64(-1)
		for i := range pre.acct {
			for _, l := range append(append([]c34Lock(nil), pre.acct[i].unstakes...), pre.acct[i].unbonds...) {
				if l.Expire > pre.height && (next < 0 || l.Expire < next) {
					next = l.Expire
				}
			}
		}
		if next < 0 {
			return pre, nil, false, nil
		}
		blocks = next - pre.height
		if blocks > 4*c34TermPeriod {
			return pre, nil, false, fmt.Errorf("timer %d blocks ahead", blocks)
		}
	}
	cur := pre
	for b := int64(0); b < blocks; b++ {
		var blk Block
		var btx Transaction
		if b == 0 && tx != nil {
			blk = NewBlock()
			blk.AddTransaction(tx)
			btx = tx
		}
		var rcpts []Receipt
		var err error
		reverted := btx != nil && op.Kind == c34OpStakeReverted
		if p := ev.Catch(func() {
			if reverted {
				err = c34GoByBlockReverted(sim, btx)
			} else {
				rcpts, err = sim.GoByBlock(nil, blk)
			}
		}); p != "" {
			viol = append(viol, c34Viol{"panic:" + c34PanicClass(p), fmt.Sprintf("%s: block %d panicked: %s", op.Name, cur.height+1, p)})
			return cur, viol, true, nil
		}
		if err != nil {
			viol = append(viol, c34Viol{"block-execution-error:" + c34ErrClass(err), fmt.Sprintf("%s: block %d cannot be executed: %v", op.Name, cur.height+1, err)})
			return cur, viol, true, nil
		}
		ok := false
		if btx != nil && !reverted {
			ok = rcpts[1].Status() == Success
			if ok {
				st.txOK++
			} else {
				st.txFail++
			}
		}
		st.blocks++
		nxt := w.observe(sim)
		for _, c := range nxt.corrupt {
			viol = append(viol, c34Viol{"corrupt-state:" + c34ErrClass(fmt.Errorf("%s", c)), fmt.Sprintf("%s: after block %d: %s", op.Name, nxt.height, c)})
		}
		if check {
			var o *c34Op
			if btx != nil {
				o = op
			}
			viol = append(viol, w.check(cur, nxt, o, ok, who, st)...)
		}
		if sim.TermSnapshot().StartHeight() == sim.blockHeight {
			st.termEnds++
		}
		cur = nxt
		if len(viol) > 0 {
			break
		}
	}
	return cur, viol, true, nil
}

// c34PanicClass: first line of a panic text, numbers stripped.
func c34PanicClass(p string) string {
	if i := strings.IndexByte(p, '\n'); i >= 0 {
		p = p[:i]
	}
	return c34ErrClass(fmt.Errorf("%s", p))
}

// c34ErrClass strips the numbers from an error text so that it can serve as a narrow signature.
func c34ErrClass(err error) string {
	var sb strings.Builder
	prevDigit := false
	for _, c := range err.Error() {
		if c >= '0' && c <= '9' {
			if !prevDigit {
				sb.WriteByte('N')
			}
			prevDigit = true
			continue
		}
		prevDigit = false
		if c == ' ' {
			c = '-'
		}
		sb.WriteRune(c)
	}
	s := sb.String()
	if len(s) > 80 {
		s = s[:80]
	}
	return s
}

// ------------------------------------------------------------------ the oracle

func c34LocksEqual(a, b []c34Lock) bool {
	if len(a) != len(b) {
		return false
	}
	for i := range a {
		if a[i].Expire != b[i].Expire || a[i].To != b[i].To || a[i].Value.Cmp(b[i].Value) != 0 {
			return false
		}
	}
	return true
}

func c34VotesEqual(a, b []c34Vote) bool {
	if len(a) != len(b) {
		return false
	}
	for i := range a {
		if a[i].To != b[i].To || a[i].Amt.Cmp(b[i].Amt) != 0 {
			return false
		}
	}
	return true
}

func c34FmtLocks(l []c34Lock) string {
	var sb strings.Builder
	sb.WriteString("[")
	for i, x := range l {
		if i > 0 {
			sb.WriteString(" ")
		}
		fmt.Fprintf(&sb, "%s@%d", x.Value, x.Expire)
	}
	sb.WriteString("]")
	return sb.String()
}

// check evaluates the property on one block transition pre -> post at height
// post.height. op is the transaction of the block (nil: empty block), ok its status.
func (w *c34World) check(pre, post *c34Obs, op *c34Op, ok bool, who int, st *c34Stats) (viol []c34Viol) {
	bad := func(sig, f string, a ...interface{}) {
		viol = append(viol, c34Viol{sig, fmt.Sprintf("height %d: ", post.height) + fmt.Sprintf(f, a...)})
	}
	h := post.height
	n := len(w.universe)
	zero := new(big.Int)

	// --- expected external ICX movements of this block, from the operation alone
	ext := make([]*big.Int, n)
	for i := range ext {
		ext[i] = new(big.Int)
	}
	extSupply := new(big.Int)
	slashOp := false
	if op != nil && ok {
		switch op.Kind {
		case c34OpTransfer:
			other := w.iV
			if who == w.iV {
				other = w.iU
			}
			ext[who].Sub(ext[who], c34Icx(op.Icx))
			ext[other].Add(ext[other], c34Icx(op.Icx))
		case c34OpClaim:
			c := new(big.Int).Quo(pre.acct[who].iscore, big.NewInt(1000))
			ext[who].Add(ext[who], c)
			ext[w.iTreas].Sub(ext[w.iTreas], c)
			if c.Sign() > 0 {
				st.claimPaid++
			}
		case c34OpRegister:
			fee := c34Icx(2000)
			ext[who].Sub(ext[who], fee)
			extSupply.Sub(extSupply, fee)
			st.regs++
		case c34OpDisqualify:
			slashOp = true
		}
	}

	// --- 1. total supply == sum balances + staked + unstaking (closed universe)
	sum := new(big.Int)
	sumStake := new(big.Int)
	for i := range post.acct {
		sum.Add(sum, post.acct[i].total())
		sumStake.Add(sumStake, post.acct[i].stake)
	}
	if sum.Cmp(post.supply) != 0 {
		rel := "<"
		if sum.Cmp(post.supply) > 0 {
			rel = ">"
		}
		bad("sum(balance+stake+unstaking)"+rel+"totalSupply", "accounts hold %s, totalSupply %s (diff %s)", sum, post.supply, new(big.Int).Sub(sum, post.supply))
	}
	// --- 3. network total stake == sum of account stakes
	if sumStake.Cmp(post.totalStake) != 0 {
		rel := "<"
		if post.totalStake.Cmp(sumStake) > 0 {
			rel = ">"
		}
		bad("network-totalStake"+rel+"sum-of-account-stakes", "TotalStake %s, sum of stakes %s", post.totalStake, sumStake)
	}
	// --- 4. P-Rep delegated/bonded and the network totals == per-account sums
	dsum := map[int]*big.Int{}
	bsum := map[int]*big.Int{}
	for i := range post.acct {
		for _, d := range post.acct[i].deleg {
			if dsum[d.To] == nil {
				dsum[d.To] = new(big.Int)
			}
			dsum[d.To].Add(dsum[d.To], d.Amt)
		}
		for _, b := range post.acct[i].bonds {
			if bsum[b.To] == nil {
				bsum[b.To] = new(big.Int)
			}
			bsum[b.To].Add(bsum[b.To], b.Amt)
		}
	}
	get := func(m map[int]*big.Int, k int) *big.Int {
		if v := m[k]; v != nil {
			return v
		}
		return zero
	}
	actD, actB := new(big.Int), new(big.Int)
	isPrep := map[int]bool{}
	for _, p := range post.preps {
		isPrep[p.owner] = true
		if p.delegated.Cmp(get(dsum, p.owner)) != 0 {
			bad("prep-delegated!=sum-of-account-delegations", "%s delegated %s, accounts delegate %s to it", w.names[p.owner], p.delegated, get(dsum, p.owner))
		}
		if p.bonded.Cmp(get(bsum, p.owner)) != 0 {
			bad("prep-bonded!=sum-of-account-bonds", "%s bonded %s, accounts bond %s to it", w.names[p.owner], p.bonded, get(bsum, p.owner))
		}
		if p.active {
			actD.Add(actD, get(dsum, p.owner))
			actB.Add(actB, get(bsum, p.owner))
		}
	}
	if actD.Cmp(post.totalDeleg) != 0 {
		bad("network-totalDelegation!=delegations-to-active-preps", "TotalDelegation %s, accounts delegate %s to active P-Reps", post.totalDeleg, actD)
	}
	if actB.Cmp(post.totalBond) != 0 {
		bad("network-totalBond!=bonds-to-active-preps", "TotalBond %s, accounts bond %s to active P-Reps", post.totalBond, actB)
	}

	// --- per account
	slashedSum := new(big.Int)
	for i := 0; i < n; i++ {
		a, b := &pre.acct[i], &post.acct[i]
		name := w.names[i]
		// 2. delegated + bonded + unbonding <= stake
		using := new(big.Int).Add(c34SumVotes(b.deleg), c34SumVotes(b.bonds))
		using.Add(using, b.sumUnbond())
		if using.Cmp(b.stake) > 0 {
			bad("delegated+bonded+unbonding>stake", "%s uses %s of stake %s", name, using, b.stake)
		}
		// nothing overdue may remain
		for _, u := range b.unstakes {
			if u.Expire <= h {
				bad("expired-unstake-still-pending", "%s still has unstake %s@%d", name, u.Value, u.Expire)
			}
		}
		for _, u := range b.unbonds {
			if u.Expire <= h {
				bad("expired-unbond-still-pending", "%s still has unbond %s@%d", name, u.Value, u.Expire)
			}
		}
		expired := new(big.Int)
		var remaining []c34Lock
		for _, u := range a.unstakes {
			if u.Expire == h {
				expired.Add(expired, u.Value)
			} else {
				remaining = append(remaining, u)
			}
		}
		for _, u := range a.unbonds {
			if u.Expire == h {
				st.unbondExpired++
			}
		}
		// conservation per account
		wantTotal := new(big.Int).Add(a.total(), ext[i])
		if slashOp {
			lost := new(big.Int).Sub(a.total(), b.total())
			involved := zero
			for _, x := range a.bonds {
				if x.To == 0 {
					involved = new(big.Int).Add(involved, x.Amt)
				}
			}
			for _, x := range a.unbonds {
				if x.To == 0 {
					involved = new(big.Int).Add(involved, x.Value)
				}
			}
			if lost.Sign() < 0 || lost.Cmp(involved) > 0 {
				bad("slash-outside-bond", "%s lost %s, bonded+unbonding to the disqualified P-Rep %s", name, lost, involved)
			}
			if lost.Sign() > 0 {
				st.slashed++
			}
			slashedSum.Add(slashedSum, lost)
		} else if b.total().Cmp(wantTotal) != 0 {
			rel := "<"
			if b.total().Cmp(wantTotal) > 0 {
				rel = ">"
			}
			bad("account-balance+stake+unstaking"+rel+"before+external", "%s owns %s (balance %s stake %s unstaking %s), expected %s (before %s, external %s)",
				name, b.total(), b.bal, b.stake, b.sumUnstake(), wantTotal, a.total(), ext[i])
		}

		stakeTx := op != nil && ok && op.Kind == c34OpStake && i == who
		if !stakeTx {
			// 5. unstakes change only by expiry; the expired amount (and nothing else) reaches the balance
			if !slashOp {
				if !c34LocksEqual(b.unstakes, remaining) {
					bad("unstake-list-changed-without-setStake", "%s unstakes %s -> %s (expiring now: %s)", name, c34FmtLocks(a.unstakes), c34FmtLocks(b.unstakes), expired)
				}
				wantBal := new(big.Int).Add(a.bal, expired)
				wantBal.Add(wantBal, ext[i])
				if b.bal.Cmp(wantBal) != 0 {
					rel := "<"
					if b.bal.Cmp(wantBal) > 0 {
						rel = ">"
					}
					bad("balance"+rel+"before+expired-unstake+external", "%s balance %s, expected %s (before %s + expired %s + external %s)", name, b.bal, wantBal, a.bal, expired, ext[i])
				}
				if b.stake.Cmp(a.stake) != 0 {
					bad("stake-changed-without-setStake", "%s stake %s -> %s", name, a.stake, b.stake)
				}
			}
			if expired.Sign() > 0 {
				st.unstakePaid++
			}
		} else {
			v := c34Icx(op.Icx)
			if b.stake.Cmp(v) != 0 {
				bad("setStake-stake!=requested", "%s stake %s after setStake(%s)", name, b.stake, v)
			}
			maxBal := new(big.Int).Add(a.bal, expired)
			if b.bal.Cmp(maxBal) > 0 {
				bad("setStake-balance>before+expired-unstake", "%s balance %s > %s + %s: unstaking ICX released before its lock ended", name, b.bal, a.bal, expired)
			}
			if v.Cmp(a.stake) < 0 {
				// unstake of x: exactly one new locked entry of x, the expired ones paid, the rest untouched
				x := new(big.Int).Sub(a.stake, v)
				var added []c34Lock
				rest := append([]c34Lock(nil), remaining...)
				for _, u := range b.unstakes {
					found := -1
					for j, r := range rest {
						if r.Expire == u.Expire && r.Value.Cmp(u.Value) == 0 {
							found = j
							break
						}
					}
					if found >= 0 {
						rest = append(rest[:found], rest[found+1:]...)
					} else {
						added = append(added, u)
					}
				}
				lmin, lmax := h+c34LockMin*c34TermPeriod, h+c34LockMax*c34TermPeriod
				if len(rest) != 0 || len(added) != 1 || added[0].Value.Cmp(x) != 0 || added[0].Expire < lmin || added[0].Expire > lmax {
					bad("unstake-not-one-new-locked-entry", "%s setStake %s -> %s at %d: unstakes %s -> %s, expected the non-expired ones plus %s locked until [%d,%d]",
						name, a.stake, v, h, c34FmtLocks(a.unstakes), c34FmtLocks(b.unstakes), x, lmin, lmax)
				}
				if b.bal.Cmp(maxBal) != 0 {
					bad("unstake-balance!=before+expired", "%s balance %s, expected %s", name, b.bal, maxBal)
				}
				st.unstakeCreated++
			} else {
				// stake increase: pending unstakes may only shrink
				if b.sumUnstake().Cmp(a.sumUnstake()) > 0 {
					bad("stake-increase-grew-unstaking", "%s unstaking %s -> %s", name, a.sumUnstake(), b.sumUnstake())
				}
				for _, u := range b.unstakes {
					okEntry := false
					for _, r := range remaining {
						if r.Expire == u.Expire && u.Value.Cmp(r.Value) <= 0 {
							okEntry = true
						}
					}
					if !okEntry {
						bad("stake-increase-new-unstake-entry", "%s unstakes %s -> %s", name, c34FmtLocks(a.unstakes), c34FmtLocks(b.unstakes))
					}
				}
			}
			if expired.Sign() > 0 {
				st.unstakePaid++
			}
		}
		// the totals the account records must be the sums of its lists
		if b.recUnbond != nil {
			if b.recUnbond.Cmp(b.sumUnbond()) != 0 {
				bad("account-unbond-total!=sum-of-unbond-entries", "%s records unbonding %s, entries %s", name, b.recUnbond, c34FmtLocks(b.unbonds))
			}
			if b.recBond.Cmp(c34SumVotes(b.bonds)) != 0 {
				bad("account-bond-total!=sum-of-bonds", "%s records bonded %s, bonds sum %s", name, b.recBond, c34SumVotes(b.bonds))
			}
			if b.recDeleg.Cmp(c34SumVotes(b.deleg)) != 0 {
				bad("account-delegation-total!=sum-of-delegations", "%s records delegated %s, delegations sum %s", name, b.recDeleg, c34SumVotes(b.deleg))
			}
		}
		// unbond entries change only by expiry, by a successful setBond of the owner, or by a slash
		bondTx := op != nil && ok && i == who && op.Kind == c34OpBond
		var ubRemaining []c34Lock
		ubExpiring := false
		for _, u := range a.unbonds {
			if u.Expire == h {
				ubExpiring = true
			} else {
				ubRemaining = append(ubRemaining, u)
			}
		}
		if !bondTx && !slashOp {
			if !c34LocksEqual(b.unbonds, ubRemaining) {
				what := "without-setBond"
				if op != nil && !ok && i == who {
					what = "by-a-failed-transaction"
				}
				bad("unbond-list-changed-"+what, "%s unbonds %s -> %s", name, c34FmtLocks(a.unbonds), c34FmtLocks(b.unbonds))
			}
		}
		if bondTx && !ubExpiring {
			// lowering a bond by x moves x into the unbond of that P-Rep, raising it consumes that unbond first
			newBond := map[int]*big.Int{}
			for _, v := range op.Votes {
				newBond[v[0]] = c34Icx(int64(v[1]))
			}
			tot := map[int]*big.Int{}
			addTo := func(m map[int]*big.Int, k int, v *big.Int) {
				if m[k] == nil {
					m[k] = new(big.Int)
				}
				m[k].Add(m[k], v)
			}
			preUb, postUb := map[int]*big.Int{}, map[int]*big.Int{}
			for _, x := range a.bonds {
				addTo(tot, x.To, x.Amt)
			}
			for _, x := range a.unbonds {
				addTo(tot, x.To, x.Value)
				addTo(preUb, x.To, x.Value)
			}
			for _, x := range b.unbonds {
				addTo(postUb, x.To, x.Value)
				if tot[x.To] == nil {
					tot[x.To] = new(big.Int)
				}
			}
			for pr, t := range tot {
				nb := newBond[pr]
				if nb == nil {
					nb = zero
				}
				want := new(big.Int).Sub(t, nb)
				if want.Sign() < 0 {
					want = zero
				}
				got := postUb[pr]
				if got == nil {
					got = zero
				}
				if got.Cmp(want) != 0 {
					bad("unbonding!=bond+unbond-before-minus-new-bond", "%s -> %s: unbonding %s after %s, expected %s", name, w.names[pr], got, op.Name, want)
				}
				was := preUb[pr]
				if was == nil {
					was = zero
				}
				for _, x := range b.unbonds {
					if x.To == pr && got.Cmp(was) > 0 && x.Expire != h+c34UnbondMul*c34TermPeriod {
						bad("new-unbond-not-locked-for-unbonding-period", "%s -> %s: unbond %s@%d created at %d", name, w.names[pr], x.Value, x.Expire, h)
					}
				}
			}
		}
		// a transaction that failed or does not concern votes leaves the votes alone
		voteTx := op != nil && ok && i == who && (op.Kind == c34OpDelegate || op.Kind == c34OpBond)
		if !voteTx && !slashOp {
			if !c34VotesEqual(a.deleg, b.deleg) || !c34VotesEqual(a.bonds, b.bonds) {
				bad("votes-changed-without-vote-transaction", "%s delegations/bonds changed", name)
			}
		}
		if voteTx {
			var want []c34Vote
			for _, v := range op.Votes {
				want = append(want, c34Vote{v[0], c34Icx(int64(v[1]))})
			}
			got := b.deleg
			if op.Kind == c34OpBond {
				got = b.bonds
			}
			if !c34VotesEqual(got, want) {
				bad("votes!=requested", "%s after %s", name, op.Name)
			}
		}
	}
	// every pending unstake / unbond has its timer at its expiry height and every timer has an entry
	type hk struct {
		h int64
		a int
	}
	timerCheck := func(kind string, timers map[int64][]int, locks func(a *c34Acct) []c34Lock) {
		need := map[hk]bool{}
		for i := range post.acct {
			for _, l := range locks(&post.acct[i]) {
				if l.Expire > h+c34Horizon {
					bad(kind+"-expiry-beyond-longest-lock", "%s has %s %s@%d", w.names[i], kind, l.Value, l.Expire)
				} else if l.Expire > h {
					need[hk{l.Expire, i}] = true
				}
			}
		}
		have := map[hk]bool{}
		var msgs []string
		for th, as := range timers {
			for _, a := range as {
				switch {
				case a == c34NilEntry:
					msgs = append(msgs, fmt.Sprintf("%s-timer-nil-entry|the %s timer of height %d contains a nil address: %v", kind, kind, th, as))
					continue
				case a < 0:
					msgs = append(msgs, fmt.Sprintf("%s-timer-foreign-entry|the %s timer of height %d contains an unknown address", kind, kind, th))
					continue
				case have[hk{th, a}]:
					msgs = append(msgs, fmt.Sprintf("%s-timer-duplicate-entry|%s is twice in the %s timer of height %d", kind, w.names[a], kind, th))
				}
				have[hk{th, a}] = true
			}
		}
		for k := range need {
			if !have[k] {
				msgs = append(msgs, fmt.Sprintf("%s-without-timer|%s has a pending %s expiring at %d but is not in the timer of that height", kind, w.names[k.a], kind, k.h))
			}
		}
		for k := range have {
			if !need[k] {
				nm := w.names[k.a]
				msgs = append(msgs, fmt.Sprintf("%s-timer-without-entry|%s is in the %s timer of height %d but has no %s expiring then", kind, nm, kind, k.h, kind))
			}
		}
		sort.Strings(msgs)
		for _, m := range msgs {
			p := strings.SplitN(m, "|", 2)
			bad(p[0], "%s", p[1])
		}
	}
	timerCheck("unstake", post.unstakeTimers, func(a *c34Acct) []c34Lock { return a.unstakes })
	timerCheck("unbond", post.unbondTimers, func(a *c34Acct) []c34Lock { return a.unbonds })

	if slashOp {
		extSupply.Sub(extSupply, slashedSum)
	}
	wantSupply := new(big.Int).Add(pre.supply, extSupply)
	if post.supply.Cmp(wantSupply) != 0 {
		bad("totalSupply!=before-burned", "totalSupply %s, expected %s", post.supply, wantSupply)
	}
	return
}

// ------------------------------------------------------------------ exploration

type c34Case struct {
	Base    string   `json:"base"`
	Prefix  []string `json:"prefix"`
	History []string `json:"history"`
}

type c34Base struct {
	name   string
	prefix []string
	depth  int
}

type c34Child struct {
	op   int
	key  string
	viol []c34Viol
}

type c34Explorer struct {
	ops    []c34Op
	byName map[string]int
	pool   chan *c34World
}

func (e *c34Explorer) opsOf(names []string) ([]int, error) {
	out := make([]int, len(names))
	for i, n := range names {
		j, ok := e.byName[n]
		if !ok {
			return nil, fmt.Errorf("unknown op %q", n)
		}
		out[i] = j
	}
	return out, nil
}

// expand re-creates the state reached by hist (prefix first) on a fresh layer
// and applies every operation of the alphabet to it.
// applySafe is apply with every panic (real code, or the observation of a corrupted real state)
// turned into a violation of the transition.
func (w *c34World) applySafe(sim *simulatorImpl, op *c34Op, pre *c34Obs, st *c34Stats, check bool) (post *c34Obs, viol []c34Viol, enabled bool, herr error) {
	if p := ev.Catch(func() { post, viol, enabled, herr = w.apply(sim, op, pre, st, check) }); p != "" {
		return pre, append(viol, c34Viol{"panic:" + c34PanicClass(p), fmt.Sprintf("%s from height %d panicked: %s", op.Name, pre.height, p)}), true, nil
	}
	return
}

func (e *c34Explorer) expand(w *c34World, hist []int, checkReplay bool, st *c34Stats) (children []c34Child, replayViol []c34Viol, herr error) {
	layer := db.NewLayerDB(w.root)
	sim, err := w.open(w.base, layer)
	if err != nil {
		return nil, nil, err
	}
	obs := w.observe(sim)
	if obs.foreign != "" {
		return nil, nil, fmt.Errorf("account outside the closed universe: %s", obs.foreign)
	}
	var scratch c34Stats
	for _, oi := range hist {
		s := &scratch
		if checkReplay {
			s = st
		}
		var v []c34Viol
		obs, v, _, herr = w.applySafe(sim, &e.ops[oi], obs, s, checkReplay)
		if herr != nil {
			return nil, nil, herr
		}
		if len(v) > 0 {
			return nil, v, nil
		}
	}
	for oi := range e.ops {
		c := c34Clone(sim)
		post, v, enabled, herr := w.applySafe(c, &e.ops[oi], obs, st, true)
		if herr != nil {
			return nil, nil, herr
		}
		if !enabled {
			continue
		}
		if post.foreign != "" {
			return nil, nil, fmt.Errorf("account outside the closed universe: %s", post.foreign)
		}
		key := ""
		if p := ev.Catch(func() { key = c34Key(c) }); p != "" {
			v = append(v, c34Viol{"panic:" + c34PanicClass(p), "state key: " + p})
		}
		children = append(children, c34Child{op: oi, key: key, viol: v})
	}
	// persistence: the older state (still alive, every child was derived from its snapshot) must be
	// exactly what it was, both through its live snapshot objects and when re-opened from its hashes.
	want := obs.digest()
	var selfV []c34Viol
	if p := ev.Catch(func() {
		if got := w.observe(sim).digest(); got != want {
			selfV = append(selfV, c34Viol{"older-state-changed-after-younger-states-were-derived", "live snapshot differs:\n" + c34FirstDiff(want, got)})
		}
		re, err := w.open(c34HandleOf(sim), layer)
		if err != nil {
			selfV = append(selfV, c34Viol{"state-cannot-be-reopened-from-its-hashes", err.Error()})
		} else if got := w.observe(re).digest(); got != want {
			selfV = append(selfV, c34Viol{"state-reopened-from-hashes!=live-state", c34FirstDiff(want, got)})
		}
	}); p != "" {
		selfV = append(selfV, c34Viol{"panic:" + c34PanicClass(p), "observing the older state again: " + p})
	}
	if len(selfV) > 0 {
		children = append(children, c34Child{op: -1, viol: selfV})
	}
	return
}

func c34FirstDiff(a, b string) string {
	la, lb := strings.Split(a, "\n"), strings.Split(b, "\n")
	for i := 0; i < len(la) && i < len(lb); i++ {
		if la[i] != lb[i] {
			return "was: " + la[i] + "\nnow: " + lb[i]
		}
	}
	return "length differs"
}

func (e *c34Explorer) names(hist []int) []string {
	out := make([]string, len(hist))
	for i, h := range hist {
		out[i] = e.ops[h].Name
	}
	return out
}

func TestVerifC34(t *testing.T) {
	debug.SetGCPercent(400)
	log.GlobalLogger().SetLevel(log.FatalLevel)
	log.GlobalLogger().SetConsoleLevel(log.FatalLevel)
	r := ev.Start(t, "C34", "model_checking")
	r.Rule("state = (world state hash, validator hash, extension hashes, height) of the real simulator; transition = one operation of the 26-op alphabet " +
		"(1 block, or the blocks up to the term end / next timer expiry), every block checked; BFS with exact-hash dedup up to the depth bound from each base state; " +
		"non-trivial = distinct reached state")
	r.Assume("closed universe: 6 P-Reps, 6 bonders, 4 background delegators, users U and V, treasury, system, governance, 4 node addresses; the supply equation is asserted on the base state",
		"icsim world context (no fees, no ICX issuance, consensus info nil: no validation penalties); latest revision only",
		"term period 10, unstake lock 10..20 blocks, unbonding 10 blocks; alphabet amounts 0..3 ICX",
		"canonical state key = real hashes (no abstraction), states re-created by replaying the shortest history")

	ex := &c34Explorer{ops: c34Alphabet(), byName: map[string]int{}}
	for i, o := range ex.ops {
		ex.byName[o.Name] = i
	}
	workers := 16
	if ev.Replaying() {
		workers = 1
	}
	ex.pool = make(chan *c34World, workers)
	var werr atomic.Value
	var wg sync.WaitGroup
	for i := 0; i < workers; i++ {
		wg.Add(1)
		go func() {
			defer wg.Done()
			w, err := c34NewWorld()
			if err != nil {
				werr.Store(err)
				return
			}
			ex.pool <- w
		}()
	}
	wg.Wait()
	if e := werr.Load(); e != nil {
		r.Sanity(false, "cannot build the base state: %v", e)
		r.Finish(false)
		return
	}
	// all workers must have built the same base state
	w0 := <-ex.pool
	ex.pool <- w0
	baseKey := fmt.Sprintf("%x|%x|%x|%d", w0.base.stateHash, w0.base.vh, w0.base.ess, w0.base.height)
	for i := 0; i < workers; i++ {
		w := <-ex.pool
		if k := fmt.Sprintf("%x|%x|%x|%d", w.base.stateHash, w.base.vh, w.base.ess, w.base.height); k != baseKey {
			r.Sanity(false, "base state construction is not deterministic")
		}
		ex.pool <- w
	}
	r.Set("base_height", w0.base.height)
	r.Set("alphabet", len(ex.ops))

	if ev.Replaying() {
		var c c34Case
		ev.ReplayCase(&c)
		pre, err1 := ex.opsOf(c.Prefix)
		hist, err2 := ex.opsOf(c.History)
		if err1 != nil || err2 != nil {
			r.Sanity(false, "replay: %v %v", err1, err2)
			r.Finish(false)
			return
		}
		// replay exactly as the exploration does: re-create the parent state, derive every child
		// from it (the recorded transition is one of them), then expand the reached state itself.
		var st c34Stats
		w := <-ex.pool
		full := append(append([]int(nil), pre...), hist...)
		report := func(v []c34Viol) {
			for _, x := range v {
				r.Violation(x.sig, x.detail, &c)
			}
		}
		if p := ev.Catch(func() {
			if len(hist) > 0 {
				last := hist[len(hist)-1]
				ch, rv, herr := ex.expand(w, full[:len(full)-1], true, &st)
				r.Sanity(herr == nil, "replay: %v", herr)
				report(rv)
				for _, x := range ch {
					if x.op == last || x.op < 0 {
						report(x.viol)
					}
				}
			}
			ch, rv, herr := ex.expand(w, full, len(hist) == 0, &st)
			r.Sanity(herr == nil, "replay: %v", herr)
			report(rv)
			for _, x := range ch {
				if x.op < 0 {
					report(x.viol)
				}
			}
		}); p != "" {
			r.Violation("panic:"+c34PanicClass(p), p, &c)
		}
		r.Eval(len(full))
		r.States(1)
		r.Transitions(len(hist))
		r.Sample(&c)
		r.Finish(false)
		return
	}

	bases := []c34Base{
		{"B0-initial", nil, 0},
		{"B1-after-terms-with-votes", []string{"U.setStake(3)", "U.setDelegation(p0:1)", "U.setBond(p0:1)", "goToTermEnd", "goToTermEnd", "goToTermEnd"}, 0},
		{"B2-pending-unstakes", []string{"U.setStake(3)", "go(1)", "U.setStake(2)", "goToTermEnd", "U.setStake(1)", "V.setStake(2)", "V.setStake(0)"}, 0},
		{"B3-slashed-bonder", []string{"U.setStake(3)", "U.setBond(p0:1)", "U.setDelegation(p0:1,p1:1)", "gov.disqualifyPRep(p0)"}, 0},
		{"B4-slashed-bonder-with-pending-unbond", []string{"U.setStake(3)", "U.setBond(p0:1)", "U.setBond()", "gov.disqualifyPRep(p0)"}, 0},
		{"B5-pending-unbond-and-one-free-icx", []string{"U.setStake(3)", "U.setBond(p0:2)", "go(1)", "U.setBond(p0:1)"}, 0},
	}
	// schedule: (base index, depth to reach). Thorough first repeats the quick bounds for every
	// base and then deepens, so that a time-capped run still covers every base.
	type step struct{ base, depth int }
	sched := []step{{0, 3}, {1, 3}, {2, 3}, {3, 3}, {4, 3}, {5, 3}, {0, 4}}
	if r.Thorough() {
		sched = append(sched, step{1, 4}, step{2, 4}, step{3, 4}, step{4, 4}, step{5, 4}, step{0, 5}, step{5, 5}, step{1, 5}, step{2, 5}, step{3, 5}, step{4, 5})
	}
	target := make([]int, len(bases))
	for _, s := range sched {
		if s.depth > target[s.base] {
			target[s.base] = s.depth
		}
	}

	type item struct{ hist []int }
	type search struct {
		prefix         []int
		frontier       []item
		seen           map[string]struct{}
		states, trans  int
		completedDepth int
		first          bool
	}
	searches := make([]*search, len(bases))
	for i, b := range bases {
		prefix, err := ex.opsOf(b.prefix)
		if err != nil {
			r.Sanity(false, "%v", err)
			r.Finish(false)
			return
		}
		searches[i] = &search{prefix: prefix, frontier: []item{{nil}}, seen: map[string]struct{}{}, first: true}
	}

	var st c34Stats
	var stMu sync.Mutex
	complete := true
	seenAll := map[string]struct{}{}
	levelInfo := map[string]interface{}{}
	var samples []c34Case
	stopAll := false
	for _, sp := range sched {
		if stopAll {
			break
		}
		b := bases[sp.base]
		sr := searches[sp.base]
		for depth := sr.completedDepth + 1; depth <= sp.depth && len(sr.frontier) > 0; depth++ {
			frontier := sr.frontier
			results := make([][]c34Child, len(frontier))
			rviol := make([][]c34Viol, len(frontier))
			var stop int32
			first := sr.first
			ev.Par(len(frontier), workers, func(i int) {
				if atomic.LoadInt32(&stop) != 0 {
					return
				}
				if r.Expired() || r.Violations() >= 20 {
					atomic.StoreInt32(&stop, 1)
					return
				}
				w := <-ex.pool
				defer func() { ex.pool <- w }()
				var ls c34Stats
				full := append(append([]int(nil), sr.prefix...), frontier[i].hist...)
				var ch []c34Child
				var rv []c34Viol
				var herr error
				if p := ev.Catch(func() { ch, rv, herr = ex.expand(w, full, first, &ls) }); p != "" {
					ch = append(ch, c34Child{op: -1, viol: []c34Viol{{"panic:" + c34PanicClass(p), "while re-creating / expanding the state: " + p}}})
				}
				if herr != nil {
					r.Sanity(false, "%s %v: %v", b.name, ex.names(full), herr)
					atomic.StoreInt32(&stop, 1)
					return
				}
				results[i], rviol[i] = ch, rv
				stMu.Lock()
				st.blocks += ls.blocks
				st.txOK += ls.txOK
				st.txFail += ls.txFail
				st.unstakePaid += ls.unstakePaid
				st.unstakeCreated += ls.unstakeCreated
				st.claimPaid += ls.claimPaid
				st.slashed += ls.slashed
				st.regs += ls.regs
				st.termEnds += ls.termEnds
				st.unbondExpired += ls.unbondExpired
				stMu.Unlock()
			})
			if atomic.LoadInt32(&stop) != 0 {
				// a partially expanded level is discarded (its violations, if any, are still reported)
				for i := range frontier {
					for _, c := range results[i] {
						nh := append([]int(nil), frontier[i].hist...)
						if c.op >= 0 {
							nh = append(nh, c.op)
						}
						for _, v := range c.viol {
							r.Violation(v.sig, v.detail+" | "+b.name+" + "+strings.Join(ex.names(nh), ", "), &c34Case{Base: b.name, Prefix: b.prefix, History: ex.names(nh)})
						}
					}
				}
				complete = false
				stopAll = true
				break
			}
			// merge in frontier order: deterministic
			var next []item
			for i := range frontier {
				for _, v := range rviol[i] {
					r.Violation(v.sig, v.detail+" | while building base "+b.name, &c34Case{Base: b.name, Prefix: nil, History: b.prefix})
				}
				for _, c := range results[i] {
					if c.op < 0 { // violations of the persistence oracle for the expanded state itself
						for _, v := range c.viol {
							r.Violation(v.sig, v.detail+" | "+b.name+" + "+strings.Join(ex.names(frontier[i].hist), ", "), &c34Case{Base: b.name, Prefix: b.prefix, History: ex.names(frontier[i].hist)})
						}
						continue
					}
					sr.trans++
					r.Eval(1)
					nh := append(append([]int(nil), frontier[i].hist...), c.op)
					for _, v := range c.viol {
						r.Violation(v.sig, v.detail+" | "+b.name+" + "+strings.Join(ex.names(nh), ", "), &c34Case{Base: b.name, Prefix: b.prefix, History: ex.names(nh)})
					}
					if len(c.viol) > 0 {
						continue
					}
					if _, dup := sr.seen[c.key]; dup {
						continue
					}
					sr.seen[c.key] = struct{}{}
					seenAll[c.key] = struct{}{}
					r.Nontrivial(c.key)
					sr.states++
					next = append(next, item{nh})
				}
			}
			sr.first = false
			sr.completedDepth = depth
			sr.frontier = next
			if len(next) > 0 && len(samples) < 5 && depth == sp.depth {
				samples = append(samples, c34Case{Base: b.name, Prefix: b.prefix, History: ex.names(next[len(next)/2].hist)})
			}
		}
	}
	totalStates, totalTrans := 0, 0
	for i, b := range bases {
		sr := searches[i]
		totalStates += sr.states + 1
		totalTrans += sr.trans
		if sr.completedDepth < target[i] && len(sr.frontier) > 0 {
			complete = false
		}
		levelInfo[b.name] = fmt.Sprintf("depth %d of %d complete (%d states, %d transitions)", sr.completedDepth, target[i], sr.states, sr.trans)
		r.Set("depth_completed_"+b.name, sr.completedDepth)
	}
	r.States(totalStates)
	r.Transitions(totalTrans)
	r.Traces(totalTrans)
	r.Set("levels", levelInfo)
	r.Set("distinct_states_over_all_bases", len(seenAll))
	r.Set("blocks_executed_and_checked", st.blocks)
	r.Set("tx_succeeded", st.txOK)
	r.Set("tx_failed", st.txFail)
	r.Set("blocks_paying_an_expired_unstake", st.unstakePaid)
	r.Set("unstakes_created", st.unstakeCreated)
	r.Set("claims_paying_icx", st.claimPaid)
	r.Set("accounts_slashed", st.slashed)
	r.Set("prep_registrations", st.regs)
	r.Set("term_changes", st.termEnds)
	r.Set("unbond_expiries", st.unbondExpired)
	if !stopAll || r.Violations() == 0 {
		r.Sanity(st.txOK > 0 && st.txFail > 0 && st.unstakePaid > 0 && st.unstakeCreated > 0 && st.slashed > 0 && st.regs > 0 && st.termEnds > 0 && st.claimPaid > 0 && st.unbondExpired > 0,
			"vacuity: txOK=%d txFail=%d unstakePaid=%d unstakeCreated=%d claimPaid=%d slashed=%d regs=%d termEnds=%d",
			st.txOK, st.txFail, st.unstakePaid, st.unstakeCreated, st.claimPaid, st.slashed, st.regs, st.termEnds)
	}
	for i := range samples {
		r.Sample(&samples[i])
	}
	if len(samples) == 0 {
		r.Sample(&c34Case{Base: "B0-initial", History: []string{"U.setStake(3)"}})
	}
	r.Finish(complete)
}
