//go:build verif

package network

// C31, long-connection tiers.
//
// (a) nonce tier (white box): the per-frame nonce of a SecureAead is what binds a
//     ciphertext frame to its position in the stream. The real increaseNonce is driven
//     for N steps from zero and for M steps from directly-set states around every
//     byte-carry boundary; the visited nonces must be pairwise distinct (a repeated nonce
//     means two positions of the stream are interchangeable = reordering undetectable, and
//     AEAD nonce reuse) and must equal an independent 96-bit positional counter whose
//     endianness is taken from the first step of the real code.
// (b) long-connection tier (black box + state snapshots): one connection per suite with K
//     one-byte writes through the real Write path; the intact stream is read back, then at
//     the listed frame positions the recorded ciphertext is replayed from the start with two
//     adjacent frames swapped / one dropped / one duplicated; at EVERY position the same three
//     mutations are replayed against a reader whose only state (the nonce) is set to the value
//     the real reader had at that position.

import (
	"bytes"
	"encoding/hex"
	"fmt"
	"io"
	"math/big"
	"sync/atomic"

	"github.com/icon-project/goloop/verifshim/ev"
)

type c31LongStats struct {
	nonceSteps, nonceStates, nonceNotCounter, longIntact, longFull, longSnap, longRejected int64
}

// ---------------------------------------------------------------- (a) nonce tier

type c31NonceCase struct {
	Kind  string `json:"kind"` // "nonce"
	Suite int    `json:"suite"`
	Start string `json:"start"` // hex nonce the walk starts from
	Steps int    `json:"steps"`
}

func c31NewAead(su int) (*SecureAead, error) {
	secretLen := 32
	if c31Suites[su] == SecureAeadSuiteAes128Gcm {
		secretLen = 16
	}
	return newSecureAead(nil, c31Suites[su], c31Data[0][:secretLen])
}

// c31RefCounter: independent reference — the nonce read as an unsigned integer (big or
// little endian) plus one, modulo 2^(8*len).
func c31RefNext(cur []byte, littleEndian bool) []byte {
	n := len(cur)
	b := make([]byte, n)
	copy(b, cur)
	if littleEndian {
		for i, j := 0, n-1; i < j; i, j = i+1, j-1 {
			b[i], b[j] = b[j], b[i]
		}
	}
	v := new(big.Int).SetBytes(b)
	v.Add(v, big.NewInt(1))
	v.Mod(v, new(big.Int).Lsh(big.NewInt(1), uint(8*n)))
	out := make([]byte, n)
	v.FillBytes(out)
	if littleEndian {
		for i, j := 0, n-1; i < j; i, j = i+1, j-1 {
			out[i], out[j] = out[j], out[i]
		}
	}
	return out
}

// c31NonceWalk drives the real increaseNonce `steps` times from `start`.
func c31NonceWalk(r *ev.Run, ls *c31LongStats, c *c31NonceCase) {
	viol := func(sig, f string, a ...interface{}) {
		r.Violation(sig, fmt.Sprintf(f, a...)+fmt.Sprintf("; suite=%s start=%s steps=%d", c31Suites[c.Suite], c.Start, c.Steps), c)
	}
	sa, err := c31NewAead(c.Suite)
	if err != nil {
		viol("nonce:aead-setup", "%v", err)
		return
	}
	start, _ := hex.DecodeString(c.Start)
	if len(start) != len(sa.nonce) {
		viol("nonce:size", "nonce has %d bytes, harness expected %d", len(sa.nonce), len(start))
		return
	}
	copy(sa.nonce, start)
	// endianness of the counter = which end the real code changes on a step without carry
	probe, err := c31NewAead(c.Suite)
	if err != nil {
		return
	}
	probe.increaseNonce()
	little := probe.nonce[0] != 0
	seen := make(map[string]int, c.Steps+1)
	seen[string(sa.nonce)] = 0
	ref := append([]byte(nil), sa.nonce...)
	allFF := bytes.Repeat([]byte{0xff}, len(ref))
	refBad := false
	for i := 1; i <= c.Steps; i++ {
		if bytes.Equal(ref, allFF) {
			break // 2^96 frames: nonce exhaustion is outside the property
		}
		if p := ev.Catch(func() { sa.increaseNonce() }); p != "" {
			viol("nonce:panic", "increaseNonce panicked at step %d: %s", i, p)
			return
		}
		atomic.AddInt64(&ls.nonceSteps, 1)
		k := string(sa.nonce)
		if j, dup := seen[k]; dup {
			viol("nonce:repeats", "the nonce after %d steps equals the nonce after %d steps (%x): frames %d and %d of one direction are sealed with the same nonce, so they can be swapped / replayed / dropped unnoticed",
				i, j, sa.nonce, j, i)
			return
		}
		seen[k] = i
		ref = c31RefNext(ref, little)
		if !refBad && !bytes.Equal(ref, sa.nonce) {
			// Not a violation: the statement needs distinct nonces in step on both
			// ends, not a positional counter; only counted (evidence key
			// nonce_walks_not_a_positional_counter). Injectivity above decides.
			refBad = true
			atomic.AddInt64(&ls.nonceNotCounter, 1)
		}
	}
	atomic.AddInt64(&ls.nonceStates, 1)
}

func c31NonceTier(r *ev.Run, ls *c31LongStats) {
	var cases []c31NonceCase
	for su := range c31Suites {
		n := 12
		if sa, err := c31NewAead(su); err == nil {
			n = len(sa.nonce) // the suite's own nonce size
		}
		zero := make([]byte, n)
		// every step up to 70 000 from the initial nonce (covers two 16-bit wraps of a short counter)
		cases = append(cases, c31NonceCase{"nonce", su, hex.EncodeToString(zero), 70000})
		// directly-set states: j low-order bytes (either end) are 0xff / 0xfe, the rest 0x00 or a pattern
		for j := 1; j <= n; j++ {
			for _, hi := range []byte{0x00, 0x5a, 0xfe} {
				for _, end := range []int{0, 1} {
					s := bytes.Repeat([]byte{hi}, n)
					for k := 0; k < j; k++ {
						if end == 0 {
							s[n-1-k] = 0xff
						} else {
							s[k] = 0xff
						}
					}
					// start two steps before the boundary
					t := append([]byte(nil), s...)
					if end == 0 {
						t[n-1] = 0xfd
					} else {
						t[0] = 0xfd
					}
					cases = append(cases, c31NonceCase{"nonce", su, hex.EncodeToString(t), 4096})
				}
			}
		}
	}
	ev.Par(len(cases), 16, func(i int) { c31NonceWalk(r, ls, &cases[i]) })
	r.Eval(len(cases))
	for i := range cases {
		r.Nontrivial("nonce|" + fmt.Sprint(cases[i]))
	}
}

// ---------------------------------------------------------------- (b) long connection

type c31LongCase struct {
	Kind  string `json:"kind"` // "long"
	Suite int    `json:"suite"`
	K     int    `json:"k"`     // number of one-byte writes
	Mut   string `json:"mut"`   // swap | drop | dup | intact
	Frame int    `json:"frame"` // position of the mutation
	Snap  bool   `json:"snapshot"`
}

type c31LongCtx struct {
	cfg    c31Cfg
	k      int
	wire   []byte
	frames []c31Frame
	nonces [][]byte // reader nonce before frame i (i = 0..k)
}

// c31LongBuild writes K one-byte frames through the real SecureConn.Write and reads the
// intact stream back with the real Read, recording the reader's nonce before every frame.
func c31LongBuild(r *ev.Run, ls *c31LongStats, su, k int) *c31LongCtx {
	c := &c31LongCase{Kind: "long", Suite: su, K: k, Mut: "intact"}
	viol := func(sig, f string, a ...interface{}) {
		r.Violation(sig, fmt.Sprintf(f, a...)+fmt.Sprintf("; suite=%s K=%d", c31Suites[su], k), c)
	}
	cfg := c31Cfg{su, 0, 2}
	l, err := c31NewLink(cfg)
	if err != nil {
		viol("keys:NewSecureConn-error", "%v", err)
		return nil
	}
	for i := 0; i < k; i++ {
		if n, e := l.c1.Write(c31Data[0][i : i+1]); n != 1 || e != nil {
			viol("write:short-or-error", "write #%d = %d,%v", i, n, e)
			return nil
		}
	}
	ctx := &c31LongCtx{cfg: cfg, k: k, wire: l.p12.buf, frames: c31Frames(l.p12)}
	if len(ctx.frames) != k {
		viol("write:frame-count", "%d conn writes for %d one-byte writes", len(ctx.frames), k)
		return nil
	}
	seen := make(map[string]int, k)
	repeated := false
	buf := make([]byte, 16)
	for i := 0; i < k; i++ {
		nb := append([]byte(nil), l.c2.in.nonce...)
		if j, dup := seen[string(nb)]; dup && !repeated {
			repeated = true // reported once; the replays below show what it leads to
			viol("long:reader-nonce-repeats", "reader uses the same nonce %x for frames %d and %d", nb, j, i)
		}
		seen[string(nb)] = i
		ctx.nonces = append(ctx.nonces, nb)
		n, e := l.c2.Read(buf)
		if n != 1 || e != nil || buf[0] != c31Data[0][i] {
			viol("long:intact-stream-broken", "frame %d of an intact long connection: n=%d err=%v byte=%#02x want %#02x", i, n, e, buf[0], c31Data[0][i])
			return nil
		}
	}
	ctx.nonces = append(ctx.nonces, append([]byte(nil), l.c2.in.nonce...))
	if n, e := l.c2.Read(buf); n != 0 || e != io.EOF {
		viol("long:intact-stream-broken", "after the last frame: n=%d err=%v, want 0, io.EOF", n, e)
		return nil
	}
	atomic.AddInt64(&ls.longIntact, 1)
	return ctx
}

func (x *c31LongCtx) frame(i int) []byte { return x.wire[x.frames[i].start:x.frames[i].end] }

// c31LongOne replays one mutation. Full mode: the whole recorded wire from frame 0 with the
// mutation at position p goes to a fresh reader. Snapshot mode: a fresh reader whose nonce is
// set to the recorded value at p gets only the frames around p.
func c31LongOne(r *ev.Run, ls *c31LongStats, x *c31LongCtx, mut string, p int, snap bool) {
	c := &c31LongCase{Kind: "long", Suite: x.cfg.Suite, K: x.k, Mut: mut, Frame: p, Snap: snap}
	viol := func(sig, f string, a ...interface{}) {
		r.Violation(sig, fmt.Sprintf(f, a...)+fmt.Sprintf("; suite=%s K=%d mut=%s frame=%d snapshot=%v", c31Suites[x.cfg.Suite], x.k, mut, p, snap), c)
	}
	if p < 0 || p+2 >= x.k {
		return
	}
	l, err := c31NewLink(x.cfg)
	if err != nil {
		viol("keys:NewSecureConn-error", "%v", err)
		return
	}
	first := 0
	if snap {
		first = p
		copy(l.c2.in.nonce, x.nonces[p])
	}
	var wire []byte
	if !snap {
		wire = append(wire, x.wire[:x.frames[p].start]...)
	}
	safe := p - first // authentic bytes that precede the affected frame
	switch mut {
	case "swap":
		wire = append(wire, x.frame(p+1)...)
		wire = append(wire, x.frame(p)...)
		wire = append(wire, x.frame(p+2)...)
	case "drop":
		wire = append(wire, x.frame(p+1)...)
		wire = append(wire, x.frame(p+2)...)
	case "dup":
		wire = append(wire, x.frame(p)...)
		wire = append(wire, x.frame(p)...)
		wire = append(wire, x.frame(p+1)...)
		safe++
	}
	l.p12.buf = wire
	res := c31Drain(l.c2, []int{16}, x.k+16)
	if snap {
		atomic.AddInt64(&ls.longSnap, 1)
	} else {
		atomic.AddInt64(&ls.longFull, 1)
	}
	want := c31Data[0][first : first+safe]
	switch {
	case res.panicked != "":
		viol("long:Read-panic", "%s", res.panicked)
	case res.overN > 0 || res.stuck || res.touched:
		viol("long:reader-misbehaves", "overN=%d stuck=%v touched=%v", res.overN, res.stuck, res.touched)
	case len(res.got) > safe:
		viol("long:"+mut+"-accepted", "%d bytes delivered but only %d precede the misplaced frame (frame position %d of the connection): reordered/dropped/replayed ciphertext was not rejected (err=%v)", len(res.got), safe, p, res.err)
	case !bytes.Equal(res.got, want):
		viol("long:prefix-differs", "bytes before the misplaced frame differ / are missing: got %d want %d (err=%v)", len(res.got), safe, res.err)
	case res.err == nil || res.err == io.EOF:
		viol("long:"+mut+"-not-rejected", "no error at the misplaced frame (err=%v)", res.err)
	default:
		atomic.AddInt64(&ls.longRejected, 1)
	}
}

func c31LongPositions(k int) []int {
	m := map[int]struct{}{}
	for _, p := range []int{1, 2, 254, 255, 256, 257, 3058, 3059, 3060, 3061, 3062, 65534, 65535, 65536, 65537, k - 3} {
		if p >= 0 && p+2 < k {
			m[p] = struct{}{}
		}
	}
	out := make([]int, 0, len(m))
	for p := range m {
		out = append(out, p)
	}
	for i := range out { // insertion sort (tiny)
		for j := i; j > 0 && out[j] < out[j-1]; j-- {
			out[j], out[j-1] = out[j-1], out[j]
		}
	}
	return out
}

var c31LongMuts = []string{"swap", "drop", "dup"}

func c31LongTier(r *ev.Run, ls *c31LongStats, k int) (complete bool) {
	var incomplete int64
	ev.Par(len(c31Suites), 3, func(su int) {
		x := c31LongBuild(r, ls, su, k)
		r.Eval(1)
		if x == nil {
			return
		}
		r.Nontrivial(fmt.Sprintf("long|intact|%d|%d", su, k))
		n := 0
		for _, p := range c31LongPositions(k) { // black box: full replay from frame 0
			for _, m := range c31LongMuts {
				c31LongOne(r, ls, x, m, p, false)
				n++
			}
			r.Nontrivial(fmt.Sprintf("long|full|%d|%d", su, p))
			if r.Expired() {
				atomic.StoreInt64(&incomplete, 1)
				r.Eval(n)
				return
			}
		}
		for p := 0; p+2 < k; p++ { // every position, reader state restored from the recorded nonce
			for _, m := range c31LongMuts {
				c31LongOne(r, ls, x, m, p, true)
				n++
			}
			if p%1024 == 0 {
				r.Nontrivial(fmt.Sprintf("long|snap|%d|%d", su, p))
				if r.Expired() {
					atomic.StoreInt64(&incomplete, 1)
					break
				}
			}
		}
		r.Eval(n)
	})
	return incomplete == 0
}

// c31LongReplay re-runs one stored nonce / long case.
func c31LongReplay(r *ev.Run, kind string) {
	ls := &c31LongStats{}
	switch kind {
	case "nonce":
		var c c31NonceCase
		ev.ReplayCase(&c)
		c31NonceWalk(r, ls, &c)
		r.Sample(c)
	case "long":
		var c c31LongCase
		ev.ReplayCase(&c)
		x := c31LongBuild(r, ls, c.Suite, c.K)
		if x != nil && c.Mut != "intact" {
			c31LongOne(r, ls, x, c.Mut, c.Frame, c.Snap)
		}
		r.Sample(c)
	}
}
