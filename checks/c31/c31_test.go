//go:build verif

package network

// C31 — the encrypted peer channel (SecureConn) is a faithful byte stream.
//
// Two real SecureConn ends (real secureKey.setup / NewSecureConn / SecureAead)
// talk over an in-memory duplex conn whose Read chunking the harness controls.
// Enumerated: key roles, AEAD suites, number of secrets, write-size sequences,
// read-buffer-size patterns, conn chunkings, and single wire mutations
// (byte flips per frame region, swap, replay, drop, truncation, reflection,
// frames of a foreign session). A second tier puts the production reader
// (PacketReader = bufio.Reader(4096)) on top of the SecureConn.

import (
	"bytes"
	"crypto/ecdsa"
	"crypto/elliptic"
	"fmt"
	"io"
	"math/big"
	"net"
	"sort"
	"sync"
	"sync/atomic"
	"testing"
	"time"

	"github.com/icon-project/goloop/module"
	"github.com/icon-project/goloop/verifshim/ev"
	"github.com/icon-project/goloop/verifshim/opseq"
)

// ---------------------------------------------------------------- environment

// c31Pipe is one direction of the duplex conn.
type c31Pipe struct {
	buf     []byte
	rpos    int
	segs    []int // end offset of every Write call (wire segments = frames as written)
	cuts    []int // absolute offsets a Read result never crosses
	uniform int   // additionally cut at every multiple
	reads   int
}

func (p *c31Pipe) read(b []byte) (int, error) {
	p.reads++
	if p.rpos >= len(p.buf) {
		return 0, io.EOF
	}
	if len(b) == 0 {
		return 0, nil
	}
	lim := len(p.buf)
	for _, c := range p.cuts {
		if c > p.rpos && c < lim {
			lim = c
			break
		}
	}
	if p.uniform > 0 {
		if nb := (p.rpos/p.uniform + 1) * p.uniform; nb < lim {
			lim = nb
		}
	}
	n := copy(b, p.buf[p.rpos:lim])
	p.rpos += n
	return n, nil
}

func (p *c31Pipe) write(b []byte) (int, error) {
	p.buf = append(p.buf, b...)
	p.segs = append(p.segs, len(p.buf))
	return len(b), nil
}

// c31Conn is a net.Conn end of the duplex.
type c31Conn struct {
	rd, wr *c31Pipe
}

type c31Addr struct{}

func (c31Addr) Network() string { return "verif" }
func (c31Addr) String() string  { return "verif" }

func (c *c31Conn) Read(b []byte) (int, error)       { return c.rd.read(b) }
func (c *c31Conn) Write(b []byte) (int, error)      { return c.wr.write(b) }
func (c *c31Conn) Close() error                     { return nil }
func (c *c31Conn) LocalAddr() net.Addr              { return c31Addr{} }
func (c *c31Conn) RemoteAddr() net.Addr             { return c31Addr{} }
func (c *c31Conn) SetDeadline(time.Time) error      { return nil }
func (c *c31Conn) SetReadDeadline(time.Time) error  { return nil }
func (c *c31Conn) SetWriteDeadline(time.Time) error { return nil }

// ---------------------------------------------------------------- keys

// fixed private scalars (test keys). c31KeyN is the negation of c31KeyA mod the
// group order: same X, different Y — the xc==0 branch of setPeerPublicKey.
var c31Scalars = func() map[string]*big.Int {
	n := elliptic.P256().Params().N
	a, _ := new(big.Int).SetString("1f2e3d4c5b6a79880123456789abcdef00112233445566778899aabbccddeeff", 16)
	b, _ := new(big.Int).SetString("0a0b0c0d0e0f10111213141516171819a1a2a3a4a5a6a7a8b1b2b3b4b5b6b7b8", 16)
	return map[string]*big.Int{"A": a, "B": b, "N": new(big.Int).Sub(n, a)}
}()

func c31NewKey(name string) *secureKey {
	c := DefaultSecureEllipticCurve
	d := c31Scalars[name]
	x, y := c.ScalarBaseMult(d.Bytes())
	return &secureKey{PrivateKey: &ecdsa.PrivateKey{PublicKey: ecdsa.PublicKey{Curve: c, X: x, Y: y}, D: new(big.Int).Set(d)}}
}

// c31Role: which key each end holds and what each end passes as defaultLower
// (production: p.In(), opposite on the two ends).
type c31Role struct {
	K1, K2   string
	DL1, DL2 bool
}

var c31Roles = []c31Role{
	{"A", "B", true, false}, {"A", "B", false, true},
	{"B", "A", true, false}, {"B", "A", false, true},
	{"A", "A", true, false}, {"A", "A", false, true}, // equal keys: tie broken by defaultLower
	{"A", "N", true, false}, {"N", "A", true, false}, // equal X, different Y
}

var c31Suites = []SecureAeadSuite{SecureAeadSuiteChaCha20Poly1305, SecureAeadSuiteAes128Gcm, SecureAeadSuiteAes256Gcm}

type c31Cfg struct {
	Suite  int `json:"suite"` // index into c31Suites
	Role   int `json:"role"`  // index into c31Roles
	KeyNum int `json:"key_num"`
}

type c31Keys struct{ k1, k2 *secureKey }

var (
	c31KeyMu    sync.Mutex
	c31KeyCache = map[c31Cfg]*c31Keys{}
)

// c31Setup runs the real key agreement of both ends (cached per configuration:
// setup is deterministic for fixed keys and NewSecureConn only reads the key).
func c31Setup(cfg c31Cfg) (*c31Keys, error) {
	c31KeyMu.Lock()
	defer c31KeyMu.Unlock()
	if k, ok := c31KeyCache[cfg]; ok {
		return k, nil
	}
	ro := c31Roles[cfg.Role]
	k1, k2 := c31NewKey(ro.K1), c31NewKey(ro.K2)
	if err := k1.setup(c31Suites[cfg.Suite], k2.marshalPublicKey(), ro.DL1, cfg.KeyNum); err != nil {
		return nil, err
	}
	if err := k2.setup(c31Suites[cfg.Suite], k1.marshalPublicKey(), ro.DL2, cfg.KeyNum); err != nil {
		return nil, err
	}
	k := &c31Keys{k1, k2}
	c31KeyCache[cfg] = k
	return k, nil
}

type c31Link struct {
	p12, p21 *c31Pipe // wire 1->2 and 2->1
	c1, c2   *SecureConn
}

func c31NewLink(cfg c31Cfg) (*c31Link, error) {
	ks, err := c31Setup(cfg)
	if err != nil {
		return nil, err
	}
	l := &c31Link{p12: &c31Pipe{}, p21: &c31Pipe{}}
	if l.c1, err = NewSecureConn(&c31Conn{rd: l.p21, wr: l.p12}, c31Suites[cfg.Suite], ks.k1); err != nil {
		return nil, err
	}
	if l.c2, err = NewSecureConn(&c31Conn{rd: l.p12, wr: l.p21}, c31Suites[cfg.Suite], ks.k2); err != nil {
		return nil, err
	}
	return l, nil
}

// ---------------------------------------------------------------- data

// c31HdrRange: number of values of the 16-bit length field of the frame header.
const c31HdrRange = 1 << 16

// c31BoundarySizes: write sizes derived from the code's own boundaries: around every
// multiple boundary of the frame size constant F (read from the package) and around the
// range of the header's length field, whatever F is.
func c31BoundarySizes() []int {
	f := secureConnFrameSize
	m := map[int]struct{}{}
	for _, x := range []int{f - 1, f, f + 1, 2*f - 1, 2 * f, 2*f + 1,
		c31HdrRange - 1, c31HdrRange, c31HdrRange + 1, 2*c31HdrRange - 1, 2 * c31HdrRange, 2*c31HdrRange + 1} {
		if x > 0 {
			m[x] = struct{}{}
		}
	}
	out := make([]int, 0, len(m))
	for x := range m {
		out = append(out, x)
	}
	sort.Ints(out)
	return out
}

var c31Data = func() [2][]byte {
	// long enough for 4 writes of the largest size of either alphabet
	size := 4*(2*secureConnFrameSize+1) + 4*(2*c31HdrRange+1) + 2*DefaultPacketBufferSize
	var d [2][]byte
	for k := range d {
		b := make([]byte, size)
		x := uint32(0x9e3779b9 * uint32(k+1))
		for i := range b {
			x = x*1664525 + 1013904223
			b[i] = byte(x >> 24)
		}
		d[k] = b
	}
	return d
}()

const c31Sentinel = 0xEE

// ---------------------------------------------------------------- cases

type c31Case struct {
	Kind    string `json:"kind"` // keys | bounds | sizes | chunk | tamper | prod | prodtamper
	Cfg     c31Cfg `json:"cfg"`
	Writes  []int  `json:"writes,omitempty"`  // write sizes (direction 1->2; 2->1 uses the reverse)
	Reads   []int  `json:"reads,omitempty"`   // read-buffer sizes, cycled until the stream is drained
	Sched   int    `json:"sched,omitempty"`   // 0 all writes then reads (alternating ends); 1 drain after every write
	Cuts    []int  `json:"cuts,omitempty"`    // conn chunking
	Uniform int    `json:"uniform,omitempty"` // conn chunking
	Mut     string `json:"mut,omitempty"`     // tamper kind
	Frame   int    `json:"frame,omitempty"`
	Pos     string `json:"pos,omitempty"` // region of a flip / truncation point
	Xor     byte   `json:"xor,omitempty"`
	Pkts    []int  `json:"pkts,omitempty"` // production tier: payload sizes of the packets
}

func (c *c31Case) String() string {
	s := fmt.Sprintf("%s suite=%s role=%+v keyNum=%d", c.Kind, c31Suites[c.Cfg.Suite], c31Roles[c.Cfg.Role], c.Cfg.KeyNum)
	if c.Writes != nil {
		s += fmt.Sprintf(" writes=%v", c.Writes)
	}
	if c.Pkts != nil {
		s += fmt.Sprintf(" pkts=%v", c.Pkts)
	}
	if c.Reads != nil {
		s += fmt.Sprintf(" reads=%v sched=%d", c.Reads, c.Sched)
	}
	if c.Cuts != nil || c.Uniform > 0 {
		s += fmt.Sprintf(" conn-cuts=%v conn-uniform=%d", c.Cuts, c.Uniform)
	}
	if c.Mut != "" {
		s += fmt.Sprintf(" mut=%s frame=%d pos=%s xor=%#02x", c.Mut, c.Frame, c.Pos, c.Xor)
	}
	return s
}

type c31Stats struct {
	sizeRuns, chunkRuns, tamperRuns, prodRuns, prodTamperRuns, keyRuns, boundsRuns, prodBigRuns int64
	shortBufReads, fullBufReads                                        int64 // reads with buffer < / >= pending frame
	rejected                                                           int64 // tamper runs that ended in an error
	cleanEOF                                                           int64 // "drop last"/foreign-at-end style runs that ended in EOF
	prodMinBuf                                                         int64 // smallest buffer bufio offered to SecureConn.Read
	prodMaxBuf                                                         int64 // largest (> 4096: bufio's direct-read path was taken)
	prodFrameOverBuf                                                   int64 // intact wire: frames longer than the offered buffer (must stay 0)
	prodNWithErr                                                       int64 // runs in which SecureConn.Read returned n>0 with an error
	prodPanics                                                         int64
}

// ---------------------------------------------------------------- oracle: keys

func c31CheckKeys(r *ev.Run, st *c31Stats, c *c31Case) {
	atomic.AddInt64(&st.keyRuns, 1)
	viol := func(sig, f string, a ...interface{}) {
		r.Violation(sig, fmt.Sprintf(f, a...)+"; case="+c.String(), c)
	}
	ks, err := c31Setup(c.Cfg)
	if err != nil {
		viol("keys:setup-error", "setup failed: %v", err)
		return
	}
	l, err := c31NewLink(c.Cfg)
	if err != nil {
		viol("keys:NewSecureConn-error", "%v", err)
		return
	}
	if len(ks.k1.secret) != c.Cfg.KeyNum || len(ks.k2.secret) != c.Cfg.KeyNum {
		viol("keys:secret-count", "got %d/%d secrets", len(ks.k1.secret), len(ks.k2.secret))
		return
	}
	for i := range ks.k1.secret {
		if !bytes.Equal(ks.k1.secret[i], ks.k2.secret[i]) {
			viol("keys:secret-mismatch", "secret[%d] differs between the ends", i)
		}
	}
	if !bytes.Equal(ks.k1.extra, ks.k2.extra) || len(ks.k1.extra) == 0 {
		viol("keys:extra-mismatch", "session secret (extra) differs between the ends")
	}
	if ks.k1.isLower == ks.k2.isLower {
		viol("keys:role-not-complementary", "both ends have isLower=%v", ks.k1.isLower)
	}
	if !bytes.Equal(l.c1.out.secret, l.c2.in.secret) || !bytes.Equal(l.c2.out.secret, l.c1.in.secret) {
		viol("keys:direction-mismatch", "out key of one end != in key of the other")
	}
	if c.Cfg.KeyNum >= 2 {
		if bytes.Equal(l.c1.in.secret, l.c1.out.secret) || bytes.Equal(l.c2.in.secret, l.c2.out.secret) {
			viol("keys:same-key-both-directions", "in and out keys are equal although %d secrets were derived", c.Cfg.KeyNum)
		}
		if bytes.Equal(ks.k1.secret[0], ks.k1.extra) || bytes.Equal(ks.k1.secret[1], ks.k1.extra) {
			viol("keys:extra-equals-traffic-key", "the session secret that gets signed equals a traffic key")
		}
	}
}

// ---------------------------------------------------------------- oracle: faithful stream

// c31Drain reads from rd with the cyclic buffer-size pattern until an error.
// It honours the io.Reader contract: buf[:n] are delivered bytes, also when err != nil.
// frameLens: plaintext length of the frames still to come (for short-buffer accounting).
type c31ReadResult struct {
	got      []byte
	err      error
	overN    int // first n > len(buf) seen (0 = none)
	overBuf  int
	nWithErr int // n returned together with the terminating error
	touched  bool
	reads    int
	stuck    bool
	panicked string
	// the read that returned the terminating error also stored something in buf[:n]
	wroteWithErr bool
}

func c31Drain(rd io.Reader, pattern []int, limit int) (res c31ReadResult) {
	zero := 0
	bufs, lastN := map[int][]byte{}, map[int]int{}
	for i := 0; ; i++ {
		if res.reads >= limit {
			res.stuck = true
			return
		}
		size := pattern[i%len(pattern)]
		buf := bufs[size] // one buffer per size, re-filled with the sentinel where the last read stored data
		if buf == nil {
			buf = make([]byte, size)
			for j := range buf {
				buf[j] = c31Sentinel
			}
			bufs[size] = buf
		} else {
			for j := 0; j < lastN[size] && j < len(buf); j++ {
				buf[j] = c31Sentinel
			}
		}
		var n int
		var err error
		if res.panicked = ev.Catch(func() { n, err = rd.Read(buf) }); res.panicked != "" {
			return
		}
		res.reads++
		if n > len(buf) {
			if res.overN == 0 {
				res.overN, res.overBuf = n, len(buf)
			}
			n = len(buf)
		}
		if n < 0 {
			n = 0
		}
		res.got = append(res.got, buf[:n]...)
		lastN[size] = n
		if err != nil {
			res.err = err
			res.nWithErr = n
			for _, x := range buf[:n] {
				if x != c31Sentinel {
					res.wroteWithErr = true
				}
			}
			for _, x := range buf[n:] {
				if x != c31Sentinel {
					res.touched = true
				}
			}
			return
		}
		if n == 0 {
			zero++
			if zero > 3 {
				res.stuck = true
				return
			}
		} else {
			zero = 0
		}
	}
}

func c31WriteAll(w io.Writer, data []byte, sizes []int) (off int, err error) {
	for _, s := range sizes {
		n, e := w.Write(data[off : off+s])
		if e != nil || n != s {
			return off, fmt.Errorf("Write(%d bytes) = %d, %v", s, n, e)
		}
		off += s
	}
	return off, nil
}

func c31Reverse(a []int) []int {
	b := make([]int, len(a))
	for i, x := range a {
		b[len(a)-1-i] = x
	}
	return b
}

func c31Sum(a []int) (s int) {
	for _, x := range a {
		s += x
	}
	return
}

// c31StreamVerdict compares what a reader delivered on an intact wire with what was written.
func c31StreamVerdict(r *ev.Run, c *c31Case, dir string, want []byte, res c31ReadResult) {
	viol := func(sig, f string, a ...interface{}) {
		r.Violation(sig, fmt.Sprintf(f, a...)+"; dir="+dir+" case="+c.String(), c)
	}
	switch {
	case res.panicked != "":
		viol("stream:Read-panic", "Read panicked on an intact wire: %s", res.panicked)
	case res.overN > 0:
		// Read reported more bytes than the buffer holds: the io.Reader contract is broken and
		// the rest of the decrypted frame is gone (the loss below is the same event)
		viol("SecureAead.Read:n>len(b)-frame-tail-dropped",
			"Read(buf of %d bytes) returned n=%d > len(buf); delivered %d of %d bytes", res.overBuf, res.overN, len(res.got), len(want))
	case res.stuck:
		viol("stream:no-progress", "reader made no progress after %d reads (%d of %d bytes)", res.reads, len(res.got), len(want))
	case !bytes.Equal(res.got, want):
		if len(res.got) < len(want) && bytes.Equal(res.got, want[:len(res.got)]) {
			viol("stream:bytes-lost", "only %d of %d bytes delivered before err=%v", len(res.got), len(want), res.err)
		} else {
			i := 0
			for i < len(res.got) && i < len(want) && res.got[i] == want[i] {
				i++
			}
			viol("stream:bytes-differ", "delivered stream differs from written stream at offset %d (got %d bytes, want %d)", i, len(res.got), len(want))
		}
	case res.err != io.EOF:
		viol("stream:error-on-intact-wire", "intact wire ended with err=%v, want io.EOF", res.err)
	}
}

// c31CheckSizes: both directions carry data; all write sizes x read-buffer patterns.
func c31CheckSizes(r *ev.Run, st *c31Stats, c *c31Case) {
	if c.Kind == "chunk" {
		atomic.AddInt64(&st.chunkRuns, 1)
	} else if c.Kind == "bounds" {
		atomic.AddInt64(&st.boundsRuns, 1)
	} else {
		atomic.AddInt64(&st.sizeRuns, 1)
	}
	l, err := c31NewLink(c.Cfg)
	if err != nil {
		r.Violation("keys:NewSecureConn-error", err.Error()+"; case="+c.String(), c)
		return
	}
	l.p12.cuts, l.p12.uniform = c.Cuts, c.Uniform
	l.p21.cuts, l.p21.uniform = c.Cuts, c.Uniform
	w12, w21 := c.Writes, c31Reverse(c.Writes)
	total := c31Sum(w12)
	// short-buffer accounting (vacuity): does some read offer less than a pending frame?
	minRead := c.Reads[0]
	for _, x := range c.Reads {
		if x < minRead {
			minRead = x
		}
	}
	maxFrame := 0
	for _, w := range w12 {
		f := w
		if f > secureConnFrameSize {
			f = secureConnFrameSize
		}
		if f > maxFrame {
			maxFrame = f
		}
	}
	if minRead < maxFrame {
		atomic.AddInt64(&st.shortBufReads, 1)
	} else {
		atomic.AddInt64(&st.fullBufReads, 1)
	}
	limit := 2*total + 64
	if c.Sched == 0 {
		// interleave the writes of both ends, then drain both ends
		o1, o2 := 0, 0
		for i := range w12 {
			n, e := l.c1.Write(c31Data[0][o1 : o1+w12[i]])
			if e != nil || n != w12[i] {
				r.Violation("write:short-or-error", fmt.Sprintf("Write(%d)=%d,%v; case=%s", w12[i], n, e, c), c)
				return
			}
			o1 += n
			n, e = l.c2.Write(c31Data[1][o2 : o2+w21[i]])
			if e != nil || n != w21[i] {
				r.Violation("write:short-or-error", fmt.Sprintf("Write(%d)=%d,%v; case=%s", w21[i], n, e, c), c)
				return
			}
			o2 += n
		}
		res2 := c31Drain(l.c2, c.Reads, limit)
		res1 := c31Drain(l.c1, c.Reads, limit)
		c31StreamVerdict(r, c, "1->2", c31Data[0][:total], res2)
		c31StreamVerdict(r, c, "2->1", c31Data[1][:total], res1)
		return
	}
	// sched 1: after every write the peer drains what is there (EOF = nothing more yet)
	var got12, got21 []byte
	o1, o2 := 0, 0
	for i := range w12 {
		if _, e := c31WriteAll(l.c1, c31Data[0][o1:], w12[i:i+1]); e != nil {
			r.Violation("write:short-or-error", e.Error()+"; case="+c.String(), c)
			return
		}
		o1 += w12[i]
		res := c31Drain(l.c2, c.Reads, limit)
		got12 = append(got12, res.got...)
		res.got = got12
		if res.panicked != "" || res.overN > 0 || res.stuck || res.err != io.EOF || i == len(w12)-1 {
			c31StreamVerdict(r, c, "1->2", c31Data[0][:o1], res)
			if res.panicked != "" || res.overN > 0 || res.stuck || res.err != io.EOF {
				return
			}
		}
		if _, e := c31WriteAll(l.c2, c31Data[1][o2:], w21[i:i+1]); e != nil {
			r.Violation("write:short-or-error", e.Error()+"; case="+c.String(), c)
			return
		}
		o2 += w21[i]
		res = c31Drain(l.c1, c.Reads, limit)
		got21 = append(got21, res.got...)
		res.got = got21
		if res.panicked != "" || res.overN > 0 || res.stuck || res.err != io.EOF || i == len(w12)-1 {
			c31StreamVerdict(r, c, "2->1", c31Data[1][:o2], res)
			if res.panicked != "" || res.overN > 0 || res.stuck || res.err != io.EOF {
				return
			}
		}
	}
}

// ---------------------------------------------------------------- oracle: tampering

type c31Frame struct{ start, end int }

func c31Frames(p *c31Pipe) []c31Frame {
	var fs []c31Frame
	s := 0
	for _, e := range p.segs {
		fs = append(fs, c31Frame{s, e})
		s = e
	}
	return fs
}

// plaintext length carried by the frames written for the given write sizes
func c31FramePlain(writes []int) []int {
	var out []int
	for _, w := range writes {
		for w > 0 {
			f := w
			if f > secureConnFrameSize {
				f = secureConnFrameSize
			}
			out = append(out, f)
			w -= f
		}
	}
	return out
}

var c31FlipPos = []string{"len-hi", "len-lo", "pad2", "pad3", "ct-first", "ct-mid", "ct-last", "tag-first", "tag-mid", "tag-last"}
var c31TruncPos = []string{"hdr+1", "hdr-end", "body-mid", "end-1"}

// c31Mutate returns the tampered wire and the number of plaintext bytes that precede the
// first affected frame (= what may still be delivered). ok=false: mutation not applicable.
// mustReject=false: the statement does not demand detection (unused header padding, dropping
// the last frame = indistinguishable from a close); then the stream must be intact or a prefix.
func c31Mutate(wire []byte, frames []c31Frame, plain []int, c *c31Case, foreign []byte) (out []byte, safe int, mustReject, ok bool) {
	k := c.Frame
	if k >= len(frames) {
		return nil, 0, false, false
	}
	for i := 0; i < k; i++ {
		safe += plain[i]
	}
	f := frames[k]
	body := f.end - f.start - secureConnHeaderSize // ciphertext + tag
	ct := plain[k]
	tag := body - ct
	cp := func() []byte { return append([]byte(nil), wire...) }
	mustReject = true
	switch c.Mut {
	case "flip":
		var off int
		switch c.Pos {
		case "len-hi":
			off = 0
		case "len-lo":
			off = 1
		case "pad2":
			off, mustReject = 2, false
		case "pad3":
			off, mustReject = 3, false
		case "ct-first":
			off = secureConnHeaderSize
		case "ct-mid":
			off = secureConnHeaderSize + ct/2
		case "ct-last":
			off = secureConnHeaderSize + ct - 1
		case "tag-first":
			off = secureConnHeaderSize + ct
		case "tag-mid":
			off = secureConnHeaderSize + ct + tag/2
		case "tag-last":
			off = secureConnHeaderSize + ct + tag - 1
		}
		if (c.Pos == "ct-mid" && ct < 3) || (c.Pos == "ct-last" && ct < 2) || ct < 1 {
			return nil, 0, false, false
		}
		out = cp()
		out[f.start+off] ^= c.Xor
	case "swap":
		if k+1 >= len(frames) {
			return nil, 0, false, false
		}
		g := frames[k+1]
		out = append(out, wire[:f.start]...)
		out = append(out, wire[g.start:g.end]...)
		out = append(out, wire[f.start:f.end]...)
		out = append(out, wire[g.end:]...)
	case "replay-next": // frame k delivered twice in a row: the second copy is the affected frame
		out = append(out, wire[:f.end]...)
		out = append(out, wire[f.start:f.end]...)
		out = append(out, wire[f.end:]...)
		safe += plain[k]
	case "replay-end": // frame k appended again after the last frame
		out = append(cp(), wire[f.start:f.end]...)
		safe = 0
		for _, p := range plain {
			safe += p
		}
	case "drop":
		out = append(out, wire[:f.start]...)
		out = append(out, wire[f.end:]...)
		if k == len(frames)-1 {
			mustReject = false
		}
	case "trunc":
		var at int
		switch c.Pos {
		case "hdr+1":
			at = f.start + 1
		case "hdr-end":
			at = f.start + secureConnHeaderSize
		case "body-mid":
			at = f.start + secureConnHeaderSize + body/2
		case "end-1":
			at = f.end - 1
		}
		out = append(out, wire[:at]...)
		mustReject = false // cutting the connection cannot be prevented; nothing of the incomplete frame may be delivered
	case "foreign": // frame k replaced by the same-position frame of another session / direction
		if len(foreign) == 0 {
			return nil, 0, false, false
		}
		out = append(out, wire[:f.start]...)
		out = append(out, foreign...)
		out = append(out, wire[f.end:]...)
	default:
		return nil, 0, false, false
	}
	return out, safe, mustReject, true
}

// c31TamperVerdict: res is what a contract-honouring reader got from the tampered wire.
// safe = bytes of the frames before the first affected one; bound = most that may be delivered.
func c31TamperVerdict(r *ev.Run, st *c31Stats, c *c31Case, want []byte, safe int, mustReject bool, res c31ReadResult) {
	viol := func(sig, f string, a ...interface{}) {
		r.Violation(sig, fmt.Sprintf(f, a...)+"; case="+c.String(), c)
	}
	if res.panicked != "" {
		viol("tamper:Read-panic:"+c.Mut+"/"+c.Pos, "Read panicked: %s", res.panicked)
		return
	}
	if res.overN > 0 {
		viol("SecureAead.Read:n>len(b)-frame-tail-dropped", "Read(buf of %d) returned %d", res.overBuf, res.overN)
		return
	}
	if res.stuck {
		viol("tamper:no-progress", "reader never returned an error (%d reads)", res.reads)
		return
	}
	if res.touched {
		viol("tamper:buffer-modified-beyond-n", "Read modified the caller's buffer beyond the n bytes it reported")
		return
	}
	bound := safe
	if c.Mut == "flip" && !mustReject {
		bound = len(want) // unused padding byte: the stream may go on
	}
	isPrefix := len(res.got) <= len(want) && bytes.Equal(res.got, want[:len(res.got)])
	if len(res.got) > bound || !isPrefix {
		switch {
		case res.nWithErr > 0 && res.wroteWithErr && res.err != io.EOF:
			viol("tamper:rejected-frame-bytes-stored-in-buffer:"+c.Mut+"/"+c.Pos,
				"Read returned n=%d with err=%v and had stored bytes of the rejected frame in the caller's buffer", res.nWithErr, res.err)
		case res.nWithErr > 0:
			// bytes reported together with the terminating error are delivered bytes (io.Reader contract)
			viol("SecureAead.Read:n>0-with-error",
				"Read returned n=%d together with err=%v: the caller is told that %d bytes of its buffer are stream data although no frame was accepted (delivered %d, authentic prefix %d)",
				res.nWithErr, res.err, res.nWithErr, len(res.got), safe)
		case isPrefix && c.Mut != "replay-next" && c.Mut != "replay-end":
			viol("tamper:accepted:"+c.Mut+"/"+c.Pos, "%d bytes delivered, only the first %d precede the affected frame (err=%v)", len(res.got), safe, res.err)
		default:
			viol("tamper:forged-bytes-delivered:"+c.Mut+"/"+c.Pos, "%d bytes delivered, only the first %d are authentic (err=%v)", len(res.got), safe, res.err)
		}
		return
	}
	if len(res.got) < safe {
		viol("tamper:authentic-prefix-lost", "only %d of the %d bytes that precede the affected frame were delivered (err=%v)", len(res.got), safe, res.err)
		return
	}
	if mustReject && (res.err == nil || res.err == io.EOF) {
		viol("tamper:not-rejected:"+c.Mut+"/"+c.Pos, "the affected frame was skipped silently: err=%v after %d bytes", res.err, len(res.got))
		return
	}
	if res.err == io.EOF {
		atomic.AddInt64(&st.cleanEOF, 1)
	} else {
		atomic.AddInt64(&st.rejected, 1)
	}
}

// c31ForeignFrame: the frame at position k written in another session (other key role) or by
// the reader's own end (reflection).
func c31ForeignFrame(c *c31Case, k int) []byte {
	cfg := c.Cfg
	switch c.Pos {
	case "other-session":
		cfg.Role = 4 // session between other keys (A,A); tamper cases themselves use role 0 (A,B)
		if c.Cfg.Role == 4 {
			cfg.Role = 0
		}
		l, err := c31NewLink(cfg)
		if err != nil {
			return nil
		}
		c31WriteAll(l.c1, c31Data[0], c.Writes)
		fs := c31Frames(l.p12)
		if k >= len(fs) {
			return nil
		}
		return l.p12.buf[fs[k].start:fs[k].end]
	case "reflect":
		// what end 2 itself wrote as its k-th frame (same session, opposite direction)
		l, err := c31NewLink(c.Cfg)
		if err != nil {
			return nil
		}
		c31WriteAll(l.c2, c31Data[0], c.Writes)
		fs := c31Frames(l.p21)
		if k >= len(fs) {
			return nil
		}
		return l.p21.buf[fs[k].start:fs[k].end]
	}
	return nil
}

func c31CheckTamper(r *ev.Run, st *c31Stats, c *c31Case) bool {
	l, err := c31NewLink(c.Cfg)
	if err != nil {
		r.Violation("keys:NewSecureConn-error", err.Error(), c)
		return true
	}
	total, err := c31WriteAll(l.c1, c31Data[0], c.Writes)
	if err != nil {
		r.Violation("write:short-or-error", err.Error()+"; case="+c.String(), c)
		return true
	}
	frames := c31Frames(l.p12)
	plain := c31FramePlain(c.Writes)
	if len(frames) != len(plain) {
		r.Violation("write:frame-count", fmt.Sprintf("%d conn writes for %d expected frames; case=%s", len(frames), len(plain), c), c)
		return true
	}
	var foreign []byte
	if c.Mut == "foreign" {
		foreign = c31ForeignFrame(c, c.Frame)
	}
	wire, safe, mustReject, ok := c31Mutate(l.p12.buf, frames, plain, c, foreign)
	if !ok {
		return false
	}
	atomic.AddInt64(&st.tamperRuns, 1)
	l.p12.buf = wire
	l.p12.cuts, l.p12.uniform = c.Cuts, c.Uniform
	res := c31Drain(l.c2, c.Reads, 2*total+64)
	c31TamperVerdict(r, st, c, c31Data[0][:total], safe, mustReject, res)
	return true
}

// ---------------------------------------------------------------- production tier

// c31Spy sits between bufio.Reader and the SecureConn and records what bufio offers.
type c31Spy struct {
	rd       io.Reader
	minBuf   int
	maxBuf   int
	overBuf  int
	nWithErr int // Read calls that returned n>0 together with an error
}

func (s *c31Spy) Read(b []byte) (int, error) {
	if s.minBuf == 0 || len(b) < s.minBuf {
		s.minBuf = len(b)
	}
	if len(b) > s.maxBuf {
		s.maxBuf = len(b)
	}
	n, err := s.rd.Read(b)
	if n > len(b) {
		s.overBuf++
	}
	if n > 0 && err != nil {
		s.nWithErr++
	}
	return n, err
}

func c31ProdPacket(i, plen int) *Packet {
	p := NewPacket(module.ProtocolInfo(0x0300+uint16(i)), module.ProtocolInfo(0x0100), c31Data[1][i*101:i*101+plen])
	p.src = NewPeerID(c30likeID)
	p.dest = p2pDestPeer
	p.ttl = byte(i + 1)
	return p
}

var c30likeID = []byte{9, 8, 7, 6, 5, 4, 3, 2, 1, 0, 9, 8, 7, 6, 5, 4, 3, 2, 1, 0}

func c31PktEqual(i, plen int, p *Packet) bool {
	return p.protocol.Uint16() == 0x0300+uint16(i) && p.subProtocol.Uint16() == 0x0100 && p.dest == p2pDestPeer &&
		p.ttl == byte(i+1) && bytes.Equal(p.src.Bytes(), c30likeID) && bytes.Equal(p.payload, c31Data[1][i*101:i*101+plen])
}

// c31CheckProd: PacketWriter -> SecureConn -> wire -> SecureConn -> PacketReader(bufio 4096).
func c31CheckProd(r *ev.Run, st *c31Stats, c *c31Case) bool {
	viol := func(sig, f string, a ...interface{}) {
		r.Violation(sig, fmt.Sprintf(f, a...)+"; case="+c.String(), c)
	}
	l, err := c31NewLink(c.Cfg)
	if err != nil {
		viol("keys:NewSecureConn-error", "%v", err)
		return true
	}
	pw := NewPacketWriter(l.c1)
	// number of wire frames after each packet
	var framesAfter []int
	for i, pl := range c.Pkts {
		if err := pw.WritePacket(c31ProdPacket(i, pl)); err != nil {
			viol("prod:write-error", "%v", err)
			return true
		}
		framesAfter = append(framesAfter, len(l.p12.segs))
	}
	frames := c31Frames(l.p12)
	allowed := len(c.Pkts) // packets that may be delivered
	mustReject := false
	if c.Kind == "prodtamper" {
		plain := make([]int, len(frames))
		for i, f := range frames {
			plain[i] = f.end - f.start - secureConnHeaderSize - l.c1.out.aead.Overhead()
		}
		wire, _, mr, ok := c31Mutate(l.p12.buf, frames, plain, c, nil)
		if !ok {
			return false
		}
		mustReject = mr
		l.p12.buf = wire
		if !(c.Mut == "flip" && !mr) {
			first := c.Frame // first affected frame
			if c.Mut == "replay-next" {
				first = c.Frame + 1
			}
			if c.Mut == "replay-end" {
				first = len(frames)
			}
			allowed = 0
			for _, fa := range framesAfter {
				if fa <= first {
					allowed++
				}
			}
		}
		atomic.AddInt64(&st.prodTamperRuns, 1)
	} else {
		atomic.AddInt64(&st.prodRuns, 1)
	}
	l.p12.cuts, l.p12.uniform = c.Cuts, c.Uniform
	spy := &c31Spy{rd: l.c2}
	var pkts []*Packet
	var rerr error
	pan := ev.Catch(func() {
		pr := NewPacketReader(spy)
		for i := 0; i < len(c.Pkts)+2; i++ {
			p, e := pr.ReadPacket()
			if e != nil {
				rerr = e
				return
			}
			pkts = append(pkts, p)
		}
	})
	c31KeyMu.Lock()
	if spy.minBuf > 0 && (st.prodMinBuf == 0 || int64(spy.minBuf) < st.prodMinBuf) {
		st.prodMinBuf = int64(spy.minBuf)
	}
	if int64(spy.maxBuf) > st.prodMaxBuf {
		st.prodMaxBuf = int64(spy.maxBuf)
	}
	c31KeyMu.Unlock()
	if c.Kind == "prod" {
		atomic.AddInt64(&st.prodFrameOverBuf, int64(spy.overBuf))
	}
	// root cause marker: SecureConn.Read handed n>0 together with an error to bufio in this run
	rootKnown := spy.nWithErr > 0
	const sigStale = "prod:stale-bytes-parsed-as-stream-after-Read-n>0-with-error"
	if rootKnown {
		atomic.AddInt64(&st.prodNWithErr, 1)
	}
	if spy.overBuf > 0 && c.Kind == "prod" {
		viol("prod:SecureAead.Read:n>len(b)-via-bufio", "bufio offered a buffer shorter than a decrypted frame (%d times, min buffer %d)", spy.overBuf, spy.minBuf)
		return true
	}
	if pan != "" {
		atomic.AddInt64(&st.prodPanics, 1)
		if rootKnown {
			viol("prod:bufio-panic-after-Read-n>0-with-error", "SecureConn.Read returned n>0 (larger than the buffer) together with an error and bufio.Reader panicked: %s (%d packets delivered before)", pan, len(pkts))
		} else if c.Kind == "prodtamper" && mustReject {
			viol("prod:panic-on-rejected-frame", "PacketReader over SecureConn panicked: %s (%d packets delivered before)", pan, len(pkts))
		} else {
			viol("prod:panic", "PacketReader over SecureConn panicked on an intact wire: %s", pan)
		}
		return true
	}
	// every delivered packet must be the next written packet, and only packets that lie
	// completely in frames before the first affected one may be delivered
	for i, p := range pkts {
		if i >= len(c.Pkts) || !c31PktEqual(i, c.Pkts[i], p) {
			// which written packet is it (a duplicate)?
			dup := -1
			for j := range c.Pkts {
				if c31PktEqual(j, c.Pkts[j], p) {
					dup = j
				}
			}
			if rootKnown {
				viol(sigStale, "delivery #%d (a repeat of written packet #%d; -1 = none) was parsed from bytes bufio still held: SecureConn.Read returned n>0 together with an error (final err=%v)", i, dup, rerr)
			} else if dup >= 0 {
				viol("prod:packet-replayed-after-rejected-frame",
					"packet #%d was delivered again as delivery #%d: bytes that bufio still held were passed up as new stream data because SecureAead.Read returned n>0 with an error (final err=%v)", dup, i, rerr)
			} else {
				viol("prod:unwritten-packet-delivered", "delivery #%d is not a written packet: %v", i, p)
			}
			return true
		}
	}
	if len(pkts) > allowed {
		if rootKnown {
			viol(sigStale, "%d packets delivered, only %d lie before the affected frame: the last one was completed with bytes bufio still held because SecureConn.Read returned n>0 together with an error (final err=%v)", len(pkts), allowed, rerr)
		} else {
			viol("prod:packet-from-rejected-frame-delivered:"+c.Mut+"/"+c.Pos, "%d packets delivered, only %d lie before the affected frame", len(pkts), allowed)
		}
		return true
	}
	if c.Kind == "prod" || !mustReject {
		if c.Kind == "prod" && (len(pkts) != len(c.Pkts) || rerr != io.EOF) {
			viol("prod:packets-lost", "%d of %d packets delivered, err=%v", len(pkts), len(c.Pkts), rerr)
		}
		return true
	}
	if len(pkts) < allowed {
		viol("prod:authentic-packet-lost", "%d packets delivered, %d precede the affected frame (err=%v)", len(pkts), allowed, rerr)
		return true
	}
	if rerr == nil {
		viol("prod:not-rejected", "no error after the affected frame")
		return true
	}
	atomic.AddInt64(&st.rejected, 1)
	return true
}

// c31ProdFrames: number of wire frames the real writer stack produces for the packets.
func c31ProdFrames(cfg c31Cfg, pkts []int) int {
	l, err := c31NewLink(cfg)
	if err != nil {
		return 0
	}
	pw := NewPacketWriter(l.c1)
	for i, pl := range pkts {
		if pw.WritePacket(c31ProdPacket(i, pl)) != nil {
			return 0
		}
	}
	return len(l.p12.segs)
}

// ---------------------------------------------------------------- driver

func c31Run(r *ev.Run, st *c31Stats, c *c31Case) bool {
	switch c.Kind {
	case "keys":
		c31CheckKeys(r, st, c)
	case "sizes", "chunk", "bounds":
		c31CheckSizes(r, st, c)
	case "tamper":
		return c31CheckTamper(r, st, c)
	case "prod", "prodtamper":
		return c31CheckProd(r, st, c)
	}
	return true
}

func c31Seqs(alpha []int, maxLen int) [][]int {
	var out [][]int
	opseq.Sequences(len(alpha), 1, maxLen, func(ix []int) bool {
		s := make([]int, len(ix))
		for i, j := range ix {
			s[i] = alpha[j]
		}
		out = append(out, s)
		return true
	})
	return out
}

func TestVerifC31(t *testing.T) {
	r := ev.Start(t, "C31", "exploration")
	st := &c31Stats{}
	if ev.Replaying() {
		var c c31Case
		ev.ReplayCase(&c)
		r.Eval(1)
		if c.Kind == "nonce" || c.Kind == "long" {
			c31LongReplay(r, c.Kind)
			r.Finish(false)
			return
		}
		c31Run(r, st, &c)
		r.Sample(c)
		r.Finish(false)
		return
	}
	quick := r.Quick()
	F := secureConnFrameSize // the code's own frame size; every alphabet below is derived from it
	writeAlpha := []int{1, 2, F - 1, F, F + 1, 2*F + 1}
	readAlpha := []int{1, 2, 16, F - 1, F, 4 * F}
	boundSizes := c31BoundarySizes()
	r.Rule(fmt.Sprintf("All size alphabets are derived from the code at run time: F = secureConnFrameSize = %d, H = 65536 = range of the 16-bit length field of the frame header. ", F) +
		"nonce: the real increaseNonce driven 70000 steps from zero and 4096 steps from 72 directly-set states around every byte-carry boundary (j=1..12 trailing/leading 0xff bytes x fill{00,5a,fe}), per suite: all visited nonces pairwise distinct and equal to an independent 96-bit positional counter; " +
		"long connection: per suite K one-byte writes (quick 3300, thorough 70000) through the real Write path, intact read-back (reader nonces pairwise distinct), then swap of two adjacent frames / drop / duplicate replayed from frame 0 at positions {1,2,254..257,3058..3062,65534..65537,K-3} and, with the reader nonce restored from the recording, at EVERY position 0..K-3; " +
		"keys: 8 key roles (A<B both orders and defaultLower assignments, equal keys, equal-X/opposite-Y) x 3 AEAD suites x secrets{1,2}; " +
		"bounds: write sizes {F-1,F,F+1,2F-1,2F,2F+1,H-1,H,H+1,2H-1,2H,2H+1} x read buffers {1,16,F-1,F,F+1,4F,total+1}: quick = every single write x every read size x 3 suites x 2 schedules, every pair of writes x reads{F+1,total+1} (first suite); " +
		"thorough = singles and pairs x every cyclic read pattern of length<=2 x 3 suites x 2 schedules, triples x reads{F+1,4F,total+1} (first suite); plus one packet through PacketWriter/PacketReader whose payload, or whose direct bufio pass-through write (payload-4066), has each of those sizes x 3 suites x 2 conn chunkings; " +
		"sizes: every write-size sequence of length<=3 over {1,2,F-1,F,F+1,2F+1} (the other direction writes the reverse) x every cyclic read-buffer pattern of length<=3 over {1,2,16,F-1,F,4F} x 3 suites x 2 schedules (thorough adds write sequences of length 4 with patterns<=2; quick: |writes|+|pattern|<=5 first suite, <=3 others); " +
		"config: all roles x secrets{1,2} x suites x write sequences<=2 x 6 single read sizes; " +
		"conn chunking: uniform {1,2,3,5,16,17,1039,1040,1041,1044} and every single cut (wire<=200 bytes; every cut pair for wire<=64 bytes); " +
		"tamper: per frame of write sequences over {1,2,F,F+1}: xor{0x01,0x80,0xff} at 10 positions (length hi/lo, 2 padding bytes, ciphertext first/mid/last, tag first/mid/last), swap with next, replay (directly / at end), drop, truncation at 4 points, frame of another session, reflected own frame; " +
		"production tier: PacketWriter/PacketReader (bufio 4096) over the SecureConn, packet payload sequences over {0,1,100,F-40,F-39,2000,6000}, intact and with every frame mutation. " +
		"distinct_nontrivial = distinct cases in which at least one frame crosses the conn")
	r.Assume("plaintext is a fixed pseudo-random filler; keys are three fixed P-256 scalars (A, B, n-A)",
		"a reader honours the io.Reader contract: buf[:n] is stream data also when err != nil; n > len(buf) is a failure in itself",
		"the in-memory conn reports io.EOF when its queue is empty (peer closed); would-block is not modelled",
		"flipping the two unused padding bytes of the frame header and dropping the LAST frame (= early close) need not be detected; then the delivered stream must be a prefix of the written one",
		"after the first error the connection is considered dead (production closes it); nothing is read after it",
		"the nonce-counter reference takes its endianness from the first step of the real code; the all-0xff nonce (2^96 frames, exhaustion) is not stepped over",
		"cryptographic strength, nonce exhaustion and frames > 1024 bytes from an authenticated peer are not covered")

	// ---- long-connection tiers first (cheap; see c31_long_test.go)
	ls := &c31LongStats{}
	longK := r.Pick(3300, 70000)
	c31NonceTier(r, ls)
	longOK := c31LongTier(r, ls, longK)

	var cases []c31Case
	// ---- keys
	for ro := range c31Roles {
		for su := range c31Suites {
			for _, kn := range []int{1, 2} {
				cases = append(cases, c31Case{Kind: "keys", Cfg: c31Cfg{su, ro, kn}})
			}
		}
	}
	// ---- boundary sizes: multiples of the frame size and the range of the header's length field.
	// Read buffers: 1, small, F-1, F, F+1, 4F, larger than everything written.
	boundReads := func(total int) []int {
		m := map[int]struct{}{}
		for _, x := range []int{1, 16, F - 1, F, F + 1, 4 * F, total + 1} {
			if x > 0 {
				m[x] = struct{}{}
			}
		}
		var out []int
		for x := range m {
			out = append(out, x)
		}
		sort.Ints(out)
		return out
	}
	for _, w := range c31Seqs(boundSizes, r.Pick(2, 3)) {
		brs := boundReads(c31Sum(w))
		for su := range c31Suites {
			switch len(w) {
			case 1:
				// quick and thorough: every single write x every read size x suites x both schedules
				for _, rs := range brs {
					for sched := 0; sched < 2; sched++ {
						cases = append(cases, c31Case{Kind: "bounds", Cfg: c31Cfg{su, 0, 2}, Writes: w, Reads: []int{rs}, Sched: sched})
					}
				}
				if !quick { // read patterns of length 2
					for _, rp := range c31Seqs(brs, 2)[len(brs):] {
						cases = append(cases, c31Case{Kind: "bounds", Cfg: c31Cfg{su, 0, 2}, Writes: w, Reads: rp})
					}
				}
			case 2:
				if quick {
					if su == 0 { // quick: pairs with the first suite and two read sizes
						for _, rs := range []int{F + 1, c31Sum(w) + 1} {
							cases = append(cases, c31Case{Kind: "bounds", Cfg: c31Cfg{su, 0, 2}, Writes: w, Reads: []int{rs}})
						}
					}
					continue
				}
				for _, rp := range c31Seqs(brs, 2) {
					for sched := 0; sched < 2; sched++ {
						cases = append(cases, c31Case{Kind: "bounds", Cfg: c31Cfg{su, 0, 2}, Writes: w, Reads: rp, Sched: sched})
					}
				}
			case 3:
				if su == 0 { // thorough: triples with the first suite and three read sizes
					for _, rs := range []int{F + 1, 4 * F, c31Sum(w) + 1} {
						cases = append(cases, c31Case{Kind: "bounds", Cfg: c31Cfg{su, 0, 2}, Writes: w, Reads: []int{rs}})
					}
				}
			}
		}
	}
	// production stack with one large packet: bufio.Writer(4096) hands the part of the payload that
	// does not fit its buffer to the conn in ONE Write of payload-(4096-header) bytes; choose the
	// payload so that this write has each boundary size (and the payload itself has it)
	for _, d := range boundSizes {
		for _, pl := range []int{d, d + DefaultPacketBufferSize - packetHeaderSize} {
			if pl > DefaultPacketPayloadMax {
				continue
			}
			for su := range c31Suites {
				for _, u := range []int{0, F + 16} {
					cases = append(cases, c31Case{Kind: "prod", Cfg: c31Cfg{su, 0, 2}, Pkts: []int{pl}, Uniform: u})
				}
			}
		}
	}
	// ---- sizes (the enumeration the property's why_tests_cant names)
	wseqs := c31Seqs(writeAlpha, r.Pick(3, 4))
	rpats := c31Seqs(readAlpha, 3)
	for su := range c31Suites {
		for _, w := range wseqs {
			for _, rp := range rpats {
				for sched := 0; sched < 2; sched++ {
					if len(w) == 4 && len(rp) > 2 {
						continue // thorough: length-4 write sequences with read patterns of length <= 2
					}
					if quick && (len(w)+len(rp) > 5 || (su != 0 && len(w)+len(rp) > 3)) {
						continue // quick: |writes|+|reads| <= 5 with the first suite, <= 3 with the others
					}
					cases = append(cases, c31Case{Kind: "sizes", Cfg: c31Cfg{su, 0, 2}, Writes: w, Reads: rp, Sched: sched})
				}
			}
		}
	}
	// ---- config product with short sequences
	wseqs2 := c31Seqs(writeAlpha, 2)
	for ro := range c31Roles {
		for su := range c31Suites {
			for _, kn := range []int{1, 2} {
				if ro == 0 && kn == 2 {
					continue // covered above
				}
				for _, w := range wseqs2 {
					for _, rs := range readAlpha {
						cases = append(cases, c31Case{Kind: "sizes", Cfg: c31Cfg{su, ro, kn}, Writes: w, Reads: []int{rs}})
					}
				}
			}
		}
	}
	// ---- conn chunking (reader buffers 4096 and 1024 so that the stream, not the buffer, is varied)
	overhead := 16
	wire := func(w []int) (n int) {
		for _, p := range c31FramePlain(w) {
			n += secureConnHeaderSize + p + overhead
		}
		return
	}
	for su := range c31Suites {
		for _, w := range wseqs2 {
			for _, rs := range []int{4096, 1024} {
				for _, u := range []int{1, 2, 3, 5, 16, 17, 1039, 1040, 1041, 1044} {
					cases = append(cases, c31Case{Kind: "chunk", Cfg: c31Cfg{su, 0, 2}, Writes: w, Reads: []int{rs}, Uniform: u})
				}
				if wl := wire(w); wl <= 200 && rs == 4096 {
					for a := 1; a < wl; a++ {
						cases = append(cases, c31Case{Kind: "chunk", Cfg: c31Cfg{su, 0, 2}, Writes: w, Reads: []int{rs}, Cuts: []int{a}})
						if wl <= 64 {
							for b := a + 1; b < wl; b++ {
								cases = append(cases, c31Case{Kind: "chunk", Cfg: c31Cfg{su, 0, 2}, Writes: w, Reads: []int{rs}, Cuts: []int{a, b}})
							}
						}
					}
				}
			}
		}
	}
	// ---- tampering
	tamperWrites := c31Seqs([]int{1, 2, F, F + 1}, r.Pick(2, 3))
	type mut struct {
		m, pos string
		xor    byte
	}
	var muts []mut
	for _, p := range c31FlipPos {
		for _, x := range []byte{0x01, 0x80, 0xff} {
			muts = append(muts, mut{"flip", p, x})
		}
	}
	muts = append(muts, mut{"swap", "", 0}, mut{"replay-next", "", 0}, mut{"replay-end", "", 0}, mut{"drop", "", 0})
	for _, p := range c31TruncPos {
		muts = append(muts, mut{"trunc", p, 0})
	}
	muts = append(muts, mut{"foreign", "other-session", 0}, mut{"foreign", "reflect", 0})
	for su := range c31Suites {
		for _, kn := range []int{2, 1} {
			for _, w := range tamperWrites {
				nf := len(c31FramePlain(w))
				for k := 0; k < nf; k++ {
					for _, m := range muts {
						if m.m == "foreign" && m.pos == "reflect" && kn == 1 {
							continue // one shared key: reflection is not excluded by the statement ("separate keys per direction")
						}
						for _, rs := range []int{4096, 1024, 16} {
							if (kn == 1 && rs != 4096) || (quick && rs == 16) {
								continue
							}
							cases = append(cases, c31Case{Kind: "tamper", Cfg: c31Cfg{su, 0, kn}, Writes: w, Reads: []int{rs}, Mut: m.m, Frame: k, Pos: m.pos, Xor: m.xor})
						}
					}
				}
			}
		}
	}
	// ---- production tier
	pktAlpha := []int{0, 1, 100, F - packetHeaderSize - packetFooterSize, F + 1 - packetHeaderSize - packetFooterSize, 2000, 6000}
	pseqs := c31Seqs(pktAlpha, r.Pick(2, 3))
	for su := range c31Suites {
		for _, ps := range pseqs {
			if quick && su != 0 && len(ps) > 1 {
				continue
			}
			for _, u := range []int{0, 1, 7, 1040} {
				cases = append(cases, c31Case{Kind: "prod", Cfg: c31Cfg{su, 0, 2}, Pkts: ps, Uniform: u})
			}
			if su != 0 && len(ps) > 2 {
				continue
			}
			// number of frames: a packet of n bytes is ceil(n/1024) frames (one flush per packet <= 4096, else bufio passes large writes through)
			for k, nf := 0, c31ProdFrames(c31Cfg{su, 0, 2}, ps); k < nf; k++ {
				for _, m := range muts {
					if m.m == "foreign" {
						continue
					}
					cases = append(cases, c31Case{Kind: "prodtamper", Cfg: c31Cfg{su, 0, 2}, Pkts: ps, Mut: m.m, Frame: k, Pos: m.pos, Xor: m.xor})
				}
			}
		}
	}

	var applicable int64
	var incomplete int64
	ev.Par(len(cases), 16, func(i int) {
		if i%256 == 0 && r.Expired() {
			atomic.StoreInt64(&incomplete, 1)
		}
		if atomic.LoadInt64(&incomplete) != 0 {
			return
		}
		c := &cases[i]
		if c31Run(r, st, c) {
			atomic.AddInt64(&applicable, 1)
			if c.Kind != "keys" {
				r.Nontrivial(c.String())
			}
		}
	})
	r.Eval(int(applicable))

	// samples
	sm := []c31Case{
		{Kind: "sizes", Cfg: c31Cfg{0, 0, 2}, Writes: []int{1025, 1}, Reads: []int{4096}, Sched: 1},
		{Kind: "tamper", Cfg: c31Cfg{1, 0, 2}, Writes: []int{1024, 2}, Reads: []int{4096}, Mut: "swap", Frame: 0},
		{Kind: "prod", Cfg: c31Cfg{2, 0, 2}, Pkts: []int{6000, 0}, Uniform: 7},
		{Kind: "bounds", Cfg: c31Cfg{0, 0, 2}, Writes: []int{c31HdrRange}, Reads: []int{F + 1}},
	}
	for i := range sm {
		r.Sample(map[string]interface{}{"case": sm[i], "desc": sm[i].String()})
	}
	kinds := map[string]int{}
	for _, c := range cases {
		kinds[c.Kind]++
	}
	var ks []string
	for k := range kinds {
		ks = append(ks, k)
	}
	sort.Strings(ks)
	for _, k := range ks {
		r.Set("cases_generated_"+k, kinds[k])
	}
	r.Set("cases_applicable", applicable)
	r.Set("key_configs", st.keyRuns)
	r.Set("nonce_walks", ls.nonceStates)
	r.Set("nonce_steps_checked", ls.nonceSteps)
	r.Set("nonce_walks_not_a_positional_counter", ls.nonceNotCounter)
	r.Set("long_connection_frames_per_suite", longK)
	r.Set("long_intact_streams", ls.longIntact)
	r.Set("long_full_replays_from_frame_0", ls.longFull)
	r.Set("long_snapshot_replays_every_position", ls.longSnap)
	r.Set("long_replays_rejected", ls.longRejected)
	r.Sanity(ls.nonceSteps > 200000 && ls.longIntact == int64(len(c31Suites)), "nonce / long tiers did not run")
	if longOK {
		r.Sanity(ls.longRejected == ls.longFull+ls.longSnap || r.Violations() > 0, "long replays neither rejected nor reported")
	}
	r.Set("frame_size_constant", F)
	r.Set("boundary_write_sizes", boundSizes)
	r.Set("boundary_runs", st.boundsRuns)
	r.Set("size_runs", st.sizeRuns)
	r.Set("size_runs_with_buffer_shorter_than_a_frame", st.shortBufReads)
	r.Set("size_runs_with_buffer_at_least_frame", st.fullBufReads)
	r.Set("conn_chunking_runs", st.chunkRuns)
	r.Set("tamper_runs", st.tamperRuns)
	r.Set("tamper_rejected_with_error", st.rejected)
	r.Set("harmless_mutations_ending_in_clean_EOF", st.cleanEOF)
	r.Set("prod_runs", st.prodRuns)
	r.Set("prod_tamper_runs", st.prodTamperRuns)
	r.Set("prod_min_buffer_offered_by_bufio", st.prodMinBuf)
	r.Set("prod_max_buffer_offered_by_bufio", st.prodMaxBuf)
	r.Set("prod_intact_frames_longer_than_offered_buffer", st.prodFrameOverBuf)
	r.Set("prod_runs_where_Read_returned_n>0_with_error", st.prodNWithErr)
	r.Set("prod_panics", st.prodPanics)
	if incomplete == 0 {
		r.Sanity(st.shortBufReads > 0 && st.fullBufReads > 0, "short/full buffer runs missing")
		r.Sanity(st.boundsRuns > 0 && boundSizes[len(boundSizes)-1] > c31HdrRange && boundSizes[len(boundSizes)-1] > 2*F, "boundary sizes do not exceed the header range / frame size")
		r.Sanity(st.tamperRuns > 1000 && st.prodTamperRuns > 1000, "too few tamper runs")
		r.Sanity(st.prodMaxBuf > DefaultPacketBufferSize, "bufio direct-read path never taken")
		r.Sanity(st.prodMinBuf > 0, "spy saw no read")
	}
	r.Finish(incomplete == 0 && longOK)
}
