//go:build verif

package consensus

// C04 — vote tallies report a +2/3 majority exactly when one exists.
//
// Explicit-state BFS over the *real* consensus.voteSet (and heightVoteSet).
// A state is the complete internal state of the real object (slot array,
// counter list in its real order, maxIndex cache, count, mask, round); a
// successor is produced by replaying the shortest operation history on a fresh
// real instance. The oracle is an independent recount over a slot array kept by
// a ten-line model.

import (
	"bytes"
	"encoding/hex"
	"fmt"
	"reflect"
	"runtime/debug"
	"sort"
	"strconv"
	"sync"
	"sync/atomic"
	"testing"

	"github.com/icon-project/goloop/common"
	"github.com/icon-project/goloop/common/codec"
	"github.com/icon-project/goloop/common/crypto"
	"github.com/icon-project/goloop/common/wallet"
	"github.com/icon-project/goloop/module"
	"github.com/icon-project/goloop/verifshim/ev"
)

// ---------------------------------------------------------------- universe

type c04Cfg struct {
	Name     string `json:"name"`
	N        int    `json:"n"`         // validators
	D        int    `json:"decisions"` // 2: {A,nil}  3: {A,B,nil}
	T        int    `json:"timestamps"`
	HVS      bool   `json:"hvs"`       // drive heightVoteSet with 2 rounds x 2 vote types
	CAdd     bool   `json:"check_add"` // include voteSet.Add (checkAndAdd) in the alphabet
	E        int    `json:"encodings"` // 0/1: votes built in-process; 3: each vote also as marshal->unmarshal and as a wire form with an explicit empty NTS-vote list
	MaxDepth int    `json:"max_depth"` // 0 = to fixpoint
}

type c04Uni struct {
	cfg   c04Cfg
	nSets int
	V     int
	// msgs[set][slot][vote]
	msgs   [][][]*VoteMessage
	rdd    [][]byte     // per decision
	psid   []*PartSetID // per decision (nil for the nil decision)
	psidAD []*PartSetIDAndAppData
	ops    []c04Op
	// for the reflective state key
	ptrLabel   map[uintptr]string // *VoteMessage -> "set.slot.vote"
	bytesLabel map[string]string  // well-known byte strings -> short label
}

type c04Op struct {
	Kind int `json:"k"` // 0 add, 1 checkAndAdd(Add), 2 majority query, 3 all other observers
	Set  int `json:"s"`
	Idx  int `json:"i"`
	Vote int `json:"v"`
}

func (o c04Op) String() string {
	switch o.Kind {
	case 2:
		return fmt.Sprintf("query(set%d)", o.Set)
	case 3:
		return fmt.Sprintf("observe(set%d)", o.Set)
	case 1:
		return fmt.Sprintf("Add(set%d,%d,v%d)", o.Set, o.Idx, o.Vote)
	}
	return fmt.Sprintf("add(set%d,%d,v%d)", o.Set, o.Idx, o.Vote)
}

var c04WalletsOnce sync.Once
var c04Wallets []module.Wallet

func c04GetWallets() []module.Wallet {
	c04WalletsOnce.Do(func() {
		for i := 0; i < 16; i++ {
			kb := make([]byte, 32)
			for j := range kb {
				kb[j] = byte(0x11 + i)
			}
			sk, err := crypto.ParsePrivateKey(kb)
			if err != nil {
				panic(err)
			}
			w, err := wallet.NewFromPrivateKey(sk)
			if err != nil {
				panic(err)
			}
			c04Wallets = append(c04Wallets, w)
		}
	})
	return c04Wallets
}

func c04Fill(b byte) []byte { return bytes.Repeat([]byte{b}, 32) }

func c04NewUni(cfg c04Cfg) *c04Uni {
	if cfg.E < 1 {
		cfg.E = 1
	}
	u := &c04Uni{cfg: cfg, nSets: 1, V: cfg.D * cfg.T * cfg.E}
	if cfg.HVS {
		u.nSets = 4
	}
	ws := c04GetWallets()
	// decisions: 0 = block A, (1 = block B if D==3), last = nil
	type dec struct {
		bid  []byte
		psid *PartSetIDAndAppData
	}
	var decs []dec
	for b := 0; b < cfg.D-1; b++ { // D-1 blocks (A, B, C ...) and nil
		decs = append(decs, dec{c04Fill(byte(0xA1 + 0x10*b)), (&PartSetID{Count: uint16(1 + b), Hash: c04Fill(byte(0xA2 + 0x10*b))}).WithAppData(psidAppData(1, 0))})
	}
	decs = append(decs, dec{codec.MustMarshalToBytes(1), nil})
	for _, d := range decs {
		u.psidAD = append(u.psidAD, d.psid)
		u.psid = append(u.psid, d.psid.ID())
	}
	u.msgs = make([][][]*VoteMessage, u.nSets)
	for s := 0; s < u.nSets; s++ {
		round, vt := int32(0), VoteTypePrecommit
		if cfg.HVS {
			round, vt = int32(s/2), VoteType(s%2)
		}
		u.msgs[s] = make([][]*VoteMessage, cfg.N)
		for i := 0; i < cfg.N; i++ {
			u.msgs[s][i] = make([]*VoteMessage, u.V)
			for v := 0; v < u.V; v++ {
				d := decs[v/(cfg.T*cfg.E)]
				m := newVoteMessage()
				m.Height = 1
				m.Round = round
				m.Type = vt
				m.SetRoundDecision(d.bid, d.psid, nil)
				m.Timestamp = int64(1000 + (v/cfg.E)%cfg.T)
				if err := m.Sign(ws[i]); err != nil {
					panic(err)
				}
				m = c04WireForm(m, v%cfg.E)
				m.RoundDecisionDigest() // fill the lazy cache before goroutines share m
				m.hash()
				u.msgs[s][i][v] = m
			}
		}
	}
	u.ptrLabel = map[uintptr]string{}
	u.bytesLabel = map[string]string{}
	for s := range u.msgs {
		for i := range u.msgs[s] {
			for v, m := range u.msgs[s][i] {
				u.ptrLabel[reflect.ValueOf(m).Pointer()] = fmt.Sprintf("m%d.%d.%d;", s, i, v)
			}
		}
	}
	for d, x := range decs {
		u.bytesLabel[string(x.bid)] = fmt.Sprintf("bid%d", d)
		if x.psid != nil {
			u.bytesLabel[string(x.psid.Hash)] = fmt.Sprintf("ps%d", d)
		}
		u.bytesLabel[string(u.msgs[0][0][d*cfg.T*cfg.E].RoundDecisionDigest())] = fmt.Sprintf("rdd%d", d)
	}
	for d := range decs {
		u.rdd = append(u.rdd, u.msgs[0][0][d*cfg.T*cfg.E].RoundDecisionDigest())
	}
	for s := 0; s < u.nSets; s++ {
		for i := 0; i < cfg.N; i++ {
			for v := 0; v < u.V; v++ {
				u.ops = append(u.ops, c04Op{0, s, i, v})
			}
		}
	}
	if cfg.CAdd {
		for i := 0; i < cfg.N; i++ {
			for v := 0; v < u.V; v++ {
				u.ops = append(u.ops, c04Op{1, 0, i, v})
			}
		}
	}
	for s := 0; s < u.nSets; s++ {
		u.ops = append(u.ops, c04Op{2, s, 0, 0})
		u.ops = append(u.ops, c04Op{3, s, 0, 0})
	}
	return u
}

func (u *c04Uni) decOf(v int) int { return v / (u.cfg.T * u.cfg.E) }

// logical identifies the vote (decision, timestamp) regardless of its encoding.
func (u *c04Uni) logical(v int) int { return v / u.cfg.E }

type c04VerifyCtx struct{}

func (c04VerifyCtx) ValidNID(nid uint32) bool { return nid == 0 || nid == 1 }
func (c04VerifyCtx) NID() int                 { return 1 }

// c04WireForm returns the vote as a receiver would hold it:
//
//	0  the object as built and signed in-process
//	1  marshal -> UnmarshalMessage
//	2  the same signed vote re-encoded with an explicit, empty NTS-vote list
//	   element (not covered by the signature) -> UnmarshalMessage
//
// All three are the same vote for the same decision.
func c04WireForm(m *VoteMessage, enc int) *VoteMessage {
	if enc == 0 {
		return m
	}
	var bs []byte
	if enc == 1 {
		bs = msgCodec.MustMarshalToBytes(m)
	} else {
		type ntsVote struct {
			NetworkTypeID          int64
			NetworkTypeSectionHash []byte
			NTSDProofPart          []byte
		}
		bs = msgCodec.MustMarshalToBytes(&struct {
			Signature common.Signature
			Height    int64
			Round     int32
			Type      VoteType
			BlockID   []byte
			PSID      *PartSetIDAndAppData
			Timestamp int64
			NTSVotes  []ntsVote
		}{m.Signature, m.Height, m.Round, m.Type, m.BlockID, m.BlockPartSetIDAndNTSVoteCount, m.Timestamp, []ntsVote{}})
		if bytes.Equal(bs, msgCodec.MustMarshalToBytes(m)) {
			panic("harness: explicit empty NTS list does not change the encoding")
		}
	}
	x, err := UnmarshalMessage(uint16(ProtoVote), bs)
	if err != nil {
		panic(err)
	}
	w := x.(*VoteMessage)
	if err := w.Verify(c04VerifyCtx{}); err != nil {
		panic(fmt.Sprintf("harness: wire form %d does not verify: %v", enc, err))
	}
	if !bytes.Equal(w.address().Bytes(), m.address().Bytes()) || !bytes.Equal(w.hash(), m.hash()) {
		panic("harness: wire form is not the same signed vote")
	}
	return w
}

// ---------------------------------------------------------------- model

// c04Model is the reference: one slot array per vote set; everything else is
// recounted from it on demand.
type c04Model struct {
	n, D  int
	slots [][]int8 // [set][slot] vote id or -1
	round []int32  // round of the last accepted vote (-1 none)
}

func c04NewModel(u *c04Uni) *c04Model {
	m := &c04Model{n: u.cfg.N, D: u.cfg.D}
	all := make([]int8, u.cfg.N*u.nSets)
	for i := range all {
		all[i] = -1
	}
	m.slots = make([][]int8, u.nSets)
	m.round = make([]int32, u.nSets)
	for s := 0; s < u.nSets; s++ {
		m.slots[s] = all[s*u.cfg.N : (s+1)*u.cfg.N]
		m.round[s] = -1
	}
	return m
}

// recount returns the per-decision tallies, the number of filled slots and the
// decision (or -1) that more than two thirds of the n slots hold.
func (m *c04Model) recount(u *c04Uni, s int) (cnt [4]int, filled int, decided int, nDecided int) {
	for _, v := range m.slots[s] {
		if v >= 0 {
			cnt[u.decOf(int(v))]++
			filled++
		}
	}
	decided = -1
	for d := 0; d < m.D; d++ {
		if 3*cnt[d] > 2*m.n {
			decided = d
			nDecided++
		}
	}
	return
}

// add applies the documented replacement rule.
func (m *c04Model) add(u *c04Uni, s, i, v int, round int32) bool {
	old := int(m.slots[s][i])
	if old >= 0 && u.logical(old) == u.logical(v) {
		return false // the very same vote again (in whatever encoding)
	}
	if old >= 0 {
		_, _, dec, _ := m.recount(u, s)
		if dec >= 0 && u.decOf(old) == dec {
			return false // the old vote supports the +2/3 decision: not replaceable
		}
	}
	m.slots[s][i] = int8(v)
	m.round[s] = round
	return true
}

// ---------------------------------------------------------------- system under test

type c04Sys struct {
	u   *c04Uni
	vs  *voteSet       // !HVS
	hvs *heightVoteSet // HVS
}

func c04NewSys(u *c04Uni) *c04Sys {
	s := &c04Sys{u: u}
	if u.cfg.HVS {
		s.hvs = &heightVoteSet{}
		s.hvs.reset(u.cfg.N)
	} else {
		s.vs = newVoteSet(u.cfg.N)
	}
	return s
}

func (s *c04Sys) set(i int) *voteSet {
	if s.hvs == nil {
		return s.vs
	}
	// read-only peek: do not create the set as a side effect of observing
	return s.hvs._votes[int32(i/2)][VoteType(i%2)]
}

func (u *c04Uni) msgLabel(set int, slot int, m *VoteMessage) byte {
	if m == nil {
		return '-'
	}
	for v, x := range u.msgs[set][slot] {
		if x == m {
			return byte('0' + v)
		}
	}
	return 0xFF
}

func (u *c04Uni) rddLabel(rdd []byte) byte {
	for d, x := range u.rdd {
		if bytes.Equal(x, rdd) {
			return byte('a' + d)
		}
	}
	return '?'
}

// key serialises the complete internal state of the real object(s) by walking
// EVERY field of the real structs with reflection (not a hand-picked list): a
// field added to voteSet/heightVoteSet/counter/BitArray tomorrow is part of the
// state identity automatically, so two objects that differ only in a field the
// harness has never heard of are never merged by the BFS.
func (s *c04Sys) key() string {
	b := make([]byte, 0, 64*s.u.nSets)
	if s.hvs != nil {
		s.u.canon(&b, reflect.ValueOf(s.hvs))
	} else {
		s.u.canon(&b, reflect.ValueOf(s.vs))
	}
	return string(b)
}

var c04VoteMsgPtrType = reflect.TypeOf((*VoteMessage)(nil))

func (u *c04Uni) canon(b *[]byte, v reflect.Value) {
	switch v.Kind() {
	case reflect.Bool:
		if v.Bool() {
			*b = append(*b, 'T')
		} else {
			*b = append(*b, 'F')
		}
	case reflect.Int, reflect.Int8, reflect.Int16, reflect.Int32, reflect.Int64:
		*b = strconv.AppendInt(*b, v.Int(), 10)
		*b = append(*b, ',')
	case reflect.Uint, reflect.Uint8, reflect.Uint16, reflect.Uint32, reflect.Uint64, reflect.Uintptr:
		*b = strconv.AppendUint(*b, v.Uint(), 16)
		*b = append(*b, ',')
	case reflect.String:
		*b = append(*b, v.String()...)
		*b = append(*b, ',')
	case reflect.Ptr:
		if v.IsNil() {
			*b = append(*b, '~')
			return
		}
		if v.Type() == c04VoteMsgPtrType {
			// votes are immutable inputs: identified by which message of the alphabet it is
			if l, ok := u.ptrLabel[v.Pointer()]; ok {
				*b = append(*b, l...)
			} else {
				*b = append(*b, "?vote"...)
			}
			return
		}
		*b = append(*b, '&')
		u.canon(b, v.Elem())
	case reflect.Slice:
		if v.IsNil() {
			*b = append(*b, '~')
			return
		}
		if v.Type().Elem().Kind() == reflect.Uint8 {
			bs := v.Bytes()
			if l, ok := u.bytesLabel[string(bs)]; ok {
				*b = append(*b, l...)
			} else {
				*b = append(*b, hex.EncodeToString(bs)...)
			}
			*b = append(*b, ',')
			return
		}
		fallthrough
	case reflect.Array:
		*b = append(*b, '[')
		for i := 0; i < v.Len(); i++ {
			u.canon(b, v.Index(i))
		}
		*b = append(*b, ']')
	case reflect.Struct:
		*b = append(*b, '{')
		for i := 0; i < v.NumField(); i++ {
			u.canon(b, v.Field(i))
		}
		*b = append(*b, '}')
	case reflect.Map:
		// deterministic: sort entries by the canonical form of the key
		type kv struct{ k, v []byte }
		var es []kv
		it := v.MapRange()
		for it.Next() {
			var kb, vb []byte
			u.canon(&kb, it.Key())
			u.canon(&vb, it.Value())
			es = append(es, kv{kb, vb})
		}
		sort.Slice(es, func(i, j int) bool { return bytes.Compare(es[i].k, es[j].k) < 0 })
		*b = append(*b, '<')
		for _, e := range es {
			*b = append(*b, e.k...)
			*b = append(*b, ':')
			*b = append(*b, e.v...)
		}
		*b = append(*b, '>')
	case reflect.Interface:
		if v.IsNil() {
			*b = append(*b, '~')
			return
		}
		u.canon(b, v.Elem())
	default:
		// func / chan / unsafe pointer inside a vote set: cannot be part of a value
		// identity; make it visible instead of silently ignoring it
		*b = append(*b, "!"+v.Kind().String()...)
	}
}

type c04Fail struct {
	Sig    string
	Detail string
}

type c04Stats struct {
	mu                                                                                    sync.Mutex
	added, dup, sticky, replaced, caddRefused, decidedStates, undecidedStates, viewChecks int64
}

func (st *c04Stats) merge(o *c04Stats) {
	st.mu.Lock()
	st.added += o.added
	st.dup += o.dup
	st.sticky += o.sticky
	st.replaced += o.replaced
	st.caddRefused += o.caddRefused
	st.decidedStates += o.decidedStates
	st.undecidedStates += o.undecidedStates
	st.viewChecks += o.viewChecks
	st.mu.Unlock()
}

// applyOp runs one op on the real system and on the model and checks the
// transition oracle. It returns a failure or nil.
func (s *c04Sys) applyOp(m *c04Model, op c04Op, st *c04Stats) *c04Fail {
	u := s.u
	switch op.Kind {
	case 2:
		vs := s.set(op.Set)
		if vs == nil {
			if s.hvs != nil {
				vs = s.hvs.votesFor(int32(op.Set/2), VoteType(op.Set%2))
			}
		}
		vs.getOverTwoThirdsRoundDecisionDigest() // on the unchanged tree: refreshes only the maxIndex cache
		return nil
	case 3:
		// every other read-side entry point, on the SAME object that later ops use
		vs := s.set(op.Set)
		if vs == nil {
			return nil
		}
		vs.hasOverTwoThirds()
		vs.getOverTwoThirdsPartSetID()
		vs.voteListForOverTwoThirds()
		_, _ = vs.commitVoteListForOverTwoThirds(nil)
		vs.voteSetForOverTwoThird()
		vs.voteList()
		vs.getMask()
		vs.getRound()
		return nil
	}
	msg := u.msgs[op.Set][op.Idx][op.Vote]
	_, _, decBefore, _ := m.recount(u, op.Set)
	oldSlot := int(m.slots[op.Set][op.Idx])
	var got, want bool
	var vs *voteSet
	switch op.Kind {
	case 0:
		if s.hvs != nil {
			var rvs *voteSet
			got, rvs = s.hvs.add(op.Idx, msg)
			vs = s.set(op.Set)
			if rvs != vs || vs == nil {
				return &c04Fail{"hvs-add-returns-wrong-voteset", fmt.Sprintf("%v returned a vote set that is not votesFor(round,type)", op)}
			}
		} else {
			vs = s.vs
			got = vs.add(op.Idx, msg)
		}
		want = m.add(u, op.Set, op.Idx, op.Vote, msg.Round)
	case 1:
		vs = s.vs
		got = vs.Add(op.Idx, msg)
		// Add accepts only votes for the already established +2/3 decision
		if decBefore >= 0 && u.decOf(op.Vote) == decBefore && m.round[0] == msg.Round {
			want = m.add(u, 0, op.Idx, op.Vote, msg.Round)
		} else {
			want = false
			if st != nil {
				st.caddRefused++
			}
		}
	}
	if st != nil {
		switch {
		case want && oldSlot < 0:
			st.added++
		case want:
			st.replaced++
		case oldSlot >= 0 && u.logical(oldSlot) == u.logical(op.Vote):
			st.dup++
		case op.Kind == 0:
			st.sticky++
		}
	}
	// sticky, checked on the implementation's own slot array: a decision that
	// held +2/3 of the slots before the step holds +2/3 of them afterwards
	if decBefore >= 0 && vs != nil {
		c := 0
		for i, x := range vs.msgs {
			if l := u.msgLabel(op.Set, i, x); l >= '0' && l != 0xFF && u.decOf(int(l-'0')) == decBefore {
				c++
			}
		}
		if !(3*c > 2*u.cfg.N) {
			return &c04Fail{"majority-removed-by-later-vote", fmt.Sprintf("%v: decision %d held +2/3 of the slots before the step, only %d of %d slots afterwards", op, decBefore, c, u.cfg.N)}
		}
	}
	if got != want {
		kind := "accepted-but-rule-refuses"
		if want {
			kind = "refused-but-rule-accepts"
		}
		return &c04Fail{"add-result-" + kind, fmt.Sprintf("%v returned %v, replacement rule says %v (slot held %d, decision before %d)", op, got, want, oldSlot, decBefore)}
	}
	// slot array of the implementation == slot array of the model
	for si := 0; si < u.nSets; si++ {
		rv := s.set(si)
		for i := 0; i < u.cfg.N; i++ {
			var have, want *VoteMessage
			if rv != nil {
				have = rv.msgs[i]
			}
			if m.slots[si][i] >= 0 {
				want = u.msgs[si][i][m.slots[si][i]]
			}
			if have != want {
				return &c04Fail{"slot-content-diverges-from-replacement-rule", fmt.Sprintf("after %v: set %d slot %d holds %c, model %c", op, si, i, u.msgLabel(si, i, have), u.msgLabel(si, i, want))}
			}
		}
	}
	return nil
}

// checkCore compares the two answers the property is about — "is there +2/3"
// and "which decision has it" — with the independent recount. It is run on the
// end object of EVERY explored history (not only on newly discovered states).
func (s *c04Sys) checkCore(m *c04Model, si int, vs *voteSet) *c04Fail {
	u := s.u
	n := u.cfg.N
	cnt, filled, dec, nDec := m.recount(u, si)
	if nDec > 1 {
		return &c04Fail{"two-decisions-with-majority", fmt.Sprintf("set %d tallies %v of n=%d", si, cnt, n)}
	}
	if got, want := vs.hasOverTwoThirds(), 3*filled > 2*n; got != want {
		return &c04Fail{fmt.Sprintf("hasOverTwoThirds-%v-want-%v", got, want), fmt.Sprintf("set %d filled=%d n=%d", si, filled, n)}
	}
	for rep := 0; rep < 2; rep++ { // twice: uncached and cached path
		psid, ok := vs.getOverTwoThirdsPartSetID()
		rdd, psid2, ok2 := vs.getOverTwoThirdsRoundDecisionDigest()
		if ok != (dec >= 0) || ok2 != ok {
			kind := "reported-without-majority"
			if dec >= 0 {
				kind = "majority-not-reported"
			}
			return &c04Fail{"decision-" + kind, fmt.Sprintf("set %d tallies=%v n=%d reported ok=%v/%v (query #%d)", si, cnt, n, ok, ok2, rep)}
		}
		if ok {
			if rdd == nil || !psid.Equal(u.psid[dec]) || !psid2.Equal(u.psid[dec]) {
				return &c04Fail{"decision-wrong-one-reported", fmt.Sprintf("set %d tallies=%v n=%d want decision %d got rdd=%c psid=%v", si, cnt, n, dec, u.rddLabel(rdd), psid)}
			}
		} else if rdd != nil || psid != nil || psid2 != nil {
			return &c04Fail{"decision-value-without-ok", fmt.Sprintf("set %d", si)}
		}
	}
	return nil
}

// checkDifferential: the answers of the real object after its history must
// equal the answers of a FRESH real object that received the same final slot
// contents in slot order with no query in between.
func (s *c04Sys) checkDifferential(si int, vs *voteSet) *c04Fail {
	fresh := newVoteSet(len(vs.msgs))
	for i, msg := range vs.msgs {
		if msg != nil {
			fresh.add(i, msg)
		}
	}
	p1, ok1 := vs.getOverTwoThirdsPartSetID()
	p2, ok2 := fresh.getOverTwoThirdsPartSetID()
	if ok1 != ok2 || !p1.Equal(p2) || vs.hasOverTwoThirds() != fresh.hasOverTwoThirds() {
		return &c04Fail{"answers-differ-from-fresh-object-with-same-slots", fmt.Sprintf("set %d: history object says (%v,%v,%v), fresh object with the same slot contents says (%v,%v,%v)", si, p1, ok1, vs.hasOverTwoThirds(), p2, ok2, fresh.hasOverTwoThirds())}
	}
	l1, l2 := vs.voteListForOverTwoThirds(), fresh.voteListForOverTwoThirds()
	if (l1 == nil) != (l2 == nil) || (l1 != nil && l1.Len() != l2.Len()) {
		return &c04Fail{"answers-differ-from-fresh-object-with-same-slots", fmt.Sprintf("set %d: voteListForOverTwoThirds", si)}
	}
	return nil
}

// checkState runs the state oracle (all read-side observers) on a system that
// is in the state described by m. The system is thrown away afterwards because
// observers refresh the maxIndex cache.
func (s *c04Sys) checkState(m *c04Model, st *c04Stats) *c04Fail {
	u := s.u
	n := u.cfg.N
	for si := 0; si < u.nSets; si++ {
		vs := s.set(si)
		if vs == nil {
			continue // round/type never touched: no object exists yet
		}
		_, _, dec, _ := m.recount(u, si)
		if f := s.checkCore(m, si, vs); f != nil {
			return f
		}
		// supporting votes in slot order
		var sup []*VoteMessage
		var supIdx []int
		var all []*VoteMessage
		for i, v := range m.slots[si] {
			if v >= 0 {
				all = append(all, u.msgs[si][i][v])
				if dec >= 0 && u.decOf(int(v)) == dec {
					sup = append(sup, u.msgs[si][i][v])
					supIdx = append(supIdx, i)
				}
			}
		}
		if st != nil {
			if dec >= 0 {
				st.decidedStates++
			} else {
				st.undecidedStates++
			}
			st.viewChecks++
		}
		sameVote := func(g *VoteMessage, w *VoteMessage) bool {
			return g.Timestamp == w.Timestamp && g.Signature.Signature != nil &&
				(g.Signature.Signature == w.Signature.Signature || bytes.Equal(c04Sig(g), c04Sig(w))) &&
				g.voteBase.Equal(&w.voteBase)
		}
		// voteListForOverTwoThirds
		vl := vs.voteListForOverTwoThirds()
		if (vl != nil) != (dec >= 0) {
			return &c04Fail{"voteListForOverTwoThirds-presence", fmt.Sprintf("set %d dec=%d list=%v", si, dec, vl != nil)}
		}
		if vl != nil {
			if vl.Len() != len(sup) {
				return &c04Fail{"voteListForOverTwoThirds-wrong-votes", fmt.Sprintf("set %d len=%d want %d", si, vl.Len(), len(sup))}
			}
			for k := range sup {
				if !sameVote(vl.Get(k), sup[k]) {
					return &c04Fail{"voteListForOverTwoThirds-wrong-votes", fmt.Sprintf("set %d item %d is not the supporting vote of slot %d", si, k, supIdx[k])}
				}
			}
		}
		// voteList
		al := vs.voteList()
		if al.Len() != len(all) {
			return &c04Fail{"voteList-wrong-votes", fmt.Sprintf("set %d len=%d want %d", si, al.Len(), len(all))}
		}
		for k := range all {
			if !sameVote(al.Get(k), all[k]) {
				return &c04Fail{"voteList-wrong-votes", fmt.Sprintf("set %d item %d", si, k)}
			}
		}
		// commitVoteListForOverTwoThirds
		cvl, err := vs.commitVoteListForOverTwoThirds(nil)
		if err != nil {
			return &c04Fail{"commitVoteList-error", fmt.Sprintf("set %d: %v", si, err)}
		}
		if (cvl != nil) != (dec >= 0) {
			return &c04Fail{"commitVoteList-presence", fmt.Sprintf("set %d dec=%d list=%v", si, dec, cvl != nil)}
		}
		if cvl != nil {
			if len(cvl.Items) != len(sup) {
				return &c04Fail{"commitVoteList-wrong-votes", fmt.Sprintf("set %d len=%d want %d", si, len(cvl.Items), len(sup))}
			}
			if cvl.Round != sup[0].Round || !cvl.BlockPartSetIDAndAppData.ID().Equal(u.psid[dec]) ||
				cvl.BlockPartSetIDAndAppData.AppData() != u.psidAD[dec].AppData() {
				return &c04Fail{"commitVoteList-wrong-header", fmt.Sprintf("set %d round=%d psid=%v", si, cvl.Round, cvl.BlockPartSetIDAndAppData)}
			}
			for k := range sup {
				it := cvl.Items[k]
				if it.Timestamp != sup[k].Timestamp || it.Signature.Signature == nil ||
					!(it.Signature.Signature == sup[k].Signature.Signature || bytes.Equal(c04SigOf(it.Signature.Signature), c04Sig(sup[k]))) {
					return &c04Fail{"commitVoteList-wrong-votes", fmt.Sprintf("set %d item %d is not the supporting vote of slot %d", si, k, supIdx[k])}
				}
			}
		}
		// voteSetForOverTwoThird
		rvs := vs.voteSetForOverTwoThird()
		if (rvs != nil) != (dec >= 0) {
			return &c04Fail{"voteSetForOverTwoThird-presence", fmt.Sprintf("set %d dec=%d", si, dec)}
		}
		if rvs != nil {
			k := 0
			for i := 0; i < n; i++ {
				var want *VoteMessage
				if k < len(supIdx) && supIdx[k] == i {
					want = sup[k]
					k++
				}
				if rvs.msgs[i] != want {
					return &c04Fail{"voteSetForOverTwoThird-wrong-votes", fmt.Sprintf("set %d slot %d", si, i)}
				}
			}
			p, ok := rvs.getOverTwoThirdsPartSetID()
			if !ok || !p.Equal(u.psid[dec]) || rvs.hasOverTwoThirds() != true {
				return &c04Fail{"voteSetForOverTwoThird-loses-majority", fmt.Sprintf("set %d", si)}
			}
		}
		// mask
		mask := vs.getMask()
		for i := 0; i < n; i++ {
			if mask.Get(i) != (m.slots[si][i] >= 0) {
				return &c04Fail{"mask-differs-from-filled-slots", fmt.Sprintf("set %d bit %d", si, i)}
			}
		}
		if f := s.checkDifferential(si, vs); f != nil {
			return f
		}
	}
	return nil
}

func c04SigOf(s *crypto.Signature) []byte {
	if s == nil {
		return nil
	}
	b, _ := s.SerializeRSV()
	return b
}

func c04Sig(m *VoteMessage) []byte { return c04SigOf(m.Signature.Signature) }

// ---------------------------------------------------------------- BFS

type c04Case struct {
	Cfg  c04Cfg  `json:"cfg"`
	Hist []c04Op `json:"history"`
}

// run replays hist on a fresh real instance (with transition checks) and, if
// wantState, runs the state oracle at the end.
func c04Run(u *c04Uni, hist []uint16, wantState bool, st, sst *c04Stats) (key string, boundary bool, fail *c04Fail) {
	s := c04NewSys(u)
	m := c04NewModel(u)
	for k, oi := range hist {
		var stp *c04Stats
		if k == len(hist)-1 {
			stp = st // count only the new transition
		}
		var f *c04Fail
		if p := ev.Catch(func() { f = s.applyOp(m, u.ops[oi], stp) }); p != "" {
			f = &c04Fail{"panic-in-" + []string{"add", "Add", "query", "observer"}[u.ops[oi].Kind], fmt.Sprintf("%v panicked: %s", u.ops[oi], p)}
		}
		if f != nil {
			return "", false, f
		}
	}
	key = s.key()
	if !wantState {
		var f *c04Fail
		if p := ev.Catch(func() {
			for si := 0; si < u.nSets && f == nil; si++ {
				if vs := s.set(si); vs != nil {
					f = s.checkCore(m, si, vs)
				}
			}
		}); p != "" {
			f = &c04Fail{"panic-in-observer", "the majority query panicked: " + p}
		}
		if f != nil {
			return key, false, f
		}
	}
	if wantState {
		var f *c04Fail
		if p := ev.Catch(func() { f = s.checkState(m, sst) }); p != "" {
			f = &c04Fail{"panic-in-observer", "an observer of the vote set panicked: " + p}
		}
		if f != nil {
			return key, false, f
		}
		// boundary region: some tally has +2/3 or is exactly one vote short of it
		for si := range m.slots {
			cnt, _, _, _ := m.recount(u, si)
			for _, c := range cnt {
				if 3*(c+1) > 2*m.n {
					boundary = true
				}
			}
		}
	}
	return key, boundary, nil
}

func (u *c04Uni) histOps(h []uint16) []c04Op {
	out := make([]c04Op, len(h))
	for i, x := range h {
		out[i] = u.ops[x]
	}
	return out
}

type c04Result struct {
	states, transitions int64
	depth               int
	fixpoint            bool
	complete            bool // stated space (fixpoint or max depth) fully enumerated
}

func c04BFS(r *ev.Run, u *c04Uni, st *c04Stats) c04Result {
	var res c04Result
	report := func(h []uint16, f *c04Fail) {
		r.Violation(f.Sig, fmt.Sprintf("cfg=%s n=%d history=%v: %s", u.cfg.Name, u.cfg.N, u.histOps(h), f.Detail),
			c04Case{u.cfg, u.histOps(h)})
	}
	k0, _, f := c04Run(u, nil, true, nil, st)
	if f != nil {
		report(nil, f)
	}
	seen := map[string]struct{}{k0: {}}
	frontier := [][]uint16{nil}
	res.states = 1
	nOps := len(u.ops)
	type cand struct {
		key string
		op  uint16
	}
	for depth := 0; len(frontier) > 0; depth++ {
		if u.cfg.MaxDepth > 0 && depth >= u.cfg.MaxDepth {
			res.depth = depth
			res.complete = true
			return res
		}
		if r.Expired() || r.Violations() > 300 {
			res.depth = depth
			return res
		}
		out := make([][]cand, len(frontier))
		var trans int64
		var stop int32
		ev.Par(len(frontier), 16, func(i int) {
			if atomic.LoadInt32(&stop) != 0 {
				return
			}
			if i%4096 == 0 && r.Expired() {
				atomic.StoreInt32(&stop, 1)
				return
			}
			var lst c04Stats
			defer st.merge(&lst)
			h := frontier[i]
			nh := make([]uint16, len(h)+1)
			copy(nh, h)
			var cs []cand
			for op := 0; op < nOps; op++ {
				nh[len(h)] = uint16(op)
				key, _, f := c04Run(u, nh, false, &lst, nil)
				atomic.AddInt64(&trans, 1)
				if f != nil {
					report(append([]uint16(nil), nh...), f)
					continue
				}
				if _, dup := seen[key]; !dup {
					cs = append(cs, cand{key, uint16(op)})
				}
			}
			out[i] = cs
		})
		res.transitions += trans
		r.Eval(int(trans))
		if stop != 0 {
			res.depth = depth
			return res
		}
		var next [][]uint16
		for i, cs := range out {
			for _, c := range cs {
				if _, dup := seen[c.key]; dup {
					continue
				}
				seen[c.key] = struct{}{}
				nh := make([]uint16, len(frontier[i])+1)
				copy(nh, frontier[i])
				nh[len(nh)-1] = c.op
				next = append(next, nh)
			}
		}
		// state oracle on every new state (fresh replay each)
		ev.Par(len(next), 16, func(i int) {
			var lst c04Stats
			defer st.merge(&lst)
			key, boundary, f := c04Run(u, next[i], true, nil, &lst)
			if f != nil {
				report(next[i], f)
			}
			if boundary {
				r.Nontrivial(u.cfg.Name + key)
			}
		})
		res.states += int64(len(next))
		frontier = next
		res.depth = depth + 1
	}
	res.fixpoint = true
	res.complete = true
	return res
}

// ---------------------------------------------------------------- test

func c04Configs(thorough bool) []c04Cfg {
	var cs []c04Cfg
	if !thorough {
		for n := 1; n <= 4; n++ {
			cs = append(cs, c04Cfg{Name: fmt.Sprintf("vs-n%d-full", n), N: n, D: 3, T: 2, CAdd: true})
		}
		cs = append(cs,
			c04Cfg{Name: "vs-n5-3dec", N: 5, D: 3, T: 1, CAdd: true},
			c04Cfg{Name: "vs-n6-3dec", N: 6, D: 3, T: 1},
			c04Cfg{Name: "vs-n7-2dec", N: 7, D: 2, T: 1},
			c04Cfg{Name: "vs-n4-4dec", N: 4, D: 4, T: 1, CAdd: true},
			c04Cfg{Name: "vs-n5-4dec", N: 5, D: 4, T: 1},
			c04Cfg{Name: "vs-n1-wire", N: 1, D: 2, T: 1, E: 3, CAdd: true},
			c04Cfg{Name: "vs-n2-wire", N: 2, D: 2, T: 1, E: 3, CAdd: true},
			c04Cfg{Name: "vs-n3-wire", N: 3, D: 2, T: 1, E: 3, CAdd: true},
			c04Cfg{Name: "vs-n4-wire", N: 4, D: 2, T: 1, E: 3, CAdd: true},
			c04Cfg{Name: "vs-n2-wire-full", N: 2, D: 3, T: 2, E: 3},
			c04Cfg{Name: "vs-n5-full-d5", N: 5, D: 3, T: 2, MaxDepth: 5},
			c04Cfg{Name: "vs-n7-full-d4", N: 7, D: 3, T: 2, MaxDepth: 4},
			c04Cfg{Name: "hvs-n2-d7", N: 2, D: 2, T: 1, HVS: true, MaxDepth: 7},
			c04Cfg{Name: "hvs-n3-d4", N: 3, D: 3, T: 1, HVS: true, MaxDepth: 4},
		)
		return cs
	}
	for n := 1; n <= 5; n++ {
		cs = append(cs, c04Cfg{Name: fmt.Sprintf("vs-n%d-full", n), N: n, D: 3, T: 2, CAdd: true})
	}
	cs = append(cs,
		c04Cfg{Name: "vs-n6-3dec", N: 6, D: 3, T: 1, CAdd: true},
		c04Cfg{Name: "vs-n7-3dec", N: 7, D: 3, T: 1},
		c04Cfg{Name: "vs-n8-3dec", N: 8, D: 3, T: 1},
		c04Cfg{Name: "vs-n10-2dec", N: 10, D: 2, T: 1},
		c04Cfg{Name: "vs-n1-wire", N: 1, D: 2, T: 1, E: 3, CAdd: true},
		c04Cfg{Name: "vs-n2-wire", N: 2, D: 2, T: 1, E: 3, CAdd: true},
		c04Cfg{Name: "vs-n3-wire", N: 3, D: 2, T: 1, E: 3, CAdd: true},
		c04Cfg{Name: "vs-n4-wire", N: 4, D: 2, T: 1, E: 3, CAdd: true},
		c04Cfg{Name: "vs-n4-4dec", N: 4, D: 4, T: 1, CAdd: true},
		c04Cfg{Name: "vs-n5-4dec", N: 5, D: 4, T: 1, CAdd: true},
		c04Cfg{Name: "vs-n6-4dec", N: 6, D: 4, T: 1},
		c04Cfg{Name: "vs-n5-wire", N: 5, D: 2, T: 1, E: 3},
		c04Cfg{Name: "vs-n3-wire-full", N: 3, D: 3, T: 2, E: 3},
		c04Cfg{Name: "hvs-n2", N: 2, D: 2, T: 1, HVS: true},
		c04Cfg{Name: "hvs-n2-full-d5", N: 2, D: 3, T: 2, HVS: true, MaxDepth: 5},
		c04Cfg{Name: "hvs-n3-d5", N: 3, D: 3, T: 1, HVS: true, MaxDepth: 5},
		c04Cfg{Name: "hvs-n4-d5", N: 4, D: 2, T: 1, HVS: true, MaxDepth: 5},
		c04Cfg{Name: "vs-n6-full-d6", N: 6, D: 3, T: 2, MaxDepth: 6},
		c04Cfg{Name: "vs-n7-full-d5", N: 7, D: 3, T: 2, MaxDepth: 5},
	)
	return cs
}

func TestVerifC04(t *testing.T) {
	r := ev.Start(t, "C04", "model_checking")
	r.Rule("explicit-state BFS over the real voteSet/heightVoteSet; a state is the full internal state obtained by walking EVERY field of the real structs with reflection (so fields unknown to the harness are part of the identity), ops on the same object are add(index,vote), Add(index,vote)=checkAndAdd, the majority query and one op that calls all other observers, votes range over {block A, block B, nil} x {two timestamps}, in the *-wire configurations each vote additionally in three receiver forms (built in-process, marshal->unmarshal, re-encoded with an explicit empty NTS-vote list ->unmarshal) that the model counts as one vote; every transition is re-executed from the initial state on a fresh real object and compared with a slot-array model; the majority answers are compared with an independent recount after EVERY explored history, all derived views and a differential comparison with a fresh object holding the same slots on every distinct state; non-trivial = distinct reachable real state in which some decision has +2/3 of the slots or is exactly one vote short of it")
	r.Assume("votes handed to a voteSet belong to that set's height/round/type (consensus routes them through heightVoteSet.votesFor); signatures are not checked by voteSet and are only used to identify votes in the derived views",
		"replacement rule taken as documented in voteSet.add: a slot's vote is replaced by a different vote unless the old vote supports the current +2/3 decision")

	if ev.Replaying() {
		var c c04Case
		ev.ReplayCase(&c)
		u := c04NewUni(c.Cfg)
		var h []uint16
		for _, o := range c.Hist {
			for i, x := range u.ops {
				if x == o {
					h = append(h, uint16(i))
				}
			}
		}
		if _, _, f := c04Run(u, h, true, nil, nil); f != nil {
			r.Violation(f.Sig, fmt.Sprintf("replay cfg=%s history=%v: %s", c.Cfg.Name, c.Hist, f.Detail), c)
		}
		r.Finish(false)
		return
	}

	defer debug.SetGCPercent(debug.SetGCPercent(400))
	var st c04Stats
	cfgs := c04Configs(r.Thorough())
	allComplete := true
	type row struct {
		Cfg         c04Cfg `json:"cfg"`
		Ops         int    `json:"ops"`
		States      int64  `json:"states"`
		Transitions int64  `json:"transitions"`
		Depth       int    `json:"depth"`
		Fixpoint    bool   `json:"fixpoint"`
		Complete    bool   `json:"complete"`
	}
	var rows []row
	for _, cfg := range cfgs {
		u := c04NewUni(cfg)
		res := c04BFS(r, u, &st)
		rows = append(rows, row{cfg, len(u.ops), res.states, res.transitions, res.depth, res.fixpoint, res.complete})
		r.States(int(res.states))
		r.Transitions(int(res.transitions))
		r.Traces(int(res.transitions + res.states))
		if !res.complete {
			allComplete = false
			r.Cap(fmt.Sprintf("config %s stopped at depth %d", cfg.Name, res.depth))
		}
		fmt.Printf("C04 cfg=%-16s ops=%3d states=%8d transitions=%10d depth=%2d fixpoint=%v complete=%v\n",
			cfg.Name, len(u.ops), res.states, res.transitions, res.depth, res.fixpoint, res.complete)
	}
	sort.Slice(rows, func(i, j int) bool { return rows[i].Cfg.Name < rows[j].Cfg.Name })
	r.Set("configs", rows)
	r.Set("transitions_fresh_slot_filled", st.added)
	r.Set("transitions_replacement", st.replaced)
	r.Set("transitions_duplicate_refused", st.dup)
	r.Set("transitions_sticky_refused", st.sticky)
	r.Set("transitions_checkAndAdd_refused", st.caddRefused)
	r.Set("state_checks_with_majority", st.decidedStates)
	r.Set("state_checks_without_majority", st.undecidedStates)
	if r.Violations() == 0 {
		r.Sanity(st.replaced > 0 && st.sticky > 0 && st.dup > 0 && st.added > 0, "some transition class never taken: added=%d replaced=%d dup=%d sticky=%d", st.added, st.replaced, st.dup, st.sticky)
		r.Sanity(st.decidedStates > 0 && st.undecidedStates > 0, "decided/undecided states: %d/%d", st.decidedStates, st.undecidedStates)
	}

	// written-out samples: a replacement before and after the majority, n=4
	{
		u := c04NewUni(c04Cfg{Name: "sample", N: 4, D: 3, T: 2})
		find := func(o c04Op) uint16 {
			for i, x := range u.ops {
				if x == o {
					return uint16(i)
				}
			}
			panic("op")
		}
		h := []uint16{find(c04Op{0, 0, 0, 2}), find(c04Op{0, 0, 1, 0}), find(c04Op{0, 0, 2, 0}), find(c04Op{0, 0, 0, 1}), find(c04Op{0, 0, 0, 4})}
		s := c04NewSys(u)
		m := c04NewModel(u)
		var trace []string
		for _, oi := range h {
			s.applyOp(m, u.ops[oi], nil)
			_, ok := s.vs.getOverTwoThirdsPartSetID()
			trace = append(trace, fmt.Sprintf("%v -> slots=%v majority=%v", u.ops[oi], m.slots[0], ok))
		}
		r.Sample(map[string]interface{}{"n": 4, "votes": "v0,v1=block A (ts 1000,1001); v2,v3=block B; v4,v5=nil", "trace": trace, "final_state_key": s.key()})
		r.Sample(map[string]interface{}{"decision_digest_A": hex.EncodeToString(u.rdd[0]), "decision_digest_nil": hex.EncodeToString(u.rdd[2])})
	}
	r.Finish(allComplete)
}
