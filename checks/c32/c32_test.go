//go:build verif

package network

// C32 — a peer is assigned an identity only if it proved possession of that
// identity's private key by signing the secret of this very session.
//
// Stage V: Authenticator.VerifySignature over the full product
//          claimed key x key encoding x signer x signed secret x presented secret x signature form.
// Stage H: the in-package handshake handlers handleSignatureRequest /
//          handleSignatureResponse on hand-made Peer objects (fake conn),
//          observing whether the next handler is reached and with which id.
// Stage M: several sessions on ONE responder Authenticator: recorded honest
//          transcripts replayed (SecureParam and/or SignatureRequest) by a
//          key-less attacker on a later connection; session secrets must be fresh.
// Stage I: histories of > peerIDCacheSize honest handshakes; every identity
//          handed out earlier must keep its bytes (the ids live in a shared LRU).
// Stage R: real SecureRequest/SecureResponse exchanges (fresh ECDH per session)
//          driven synchronously; SignatureRequest/Response of every session
//          relayed into every session.
//
// The oracle never calls the secp256k1 library: validity is known by
// construction and key encodings are classified with math/big.

import (
	"bytes"
	"crypto/sha256"
	"fmt"
	"math/big"
	"net"
	"sync"
	"sync/atomic"
	"testing"
	"time"

	"golang.org/x/crypto/sha3"

	"github.com/decred/dcrd/dcrec/secp256k1/v4"
	decdsa "github.com/decred/dcrd/dcrec/secp256k1/v4/ecdsa"

	"github.com/icon-project/goloop/common/codec"
	"github.com/icon-project/goloop/common/crypto"
	"github.com/icon-project/goloop/common/log"
	"github.com/icon-project/goloop/common/wallet"
	"github.com/icon-project/goloop/module"
	"github.com/icon-project/goloop/verifshim/ev"
)

var (
	c32P, _ = new(big.Int).SetString("FFFFFFFFFFFFFFFFFFFFFFFFFFFFFFFFFFFFFFFFFFFFFFFFFFFFFFFEFFFFFC2F", 16)
	c32N, _ = new(big.Int).SetString("FFFFFFFFFFFFFFFFFFFFFFFFFFFFFFFEBAAEDCE6AF48A03BBFD25E8CD0364141", 16)
)

func c32OnCurve(x, y *big.Int) bool {
	if x.Cmp(c32P) >= 0 || y.Cmp(c32P) >= 0 {
		return false
	}
	l := new(big.Int).Mul(y, y)
	l.Mod(l, c32P)
	r := new(big.Int).Mul(x, x)
	r.Mul(r, x)
	r.Add(r, big.NewInt(7))
	r.Mod(r, c32P)
	return l.Cmp(r) == 0
}

func c32Pad32(v *big.Int) []byte {
	b := v.Bytes()
	out := make([]byte, 32)
	copy(out[32-len(b):], b)
	return out
}

// ---------------------------------------------------------------- identities

type c32Ident struct {
	name   string
	w      module.Wallet
	x, y   *big.Int
	uncomp []byte
	idWant []byte // independent: last 20 bytes of SHA3-256(x||y)
	auth   *Authenticator
	pub    *secp256k1.PublicKey
}

func c32Logger() log.Logger {
	l := log.New()
	l.SetLevel(log.PanicLevel)
	l.SetConsoleLevel(log.PanicLevel)
	return l
}

func c32NewIdent(name string) *c32Ident {
	h := sha256.Sum256([]byte("verif-c32-key-" + name))
	sk, err := crypto.ParsePrivateKey(h[:])
	if err != nil {
		panic(err)
	}
	w, _ := wallet.NewFromPrivateKey(sk)
	un := sk.PublicKey().SerializeUncompressed()
	id := &c32Ident{name: name, w: w, uncomp: un}
	id.x = new(big.Int).SetBytes(un[1:33])
	id.y = new(big.Int).SetBytes(un[33:65])
	d := sha3.Sum256(un[1:])
	id.idWant = d[12:]
	id.auth = newAuthenticator(w, c32Logger())
	id.pub, _ = secp256k1.ParsePubKey(un)
	return id
}

// ---------------------------------------------------------------- public key forms

const (
	c32KeySame   = iota // a standard encoding of the claimed key: must be honoured
	c32KeyHybrid        // non-standard but unambiguous encoding of the same key: either
	c32KeyBad           // malformed, or a different key
)

type c32KeyForm struct {
	name  string
	class int
	make  func(id *c32Ident) []byte
}

func c32KeyForms() []c32KeyForm {
	par := func(y *big.Int) byte { return byte(y.Bit(0)) }
	cat := func(p byte, parts ...[]byte) []byte {
		out := []byte{p}
		for _, b := range parts {
			out = append(out, b...)
		}
		return out
	}
	negY := func(id *c32Ident) *big.Int { return new(big.Int).Sub(c32P, id.y) }
	return []c32KeyForm{
		{"uncompressed-65", c32KeySame, func(id *c32Ident) []byte { return cat(4, c32Pad32(id.x), c32Pad32(id.y)) }},
		{"compressed-33", c32KeySame, func(id *c32Ident) []byte { return cat(2+par(id.y), c32Pad32(id.x)) }},
		{"hybrid-65", c32KeyHybrid, func(id *c32Ident) []byte { return cat(6+par(id.y), c32Pad32(id.x), c32Pad32(id.y)) }},
		{"x-only-32", c32KeyBad, func(id *c32Ident) []byte { return c32Pad32(id.x) }},
		{"xy-64-no-prefix", c32KeyBad, func(id *c32Ident) []byte { return append(c32Pad32(id.x), c32Pad32(id.y)...) }},
		{"uncompressed+1-byte-66", c32KeyBad, func(id *c32Ident) []byte { return append(cat(4, c32Pad32(id.x), c32Pad32(id.y)), 0) }},
		{"compressed+1-byte-34", c32KeyBad, func(id *c32Ident) []byte { return append(cat(2+par(id.y), c32Pad32(id.x)), 0) }},
		{"uncompressed-prefix-05", c32KeyBad, func(id *c32Ident) []byte { return cat(5, c32Pad32(id.x), c32Pad32(id.y)) }},
		{"uncompressed-prefix-00", c32KeyBad, func(id *c32Ident) []byte { return cat(0, c32Pad32(id.x), c32Pad32(id.y)) }},
		{"compressed-prefix-04", c32KeyBad, func(id *c32Ident) []byte { return cat(4, c32Pad32(id.x)) }},
		{"compressed-other-parity(=negated point)", c32KeyBad, func(id *c32Ident) []byte { return cat(3-par(id.y), c32Pad32(id.x)) }},
		{"uncompressed-negated-y", c32KeyBad, func(id *c32Ident) []byte { return cat(4, c32Pad32(id.x), c32Pad32(negY(id))) }},
		{"uncompressed-y+1-off-curve", c32KeyBad, func(id *c32Ident) []byte {
			return cat(4, c32Pad32(id.x), c32Pad32(new(big.Int).Add(id.y, big.NewInt(1))))
		}},
		{"uncompressed-x^1-off-curve", c32KeyBad, func(id *c32Ident) []byte {
			x := c32Pad32(id.x)
			x[31] ^= 1
			return cat(4, x, c32Pad32(id.y))
		}},
		{"hybrid-wrong-parity", c32KeyBad, func(id *c32Ident) []byte { return cat(7-par(id.y), c32Pad32(id.x), c32Pad32(id.y)) }},
		{"uncompressed-y+p-not-reduced", c32KeyBad, func(id *c32Ident) []byte {
			yp := new(big.Int).Add(id.y, c32P)
			if yp.BitLen() > 256 {
				return cat(4, c32Pad32(id.x), bytes.Repeat([]byte{0xff}, 32))
			}
			return cat(4, c32Pad32(id.x), c32Pad32(yp))
		}},
		{"empty", c32KeyBad, func(id *c32Ident) []byte { return []byte{} }},
		{"nil", c32KeyBad, func(id *c32Ident) []byte { return nil }},
	}
}

// ---------------------------------------------------------------- signature forms

const (
	c32SigKeeps  = iota // (r,s) unchanged: still a signature of the signer over the signed secret
	c32SigEither        // a different but mathematically valid signature (high-S twin)
	c32SigBroken        // not a signature of anything relevant
)

type c32SigForm struct {
	name  string
	class int
	make  func(rsv []byte) []byte
}

func c32SigForms(bitsPerByte int) []c32SigForm {
	cp := func(b []byte) []byte { return append([]byte(nil), b...) }
	fs := []c32SigForm{
		{"as-signed-65", c32SigKeeps, func(s []byte) []byte { return cp(s) }},
		{"without-v-64", c32SigKeeps, func(s []byte) []byte { return cp(s[:64]) }},
		{"v-flipped", c32SigKeeps, func(s []byte) []byte { b := cp(s); b[64] ^= 1; return b }},
		{"v=0xff", c32SigKeeps, func(s []byte) []byte { b := cp(s); b[64] = 0xff; return b }},
		{"high-s-twin", c32SigEither, func(s []byte) []byte {
			b := cp(s)
			sv := new(big.Int).SetBytes(b[32:64])
			copy(b[32:64], c32Pad32(sv.Sub(c32N, sv)))
			b[64] ^= 1
			return b
		}},
		{"empty", c32SigBroken, func(s []byte) []byte { return []byte{} }},
		{"nil", c32SigBroken, func(s []byte) []byte { return nil }},
		{"truncated-63", c32SigBroken, func(s []byte) []byte { return cp(s[:63]) }},
		{"truncated-32", c32SigBroken, func(s []byte) []byte { return cp(s[:32]) }},
		{"one-byte-longer-66", c32SigBroken, func(s []byte) []byte { return append(cp(s), 0) }},
		{"zero-65", c32SigBroken, func(s []byte) []byte { return make([]byte, 65) }},
		{"zero-64", c32SigBroken, func(s []byte) []byte { return make([]byte, 64) }},
		{"r-and-s-swapped", c32SigBroken, func(s []byte) []byte {
			b := cp(s)
			copy(b[:32], s[32:64])
			copy(b[32:64], s[:32])
			return b
		}},
		{"r-zero", c32SigBroken, func(s []byte) []byte { b := cp(s); copy(b[:32], make([]byte, 32)); return b }},
		{"s-zero", c32SigBroken, func(s []byte) []byte { b := cp(s); copy(b[32:64], make([]byte, 32)); return b }},
		{"s=n(order)", c32SigBroken, func(s []byte) []byte { b := cp(s); copy(b[32:64], c32Pad32(c32N)); return b }},
		{"r+n-not-reduced", c32SigBroken, func(s []byte) []byte {
			b := cp(s)
			rv := new(big.Int).SetBytes(b[:32])
			rv.Add(rv, c32N)
			if rv.BitLen() > 256 {
				copy(b[:32], bytes.Repeat([]byte{0xff}, 32))
			} else {
				copy(b[:32], c32Pad32(rv))
			}
			return b
		}},
	}
	for byteIx := 0; byteIx < 64; byteIx++ {
		for k := 0; k < bitsPerByte; k++ {
			bit := uint((byteIx + 3*k) % 8)
			if bitsPerByte == 8 {
				bit = uint(k)
			}
			bi, bt := byteIx, bit
			fs = append(fs, c32SigForm{fmt.Sprintf("bit-flip-byte%d-bit%d", bi, bt), c32SigBroken, func(s []byte) []byte {
				b := cp(s)
				b[bi] ^= 1 << bt
				return b
			}})
		}
	}
	return fs
}

// ---------------------------------------------------------------- environment

type c32Env struct {
	ids      []*c32Ident // possible peers A,B,C
	self     *c32Ident   // the node under test
	secrets  [][]byte
	keyForms []c32KeyForm
	sigForms []c32SigForm
	sigs     [][][]byte // [signer][secret] -> 65 bytes produced by the REAL Authenticator.Signature
	log      log.Logger
}

func c32NewEnv(nSecrets, bitsPerByte int) *c32Env {
	e := &c32Env{log: c32Logger()}
	for _, n := range []string{"A", "B", "C"} {
		e.ids = append(e.ids, c32NewIdent(n))
	}
	e.self = c32NewIdent("self")
	s0 := sha256.Sum256([]byte("verif-c32-session-0"))
	s1 := sha256.Sum256([]byte("verif-c32-session-1"))
	s2 := append([]byte(nil), s0[:]...)
	s2[31] ^= 1
	all := [][]byte{s0[:], s2, {}, s1[:], s0[:31]}
	e.secrets = all[:nSecrets]
	e.keyForms = c32KeyForms()
	e.sigForms = c32SigForms(bitsPerByte)
	signers := append(append([]*c32Ident(nil), e.ids...), e.self)
	for _, id := range signers {
		var row [][]byte
		for _, sec := range e.secrets {
			row = append(row, id.auth.Signature(sec))
		}
		e.sigs = append(e.sigs, row)
	}
	return e
}

func (e *c32Env) ident(i int) *c32Ident {
	if i == len(e.ids) {
		return e.self
	}
	return e.ids[i]
}

// ---------------------------------------------------------------- stage V

type c32Case struct {
	Stage     string `json:"stage"`
	Claimed   int    `json:"claimed"`   // whose public key is presented (3 = the node itself)
	KeyForm   int    `json:"key_form"`  // encoding of that key
	Signer    int    `json:"signer"`    // whose private key signed
	Signed    int    `json:"signed"`    // index of the secret that was signed
	Presented int    `json:"presented"` // index of the secret of the session in which it is presented
	SigForm   int    `json:"sig_form"`
	// handler stages
	Handler  string `json:"handler,omitempty"` // "request" | "response"
	Wait     int    `json:"wait,omitempty"`    // 0 in sequence, 1 out of sequence (no secure exchange happened)
	ErrField bool   `json:"err_field,omitempty"`
	OtherSrc bool   `json:"other_src,omitempty"`
	Desc     string `json:"desc,omitempty"`
	// alphabet parameters the indices refer to (needed to replay a case of the other tier)
	NSecrets int `json:"n_secrets"`
	Bits     int `json:"bits_per_byte"`
}

const (
	c32MustReject = iota
	c32MustAccept
	c32Either
)

func (e *c32Env) model(c *c32Case) int {
	kf, sf := e.keyForms[c.KeyForm], e.sigForms[c.SigForm]
	if kf.class == c32KeyBad || sf.class == c32SigBroken {
		return c32MustReject
	}
	if c.Claimed != c.Signer || !bytes.Equal(e.secrets[c.Signed], e.secrets[c.Presented]) {
		return c32MustReject
	}
	if kf.class == c32KeyHybrid || sf.class == c32SigEither {
		return c32Either
	}
	return c32MustAccept
}

func (e *c32Env) describe(c *c32Case) string {
	return fmt.Sprintf("claimed=%s key=%s signer=%s signed-secret=%d presented-secret=%d sig=%s",
		e.ident(c.Claimed).name, e.keyForms[c.KeyForm].name, e.ident(c.Signer).name, c.Signed, c.Presented, e.sigForms[c.SigForm].name)
}

func (e *c32Env) material(c *c32Case) (pub, sig, secret []byte) {
	pub = e.keyForms[c.KeyForm].make(e.ident(c.Claimed))
	sig = e.sigForms[c.SigForm].make(e.sigs[c.Signer][c.Signed])
	secret = e.secrets[c.Presented]
	return
}

// why a must-reject case must be rejected (for narrow signatures)
func (e *c32Env) reason(c *c32Case) string {
	kf, sf := e.keyForms[c.KeyForm], e.sigForms[c.SigForm]
	switch {
	case kf.class == c32KeyBad:
		return "bad-public-key:" + kf.name
	case sf.class == c32SigBroken:
		n := sf.name
		if len(n) > 8 && n[:8] == "bit-flip" {
			n = "bit-flip"
		}
		return "broken-signature:" + n
	case c.Claimed != c.Signer:
		return "signed-by-another-key"
	default:
		return "signature-over-another-sessions-secret"
	}
}

type c32Counters struct {
	acc, rej, either, eitherAcc int64
	rejParseKey, rejParseSig    int64
	rejVerify                   int64
}

func (e *c32Env) runVerify(r *ev.Run, cn *c32Counters, c *c32Case) {
	pub, sig, secret := e.material(c)
	var id module.PeerID
	var err error
	pan := ev.Catch(func() { id, err = e.self.auth.VerifySignature(pub, sig, secret) })
	if pan != "" {
		c.Desc = e.describe(c)
		r.Violation("panic-in-VerifySignature", "panic: "+pan+" "+c.Desc, c)
		return
	}
	want := e.model(c)
	ok := err == nil
	if ok {
		atomic.AddInt64(&cn.acc, 1)
	} else {
		atomic.AddInt64(&cn.rej, 1)
		switch {
		case bytes.Contains([]byte(err.Error()), []byte("fail to parse public key")):
			atomic.AddInt64(&cn.rejParseKey, 1)
		case bytes.Contains([]byte(err.Error()), []byte("fail to parse signature")):
			atomic.AddInt64(&cn.rejParseSig, 1)
		default:
			atomic.AddInt64(&cn.rejVerify, 1)
		}
	}
	switch want {
	case c32MustReject:
		if ok {
			c.Desc = e.describe(c)
			r.Violation("VerifySignature-accepted:"+e.reason(c), "accepted (id="+fmt.Sprint(id)+") "+c.Desc, c)
		}
	case c32MustAccept, c32Either:
		if want == c32Either {
			atomic.AddInt64(&cn.either, 1)
			if ok {
				atomic.AddInt64(&cn.eitherAcc, 1)
			}
		}
		if !ok && want == c32MustAccept {
			c.Desc = e.describe(c)
			r.Violation("VerifySignature-rejected-valid-proof:"+e.sigForms[c.SigForm].name+"/"+e.keyForms[c.KeyForm].name, fmt.Sprintf("rejected (%v) %s", err, c.Desc), c)
		}
		if ok {
			if id == nil || !bytes.Equal(id.Bytes(), e.ident(c.Claimed).idWant) {
				c.Desc = e.describe(c)
				r.Violation("VerifySignature-returned-wrong-id", fmt.Sprintf("id=%v want=%x %s", id, e.ident(c.Claimed).idWant, c.Desc), c)
			}
		}
	}
}

// ---------------------------------------------------------------- stage H (handlers)

type c32Conn struct {
	mu     sync.Mutex
	buf    bytes.Buffer
	closed bool
	done   chan struct{}
}

func c32NewConn() *c32Conn { return &c32Conn{done: make(chan struct{})} }

// Read blocks until the connection is closed: nothing ever arrives on the wire,
// packets are handed to the handlers directly by the harness. (Once a peer is
// passed to the next handler, Peer.setPacketCbFunc starts the real receive and
// send routines; they park here and end when the harness closes the peer.)
func (c *c32Conn) Read(p []byte) (int, error) {
	<-c.done
	return 0, net.ErrClosed
}
func (c *c32Conn) Write(p []byte) (int, error) {
	c.mu.Lock()
	defer c.mu.Unlock()
	if c.closed {
		return 0, net.ErrClosed
	}
	return c.buf.Write(p)
}
func (c *c32Conn) Close() error {
	c.mu.Lock()
	defer c.mu.Unlock()
	if !c.closed {
		c.closed = true
		close(c.done)
	}
	return nil
}
func (c *c32Conn) drop() {
	c.mu.Lock()
	c.buf.Reset()
	c.mu.Unlock()
}
func (c *c32Conn) LocalAddr() net.Addr                { return nil }
func (c *c32Conn) RemoteAddr() net.Addr               { return nil }
func (c *c32Conn) SetDeadline(t time.Time) error      { return nil }
func (c *c32Conn) SetReadDeadline(t time.Time) error  { return nil }
func (c *c32Conn) SetWriteDeadline(t time.Time) error { return nil }

// packets returns (and removes) all packets written so far.
func (c *c32Conn) packets() []*Packet {
	c.mu.Lock()
	defer c.mu.Unlock()
	var out []*Packet
	rd := bytes.NewReader(c.buf.Bytes())
	for rd.Len() > 0 {
		pkt := &Packet{}
		if _, err := pkt.ReadFrom(rd); err != nil {
			panic(fmt.Sprintf("c32Conn: unreadable packet written by the code under test: %v", err))
		}
		out = append(out, pkt)
	}
	c.buf.Reset()
	return out
}

type c32Next struct {
	mu     sync.Mutex
	called map[*Peer]int
	id     map[*Peer]module.PeerID
	closed map[*Peer]bool
}

func c32NewNext() *c32Next {
	return &c32Next{called: map[*Peer]int{}, id: map[*Peer]module.PeerID{}, closed: map[*Peer]bool{}}
}
func (n *c32Next) onPeer(p *Peer) {
	n.mu.Lock()
	defer n.mu.Unlock()
	n.called[p]++
	n.id[p] = p.ID()
	n.closed[p] = p.IsClosed()
}
func (n *c32Next) onPacket(pkt *Packet, p *Peer) {}
func (n *c32Next) onClose(p *Peer)               {}
func (n *c32Next) setNext(ph PeerHandler)        {}

type c32HCounters struct {
	proceeded, refused, outOfSeq, selfRefused, errField int64
	idSetOnRefusedPeer                                  int64
}

func (e *c32Env) runHandler(r *ev.Run, hc *c32HCounters, c *c32Case) {
	pub, sig, secret := e.material(c)
	a := newAuthenticator(e.self.w, e.log)
	next := c32NewNext()
	a.setNext(next)
	conn := c32NewConn()
	in := c.Handler == "request"
	p := newPeer(conn, in, "", e.log)
	defer p.Close("verif: case finished")
	srcID := NewPeerID(e.ident(c.Claimed).idWant)
	if c.OtherSrc {
		srcID = NewPeerID(e.ident((c.Claimed + 1) % 3).idWant)
	}
	var pkt *Packet
	pan := ev.Catch(func() {
		if in {
			a.onPeer(p) // waits for a SecureRequest
			if c.Wait == 0 {
				p.secureKey = &secureKey{extra: secret}
				a.setWaitInfo(p2pProtoAuthSignatureRequest, p)
			}
			pkt = newPacket(p2pProtoAuth, p2pProtoAuthSignatureRequest,
				codec.MP.MustMarshalToBytes(&SignatureRequest{PublicKey: pub, Signature: sig}), srcID)
		} else {
			a.onPeer(p) // sends a SecureRequest, waits for the SecureResponse
			conn.packets()
			if c.Wait == 0 {
				p.secureKey = &secureKey{extra: secret}
				a.setWaitInfo(p2pProtoAuthSignatureResponse, p)
			}
			m := &SignatureResponse{PublicKey: pub, Signature: sig}
			if c.ErrField {
				m.Error = "refused"
			}
			pkt = newPacket(p2pProtoAuth, p2pProtoAuthSignatureResponse, codec.MP.MustMarshalToBytes(m), srcID)
		}
		a.onPacket(pkt, p)
	})
	desc := func() string {
		c.Desc = fmt.Sprintf("handler=%s wait=%d errField=%v otherSrc=%v %s", c.Handler, c.Wait, c.ErrField, c.OtherSrc, e.describe(c))
		return c.Desc
	}
	if pan != "" {
		r.Violation("panic-in-handleSignature-"+c.Handler, "panic: "+pan+" "+desc(), c)
		return
	}
	proceeded := next.called[p] > 0
	want := e.model(c)
	if c.Wait != 0 {
		want = c32MustReject
	}
	if want != c32MustReject && c.Claimed == len(e.ids) {
		want = c32Either // a proof by the node's own key: the request handler refuses it ("selfAddress"), which is allowed
	}
	if want != c32MustReject && c.ErrField {
		want = c32Either // the remote side reported an error itself: closing is fine
	}
	if proceeded {
		atomic.AddInt64(&hc.proceeded, 1)
	} else {
		atomic.AddInt64(&hc.refused, 1)
		if p.ID() != nil {
			atomic.AddInt64(&hc.idSetOnRefusedPeer, 1)
		}
	}
	if c.Wait != 0 {
		atomic.AddInt64(&hc.outOfSeq, 1)
	}
	switch {
	case proceeded && want == c32MustReject:
		reason := e.reason(c)
		if c.Wait != 0 {
			reason = "out-of-sequence-without-session-secret"
		}
		r.Violation("handshake-"+c.Handler+"-proceeded:"+reason, "next handler reached with id="+fmt.Sprint(next.id[p])+" "+desc(), c)
	case !proceeded && want == c32MustAccept:
		r.Violation("handshake-"+c.Handler+"-refused-valid-proof", fmt.Sprintf("closed=%v close-info=%s %s", p.IsClosed(), p.CloseInfo(), desc()), c)
	}
	if proceeded {
		if next.called[p] != 1 {
			r.Violation("handshake-"+c.Handler+"-next-called-twice", desc(), c)
		}
		if next.id[p] == nil || !bytes.Equal(next.id[p].Bytes(), e.ident(c.Claimed).idWant) {
			r.Violation("handshake-"+c.Handler+"-wrong-identity-assigned", fmt.Sprintf("id=%v want=%x %s", next.id[p], e.ident(c.Claimed).idWant, desc()), c)
		}
		if next.closed[p] || p.IsClosed() {
			r.Violation("handshake-"+c.Handler+"-proceeded-on-closed-peer", fmt.Sprintf("closed-at-call=%v closed-after=%v info=%s %s", next.closed[p], p.IsClosed(), p.CloseInfo(), desc()), c)
		}
	} else if !p.IsClosed() {
		r.Violation("handshake-"+c.Handler+"-refused-peer-left-open", "the peer was neither passed on nor closed "+desc(), c)
	}
	// the request handler answers with the node's own proof over THIS session's secret
	if in && c.Wait == 0 {
		pk := conn.packets()
		if len(pk) != 1 {
			r.Violation("handshake-request-response-count", fmt.Sprintf("%d packets written %s", len(pk), desc()), c)
			return
		}
		var m SignatureResponse
		if _, err := codec.MP.UnmarshalFromBytes(pk[0].payload, &m); err != nil {
			r.Violation("handshake-request-response-undecodable", err.Error()+" "+desc(), c)
			return
		}
		if proceeded {
			okSig := m.Error == "" && len(m.Signature) >= 64 && c32RSVerify(m.Signature, e.self.pub, sha3sum(secret)) &&
				bytes.Equal(c32PointOf(m.PublicKey), e.self.uncomp)
			if !okSig {
				r.Violation("handshake-request-own-proof-invalid", fmt.Sprintf("the node's own SignatureResponse is not a proof over this session's secret: %+v %s", m, desc()), c)
			}
		} else if m.Error == "" {
			r.Violation("handshake-request-refused-without-error-reply", desc(), c)
		}
	}
}

func sha3sum(b []byte) []byte { d := sha3.Sum256(b); return d[:] }

// c32PointOf normalises a standard key encoding to the uncompressed form (nil if not standard).
func c32PointOf(pub []byte) []byte {
	switch {
	case len(pub) == 65 && pub[0] == 4:
		return pub
	case len(pub) == 33 && (pub[0] == 2 || pub[0] == 3):
		pk, err := secp256k1.ParsePubKey(pub)
		if err != nil {
			return nil
		}
		return pk.SerializeUncompressed()
	}
	return nil
}

func c32RSVerify(raw []byte, pub *secp256k1.PublicKey, hash []byte) bool {
	if len(raw) < 64 {
		return false
	}
	var r, s secp256k1.ModNScalar
	if r.SetByteSlice(raw[:32]) || s.SetByteSlice(raw[32:64]) || r.IsZero() || s.IsZero() {
		return false
	}
	return decdsa.NewSignature(&r, &s).Verify(hash, pub)
}

// ---------------------------------------------------------------- stage R (relay between real sessions)

type c32Session struct {
	client         *c32Ident
	ac             *Authenticator // client side authenticator (fresh)
	pc, ps         *Peer
	cc, cs         *c32Conn
	secReq         *Packet
	sigReq         *Packet
	sigResp        *Packet
	nextC          *c32Next
	clientSecret   []byte
	serverSecret   []byte
	serverAccepted bool
}

// c32Open performs SecureRequest/SecureResponse between a fresh client
// authenticator of ident and the server authenticator as, up to the point where
// the client has emitted its SignatureRequest.
func (e *c32Env) c32Open(as *Authenticator, client *c32Ident) *c32Session {
	s := &c32Session{client: client, cc: c32NewConn(), cs: c32NewConn(), nextC: c32NewNext()}
	s.ac = newAuthenticator(client.w, e.log)
	s.ac.setNext(s.nextC)
	s.pc = newPeer(s.cc, false, "", e.log)
	s.ps = newPeer(s.cs, true, "", e.log)
	one := func(c *c32Conn, what string) *Packet {
		pk := c.packets()
		if len(pk) != 1 {
			panic(fmt.Sprintf("c32Open: expected one %s packet, got %d", what, len(pk)))
		}
		return pk[0]
	}
	s.ac.onPeer(s.pc)
	secReq := one(s.cc, "SecureRequest")
	s.secReq = secReq
	as.onPeer(s.ps)
	as.onPacket(secReq, s.ps)
	secResp := one(s.cs, "SecureResponse")
	s.ac.onPacket(secResp, s.pc)
	s.sigReq = one(s.cc, "SignatureRequest")
	s.clientSecret = s.pc.secureKey.extra
	s.serverSecret = s.ps.secureKey.extra
	return s
}

type c32RelayCase struct {
	Stage string `json:"stage"`
	Dir   string `json:"dir"`  // "request": client proof of session From delivered to the server peer of session Into; "response": server proof of From delivered to the client peer of Into
	From  int    `json:"from"` // session descriptor index
	Into  int    `json:"into"`
	Desc  string `json:"desc,omitempty"`
}

// session descriptors: which identity opens the session
var c32SessionOwners = []int{0, 0, 1, 2} // A, A again, B, C

func (e *c32Env) runRelay(r *ev.Run, c *c32RelayCase, acc, rej *int64) {
	r.Eval(1)
	as := newAuthenticator(e.self.w, e.log)
	nextS := c32NewNext()
	as.setNext(nextS)
	var from, into *c32Session
	defer func() {
		for _, s := range []*c32Session{from, into} {
			if s != nil {
				s.pc.Close("verif: case finished")
				s.ps.Close("verif: case finished")
			}
		}
	}()
	pan := ev.Catch(func() {
		into = e.c32Open(as, e.ids[c32SessionOwners[c.Into]])
		if c.From == c.Into {
			from = into
		} else {
			from = e.c32Open(as, e.ids[c32SessionOwners[c.From]])
		}
	})
	c.Desc = fmt.Sprintf("%s proof of session #%d (%s) delivered into session #%d (%s)", c.Dir, c.From, e.ids[c32SessionOwners[c.From]].name, c.Into, e.ids[c32SessionOwners[c.Into]].name)
	if pan != "" {
		r.Violation("panic-in-secure-exchange", pan+" "+c.Desc, c)
		return
	}
	if !bytes.Equal(into.clientSecret, into.serverSecret) || len(into.clientSecret) == 0 {
		r.Violation("session-secret-mismatch", fmt.Sprintf("client %x server %x %s", into.clientSecret, into.serverSecret, c.Desc), c)
		return
	}
	same := c.From == c.Into
	if c.Dir == "request" {
		pan = ev.Catch(func() { as.onPacket(from.sigReq, into.ps) })
		if pan != "" {
			r.Violation("panic-in-handleSignature-request", pan+" "+c.Desc, c)
			return
		}
		ok := nextS.called[into.ps] > 0
		if ok {
			atomic.AddInt64(acc, 1)
		} else {
			atomic.AddInt64(rej, 1)
		}
		switch {
		case ok && !same:
			r.Violation("handshake-request-proceeded:signature-over-another-sessions-secret", "relayed proof accepted, id="+fmt.Sprint(nextS.id[into.ps])+" "+c.Desc, c)
		case !ok && same:
			r.Violation("handshake-request-refused-valid-proof", "honest handshake refused: "+into.ps.CloseInfo()+" "+c.Desc, c)
		case ok && !bytes.Equal(nextS.id[into.ps].Bytes(), into.client.idWant):
			r.Violation("handshake-request-wrong-identity-assigned", fmt.Sprintf("id=%v %s", nextS.id[into.ps], c.Desc), c)
		}
		if !ok && !into.ps.IsClosed() {
			r.Violation("handshake-request-refused-peer-left-open", c.Desc, c)
		}
		return
	}
	// response direction: complete both sessions honestly on the server side first
	pan = ev.Catch(func() {
		for _, s := range []*c32Session{into, from} {
			if s.sigResp != nil {
				continue
			}
			as.onPacket(s.sigReq, s.ps)
			pk := s.cs.packets()
			if len(pk) != 1 {
				panic("no SignatureResponse")
			}
			s.sigResp = pk[0]
		}
		into.ac.onPacket(from.sigResp, into.pc)
	})
	if pan != "" {
		r.Violation("panic-in-handleSignature-response", pan+" "+c.Desc, c)
		return
	}
	ok := into.nextC.called[into.pc] > 0
	if ok {
		atomic.AddInt64(acc, 1)
	} else {
		atomic.AddInt64(rej, 1)
	}
	switch {
	case ok && !same:
		r.Violation("handshake-response-proceeded:signature-over-another-sessions-secret", "relayed proof accepted "+c.Desc, c)
	case !ok && same:
		r.Violation("handshake-response-refused-valid-proof", "honest handshake refused: "+into.pc.CloseInfo()+" "+c.Desc, c)
	case ok && !bytes.Equal(into.nextC.id[into.pc].Bytes(), e.self.idWant):
		r.Violation("handshake-response-wrong-identity-assigned", fmt.Sprintf("id=%v %s", into.nextC.id[into.pc], c.Desc), c)
	}
	if !ok && !into.pc.IsClosed() {
		r.Violation("handshake-response-refused-peer-left-open", c.Desc, c)
	}
}

// ---------------------------------------------------------------- stage I (identity stays bound: histories of many handshakes)

// The PeerID objects handed out by VerifySignature / stored by p.setID come
// from a process-wide LRU cache of peerIDCacheSize entries. An identity that
// was proven once must stay what it was, however many other identities pass
// through the process afterwards and in whatever order they are looked up.

type c32HistCase struct {
	Stage string `json:"stage"`
	N     int    `json:"n"`     // number of distinct keys that authenticate one after the other
	Route string `json:"route"` // "verify" | "request" | "response"
	Touch string `json:"touch"` // lookups performed between the handshakes
	Desc  string `json:"desc,omitempty"`
}

var c32Touches = []string{"none", "first", "odd", "reverse-sweep-every-10", "arbitrary-src-filler", "sliding-middle"}

type c32HistIdent struct {
	id  *c32Ident
	sig []byte // real Authenticator.Signature over the history's session secret
	pk  *crypto.PublicKey
}

var (
	c32HistMu   sync.Mutex
	c32HistKeys []*c32HistIdent
)

var c32HistSecret = func() []byte { d := sha256.Sum256([]byte("verif-c32-history-secret")); return d[:] }()

func c32HistKey(i int) *c32HistIdent {
	c32HistMu.Lock()
	defer c32HistMu.Unlock()
	for len(c32HistKeys) <= i {
		id := c32NewIdent(fmt.Sprintf("hist-%d", len(c32HistKeys)))
		pk, err := crypto.ParsePublicKey(id.uncomp)
		if err != nil {
			panic(err)
		}
		c32HistKeys = append(c32HistKeys, &c32HistIdent{id: id, sig: id.auth.Signature(c32HistSecret), pk: pk})
	}
	return c32HistKeys[i]
}

type c32Kept struct {
	who  int
	id   module.PeerID
	peer *Peer
}

func (e *c32Env) runHistory(r *ev.Run, c *c32HistCase, steps, checks *int64) {
	r.Eval(1)
	c.Desc = fmt.Sprintf("%d distinct keys authenticate in sequence via %s, lookups in between: %s (cache size %d)", c.N, c.Route, c.Touch, peerIDCacheSize)
	// a fresh real cache object: the history starts from a known state
	cache = newPeerIDCache(peerIDCacheSize)
	a := newAuthenticator(e.self.w, e.log)
	next := c32NewNext()
	a.setNext(next)
	var kept []c32Kept
	defer func() {
		for _, k := range kept {
			if k.peer != nil {
				k.peer.Close("verif: history finished")
			}
		}
	}()
	failed := false
	fail := func(sig, detail string) {
		failed = true
		r.Violation(sig, detail+" — "+c.Desc, c)
	}
	checkAll := func(step int) {
		for _, k := range kept {
			atomic.AddInt64(checks, 1)
			want := c32HistKey(k.who).id.idWant
			if k.id == nil || !bytes.Equal(k.id.Bytes(), want) {
				fail("proven-identity-changed-after-later-handshakes:"+c.Route,
					fmt.Sprintf("after %d handshakes the id obtained for key #%d (hx%x) reads %v", step+1, k.who, want, k.id))
				return
			}
			if k.peer != nil && (k.peer.ID() == nil || !bytes.Equal(k.peer.ID().Bytes(), want)) {
				fail("authenticated-peer-identity-changed-after-later-handshakes:"+c.Route,
					fmt.Sprintf("after %d handshakes the peer that proved key #%d (hx%x) is identified as %v", step+1, k.who, want, k.peer.ID()))
				return
			}
		}
	}
	lookup := func(who, step int) {
		h := c32HistKey(who)
		id := NewPeerIDFromPublicKey(h.pk)
		if id == nil || !bytes.Equal(id.Bytes(), h.id.idWant) {
			fail("NewPeerIDFromPublicKey-returned-another-identity-after-cache-churn",
				fmt.Sprintf("after %d handshakes the lookup for key #%d (hx%x) returned %v", step+1, who, h.id.idWant, id))
		}
	}
	for i := 0; i < c.N && !failed; i++ {
		atomic.AddInt64(steps, 1)
		h := c32HistKey(i)
		pub := h.id.uncomp
		if i%2 == 1 {
			pub = h.id.w.PublicKey() // compressed
		}
		var got c32Kept
		pan := ev.Catch(func() {
			switch c.Route {
			case "verify":
				id, err := a.VerifySignature(pub, h.sig, c32HistSecret)
				if err != nil {
					fail("VerifySignature-rejected-valid-proof:history", fmt.Sprintf("step %d: %v", i, err))
					return
				}
				got = c32Kept{who: i, id: id}
			default:
				in := c.Route == "request"
				conn := c32NewConn()
				p := newPeer(conn, in, "", e.log)
				a.onPeer(p)
				conn.packets()
				p.secureKey = &secureKey{extra: c32HistSecret}
				src := NewPeerID(h.id.idWant) // what parsing the packet header does
				var pkt *Packet
				if in {
					a.setWaitInfo(p2pProtoAuthSignatureRequest, p)
					pkt = newPacket(p2pProtoAuth, p2pProtoAuthSignatureRequest, codec.MP.MustMarshalToBytes(&SignatureRequest{PublicKey: pub, Signature: h.sig}), src)
				} else {
					a.setWaitInfo(p2pProtoAuthSignatureResponse, p)
					pkt = newPacket(p2pProtoAuth, p2pProtoAuthSignatureResponse, codec.MP.MustMarshalToBytes(&SignatureResponse{PublicKey: pub, Signature: h.sig}), src)
				}
				a.onPacket(pkt, p)
				got = c32Kept{who: i, id: next.id[p], peer: p}
				if next.called[p] != 1 {
					p.Close("verif: refused")
					got.peer = nil
					fail("handshake-"+c.Route+"-refused-valid-proof", fmt.Sprintf("step %d: honest handshake of key #%d refused", i, i))
				}
			}
		})
		if pan != "" {
			fail("panic-in-history", pan)
			break
		}
		if failed {
			break
		}
		kept = append(kept, got)
		checkAll(i)
		if failed {
			break
		}
		switch c.Touch {
		case "first":
			lookup(0, i)
		case "odd":
			for j := 1; j <= i; j += 2 {
				lookup(j, i)
			}
		case "reverse-sweep-every-10":
			if i%10 == 9 {
				for j := i; j >= 0; j-- {
					lookup(j, i)
				}
			}
		case "arbitrary-src-filler":
			// a packet with an arbitrary src passes through NewPeerID as well
			fb := sha256.Sum256([]byte(fmt.Sprintf("verif-c32-filler-%d", i)))
			f := NewPeerID(fb[:peerIDSize])
			if !bytes.Equal(f.Bytes(), fb[:peerIDSize]) {
				fail("NewPeerID-returned-another-identity", fmt.Sprintf("step %d", i))
			}
		case "sliding-middle":
			lookup(i/2, i)
		}
		if c.Touch != "none" && !failed {
			checkAll(i)
		}
	}
	if failed {
		return
	}
	// finally every key is looked up and verified once more, oldest first
	for j := 0; j < c.N && !failed; j++ {
		lookup(j, c.N-1)
		h := c32HistKey(j)
		id, err := a.VerifySignature(h.id.uncomp, h.sig, c32HistSecret)
		if err != nil || id == nil || !bytes.Equal(id.Bytes(), h.id.idWant) {
			fail("VerifySignature-returned-wrong-id-after-cache-churn", fmt.Sprintf("key #%d (hx%x): id=%v err=%v", j, h.id.idWant, id, err))
		}
		if !failed {
			checkAll(c.N - 1)
		}
	}
}

// ---------------------------------------------------------------- stage M (several sessions on ONE responder; transcript replay)

// Earlier sessions of honest peers on the same responder Authenticator are
// recorded (SecureRequest and SignatureRequest as they went over the wire with
// SecureSuite "none"). A later connection is driven by an attacker who owns no
// victim key and sends every combination of {SecureParam recorded in an earlier
// session | a fresh one} x {SignatureRequest recorded in an earlier session |
// the victim's public key with a signature by the attacker's key | an honest
// proof of the attacker's own identity}. An identity may be assigned only in
// the last case. White box: the secret of the new session must differ from
// the secret of every earlier session even when the dialer's parameter is a
// replay (the responder contributes a fresh ephemeral key to every session).

type c32MultiCase struct {
	Stage  string `json:"stage"`
	Honest []int  `json:"honest"` // identities (0=A,1=B,2=C) of the earlier, honest sessions, in order
	Suite  int    `json:"suite"`  // SecureSuite the attacker's connection negotiates
	Aead   int    `json:"aead"`   // SecureAeadSuite
	Param  int    `json:"param"`  // j>=0: SecureParam replayed from honest session j; -1: fresh
	Sig    int    `json:"sig"`    // j>=0: SignatureRequest replayed from session j; -1: victim's key + attacker's signature; -2: honest proof of the attacker's own key; -3: none (secret check only)
	Desc   string `json:"desc,omitempty"`
}

type c32MultiCounters struct{ refused, accepted, secretChecks int64 }

func (e *c32Env) runMulti(r *ev.Run, c *c32MultiCase, mc *c32MultiCounters) {
	r.Eval(1)
	pn := func(j int) string {
		if j >= 0 {
			return fmt.Sprintf("replayed from session #%d", j)
		}
		return map[int]string{-1: "fresh / victim's key with the attacker's signature", -2: "honest proof of the attacker's own key", -3: "none"}[j]
	}
	c.Desc = fmt.Sprintf("honest sessions of %v, then a connection with suite=%v aead=%v SecureParam: %s; SignatureRequest: %s",
		c.Honest, SecureSuite(c.Suite), SecureAeadSuite(c.Aead), map[bool]string{true: pn(c.Param), false: "fresh"}[c.Param >= 0], pn(c.Sig))
	as := newAuthenticator(e.self.w, e.log)
	nextS := c32NewNext()
	as.setNext(nextS)
	attacker := c32MultiAttacker() // owns its own key only, never a victim's
	var sessions []*c32Session
	var ps *Peer
	defer func() {
		for _, s := range sessions {
			s.pc.Close("verif: case finished")
			s.ps.Close("verif: case finished")
		}
		if ps != nil {
			ps.Close("verif: case finished")
		}
	}()
	fail := func(sig, detail string) { r.Violation(sig, detail+" — "+c.Desc, c) }
	var secrets [][]byte
	pan := ev.Catch(func() {
		for _, who := range c.Honest {
			s := e.c32Open(as, e.ids[who])
			sessions = append(sessions, s)
			as.onPacket(s.sigReq, s.ps)
			s.cs.drop()
			if nextS.called[s.ps] != 1 || !bytes.Equal(nextS.id[s.ps].Bytes(), e.ids[who].idWant) {
				fail("handshake-request-refused-valid-proof", fmt.Sprintf("honest session of %s was not authenticated", e.ids[who].name))
			}
			secrets = append(secrets, append([]byte(nil), s.serverSecret...))
		}
	})
	if pan != "" {
		fail("panic-in-secure-exchange", pan)
		return
	}
	// the later connection
	conn := c32NewConn()
	ps = newPeer(conn, true, "", e.log)
	var param []byte
	var own *secureKey
	if c.Param >= 0 {
		var rm SecureRequest
		if _, err := codec.MP.UnmarshalFromBytes(sessions[c.Param].secReq.payload, &rm); err != nil {
			panic(err)
		}
		param = rm.SecureParam
	} else {
		own = newSecureKey(DefaultSecureEllipticCurve, nil)
		param = own.marshalPublicKey()
	}
	var resp SecureResponse
	pan = ev.Catch(func() {
		as.onPeer(ps)
		req := &SecureRequest{Channel: "c32", SecureSuites: []SecureSuite{SecureSuite(c.Suite)}, SecureAeadSuites: []SecureAeadSuite{SecureAeadSuite(c.Aead)}, SecureParam: param}
		as.onPacket(newPacket(p2pProtoAuth, p2pProtoAuthSecureRequest, codec.MP.MustMarshalToBytes(req), NewPeerID(attacker.idWant)), ps)
		pk := conn.packets() // the SecureResponse is written before the connection is wrapped
		if len(pk) != 1 {
			panic(fmt.Sprintf("%d packets instead of one SecureResponse", len(pk)))
		}
		if _, err := codec.MP.UnmarshalFromBytes(pk[0].payload, &resp); err != nil {
			panic(err)
		}
	})
	if pan != "" {
		fail("panic-in-secure-exchange", pan)
		return
	}
	if resp.SecureError != SecureErrorNone || ps.IsClosed() || ps.secureKey == nil || len(ps.secureKey.extra) == 0 {
		fail("secure-exchange-refused", fmt.Sprintf("SecureResponse %+v closed=%v", resp, ps.IsClosed()))
		return
	}
	secret := append([]byte(nil), ps.secureKey.extra...)
	atomic.AddInt64(&mc.secretChecks, 1)
	for j, old := range secrets {
		if bytes.Equal(old, secret) {
			what := "fresh-dialer-parameter"
			if c.Param >= 0 {
				what = "replayed-dialer-parameter"
			}
			fail("session-secret-of-an-earlier-session-reused:"+what, fmt.Sprintf("the new session has the secret of session #%d (%x): the responder contributed nothing fresh", j, secret))
			break
		}
	}
	if own != nil {
		if err := own.setup(resp.SecureAeadSuite, resp.SecureParam, false, 2); err != nil || !bytes.Equal(own.extra, secret) {
			fail("session-secret-mismatch", fmt.Sprintf("dialer derives %x, responder %x (err=%v)", own.extra, secret, err))
		}
	}
	if c.Sig == -3 {
		return
	}
	var sigPkt *Packet
	switch {
	case c.Sig >= 0:
		sigPkt = sessions[c.Sig].sigReq // verbatim
	case c.Sig == -1:
		victim := e.ids[c.Honest[0]]
		sigPkt = newPacket(p2pProtoAuth, p2pProtoAuthSignatureRequest,
			codec.MP.MustMarshalToBytes(&SignatureRequest{PublicKey: victim.w.PublicKey(), Signature: attacker.auth.Signature(secret)}), NewPeerID(victim.idWant))
	default:
		sigPkt = newPacket(p2pProtoAuth, p2pProtoAuthSignatureRequest,
			codec.MP.MustMarshalToBytes(&SignatureRequest{PublicKey: attacker.w.PublicKey(), Signature: attacker.auth.Signature(secret)}), NewPeerID(attacker.idWant))
	}
	pan = ev.Catch(func() { as.onPacket(sigPkt, ps) })
	conn.drop() // possibly encrypted, not inspected
	if pan != "" {
		fail("panic-in-handleSignature-request", pan)
		return
	}
	ok := nextS.called[ps] > 0
	if ok {
		atomic.AddInt64(&mc.accepted, 1)
	} else {
		atomic.AddInt64(&mc.refused, 1)
	}
	switch {
	case c.Sig >= 0 && ok:
		fail("handshake-request-proceeded:verbatim-replay-of-an-earlier-sessions-SignatureRequest", fmt.Sprintf("the connection was authenticated as %v without possession of that key", nextS.id[ps]))
	case c.Sig == -1 && ok:
		fail("handshake-request-proceeded:signed-by-another-key", fmt.Sprintf("authenticated as %v", nextS.id[ps]))
	case c.Sig == -2 && !ok:
		fail("handshake-request-refused-valid-proof", "an honest proof over this session's secret was refused: "+ps.CloseInfo())
	case c.Sig == -2 && !bytes.Equal(nextS.id[ps].Bytes(), attacker.idWant):
		fail("handshake-request-wrong-identity-assigned", fmt.Sprintf("id=%v", nextS.id[ps]))
	}
	if !ok && !ps.IsClosed() {
		fail("handshake-request-refused-peer-left-open", "")
	}
}

var (
	c32AttackerOnce sync.Once
	c32AttackerID   *c32Ident
)

func c32MultiAttacker() *c32Ident {
	c32AttackerOnce.Do(func() { c32AttackerID = c32NewIdent("attacker") })
	return c32AttackerID
}

func c32MultiCases(thorough bool) []*c32MultiCase {
	type sa struct{ s, a int }
	suites := []sa{{int(SecureSuiteNone), int(SecureAeadSuiteNone)}}
	for _, a := range DefaultSecureAeadSuites {
		suites = append(suites, sa{int(SecureSuiteEcdhe), int(a)}, sa{int(SecureSuiteTls), int(a)})
	}
	var honest [][]int
	for v := 0; v < 3; v++ {
		honest = append(honest, []int{v})
	}
	if thorough {
		for v := 0; v < 3; v++ {
			for w := 0; w < 3; w++ {
				honest = append(honest, []int{v, w})
			}
		}
	}
	var out []*c32MultiCase
	for _, h := range honest {
		for _, su := range suites {
			for param := -1; param < len(h); param++ {
				if su.s == int(SecureSuiteTls) {
					// a TLS server connection cannot be driven without a live peer: secret check only
					out = append(out, &c32MultiCase{Stage: "multi", Honest: h, Suite: su.s, Aead: su.a, Param: param, Sig: -3})
					continue
				}
				for sig := -2; sig < len(h); sig++ {
					out = append(out, &c32MultiCase{Stage: "multi", Honest: h, Suite: su.s, Aead: su.a, Param: param, Sig: sig})
				}
			}
		}
	}
	return out
}

// ---------------------------------------------------------------- the check

func TestVerifC32(t *testing.T) {
	r := ev.Start(t, "C32", "exploration")
	nSecrets := r.Pick(3, 5)
	bits := r.Pick(1, 8)
	e := c32NewEnv(nSecrets, bits)

	if ev.Replaying() {
		var probe struct {
			Stage string `json:"stage"`
		}
		ev.ReplayCase(&probe)
		var a, b int64
		switch probe.Stage {
		case "relay":
			var c c32RelayCase
			ev.ReplayCase(&c)
			e.runRelay(r, &c, &a, &b)
		case "multi":
			var c c32MultiCase
			ev.ReplayCase(&c)
			e.runMulti(r, &c, &c32MultiCounters{})
		case "history":
			var c c32HistCase
			ev.ReplayCase(&c)
			e.runHistory(r, &c, &a, &b)
		case "handler":
			var c c32Case
			ev.ReplayCase(&c)
			e = c32NewEnv(c.NSecrets, c.Bits)
			e.runHandler(r, &c32HCounters{}, &c)
		default:
			var c c32Case
			ev.ReplayCase(&c)
			e = c32NewEnv(c.NSecrets, c.Bits)
			e.runVerify(r, &c32Counters{}, &c)
		}
		r.Finish(false)
		return
	}

	nK, nS, nF := len(e.keyForms), len(e.secrets), len(e.sigForms)
	r.Rule(fmt.Sprintf("identities A,B,C + the node itself (fixed keys); %d session secrets from {a 32-byte secret, the same with its last bit flipped, the empty secret, an unrelated one, a 31-byte prefix of the first}; %d public key encodings (65/33/hybrid, wrong lengths, wrong prefixes, negated point, off-curve, unreduced coordinate, empty) ; %d signature forms (as signed, without V, V altered, high-S twin, lengths 0/32/63/66, zeros, r/s swapped/zero/=n/unreduced, %d single-bit flips of every R|S byte). (V) VerifySignature on the full product claimed(3) x key form x signer(3) x signed secret x presented secret x signature form; (H) handleSignatureRequest and handleSignatureResponse on in-package peers for the product restricted to a representative subset of forms, x in/out of sequence x Error field x packet src; (R) real SecureRequest/SecureResponse exchanges, every session's SignatureRequest/Response relayed into every session of {A, A again, B, C}; (M) one responder Authenticator, 1 (thorough: also 2) recorded honest sessions of A/B/C with suite none, then an attacker connection for every suite/aead in {none, ecdhe x 3 aeads, tls x 3 aeads} x SecureParam in {replayed from each earlier session, fresh} x SignatureRequest in {replayed verbatim from each earlier session, victim's key with the attacker's signature, honest proof of the attacker's own key} (tls: white-box secret check only): only the last may authenticate, and the new session's secret must differ from every earlier session's; every dialer connection offers a fresh parameter; (I) histories: N distinct keys (quick N in {99,100,101,150,210}, thorough also 1,50,102,199..202,310; peer id cache size 100) prove their identity one after the other via {VerifySignature, handleSignatureRequest, handleSignatureResponse} x 6 lookup patterns in between {none, first, odd, reverse sweep every 10, arbitrary-src filler, sliding middle}; at the end every key is looked up and verified again, starting from a fresh real peerIDCache; after every handshake and every lookup batch every id obtained so far and every authenticated Peer.ID() is compared byte-wise with SHA3(x||y)[12:] of the key it proved. Non-trivial = (V) key and signature both parse so that ECDSA verification decides, (H,R) every case; distinct = the case tuple.", nS, nK, nF, bits*64))
	r.Assume("signatures are made by the real Authenticator.Signature with fixed keys; forging is represented by the mutation alphabet (no key-space search)",
		"hybrid public key encodings and the high-S twin of a valid signature are mathematically valid proofs of possession: accepting or refusing them is both allowed",
		"stage R uses fresh random ECDH keys (crypto/rand inside newSecureKey); the expected verdict does not depend on their values")

	// ---- self test of the alphabet: independent (r,s) verification agrees with the by-construction model
	for si, id := range append(append([]*c32Ident(nil), e.ids...), e.self) {
		for k, sec := range e.secrets {
			base := e.sigs[si][k]
			r.Sanity(len(base) == 65, "Authenticator.Signature returned %d bytes", len(base))
			for fi, f := range e.sigForms {
				raw := f.make(base)
				if len(raw) != 64 && len(raw) != 65 {
					r.Sanity(f.class == c32SigBroken, "form %s has an unparsable length but is not classified broken", f.name)
					continue
				}
				got := c32RSVerify(raw, id.pub, sha3sum(sec))
				want := f.class != c32SigBroken
				r.Sanity(got == want, "signature alphabet self test: signer=%s secret=%d form=%s(%d) rs-verifies=%v", id.name, k, f.name, fi, got)
			}
			for k2, sec2 := range e.secrets {
				if k2 != k {
					r.Sanity(!c32RSVerify(base, id.pub, sha3sum(sec2)), "signature over secret %d verifies for secret %d", k, k2)
				}
			}
		}
		r.Sanity(c32OnCurve(id.x, id.y), "key %s not on curve by the independent check", id.name)
		for _, kf := range e.keyForms {
			raw := kf.make(id)
			if kf.class != c32KeyBad {
				continue
			}
			// a "bad" encoding must not be a standard encoding of the same point
			if p := c32PointOf(raw); p != nil && bytes.Equal(p, id.uncomp) {
				r.Sanity(false, "key form %s of %s is a standard encoding of the same key", kf.name, id.name)
			}
		}
	}

	// ---- stage V
	cn := &c32Counters{}
	dims := []int{3, nK, 3, nS, nS, nF}
	total := 1
	for _, d := range dims {
		total *= d
	}
	decode := func(m int) *c32Case {
		idx := make([]int, len(dims))
		for i := len(dims) - 1; i >= 0; i-- {
			idx[i] = m % dims[i]
			m /= dims[i]
		}
		return &c32Case{Stage: "verify", Claimed: idx[0], KeyForm: idx[1], Signer: idx[2], Signed: idx[3], Presented: idx[4], SigForm: idx[5], NSecrets: nSecrets, Bits: bits}
	}
	sigLenOK := make([]bool, nF)
	for i, f := range e.sigForms {
		l := len(f.make(e.sigs[0][0]))
		sigLenOK[i] = l == 64 || l == 65
	}
	const chunk = 2048
	nch := (total + chunk - 1) / chunk
	var done int64
	ev.Par(nch, 16, func(ci int) {
		if r.Expired() {
			return
		}
		n := 0
		for m := ci * chunk; m < total && m < (ci+1)*chunk; m++ {
			c := decode(m)
			if e.keyForms[c.KeyForm].class != c32KeyBad && sigLenOK[c.SigForm] {
				r.Nontrivial(fmt.Sprintf("V%d", m)) // both parse: the case reaches ECDSA verification
			}
			e.runVerify(r, cn, c)
			n++
		}
		r.Eval(n)
		atomic.AddInt64(&done, int64(n))
	})
	r.Set("verify_cases", done)
	r.Set("verify_accepted", cn.acc)
	r.Set("verify_rejected", cn.rej)
	r.Set("verify_rejected_public_key_parse", cn.rejParseKey)
	r.Set("verify_rejected_signature_parse", cn.rejParseSig)
	r.Set("verify_rejected_by_ecdsa", cn.rejVerify)
	r.Set("verify_either_cases", cn.either)
	r.Set("verify_either_accepted", cn.eitherAcc)
	r.Sanity(cn.acc > 0 && cn.rejParseKey > 0 && cn.rejParseSig > 0 && cn.rejVerify > 0, "an outcome class of VerifySignature was never seen: %+v", *cn)

	// ---- stage H
	hc := &c32HCounters{}
	keySel := []int{}
	for i, kf := range e.keyForms {
		switch kf.name {
		case "uncompressed-65", "compressed-33", "hybrid-65", "x-only-32", "compressed-other-parity(=negated point)", "uncompressed-y+1-off-curve", "empty":
			keySel = append(keySel, i)
		default:
			if r.Thorough() {
				keySel = append(keySel, i)
			}
		}
	}
	sigSel := []int{}
	nFixed := nF - 64*bits // the non-bit-flip forms come first
	for i, sf := range e.sigForms[:nFixed] {
		switch sf.name {
		case "as-signed-65", "without-v-64", "v-flipped", "high-s-twin", "empty", "zero-65", "one-byte-longer-66":
			sigSel = append(sigSel, i)
		default:
			if r.Thorough() {
				sigSel = append(sigSel, i)
			}
		}
	}
	// bit flips: first and last byte of R and of S (thorough: one per byte)
	for b := 0; b < 64; b++ {
		if b == 0 || b == 31 || b == 32 || b == 63 || r.Thorough() {
			sigSel = append(sigSel, nFixed+b*bits)
		}
	}
	var hcases []*c32Case
	for _, handler := range []string{"request", "response"} {
		for claimed := 0; claimed <= 3; claimed++ { // 3 = the node's own key
			for _, kf := range keySel {
				for signer := 0; signer <= 3; signer++ {
					for signed := 0; signed < nS; signed++ {
						for presented := 0; presented < nS; presented++ {
							for _, sf := range sigSel {
								for wait := 0; wait < 2; wait++ {
									base := c32Case{Stage: "handler", Handler: handler, Claimed: claimed, KeyForm: kf, Signer: signer, Signed: signed, Presented: presented, SigForm: sf, Wait: wait, NSecrets: nSecrets, Bits: bits}
									if wait == 1 && (signed != presented || e.sigForms[sf].class != c32SigKeeps) {
										continue // out-of-sequence delivery is only interesting with otherwise good material
									}
									if handler == "request" {
										c := base
										hcases = append(hcases, &c)
										continue
									}
									for _, ef := range []bool{false, true} {
										for _, os := range []bool{false, true} {
											if (ef || os) && (signed != presented) {
												continue
											}
											c := base
											c.ErrField, c.OtherSrc = ef, os
											hcases = append(hcases, &c)
										}
									}
								}
							}
						}
					}
				}
			}
		}
	}
	var hdone int64
	ev.Par(len(hcases), 16, func(i int) {
		if r.Expired() {
			return
		}
		r.Eval(1)
		r.Nontrivial(fmt.Sprintf("H%d", i))
		e.runHandler(r, hc, hcases[i])
		atomic.AddInt64(&hdone, 1)
	})
	r.Set("handler_cases", hdone)
	r.Set("handler_proceeded", hc.proceeded)
	r.Set("handler_refused", hc.refused)
	r.Set("handler_out_of_sequence_cases", hc.outOfSeq)
	r.Set("handler_id_set_on_refused_then_closed_peer", hc.idSetOnRefusedPeer)
	r.Sanity(hc.proceeded > 0 && hc.refused > 0 && hc.outOfSeq > 0, "handler outcomes not all seen: %+v", *hc)
	r.Sanity(int(hdone) == len(hcases) || r.Expired(), "handler cases skipped")

	// ---- stage R
	var racc, rrej int64
	rounds := r.Pick(1, 4)
	nRelay := 0
	for round := 0; round < rounds; round++ {
		for _, dir := range []string{"request", "response"} {
			for from := range c32SessionOwners {
				for into := range c32SessionOwners {
					if r.Expired() {
						break
					}
					c := &c32RelayCase{Stage: "relay", Dir: dir, From: from, Into: into}
					if round == 0 {
						r.Nontrivial(fmt.Sprintf("R%s%d%d", dir, from, into))
					}
					e.runRelay(r, c, &racc, &rrej)
					nRelay++
				}
			}
		}
	}
	r.Set("relay_cases", nRelay)
	r.Set("relay_accepted", racc)
	r.Set("relay_rejected", rrej)
	r.Sanity(racc > 0 && rrej > 0, "relay outcomes not both seen")

	// ---- stage M: several sessions on one responder, transcript replay
	mc := &c32MultiCounters{}
	mcases := c32MultiCases(r.Thorough())
	var mdone int64
	ev.Par(len(mcases), 16, func(i int) {
		if r.Expired() {
			return
		}
		r.Nontrivial(fmt.Sprintf("M%d", i))
		e.runMulti(r, mcases[i], mc)
		atomic.AddInt64(&mdone, 1)
	})
	// dialer side: every outgoing connection of one Authenticator offers a fresh parameter
	for _, id := range e.ids {
		a := newAuthenticator(id.w, e.log)
		seen := map[string]bool{}
		for k := 0; k < 3; k++ {
			conn := c32NewConn()
			p := newPeer(conn, false, "", e.log)
			a.onPeer(p)
			var rm SecureRequest
			pk := conn.packets()
			if len(pk) != 1 {
				r.Sanity(false, "dialer wrote %d packets", len(pk))
				continue
			}
			if _, err := codec.MP.UnmarshalFromBytes(pk[0].payload, &rm); err != nil {
				r.Sanity(false, "SecureRequest undecodable: %v", err)
				continue
			}
			if seen[string(rm.SecureParam)] {
				r.Violation("dialer-reuses-its-ephemeral-parameter-across-sessions", fmt.Sprintf("identity %s offered the same SecureParam on two connections", id.name), nil)
			}
			seen[string(rm.SecureParam)] = true
			p.Close("verif: done")
		}
	}
	r.Set("multi_session_cases", mdone)
	r.Set("multi_session_refused", mc.refused)
	r.Set("multi_session_accepted_honest", mc.accepted)
	r.Set("multi_session_secret_freshness_checks", mc.secretChecks)
	r.Sanity(int(mdone) == len(mcases) || r.Expired(), "multi-session cases skipped")
	r.Sanity(mc.refused > 0 && mc.accepted > 0 && mc.secretChecks > 0, "multi-session outcomes not all seen: %+v", *mc)

	// ---- stage I (sequential: the histories own the process-wide peer id cache)
	histN := []int{99, 100, 101, 150, 210}
	if r.Thorough() {
		histN = []int{1, 50, 99, 100, 101, 102, 150, 199, 200, 201, 202, 210, 310}
	}
	var hsteps, hchecks int64
	nHist := 0
	histDone := true
	for _, route := range []string{"verify", "request", "response"} {
		for _, touch := range c32Touches {
			for _, n := range histN {
				if r.Expired() {
					histDone = false
					break
				}
				c := &c32HistCase{Stage: "history", N: n, Route: route, Touch: touch}
				r.Nontrivial(fmt.Sprintf("I%s/%s/%d", route, touch, n))
				e.runHistory(r, c, &hsteps, &hchecks)
				nHist++
			}
		}
	}
	cache = newPeerIDCache(peerIDCacheSize)
	r.Set("history_cases", nHist)
	r.Set("history_handshakes", hsteps)
	r.Set("history_identity_rechecks", hchecks)
	r.Set("history_max_keys", histN[len(histN)-1])
	r.Set("peer_id_cache_size", peerIDCacheSize)
	r.Sanity(histDone && histN[len(histN)-1] > 2*peerIDCacheSize, "history family incomplete or too short to wrap the cache twice")

	a := e.ids[0]
	r.Sample(map[string]interface{}{"stage": "I", "case": "210 distinct keys authenticate through handleSignatureRequest, no lookups in between", "expect": "after every handshake each of the earlier peers still carries SHA3(x||y)[12:] of the key it proved"})
	r.Sample(map[string]interface{}{"stage": "V", "case": "claimed=A key=compressed-33 signer=A signed=secret0 presented=secret0 sig=without-v-64", "expect": "accept, id=" + fmt.Sprintf("hx%x", a.idWant)})
	r.Sample(map[string]interface{}{"stage": "V", "case": "claimed=A key=uncompressed-65 signer=A signed=secret0 presented=secret1 (last bit differs) sig=as-signed-65", "expect": "reject: signature over another session's secret"})
	r.Sample(map[string]interface{}{"stage": "V", "case": "claimed=A key=compressed-other-parity signer=A ...", "expect": "reject: the encoding names the negated point, a different key"})
	r.Sample(map[string]interface{}{"stage": "H", "case": "handler=request wait=1 (SignatureRequest before any SecureRequest) with a valid proof of A", "expect": "peer closed, next handler not reached"})
	r.Sample(map[string]interface{}{"stage": "R", "case": "request proof of session #0 (A) delivered into session #1 (A again)", "expect": "reject: same identity, other session secret"})
	r.Set("public_key_forms", nK)
	r.Set("signature_forms", nF)
	r.Set("session_secrets", nS)
	r.Finish(!r.Expired())
}
