//go:build verif

package state

// C14 — world-state snapshots are isolated and the state hash is canonical.
//
// Real state.NewWorldState over a MapDB is driven by operation histories; a
// boring model (account -> balance, key->value, contract flag) says what every
// observable must be. Two engines, both exhaustive over a stated finite space:
//   A. BFS with canonical-state dedup (model of live state + models of stashed
//      snapshots + flushed flags + the per-account bookkeeping flags of
//      worldStateImpl), full alphabet; every transition re-creates the state by
//      replaying its history on a fresh real instance.
//   B. all enabled operation sequences of a fixed length over a reduced
//      alphabet, no dedup at all (covers hidden trie/cache state the key of A
//      does not see).
// Nothing is observed while a history is replayed (observation realizes trie
// nodes and caches hashes, i.e. perturbs hidden state); every history gets one
// final observation, and every prefix of an explored history is itself explored.

import (
	"bytes"
	"encoding/hex"
	"fmt"
	"math/big"
	"sort"
	"strings"
	"sync"
	"sync/atomic"
	"testing"

	"github.com/icon-project/goloop/common"
	"github.com/icon-project/goloop/common/db"
	"github.com/icon-project/goloop/module"
	"github.com/icon-project/goloop/service/scoreapi"
	"github.com/icon-project/goloop/verifshim/ev"
)

// ---------------------------------------------------------------- alphabet

type c14Op struct {
	K   string `json:"k"`             // bal set del init touch snap reset clear flush reload fork
	X   int    `json:"x,omitempty"`   // account index
	Key int    `json:"key,omitempty"` // storage key index
	V   int    `json:"v,omitempty"`   // balance value / storage value index (0 = "")
	I   int    `json:"i,omitempty"`   // stash index
}

func (o c14Op) String() string {
	switch o.K {
	case "bal":
		return fmt.Sprintf("bal(%c,%d)", 'a'+o.X, o.V)
	case "set":
		return fmt.Sprintf("set(%c,k%d,%q)", 'a'+o.X, o.Key+1, c14Vals[o.V])
	case "del":
		return fmt.Sprintf("del(%c,k%d)", 'a'+o.X, o.Key+1)
	case "init", "touch", "deploy", "accept", "wdep", "wdep1", "adddep":
		return fmt.Sprintf("%s(%c)", o.K, 'a'+o.X)
	case "api", "owner", "disable", "block", "sysdep", "og":
		return fmt.Sprintf("%s(%c,%d)", o.K, 'a'+o.X, o.V)
	case "reset", "flush", "reload", "fork":
		return fmt.Sprintf("%s(%d)", o.K, o.I)
	}
	return o.K
}

var (
	c14Addrs = []*common.Address{
		common.MustNewAddressFromString("hx00000000000000000000000000000000000000a1"),
		common.MustNewAddressFromString("cx00000000000000000000000000000000000000b2"),
	}
	c14Keys = [][]byte{[]byte("k1"), []byte("key-two")}
	c14Vals = []string{"", "u", "w"}
)

const c14MaxStash = 3

func c14FullAlphabet() []c14Op {
	var ops []c14Op
	for x := 0; x < 2; x++ {
		for v := 0; v <= 2; v++ {
			ops = append(ops, c14Op{K: "bal", X: x, V: v})
		}
		for k := 0; k < 2; k++ {
			for v := 0; v <= 2; v++ {
				ops = append(ops, c14Op{K: "set", X: x, Key: k, V: v})
			}
			ops = append(ops, c14Op{K: "del", X: x, Key: k})
		}
		ops = append(ops, c14Op{K: "touch", X: x})
	}
	ops = append(ops, c14Op{K: "init", X: 1})
	ops = append(ops, c14Op{K: "snap"}, c14Op{K: "clear"})
	for i := 0; i < c14MaxStash; i++ {
		ops = append(ops, c14Op{K: "reset", I: i}, c14Op{K: "flush", I: i}, c14Op{K: "reload", I: i}, c14Op{K: "fork", I: i})
	}
	return ops
}

// c14ContractOps: every AccountState call that changes serialised account
// content other than balance/storage, each as an operation of its own.
func c14ContractOps(x int) []c14Op {
	ops := []c14Op{
		{K: "api", X: x, V: 1}, {K: "api", X: x, V: 2}, {K: "api", X: x, V: 0},
		{K: "owner", X: x, V: 2}, {K: "owner", X: x, V: 1},
		{K: "disable", X: x, V: 1}, {K: "disable", X: x, V: 0},
		{K: "block", X: x, V: 1}, {K: "block", X: x, V: 0},
		{K: "sysdep", X: x, V: 1}, {K: "sysdep", X: x, V: 0},
		{K: "deploy", X: x}, {K: "accept", X: x},
		{K: "og", X: x, V: 1}, {K: "og", X: x, V: 2}, {K: "og", X: x, V: 0},
		{K: "adddep", X: x}, {K: "wdep", X: x}, {K: "wdep1", X: x},
	}
	return ops
}

// alphabet of the contract-field family: account b, with and without storage
func c14ContractAlphabet(stashes int) []c14Op {
	ops := []c14Op{
		{K: "init", X: 1}, {K: "bal", X: 1, V: 1}, {K: "bal", X: 1, V: 0},
		{K: "set", X: 1, Key: 1, V: 2}, {K: "set", X: 1, Key: 1, V: 0},
		{K: "snap"}, {K: "clear"},
	}
	ops = append(ops, c14ContractOps(1)...)
	for i := 0; i < stashes; i++ {
		ops = append(ops, c14Op{K: "reset", I: i}, c14Op{K: "flush", I: i}, c14Op{K: "reload", I: i}, c14Op{K: "fork", I: i})
	}
	return ops
}

// reduced alphabet of engine B: one representative per kind of hidden-state effect
func c14ReducedAlphabet(stashes int) []c14Op {
	ops := []c14Op{
		{K: "bal", X: 0, V: 1}, {K: "bal", X: 0, V: 0},
		{K: "set", X: 0, Key: 0, V: 1}, {K: "del", X: 0, Key: 0},
		{K: "set", X: 1, Key: 1, V: 2}, {K: "set", X: 1, Key: 1, V: 0},
		{K: "init", X: 1}, {K: "touch", X: 0},
		{K: "snap"}, {K: "clear"},
	}
	for i := 0; i < stashes; i++ {
		ops = append(ops, c14Op{K: "reset", I: i}, c14Op{K: "flush", I: i}, c14Op{K: "reload", I: i}, c14Op{K: "fork", I: i})
	}
	return ops
}

// ---------------------------------------------------------------- model

type c14Acct struct {
	Bal      int
	Vals     [2]string
	Contract bool
	// the other serialised account fields (exercised on contract accounts)
	Owner                     int  // 0 none, 1 = address a (set by InitContractAccount), 2 = address b
	Disabled, Blocked, SysDep bool // state flags
	API                       int  // 0 none, 1, 2 : which scoreapi.Info
	Next, Cur                 bool // next contract pending / current contract active (one code, one deploy tx)
	Audit                     bool // current contract carries the audit tx hash
	OGNext                    int  // object graph of the current contract: nextHash (0 = none)
	OGData                    bool // object graph has graph data "g1"
	Dep                       int  // deposit (v2): -1+1 encoding: 0 none, n>0 = remaining n-1
}

func (a c14Acct) empty() bool {
	return a.Bal == 0 && a.Vals[0] == "" && a.Vals[1] == "" && !a.Contract && !a.Blocked
}

type c14World [2]c14Acct

// canon is the canonical rendering of the logical contents: empty accounts are
// omitted, so "touched and emptied" equals "never touched".
func (w c14World) canon() string {
	var sb strings.Builder
	for i, a := range w {
		if a.empty() {
			continue
		}
		fmt.Fprintf(&sb, "%c{b=%d,k1=%q,k2=%q,c=%v", 'a'+i, a.Bal, a.Vals[0], a.Vals[1], a.Contract)
		if a.Contract || a.Blocked {
			fmt.Fprintf(&sb, ",own=%d,dis=%v,blk=%v,sys=%v,api=%d,next=%v,cur=%v,aud=%v,og=%d/%v,dep=%d",
				a.Owner, a.Disabled, a.Blocked, a.SysDep, a.API, a.Next, a.Cur, a.Audit, a.OGNext, a.OGData, a.Dep)
		}
		sb.WriteString("}")
	}
	return sb.String()
}

// abstract (model-only) state used to pre-compute which ops are enabled
type c14Abs struct {
	max     int // stash capacity
	stashes int
	flushed [c14MaxStash]bool
}

func (s *c14Abs) enabled(o c14Op) bool {
	switch o.K {
	case "snap":
		return s.stashes < s.max
	case "reset", "flush", "fork":
		return o.I < s.stashes
	case "reload":
		return o.I < s.stashes && s.flushed[o.I]
	}
	return true
}

func (s *c14Abs) step(o c14Op) {
	switch o.K {
	case "snap":
		s.stashes++
	case "flush":
		s.flushed[o.I] = true
	}
}

// ---------------------------------------------------------------- instance

type c14Stash struct {
	m       c14World
	flushed bool
	wss     WorldSnapshot
}

type c14Inst struct {
	dbase  db.Database
	live   WorldState
	lm     c14World
	stash  []c14Stash
	abs    c14Abs
	lastOp string
	wit    []c14Op // other history involved in a canonicity violation
	fail   func(sig, detail string)
}

func newC14Inst(fail func(sig, detail string)) *c14Inst {
	in := &c14Inst{dbase: db.NewMapDB(), fail: fail, lastOp: "start"}
	in.live = NewWorldState(in.dbase, nil, nil, nil, nil)
	return in
}

func (in *c14Inst) apply(o c14Op) {
	in.lastOp = o.K
	id := c14Addrs[o.X].ID()
	switch o.K {
	case "bal":
		in.live.GetAccountState(id).SetBalance(big.NewInt(int64(o.V)))
		in.lm[o.X].Bal = o.V
	case "set":
		old, err := in.live.GetAccountState(id).SetValue(c14Keys[o.Key], []byte(c14Vals[o.V]))
		if err != nil {
			in.fail("op-error/set", fmt.Sprintf("SetValue: %v", err))
		} else if string(old) != in.lm[o.X].Vals[o.Key] {
			in.fail("old-value-mismatch/set", fmt.Sprintf("%v returned old=%q, model %q", o, old, in.lm[o.X].Vals[o.Key]))
		}
		in.lm[o.X].Vals[o.Key] = c14Vals[o.V]
	case "del":
		old, err := in.live.GetAccountState(id).DeleteValue(c14Keys[o.Key])
		if err != nil {
			in.fail("op-error/del", fmt.Sprintf("DeleteValue: %v", err))
		} else if string(old) != in.lm[o.X].Vals[o.Key] {
			in.fail("old-value-mismatch/del", fmt.Sprintf("%v returned old=%q, model %q", o, old, in.lm[o.X].Vals[o.Key]))
		}
		in.lm[o.X].Vals[o.Key] = ""
	case "init":
		ok := in.live.GetAccountState(id).InitContractAccount(c14Addrs[0])
		if ok == in.lm[o.X].Contract {
			in.fail("init-contract-result", fmt.Sprintf("InitContractAccount returned %v, model contract=%v", ok, in.lm[o.X].Contract))
		}
		if !in.lm[o.X].Contract {
			in.lm[o.X].Owner = 1
		}
		in.lm[o.X].Contract = true
	case "touch":
		in.live.GetAccountState(id)
	case "api", "owner", "disable", "block", "sysdep", "deploy", "accept", "og", "adddep", "wdep", "wdep1":
		in.applyContractOp(o)
	case "snap":
		in.stash = append(in.stash, c14Stash{m: in.lm, wss: in.live.GetSnapshot()})
	case "reset":
		if err := in.live.Reset(in.stash[o.I].wss); err != nil {
			in.fail("op-error/reset", fmt.Sprintf("Reset: %v", err))
		}
		in.lm = in.stash[o.I].m
	case "clear":
		in.live.ClearCache()
	case "flush":
		if err := in.stash[o.I].wss.Flush(); err != nil {
			in.fail("op-error/flush", fmt.Sprintf("Flush: %v", err))
		}
		in.stash[o.I].flushed = true
	case "reload":
		h := in.stash[o.I].wss.StateHash()
		in.live = NewWorldState(in.dbase, h, nil, nil, nil)
		in.lm = in.stash[o.I].m
	case "fork":
		ws, err := WorldStateFromSnapshot(in.stash[o.I].wss)
		if err != nil {
			in.fail("op-error/fork", fmt.Sprintf("WorldStateFromSnapshot: %v", err))
			return
		}
		in.live = ws
		in.lm = in.stash[o.I].m
	}
	in.abs.step(o)
}

var (
	c14Infos = []*scoreapi.Info{nil,
		scoreapi.NewInfo([]*scoreapi.Method{{Type: scoreapi.Function, Name: "first", Flags: scoreapi.FlagExternal, Inputs: nil, Outputs: nil}}),
		scoreapi.NewInfo([]*scoreapi.Method{{Type: scoreapi.Function, Name: "second", Flags: scoreapi.FlagExternal | scoreapi.FlagReadOnly, Inputs: nil, Outputs: nil}}),
	}
	c14DeployTx = []byte("deploy-tx-hash-0001")
	c14AuditTx  = []byte("audit-tx-hash-00001")
	c14Code     = []byte("contract code bytes")
	c14Graph    = []byte("object graph data g1")
)

type c14DepCtx struct{}

func (c14DepCtx) StepPrice() *big.Int        { return big.NewInt(1) }
func (c14DepCtx) BlockHeight() int64         { return 10 }
func (c14DepCtx) DepositTerm() int64         { return 0 } // deposit v2
func (c14DepCtx) DepositIssueRate() *big.Int { return big.NewInt(0) }
func (c14DepCtx) TransactionID() []byte      { return []byte("deposit-tx") }

// applyContractOp: operations on the non-balance/non-storage fields. They are
// applied only to an account that is a contract in the model (block: any
// account), otherwise they are skipped on both sides, so that the model never
// has to describe fields of an account goloop deletes as "empty".
func (in *c14Inst) applyContractOp(o c14Op) {
	m := &in.lm[o.X]
	if !m.Contract && o.K != "block" {
		return
	}
	as := in.live.GetAccountState(c14Addrs[o.X].ID())
	opErr := func(err error, want bool) {
		if (err != nil) != want {
			in.fail("op-error/"+o.K, fmt.Sprintf("%v returned err=%v, model expects error=%v", o, err, want))
		}
	}
	switch o.K {
	case "api":
		as.SetAPIInfo(c14Infos[o.V])
		m.API = o.V
	case "owner":
		opErr(as.SetContractOwner(c14Addrs[o.V-1]), false)
		m.Owner = o.V
	case "disable":
		as.SetDisable(o.V == 1)
		m.Disabled = o.V == 1
	case "block":
		as.SetBlock(o.V == 1)
		m.Blocked = o.V == 1
	case "sysdep":
		opErr(as.SetUseSystemDeposit(o.V == 1), false)
		m.SysDep = o.V == 1
	case "deploy":
		_, err := as.DeployContract(c14Code, PythonEE, "application/zip", nil, c14DeployTx)
		opErr(err, false)
		m.Next = true
	case "accept":
		opErr(as.AcceptContract(c14DeployTx, c14AuditTx), !m.Next)
		if m.Next {
			m.Next, m.Cur, m.Audit = false, true, true
		}
	case "og":
		if !m.Cur {
			return // the object graph belongs to the current contract
		}
		var err error
		switch o.V {
		case 1:
			err = as.SetObjGraph(c14DeployTx, true, 1, c14Graph)
			m.OGNext, m.OGData = 1, true
		case 2:
			err = as.SetObjGraph(c14DeployTx, false, 2, nil)
			m.OGNext = 2
		case 0:
			err = as.SetObjGraph(c14DeployTx, true, 0, nil)
			m.OGNext, m.OGData = 0, false
		}
		opErr(err, false)
	case "adddep":
		if m.Dep >= 3 {
			return // bound of the explored space: remaining deposit <= 2
		}
		opErr(as.AddDeposit(c14DepCtx{}, big.NewInt(1)), false)
		if m.Dep == 0 {
			m.Dep = 2
		} else {
			m.Dep++
		}
	case "wdep": // withdraw everything: the deposit is removed
		_, _, err := as.WithdrawDeposit(c14DepCtx{}, nil, nil)
		opErr(err, m.Dep == 0)
		m.Dep = 0
	case "wdep1": // withdraw 1: a deposit of exactly 1 stays with 0 remaining
		_, _, err := as.WithdrawDeposit(c14DepCtx{}, nil, big.NewInt(1))
		opErr(err, m.Dep <= 1)
		if m.Dep > 1 {
			m.Dep--
		}
	}
}

// c14Deposits reads the deposit list of any account view.
func c14Deposits(a interface{}) depositList {
	switch v := a.(type) {
	case *accountSnapshotImpl:
		return v.deposits
	case *accountStateImpl:
		return v.deposits
	case *accountROState:
		return c14Deposits(v.AccountSnapshot)
	}
	return nil
}

type c14ContractObs interface {
	Status() ContractStatus
	DeployTxHash() []byte
	AuditTxHash() []byte
}

func c14Contracts(a interface{}) (cur, next c14ContractObs) {
	switch v := a.(type) {
	case AccountSnapshot:
		if c := v.Contract(); c != nil {
			cur = c
		}
		if c := v.NextContract(); c != nil {
			next = c
		}
	case AccountState:
		if c := v.Contract(); c != nil {
			cur = c
		}
		if c := v.NextContract(); c != nil {
			next = c
		}
	}
	return
}

// compareContractFields compares the non-balance/non-storage fields.
func (in *c14Inst) compareContractFields(what string, x int, a c14AcctObs, m c14Acct) {
	ctx := fmt.Sprintf("%s account %c after %s", what, 'a'+x, in.lastOp)
	bad := func(field, detail string) {
		in.fail(what+"/"+field+"/after-"+in.lastOp, ctx+": "+detail)
	}
	if a.IsDisabled() != m.Disabled || a.IsBlocked() != m.Blocked || a.UseSystemDeposit() != m.SysDep {
		bad("state-flags", fmt.Sprintf("disabled=%v blocked=%v sysdep=%v, model %v %v %v",
			a.IsDisabled(), a.IsBlocked(), a.UseSystemDeposit(), m.Disabled, m.Blocked, m.SysDep))
	}
	owner := 0
	if o := a.ContractOwner(); o != nil {
		switch {
		case o.Equal(c14Addrs[0]):
			owner = 1
		case o.Equal(c14Addrs[1]):
			owner = 2
		default:
			owner = -1
		}
	}
	if owner != m.Owner {
		bad("contract-owner", fmt.Sprintf("owner=%v, model %d", a.ContractOwner(), m.Owner))
	}
	info, err := a.APIInfo()
	api := -1
	for i, want := range c14Infos {
		if (info == nil && want == nil) || (info != nil && want != nil && info.Equal(want)) {
			api = i
		}
	}
	if err != nil || api != m.API {
		bad("api-info", fmt.Sprintf("APIInfo=%v err=%v (index %d), model %d", info, err, api, m.API))
	}
	cur, next := c14Contracts(a)
	if (cur != nil) != m.Cur || (next != nil) != m.Next {
		bad("contracts", fmt.Sprintf("cur=%v next=%v, model cur=%v next=%v", cur != nil, next != nil, m.Cur, m.Next))
	} else {
		if cur != nil && (cur.Status() != CSActive || !bytes.Equal(cur.DeployTxHash(), c14DeployTx) || !bytes.Equal(cur.AuditTxHash(), c14AuditTx)) {
			bad("contracts", fmt.Sprintf("current contract status=%v deploy=%q audit=%q", cur.Status(), cur.DeployTxHash(), cur.AuditTxHash()))
		}
		if next != nil && (next.Status() != CSPending || !bytes.Equal(next.DeployTxHash(), c14DeployTx)) {
			bad("contracts", fmt.Sprintf("next contract status=%v deploy=%q", next.Status(), next.DeployTxHash()))
		}
	}
	if m.Cur {
		nh, gh, data, err := a.GetObjGraph(c14DeployTx, true)
		switch {
		case m.OGNext == 0 && !m.OGData:
			if err == nil {
				bad("object-graph", fmt.Sprintf("object graph present (next=%d hash=%x), model none", nh, gh))
			}
		case err != nil:
			bad("object-graph", fmt.Sprintf("GetObjGraph: %v, model next=%d data=%v", err, m.OGNext, m.OGData))
		case nh != m.OGNext || (len(gh) > 0) != m.OGData || (m.OGData && !bytes.Equal(data, c14Graph)):
			bad("object-graph", fmt.Sprintf("next=%d hash=%x data=%q, model next=%d data=%v", nh, gh, data, m.OGNext, m.OGData))
		}
	}
	dl := c14Deposits(a)
	dep := 0
	if len(dl) == 1 {
		dep = int(dl[0].GetAvailableDeposit(0).Int64()) + 1
	} else if len(dl) > 1 {
		dep = -len(dl)
	}
	if dep != m.Dep {
		bad("deposits", fmt.Sprintf("deposit encoding %d (0 none, n = remaining n-1), model %d", dep, m.Dep))
	}
}

type c14AcctObs interface {
	IsDisabled() bool
	IsBlocked() bool
	UseSystemDeposit() bool
	ContractOwner() module.Address
	APIInfo() (*scoreapi.Info, error)
	GetObjGraph(hash []byte, flags bool) (int, []byte, []byte, error)
	GetBalance() *big.Int
	GetValue(k []byte) ([]byte, error)
	IsContract() bool
	IsEmpty() bool
}

// compareAcct compares one observed account with the model; what names the view.
func (in *c14Inst) compareAcct(what string, x int, a c14AcctObs, m c14Acct) {
	ctx := fmt.Sprintf("%s account %c after %s", what, 'a'+x, in.lastOp)
	if a.GetBalance().Cmp(big.NewInt(int64(m.Bal))) != 0 {
		in.fail(what+"/balance/after-"+in.lastOp, fmt.Sprintf("%s: balance %s, model %d", ctx, a.GetBalance(), m.Bal))
	}
	for k := range c14Keys {
		v, err := a.GetValue(c14Keys[k])
		if err != nil {
			in.fail(what+"/value-error/after-"+in.lastOp, fmt.Sprintf("%s: GetValue(k%d): %v", ctx, k+1, err))
		} else if string(v) != m.Vals[k] {
			in.fail(what+"/value/after-"+in.lastOp, fmt.Sprintf("%s: k%d=%q, model %q", ctx, k+1, v, m.Vals[k]))
		}
	}
	if a.IsContract() != m.Contract {
		in.fail(what+"/contract-flag/after-"+in.lastOp, fmt.Sprintf("%s: IsContract=%v, model %v", ctx, a.IsContract(), m.Contract))
	}
	in.compareContractFields(what, x, a, m)
}

// observeSnapshot compares every observable of a world snapshot with a model.
func (in *c14Inst) observeSnapshot(what string, wss WorldSnapshot, m c14World) {
	for x := range c14Addrs {
		as := wss.GetAccountSnapshot(c14Addrs[x].ID())
		if as == nil {
			if !m[x].empty() {
				in.fail(what+"/account-missing/after-"+in.lastOp, fmt.Sprintf("%s: account %c absent, model %+v", what, 'a'+x, m[x]))
			}
			continue
		}
		if m[x].empty() {
			in.fail(what+"/empty-account-present/after-"+in.lastOp,
				fmt.Sprintf("%s: account %c is empty in the model but present in the trie (%v)", what, 'a'+x, as))
		}
		if as.IsEmpty() != m[x].empty() {
			in.fail(what+"/is-empty/after-"+in.lastOp, fmt.Sprintf("%s: account %c IsEmpty=%v model %v", what, 'a'+x, as.IsEmpty(), m[x].empty()))
		}
		in.compareAcct(what, x, as, m[x])
	}
	// the same through the read-only world-state view (readonlyworldstate.go)
	ro := NewReadOnlyWorldState(wss)
	for x := range c14Addrs {
		in.compareAcct(what+"-ro", x, ro.GetAccountState(c14Addrs[x].ID()), m[x])
	}
}

// ---------------------------------------------------------------- canonicity table

type c14Table struct {
	mu      sync.Mutex
	byModel map[string]string  // canon -> hash hex
	byHash  map[string]string  // hash hex -> canon
	witness map[string][]c14Op // canon -> first history
}

func (t *c14Table) check(in *c14Inst, how string, m c14World, hash []byte, hist []c14Op) {
	c := m.canon()
	h := hex.EncodeToString(hash)
	t.mu.Lock()
	defer t.mu.Unlock()
	if old, ok := t.byModel[c]; ok {
		if old != h {
			in.wit = t.witness[c]
			in.fail("hash-not-canonical/"+how, fmt.Sprintf(
				"logical state %q has hash %s here (%s) but %s in history [%s]", c, h, how, old, c14Hist(t.witness[c])))
			in.wit = nil
		}
	} else {
		t.byModel[c] = h
		t.witness[c] = hist
	}
	if oc, ok := t.byHash[h]; ok {
		if oc != c {
			in.fail("hash-collision/"+how, fmt.Sprintf("hash %s stands for %q and for %q", h, oc, c))
		}
	} else {
		t.byHash[h] = c
	}
	if c == "" && len(hash) != 0 {
		in.fail("empty-state-hash-not-nil/"+how, fmt.Sprintf("all accounts empty but hash=%s", h))
	}
}

// finalObservation is destructive and therefore only done at the end of a history.
func (in *c14Inst) finalObservation(t *c14Table, hist []c14Op) {
	// (i) every stashed snapshot still shows what it showed when it was taken
	for i, s := range in.stash {
		what := "snapshot"
		in.observeSnapshot(what, s.wss, s.m)
		t.check(in, fmt.Sprintf("stashed-snapshot(flushed=%v)", s.flushed), s.m, s.wss.StateHash(), hist)
		_ = i
	}
	// (ii) live state through the non-caching reader
	for x := range c14Addrs {
		in.compareAcct("live", x, in.live.GetAccountSnapshot(c14Addrs[x].ID()), in.lm[x])
	}
	// (iii) a fresh snapshot of the live state
	fs := in.live.GetSnapshot()
	in.observeSnapshot("fresh-snapshot", fs, in.lm)
	h := fs.StateHash()
	t.check(in, "fresh-snapshot", in.lm, h, hist)
	// (iv) flush and reload from the database
	if err := fs.Flush(); err != nil {
		in.fail("op-error/final-flush", err.Error())
		return
	}
	rs := NewWorldSnapshot(in.dbase, h, nil, nil, nil)
	in.observeSnapshot("reloaded-snapshot", rs, in.lm)
	if !bytes.Equal(rs.StateHash(), h) {
		in.fail("reloaded-hash-differs", fmt.Sprintf("%x vs %x", rs.StateHash(), h))
	}
	// (v) the live state still agrees after its snapshot was flushed
	for x := range c14Addrs {
		in.compareAcct("live-after-flush", x, in.live.GetAccountState(c14Addrs[x].ID()), in.lm[x])
	}
}

// key: model of live state, models+flushed flags of the stashes, and the
// bookkeeping of worldStateImpl/accountStateImpl that steers later behaviour.
func (in *c14Inst) key() string {
	var sb strings.Builder
	sb.WriteString(in.lm.canon())
	for _, s := range in.stash {
		fmt.Fprintf(&sb, "|S%v:%s", s.flushed, s.m.canon())
	}
	w := in.live.(*worldStateImpl)
	for x := range c14Addrs {
		ids := string(c14Addrs[x].ID())
		as, ok := w.mutableAccounts[ids]
		if !ok {
			sb.WriteString("|-")
			continue
		}
		ai := as.(*accountStateImpl)
		fmt.Fprintf(&sb, "|m:dirty=%v,store=%v,last=%v,same=%v", ai.last == nil, ai.store != nil,
			w.lastAccounts[ids] != nil, w.lastAccounts[ids] != nil && AccountSnapshot(ai.last) == w.lastAccounts[ids])
	}
	return sb.String()
}

// ---------------------------------------------------------------- running one history

type c14Case struct {
	Hist    []c14Op `json:"hist"`
	Witness []c14Op `json:"witness,omitempty"` // second history of a canonicity violation
}

type c14Outcome struct {
	key   string
	fails []string
}

func c14Hist(h []c14Op) string {
	var s []string
	for _, o := range h {
		s = append(s, o.String())
	}
	return strings.Join(s, " ")
}

// c14Run replays hist on a fresh real instance, then observes. ok=false when
// the last op is not enabled.
func c14Run(r *ev.Run, t *c14Table, hist []c14Op, maxStash int, nviol *int64) (key string, ok bool) {
	hs := c14Hist(hist)
	var in *c14Inst
	fail := func(sig, detail string) {
		atomic.AddInt64(nviol, 1)
		r.Violation(sig, detail+"\nhistory: "+hs, c14Case{Hist: hist, Witness: in.wit})
	}
	in = newC14Inst(fail)
	in.abs.max = maxStash
	enabled := true
	if p := ev.Catch(func() {
		for _, o := range hist {
			if !in.abs.enabled(o) {
				enabled = false
				return
			}
			in.apply(o)
		}
		key = in.key()
		in.finalObservation(t, hist)
	}); p != "" {
		fail("panic/after-"+in.lastOp, "panic: "+p)
		return "", false
	}
	if !enabled {
		return "", false
	}
	r.Eval(1)
	return key, true
}

// ---------------------------------------------------------------- test

// c14BFS: breadth-first search with dedup on c14Inst.key(); each transition
// re-creates the state by replaying its history on a fresh real instance.
func c14BFS(r *ev.Run, tbl *c14Table, prelude []c14Op, alpha []c14Op, maxStash, maxDepth int, nviol *int64) (states int, transitions, traces int64, depthDone int, perDepth []int, sample [][]c14Op) {
	seen := map[string]struct{}{}
	k0, _ := c14Run(r, tbl, prelude, maxStash, nviol)
	traces++
	seen[k0] = struct{}{}
	frontier := [][]c14Op{prelude}
	perDepth = []int{1}
	for depth := 0; depth < maxDepth && len(frontier) > 0 && !r.Expired(); depth++ {
		type res struct {
			key string
			ok  bool
		}
		n := len(frontier) * len(alpha)
		out := make([]res, n)
		var expired int32
		ev.Par(n, 16, func(i int) {
			if atomic.LoadInt32(&expired) != 0 {
				return
			}
			if i%4096 == 0 && r.Expired() {
				atomic.StoreInt32(&expired, 1)
				return
			}
			h := frontier[i/len(alpha)]
			nh := append(append(make([]c14Op, 0, len(h)+1), h...), alpha[i%len(alpha)])
			k, ok := c14Run(r, tbl, nh, maxStash, nviol)
			out[i] = res{k, ok}
		})
		if expired != 0 {
			break
		}
		var next [][]c14Op
		for i, o := range out {
			if !o.ok {
				continue
			}
			traces++
			transitions++
			if _, dup := seen[o.key]; !dup {
				seen[o.key] = struct{}{}
				h := frontier[i/len(alpha)]
				nh := append(append(make([]c14Op, 0, len(h)+1), h...), alpha[i%len(alpha)])
				next = append(next, nh)
				if len(nh) >= 3 {
					r.Nontrivial("A:" + c14Hist(nh))
				}
			}
		}
		frontier = next
		depthDone = depth + 1
		perDepth = append(perDepth, len(next))
		if len(next) > 0 {
			sample = [][]c14Op{next[len(next)/2], next[len(next)/3]}
		}
	}
	return len(seen), transitions, traces, depthDone, perDepth, sample
}

func TestVerifC14(t *testing.T) {
	r := ev.Start(t, "C14", "model_checking")
	r.Rule("engine A: BFS over histories of ops {SetBalance(a|b,0..2), SetValue(a|b,k1|k2,''|u|w), DeleteValue, InitContractAccount(b), GetAccountState(touch), GetSnapshot(stash<=3), Reset(i), ClearCache, Flush(i), Reload(i)=NewWorldState(db,hash_i), Fork(i)=WorldStateFromSnapshot} with dedup on (live model, stash models+flushed flags, per-account bookkeeping flags of worldStateImpl); engine B: every enabled op sequence of fixed length over a 10+4*stashes-op reduced alphabet without dedup; each history is replayed on a fresh real world state and observed once at its end (all stashed snapshots, live, fresh snapshot, flushed+reloaded snapshot, read-only view) against the model; a global table logical-state <-> hash is filled across all histories; non-trivial = (A) a history of >=3 ops that reaches a not yet seen state, (B) a sequence containing at least one GetSnapshot; distinct by history")
	r.Assume(
		"model: account -> (balance, k1, k2, contract flag); an account with zero balance, no values and no contract flag is empty",
		"AccountState handles are re-fetched with GetAccountState for every operation (handles are not kept across ClearCache)",
		"validators, extension and BTP parts of the world state are nil/empty; deposits, contract deployment, object graphs are not exercised",
		"observation perturbs caches, therefore it is done only at the end of each history; every prefix of an explored history is explored as a history of its own")

	tbl := &c14Table{byModel: map[string]string{}, byHash: map[string]string{}, witness: map[string][]c14Op{}}
	var nviol int64

	if ev.Replaying() {
		var c c14Case
		ev.ReplayCase(&c)
		// fill the table with the canonical hashes of the states involved: replay all prefixes first
		for n := 0; n <= len(c.Witness); n++ {
			c14Run(r, tbl, c.Witness[:n], c14MaxStash, &nviol)
		}
		for n := 0; n <= len(c.Hist); n++ {
			c14Run(r, tbl, c.Hist[:n], c14MaxStash, &nviol)
		}
		r.States(1)
		r.Transitions(1)
		r.Traces(len(c.Hist) + 1)
		r.Sample(c)
		r.Finish(false)
		return
	}

	var traces, transitions int64
	// ------------------------------------------------ engine A (two alphabets)
	type bfsCfg struct {
		name     string
		prelude  []c14Op
		alpha    []c14Op
		maxStash int
		depth    int
	}
	bfsCfgs := []bfsCfg{
		{"full", nil, c14FullAlphabet(), c14MaxStash, r.Pick(4, 5)},
		// contract-field family: account b is a contract without storage / with one storage entry
		{"contract_nostore", []c14Op{{K: "init", X: 1}}, c14ContractAlphabet(1), 1, r.Pick(4, 5)},
		{"contract_store", []c14Op{{K: "init", X: 1}, {K: "set", X: 1, Key: 1, V: 2}}, c14ContractAlphabet(1), 1, r.Pick(4, 5)},
		{"contract_deployed", []c14Op{{K: "init", X: 1}, {K: "deploy", X: 1}, {K: "accept", X: 1}}, c14ContractAlphabet(1), 1, r.Pick(4, 5)},
		{"reduced", nil, c14ReducedAlphabet(2), 2, r.Pick(8, 40)}, // fixpoint at depth 23
	}
	statesA := 0
	allDepthsDone := true
	for _, bc := range bfsCfgs {
		st, tr, tc, depthDone, perDepth, sample := c14BFS(r, tbl, bc.prelude, bc.alpha, bc.maxStash, bc.depth, &nviol)
		statesA += st
		transitions += tr
		traces += tc
		r.Set("engineA_"+bc.name+"_alphabet", len(bc.alpha))
		r.Set("engineA_"+bc.name+"_depth_bound", bc.depth)
		r.Set("engineA_"+bc.name+"_depth_completed", depthDone)
		r.Set("engineA_"+bc.name+"_new_states_per_depth", perDepth)
		if depthDone < bc.depth && perDepth[len(perDepth)-1] != 0 {
			allDepthsDone = false
		}
		for _, h := range sample {
			r.Sample(map[string]interface{}{"engine": "A-" + bc.name, "history": c14Hist(h)})
		}
	}

	// ------------------------------------------------ engine B
	lenB := r.Pick(4, 6)
	stashesB := 2
	alphaB := c14ReducedAlphabet(stashesB)
	var seqs [][]c14Op
	var gen func(prefix []c14Op, abs c14Abs)
	gen = func(prefix []c14Op, abs c14Abs) {
		if len(prefix) == lenB {
			seqs = append(seqs, append([]c14Op{}, prefix...))
			return
		}
		for _, o := range alphaB {
			if !abs.enabled(o) {
				continue
			}
			na := abs
			na.step(o)
			gen(append(prefix, o), na)
		}
	}
	gen(nil, c14Abs{max: stashesB})
	var doneB int64
	var expiredB int32
	ev.Par(len(seqs), 16, func(i int) {
		if atomic.LoadInt32(&expiredB) != 0 {
			return
		}
		if i%4096 == 0 && r.Expired() {
			atomic.StoreInt32(&expiredB, 1)
			return
		}
		// every prefix gets its own final observation
		for n := 1; n <= lenB; n++ {
			// a prefix is shared by many sequences: observe it only from the
			// lexicographically first sequence extending it
			if n < lenB && !c14FirstExtension(seqs, i, n) {
				continue
			}
			if _, ok := c14Run(r, tbl, seqs[i][:n], stashesB, &nviol); ok {
				atomic.AddInt64(&doneB, 1)
			}
		}
		for _, o := range seqs[i] {
			if o.K == "snap" {
				r.Nontrivial("B:" + c14Hist(seqs[i]))
				break
			}
		}
	})
	traces += doneB
	transitions += doneB
	if len(seqs) > 0 {
		r.Sample(map[string]interface{}{"engine": "B", "history": c14Hist(seqs[len(seqs)/2])})
		r.Sample(map[string]interface{}{"engine": "B", "history": c14Hist(seqs[len(seqs)/5])})
	}

	r.States(statesA)
	r.Transitions(int(transitions))
	r.Traces(int(traces))
	r.Set("engineB_sequence_length", lenB)
	r.Set("engineB_alphabet", len(alphaB))
	r.Set("engineB_sequences", len(seqs))
	r.Set("engineB_histories_run", doneB)
	tbl.mu.Lock()
	r.Set("distinct_logical_states_in_hash_table", len(tbl.byModel))
	r.Set("distinct_hashes_in_hash_table", len(tbl.byHash))
	var cs []string
	for c := range tbl.byModel {
		cs = append(cs, c)
	}
	tbl.mu.Unlock()
	sort.Strings(cs)
	r.Sanity(len(cs) > 50, "hash table has only %d logical states", len(cs))
	r.Sanity(len(tbl.byModel) == len(tbl.byHash) || nviol > 0, "table sizes differ without a violation")
	r.Sanity(statesA > 100, "engine A reached only %d states", statesA)
	exhaustive := expiredB == 0 && allDepthsDone
	r.Finish(exhaustive)
}

// c14FirstExtension reports whether seqs[i] is the first sequence (in
// generation order) having seqs[i][:n] as a prefix.
func c14FirstExtension(seqs [][]c14Op, i, n int) bool {
	if i == 0 {
		return true
	}
	p := seqs[i-1]
	for j := 0; j < n; j++ {
		if p[j] != seqs[i][j] {
			return true
		}
	}
	return false
}
