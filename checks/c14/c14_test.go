//go:build verif

package state

// C14 — world-state snapshots are isolated and the state hash is canonical.
//
// Real state.NewWorldState over a MapDB is driven by operation histories; a
// boring model (account -> balance, key->value, contract flag) says what every
// observable must be. Two engines, both exhaustive over a stated finite space:
//   A. BFS with canonical-state dedup (model of live state + models of stashed
//      snapshots + flushed flags + the per-account bookkeeping flags of
//      worldStateImpl), full alphabet; every transition re-creates the state by
//      replaying its history on a fresh real instance.
//   B. all enabled operation sequences of a fixed length over a reduced
//      alphabet, no dedup at all (covers hidden trie/cache state the key of A
//      does not see).
// Nothing is observed while a history is replayed (observation realizes trie
// nodes and caches hashes, i.e. perturbs hidden state); every history gets one
// final observation, and every prefix of an explored history is itself explored.

import (
	"bytes"
	"encoding/hex"
	"fmt"
	"math/big"
	"sort"
	"strings"
	"sync"
	"sync/atomic"
	"testing"

	"github.com/icon-project/goloop/common"
	"github.com/icon-project/goloop/common/db"
	"github.com/icon-project/goloop/verifshim/ev"
)

// ---------------------------------------------------------------- alphabet

type c14Op struct {
	K   string `json:"k"`             // bal set del init touch snap reset clear flush reload fork
	X   int    `json:"x,omitempty"`   // account index
	Key int    `json:"key,omitempty"` // storage key index
	V   int    `json:"v,omitempty"`   // balance value / storage value index (0 = "")
	I   int    `json:"i,omitempty"`   // stash index
}

func (o c14Op) String() string {
	switch o.K {
	case "bal":
		return fmt.Sprintf("bal(%c,%d)", 'a'+o.X, o.V)
	case "set":
		return fmt.Sprintf("set(%c,k%d,%q)", 'a'+o.X, o.Key+1, c14Vals[o.V])
	case "del":
		return fmt.Sprintf("del(%c,k%d)", 'a'+o.X, o.Key+1)
	case "init", "touch":
		return fmt.Sprintf("%s(%c)", o.K, 'a'+o.X)
	case "reset", "flush", "reload", "fork":
		return fmt.Sprintf("%s(%d)", o.K, o.I)
	}
	return o.K
}

var (
	c14Addrs = []*common.Address{
		common.MustNewAddressFromString("hx00000000000000000000000000000000000000a1"),
		common.MustNewAddressFromString("cx00000000000000000000000000000000000000b2"),
	}
	c14Keys = [][]byte{[]byte("k1"), []byte("key-two")}
	c14Vals = []string{"", "u", "w"}
)

const c14MaxStash = 3

func c14FullAlphabet() []c14Op {
	var ops []c14Op
	for x := 0; x < 2; x++ {
		for v := 0; v <= 2; v++ {
			ops = append(ops, c14Op{K: "bal", X: x, V: v})
		}
		for k := 0; k < 2; k++ {
			for v := 0; v <= 2; v++ {
				ops = append(ops, c14Op{K: "set", X: x, Key: k, V: v})
			}
			ops = append(ops, c14Op{K: "del", X: x, Key: k})
		}
		ops = append(ops, c14Op{K: "touch", X: x})
	}
	ops = append(ops, c14Op{K: "init", X: 1})
	ops = append(ops, c14Op{K: "snap"}, c14Op{K: "clear"})
	for i := 0; i < c14MaxStash; i++ {
		ops = append(ops, c14Op{K: "reset", I: i}, c14Op{K: "flush", I: i}, c14Op{K: "reload", I: i}, c14Op{K: "fork", I: i})
	}
	return ops
}

// reduced alphabet of engine B: one representative per kind of hidden-state effect
func c14ReducedAlphabet(stashes int) []c14Op {
	ops := []c14Op{
		{K: "bal", X: 0, V: 1}, {K: "bal", X: 0, V: 0},
		{K: "set", X: 0, Key: 0, V: 1}, {K: "del", X: 0, Key: 0},
		{K: "set", X: 1, Key: 1, V: 2}, {K: "set", X: 1, Key: 1, V: 0},
		{K: "init", X: 1}, {K: "touch", X: 0},
		{K: "snap"}, {K: "clear"},
	}
	for i := 0; i < stashes; i++ {
		ops = append(ops, c14Op{K: "reset", I: i}, c14Op{K: "flush", I: i}, c14Op{K: "reload", I: i}, c14Op{K: "fork", I: i})
	}
	return ops
}

// ---------------------------------------------------------------- model

type c14Acct struct {
	Bal      int
	Vals     [2]string
	Contract bool
}

func (a c14Acct) empty() bool { return a.Bal == 0 && a.Vals[0] == "" && a.Vals[1] == "" && !a.Contract }

type c14World [2]c14Acct

// canon is the canonical rendering of the logical contents: empty accounts are
// omitted, so "touched and emptied" equals "never touched".
func (w c14World) canon() string {
	var sb strings.Builder
	for i, a := range w {
		if a.empty() {
			continue
		}
		fmt.Fprintf(&sb, "%c{b=%d,k1=%q,k2=%q,c=%v}", 'a'+i, a.Bal, a.Vals[0], a.Vals[1], a.Contract)
	}
	return sb.String()
}

// abstract (model-only) state used to pre-compute which ops are enabled
type c14Abs struct {
	max     int // stash capacity
	stashes int
	flushed [c14MaxStash]bool
}

func (s *c14Abs) enabled(o c14Op) bool {
	switch o.K {
	case "snap":
		return s.stashes < s.max
	case "reset", "flush", "fork":
		return o.I < s.stashes
	case "reload":
		return o.I < s.stashes && s.flushed[o.I]
	}
	return true
}

func (s *c14Abs) step(o c14Op) {
	switch o.K {
	case "snap":
		s.stashes++
	case "flush":
		s.flushed[o.I] = true
	}
}

// ---------------------------------------------------------------- instance

type c14Stash struct {
	m       c14World
	flushed bool
	wss     WorldSnapshot
}

type c14Inst struct {
	dbase  db.Database
	live   WorldState
	lm     c14World
	stash  []c14Stash
	abs    c14Abs
	lastOp string
	wit    []c14Op // other history involved in a canonicity violation
	fail   func(sig, detail string)
}

func newC14Inst(fail func(sig, detail string)) *c14Inst {
	in := &c14Inst{dbase: db.NewMapDB(), fail: fail, lastOp: "start"}
	in.live = NewWorldState(in.dbase, nil, nil, nil, nil)
	return in
}

func (in *c14Inst) apply(o c14Op) {
	in.lastOp = o.K
	id := c14Addrs[o.X].ID()
	switch o.K {
	case "bal":
		in.live.GetAccountState(id).SetBalance(big.NewInt(int64(o.V)))
		in.lm[o.X].Bal = o.V
	case "set":
		old, err := in.live.GetAccountState(id).SetValue(c14Keys[o.Key], []byte(c14Vals[o.V]))
		if err != nil {
			in.fail("op-error/set", fmt.Sprintf("SetValue: %v", err))
		} else if string(old) != in.lm[o.X].Vals[o.Key] {
			in.fail("old-value-mismatch/set", fmt.Sprintf("%v returned old=%q, model %q", o, old, in.lm[o.X].Vals[o.Key]))
		}
		in.lm[o.X].Vals[o.Key] = c14Vals[o.V]
	case "del":
		old, err := in.live.GetAccountState(id).DeleteValue(c14Keys[o.Key])
		if err != nil {
			in.fail("op-error/del", fmt.Sprintf("DeleteValue: %v", err))
		} else if string(old) != in.lm[o.X].Vals[o.Key] {
			in.fail("old-value-mismatch/del", fmt.Sprintf("%v returned old=%q, model %q", o, old, in.lm[o.X].Vals[o.Key]))
		}
		in.lm[o.X].Vals[o.Key] = ""
	case "init":
		ok := in.live.GetAccountState(id).InitContractAccount(c14Addrs[0])
		if ok == in.lm[o.X].Contract {
			in.fail("init-contract-result", fmt.Sprintf("InitContractAccount returned %v, model contract=%v", ok, in.lm[o.X].Contract))
		}
		in.lm[o.X].Contract = true
	case "touch":
		in.live.GetAccountState(id)
	case "snap":
		in.stash = append(in.stash, c14Stash{m: in.lm, wss: in.live.GetSnapshot()})
	case "reset":
		if err := in.live.Reset(in.stash[o.I].wss); err != nil {
			in.fail("op-error/reset", fmt.Sprintf("Reset: %v", err))
		}
		in.lm = in.stash[o.I].m
	case "clear":
		in.live.ClearCache()
	case "flush":
		if err := in.stash[o.I].wss.Flush(); err != nil {
			in.fail("op-error/flush", fmt.Sprintf("Flush: %v", err))
		}
		in.stash[o.I].flushed = true
	case "reload":
		h := in.stash[o.I].wss.StateHash()
		in.live = NewWorldState(in.dbase, h, nil, nil, nil)
		in.lm = in.stash[o.I].m
	case "fork":
		ws, err := WorldStateFromSnapshot(in.stash[o.I].wss)
		if err != nil {
			in.fail("op-error/fork", fmt.Sprintf("WorldStateFromSnapshot: %v", err))
			return
		}
		in.live = ws
		in.lm = in.stash[o.I].m
	}
	in.abs.step(o)
}

type c14AcctObs interface {
	GetBalance() *big.Int
	GetValue(k []byte) ([]byte, error)
	IsContract() bool
	IsEmpty() bool
}

// compareAcct compares one observed account with the model; what names the view.
func (in *c14Inst) compareAcct(what string, x int, a c14AcctObs, m c14Acct) {
	ctx := fmt.Sprintf("%s account %c after %s", what, 'a'+x, in.lastOp)
	if a.GetBalance().Cmp(big.NewInt(int64(m.Bal))) != 0 {
		in.fail(what+"/balance/after-"+in.lastOp, fmt.Sprintf("%s: balance %s, model %d", ctx, a.GetBalance(), m.Bal))
	}
	for k := range c14Keys {
		v, err := a.GetValue(c14Keys[k])
		if err != nil {
			in.fail(what+"/value-error/after-"+in.lastOp, fmt.Sprintf("%s: GetValue(k%d): %v", ctx, k+1, err))
		} else if string(v) != m.Vals[k] {
			in.fail(what+"/value/after-"+in.lastOp, fmt.Sprintf("%s: k%d=%q, model %q", ctx, k+1, v, m.Vals[k]))
		}
	}
	if a.IsContract() != m.Contract {
		in.fail(what+"/contract-flag/after-"+in.lastOp, fmt.Sprintf("%s: IsContract=%v, model %v", ctx, a.IsContract(), m.Contract))
	}
}

// observeSnapshot compares every observable of a world snapshot with a model.
func (in *c14Inst) observeSnapshot(what string, wss WorldSnapshot, m c14World) {
	for x := range c14Addrs {
		as := wss.GetAccountSnapshot(c14Addrs[x].ID())
		if as == nil {
			if !m[x].empty() {
				in.fail(what+"/account-missing/after-"+in.lastOp, fmt.Sprintf("%s: account %c absent, model %+v", what, 'a'+x, m[x]))
			}
			continue
		}
		if m[x].empty() {
			in.fail(what+"/empty-account-present/after-"+in.lastOp,
				fmt.Sprintf("%s: account %c is empty in the model but present in the trie (%v)", what, 'a'+x, as))
		}
		if as.IsEmpty() != m[x].empty() {
			in.fail(what+"/is-empty/after-"+in.lastOp, fmt.Sprintf("%s: account %c IsEmpty=%v model %v", what, 'a'+x, as.IsEmpty(), m[x].empty()))
		}
		in.compareAcct(what, x, as, m[x])
	}
	// the same through the read-only world-state view (readonlyworldstate.go)
	ro := NewReadOnlyWorldState(wss)
	for x := range c14Addrs {
		in.compareAcct(what+"-ro", x, ro.GetAccountState(c14Addrs[x].ID()), m[x])
	}
}

// ---------------------------------------------------------------- canonicity table

type c14Table struct {
	mu      sync.Mutex
	byModel map[string]string  // canon -> hash hex
	byHash  map[string]string  // hash hex -> canon
	witness map[string][]c14Op // canon -> first history
}

func (t *c14Table) check(in *c14Inst, how string, m c14World, hash []byte, hist []c14Op) {
	c := m.canon()
	h := hex.EncodeToString(hash)
	t.mu.Lock()
	defer t.mu.Unlock()
	if old, ok := t.byModel[c]; ok {
		if old != h {
			in.wit = t.witness[c]
			in.fail("hash-not-canonical/"+how, fmt.Sprintf(
				"logical state %q has hash %s here (%s) but %s in history [%s]", c, h, how, old, c14Hist(t.witness[c])))
			in.wit = nil
		}
	} else {
		t.byModel[c] = h
		t.witness[c] = hist
	}
	if oc, ok := t.byHash[h]; ok {
		if oc != c {
			in.fail("hash-collision/"+how, fmt.Sprintf("hash %s stands for %q and for %q", h, oc, c))
		}
	} else {
		t.byHash[h] = c
	}
	if c == "" && len(hash) != 0 {
		in.fail("empty-state-hash-not-nil/"+how, fmt.Sprintf("all accounts empty but hash=%s", h))
	}
}

// finalObservation is destructive and therefore only done at the end of a history.
func (in *c14Inst) finalObservation(t *c14Table, hist []c14Op) {
	// (i) every stashed snapshot still shows what it showed when it was taken
	for i, s := range in.stash {
		what := "snapshot"
		in.observeSnapshot(what, s.wss, s.m)
		t.check(in, fmt.Sprintf("stashed-snapshot(flushed=%v)", s.flushed), s.m, s.wss.StateHash(), hist)
		_ = i
	}
	// (ii) live state through the non-caching reader
	for x := range c14Addrs {
		in.compareAcct("live", x, in.live.GetAccountSnapshot(c14Addrs[x].ID()), in.lm[x])
	}
	// (iii) a fresh snapshot of the live state
	fs := in.live.GetSnapshot()
	in.observeSnapshot("fresh-snapshot", fs, in.lm)
	h := fs.StateHash()
	t.check(in, "fresh-snapshot", in.lm, h, hist)
	// (iv) flush and reload from the database
	if err := fs.Flush(); err != nil {
		in.fail("op-error/final-flush", err.Error())
		return
	}
	rs := NewWorldSnapshot(in.dbase, h, nil, nil, nil)
	in.observeSnapshot("reloaded-snapshot", rs, in.lm)
	if !bytes.Equal(rs.StateHash(), h) {
		in.fail("reloaded-hash-differs", fmt.Sprintf("%x vs %x", rs.StateHash(), h))
	}
	// (v) the live state still agrees after its snapshot was flushed
	for x := range c14Addrs {
		in.compareAcct("live-after-flush", x, in.live.GetAccountState(c14Addrs[x].ID()), in.lm[x])
	}
}

// key: model of live state, models+flushed flags of the stashes, and the
// bookkeeping of worldStateImpl/accountStateImpl that steers later behaviour.
func (in *c14Inst) key() string {
	var sb strings.Builder
	sb.WriteString(in.lm.canon())
	for _, s := range in.stash {
		fmt.Fprintf(&sb, "|S%v:%s", s.flushed, s.m.canon())
	}
	w := in.live.(*worldStateImpl)
	for x := range c14Addrs {
		ids := string(c14Addrs[x].ID())
		as, ok := w.mutableAccounts[ids]
		if !ok {
			sb.WriteString("|-")
			continue
		}
		ai := as.(*accountStateImpl)
		fmt.Fprintf(&sb, "|m:dirty=%v,store=%v,last=%v,same=%v", ai.last == nil, ai.store != nil,
			w.lastAccounts[ids] != nil, w.lastAccounts[ids] != nil && AccountSnapshot(ai.last) == w.lastAccounts[ids])
	}
	return sb.String()
}

// ---------------------------------------------------------------- running one history

type c14Case struct {
	Hist    []c14Op `json:"hist"`
	Witness []c14Op `json:"witness,omitempty"` // second history of a canonicity violation
}

type c14Outcome struct {
	key   string
	fails []string
}

func c14Hist(h []c14Op) string {
	var s []string
	for _, o := range h {
		s = append(s, o.String())
	}
	return strings.Join(s, " ")
}

// c14Run replays hist on a fresh real instance, then observes. ok=false when
// the last op is not enabled.
func c14Run(r *ev.Run, t *c14Table, hist []c14Op, maxStash int, nviol *int64) (key string, ok bool) {
	hs := c14Hist(hist)
	var in *c14Inst
	fail := func(sig, detail string) {
		atomic.AddInt64(nviol, 1)
		r.Violation(sig, detail+"\nhistory: "+hs, c14Case{Hist: hist, Witness: in.wit})
	}
	in = newC14Inst(fail)
	in.abs.max = maxStash
	enabled := true
	if p := ev.Catch(func() {
		for _, o := range hist {
			if !in.abs.enabled(o) {
				enabled = false
				return
			}
			in.apply(o)
		}
		key = in.key()
		in.finalObservation(t, hist)
	}); p != "" {
		fail("panic/after-"+in.lastOp, "panic: "+p)
		return "", false
	}
	if !enabled {
		return "", false
	}
	r.Eval(1)
	return key, true
}

// ---------------------------------------------------------------- test

// c14BFS: breadth-first search with dedup on c14Inst.key(); each transition
// re-creates the state by replaying its history on a fresh real instance.
func c14BFS(r *ev.Run, tbl *c14Table, alpha []c14Op, maxStash, maxDepth int, nviol *int64) (states int, transitions, traces int64, depthDone int, perDepth []int, sample [][]c14Op) {
	seen := map[string]struct{}{}
	k0, _ := c14Run(r, tbl, nil, maxStash, nviol)
	traces++
	seen[k0] = struct{}{}
	frontier := [][]c14Op{nil}
	perDepth = []int{1}
	for depth := 0; depth < maxDepth && len(frontier) > 0 && !r.Expired(); depth++ {
		type res struct {
			key string
			ok  bool
		}
		n := len(frontier) * len(alpha)
		out := make([]res, n)
		var expired int32
		ev.Par(n, 16, func(i int) {
			if atomic.LoadInt32(&expired) != 0 {
				return
			}
			if i%4096 == 0 && r.Expired() {
				atomic.StoreInt32(&expired, 1)
				return
			}
			h := frontier[i/len(alpha)]
			nh := append(append(make([]c14Op, 0, len(h)+1), h...), alpha[i%len(alpha)])
			k, ok := c14Run(r, tbl, nh, maxStash, nviol)
			out[i] = res{k, ok}
		})
		if expired != 0 {
			break
		}
		var next [][]c14Op
		for i, o := range out {
			if !o.ok {
				continue
			}
			traces++
			transitions++
			if _, dup := seen[o.key]; !dup {
				seen[o.key] = struct{}{}
				h := frontier[i/len(alpha)]
				nh := append(append(make([]c14Op, 0, len(h)+1), h...), alpha[i%len(alpha)])
				next = append(next, nh)
				if len(nh) >= 3 {
					r.Nontrivial("A:" + c14Hist(nh))
				}
			}
		}
		frontier = next
		depthDone = depth + 1
		perDepth = append(perDepth, len(next))
		if len(next) > 0 {
			sample = [][]c14Op{next[len(next)/2], next[len(next)/3]}
		}
	}
	return len(seen), transitions, traces, depthDone, perDepth, sample
}

func TestVerifC14(t *testing.T) {
	r := ev.Start(t, "C14", "model_checking")
	r.Rule("engine A: BFS over histories of ops {SetBalance(a|b,0..2), SetValue(a|b,k1|k2,''|u|w), DeleteValue, InitContractAccount(b), GetAccountState(touch), GetSnapshot(stash<=3), Reset(i), ClearCache, Flush(i), Reload(i)=NewWorldState(db,hash_i), Fork(i)=WorldStateFromSnapshot} with dedup on (live model, stash models+flushed flags, per-account bookkeeping flags of worldStateImpl); engine B: every enabled op sequence of fixed length over a 10+4*stashes-op reduced alphabet without dedup; each history is replayed on a fresh real world state and observed once at its end (all stashed snapshots, live, fresh snapshot, flushed+reloaded snapshot, read-only view) against the model; a global table logical-state <-> hash is filled across all histories; non-trivial = (A) a history of >=3 ops that reaches a not yet seen state, (B) a sequence containing at least one GetSnapshot; distinct by history")
	r.Assume(
		"model: account -> (balance, k1, k2, contract flag); an account with zero balance, no values and no contract flag is empty",
		"AccountState handles are re-fetched with GetAccountState for every operation (handles are not kept across ClearCache)",
		"validators, extension and BTP parts of the world state are nil/empty; deposits, contract deployment, object graphs are not exercised",
		"observation perturbs caches, therefore it is done only at the end of each history; every prefix of an explored history is explored as a history of its own")

	tbl := &c14Table{byModel: map[string]string{}, byHash: map[string]string{}, witness: map[string][]c14Op{}}
	var nviol int64

	if ev.Replaying() {
		var c c14Case
		ev.ReplayCase(&c)
		// fill the table with the canonical hashes of the states involved: replay all prefixes first
		for n := 0; n <= len(c.Witness); n++ {
			c14Run(r, tbl, c.Witness[:n], c14MaxStash, &nviol)
		}
		for n := 0; n <= len(c.Hist); n++ {
			c14Run(r, tbl, c.Hist[:n], c14MaxStash, &nviol)
		}
		r.States(1)
		r.Transitions(1)
		r.Traces(len(c.Hist) + 1)
		r.Sample(c)
		r.Finish(false)
		return
	}

	var traces, transitions int64
	// ------------------------------------------------ engine A (two alphabets)
	type bfsCfg struct {
		name     string
		alpha    []c14Op
		maxStash int
		depth    int
	}
	bfsCfgs := []bfsCfg{
		{"full", c14FullAlphabet(), c14MaxStash, r.Pick(4, 5)},
		{"reduced", c14ReducedAlphabet(2), 2, r.Pick(8, 40)}, // fixpoint at depth 23
	}
	statesA := 0
	allDepthsDone := true
	for _, bc := range bfsCfgs {
		st, tr, tc, depthDone, perDepth, sample := c14BFS(r, tbl, bc.alpha, bc.maxStash, bc.depth, &nviol)
		statesA += st
		transitions += tr
		traces += tc
		r.Set("engineA_"+bc.name+"_alphabet", len(bc.alpha))
		r.Set("engineA_"+bc.name+"_depth_bound", bc.depth)
		r.Set("engineA_"+bc.name+"_depth_completed", depthDone)
		r.Set("engineA_"+bc.name+"_new_states_per_depth", perDepth)
		if depthDone < bc.depth && perDepth[len(perDepth)-1] != 0 {
			allDepthsDone = false
		}
		for _, h := range sample {
			r.Sample(map[string]interface{}{"engine": "A-" + bc.name, "history": c14Hist(h)})
		}
	}

	// ------------------------------------------------ engine B
	lenB := r.Pick(4, 6)
	stashesB := 2
	alphaB := c14ReducedAlphabet(stashesB)
	var seqs [][]c14Op
	var gen func(prefix []c14Op, abs c14Abs)
	gen = func(prefix []c14Op, abs c14Abs) {
		if len(prefix) == lenB {
			seqs = append(seqs, append([]c14Op{}, prefix...))
			return
		}
		for _, o := range alphaB {
			if !abs.enabled(o) {
				continue
			}
			na := abs
			na.step(o)
			gen(append(prefix, o), na)
		}
	}
	gen(nil, c14Abs{max: stashesB})
	var doneB int64
	var expiredB int32
	ev.Par(len(seqs), 16, func(i int) {
		if atomic.LoadInt32(&expiredB) != 0 {
			return
		}
		if i%4096 == 0 && r.Expired() {
			atomic.StoreInt32(&expiredB, 1)
			return
		}
		// every prefix gets its own final observation
		for n := 1; n <= lenB; n++ {
			// a prefix is shared by many sequences: observe it only from the
			// lexicographically first sequence extending it
			if n < lenB && !c14FirstExtension(seqs, i, n) {
				continue
			}
			if _, ok := c14Run(r, tbl, seqs[i][:n], stashesB, &nviol); ok {
				atomic.AddInt64(&doneB, 1)
			}
		}
		for _, o := range seqs[i] {
			if o.K == "snap" {
				r.Nontrivial("B:" + c14Hist(seqs[i]))
				break
			}
		}
	})
	traces += doneB
	transitions += doneB
	if len(seqs) > 0 {
		r.Sample(map[string]interface{}{"engine": "B", "history": c14Hist(seqs[len(seqs)/2])})
		r.Sample(map[string]interface{}{"engine": "B", "history": c14Hist(seqs[len(seqs)/5])})
	}

	r.States(statesA)
	r.Transitions(int(transitions))
	r.Traces(int(traces))
	r.Set("engineB_sequence_length", lenB)
	r.Set("engineB_alphabet", len(alphaB))
	r.Set("engineB_sequences", len(seqs))
	r.Set("engineB_histories_run", doneB)
	tbl.mu.Lock()
	r.Set("distinct_logical_states_in_hash_table", len(tbl.byModel))
	r.Set("distinct_hashes_in_hash_table", len(tbl.byHash))
	var cs []string
	for c := range tbl.byModel {
		cs = append(cs, c)
	}
	tbl.mu.Unlock()
	sort.Strings(cs)
	r.Sanity(len(cs) > 50, "hash table has only %d logical states", len(cs))
	r.Sanity(len(tbl.byModel) == len(tbl.byHash) || nviol > 0, "table sizes differ without a violation")
	r.Sanity(statesA > 100, "engine A reached only %d states", statesA)
	exhaustive := expiredB == 0 && allDepthsDone
	r.Finish(exhaustive)
}

// c14FirstExtension reports whether seqs[i] is the first sequence (in
// generation order) having seqs[i][:n] as a prefix.
func c14FirstExtension(seqs [][]c14Op, i, n int) bool {
	if i == 0 {
		return true
	}
	p := seqs[i-1]
	for j := 0; j < n; j++ {
		if p[j] != seqs[i][j] {
			return true
		}
	}
	return false
}
