//go:build verif

package consensus

// C06 — double-sign evidence is accepted only for genuine conflicts.
//
// Exhaustive enumeration of all ordered pairs over a finite universe of
// signed consensus messages, observed at four points of the real code:
//   IsConflictWith        module.DoubleSignData.IsConflictWith (dsVote / dsProposal)
//   dsmLog                dsmLog.LogAndCheck{Vote,Proposal}Message on a fresh log
//   PreValidate(direct)   DSR transaction built by transaction.NewDoubleSignReportTx
//   PreValidate(parsed)   the same transaction serialised, re-parsed and pre-validated
//                         (evidence decoded through the world context's decoder)
// plus all message triples of one (signer,height,round,kind) group through one
// dsmLog. The oracle is the predicate of the property statement.

import (
	"bytes"
	"fmt"
	"math/big"
	"sort"
	"strings"
	"sync"
	"sync/atomic"
	"testing"

	"github.com/icon-project/goloop/common"
	"github.com/icon-project/goloop/common/codec"
	"github.com/icon-project/goloop/common/crypto"
	"github.com/icon-project/goloop/common/db"
	"github.com/icon-project/goloop/common/wallet"
	"github.com/icon-project/goloop/module"
	"github.com/icon-project/goloop/service/state"
	"github.com/icon-project/goloop/service/transaction"
	"github.com/icon-project/goloop/verifshim/ev"
)

// c06Desc describes one message of the universe.
type c06Desc struct {
	Signer int   `json:"signer"` // 0,1 (both validators of the evidence context)
	Height int64 `json:"height"` // 1,2
	Round  int32 `json:"round"`  // 0,1
	Kind   int   `json:"kind"`   // 0 prevote, 1 precommit, 2 proposal
	NID    int   `json:"nid"`    // 0 (unspecified), 1, 2
	Dec    int   `json:"dec"`    // votes: 0 block A, 1 block B, 2 nil; proposals: part-set A, B, C
	TS     int   `json:"ts"`     // votes: timestamp t1/t2; proposals: POLRound -1/0
	// Enc selects the wire form of the SAME signed content:
	//  0 object built and signed in-process
	//  1 signature with the spare "compressed key" bit of V flipped (V 0/1 <-> 4/5), decoded from the wire
	//  2 malleated signature (r, n-s, V^1), decoded from the wire
	//  3 votes only: re-encoded with an explicit empty NTS-vote list, decoded from the wire
	//  4 plain marshal -> decode
	Enc int `json:"enc,omitempty"`
}

func (d c06Desc) String() string {
	k := []string{"prevote", "precommit", "proposal"}[d.Kind]
	e := ""
	if d.Enc != 0 {
		e = " enc=" + []string{"", "V-alias", "high-S", "empty-NTS-list", "re-decoded"}[d.Enc]
	}
	return fmt.Sprintf("{%s signer=k%d h=%d r=%d nid=%d dec=%d ts=%d%s}", k, d.Signer+1, d.Height, d.Round, d.NID, d.Dec, d.TS, e)
}

type c06Msg struct {
	d    c06Desc
	vote *VoteMessage
	prop *ProposalMessage
	dsd  module.DoubleSignData
	sb   []byte // the bytes that are signed
}

var c06Wallets []module.Wallet
var c06WalletsOnce sync.Once

func c06Wallet(i int) module.Wallet {
	c06WalletsOnce.Do(c06InitWallets)
	return c06Wallets[i]
}

func c06InitWallets() {
	for len(c06Wallets) < 4 {
		kb := bytes.Repeat([]byte{byte(0x21 + len(c06Wallets))}, 32)
		sk, err := crypto.ParsePrivateKey(kb)
		if err != nil {
			panic(err)
		}
		w, err := wallet.NewFromPrivateKey(sk)
		if err != nil {
			panic(err)
		}
		c06Wallets = append(c06Wallets, w)
	}
	if c06Wallets[0].Address().Equal(c06Wallets[1].Address()) {
		panic("harness: wallets collide")
	}
}

var c06CurveN, _ = new(big.Int).SetString("FFFFFFFFFFFFFFFFFFFFFFFFFFFFFFFEBAAEDCE6AF48A03BBFD25E8CD0364141", 16)

// c06SigVariant returns another encoding of the same signature (nil if enc keeps it).
func c06SigVariant(sig common.Signature, enc int) common.Signature {
	rsv, err := sig.Signature.SerializeRSV()
	if err != nil {
		panic(err)
	}
	rsv = append([]byte(nil), rsv...)
	switch enc {
	case 1:
		rsv[64] ^= 4
	case 2:
		sv := new(big.Int).Sub(c06CurveN, new(big.Int).SetBytes(rsv[32:64]))
		sb := sv.Bytes()
		for i := 32; i < 64; i++ {
			rsv[i] = 0
		}
		copy(rsv[64-len(sb):64], sb)
		rsv[64] ^= 1
	default:
		return sig
	}
	s2, err := crypto.ParseSignature(rsv)
	if err != nil {
		panic(err)
	}
	return common.Signature{Signature: s2}
}

// c06Build builds the message; it returns nil when the requested encoding is
// not accepted by the real decoder / signature recovery (then the variant does
// not exist for goloop and is left out of the universe).
func c06Build(d c06Desc) *c06Msg {
	canon := d
	canon.Enc = 0
	m := c06BuildCanonical(canon)
	if d.Enc == 0 {
		return m
	}
	if d.Enc == 3 && d.Kind == 2 {
		return nil
	}
	var bs []byte
	var tn string
	if d.Kind == 2 {
		tn = module.DSTProposal
		p2 := NewProposalMessage()
		p2.proposal = m.prop.proposal
		p2.Signature = c06SigVariant(m.prop.Signature, d.Enc)
		bs = msgCodec.MustMarshalToBytes(p2)
	} else {
		tn = module.DSTVote
		v := m.vote
		type ntsVote struct {
			NetworkTypeID          int64
			NetworkTypeSectionHash []byte
			NTSDProofPart          []byte
		}
		type wire7 struct {
			Signature common.Signature
			Height    int64
			Round     int32
			Type      VoteType
			BlockID   []byte
			PSID      *PartSetIDAndAppData
			Timestamp int64
		}
		w := wire7{c06SigVariant(v.Signature, d.Enc), v.Height, v.Round, v.Type, v.BlockID, v.BlockPartSetIDAndNTSVoteCount, v.Timestamp}
		if d.Enc == 3 {
			bs = msgCodec.MustMarshalToBytes(&struct {
				wire7
				NTSVotes []ntsVote
			}{w, []ntsVote{}})
			if bytes.Equal(bs, msgCodec.MustMarshalToBytes(v)) {
				panic("harness: explicit empty NTS list does not change the encoding")
			}
		} else {
			bs = msgCodec.MustMarshalToBytes(&w)
		}
	}
	if d.Enc != 4 && bytes.Equal(bs, m.dsd.Bytes()) {
		panic(fmt.Sprintf("harness: %v has the canonical wire form", d))
	}
	dsd, err := DecodeDoubleSignData(tn, bs)
	if err != nil {
		return nil // goloop does not accept this wire form at all
	}
	r := &c06Msg{d: d, dsd: dsd, sb: m.sb}
	var sameHash bool
	if d.Kind == 2 {
		r.prop = dsd.(*dsProposal).msg
		sameHash = bytes.Equal(r.prop.hash(), m.prop.hash()) && bytes.Equal(r.prop.proposal.bytes(), m.sb)
		r.prop.address()
	} else {
		r.vote = dsd.(*dsVote).msg
		sameHash = bytes.Equal(r.vote.hash(), m.vote.hash()) && bytes.Equal(r.vote._byteser.bytes(), m.sb)
		r.vote.address()
		r.vote.RoundDecisionDigest()
	}
	if !sameHash || !bytes.Equal(dsd.Signer(), m.dsd.Signer()) {
		return nil // not the same signed content by the same signer for goloop
	}
	return r
}

func c06BuildCanonical(d c06Desc) *c06Msg {
	m := &c06Msg{d: d}
	fill := func(b byte) []byte { return bytes.Repeat([]byte{b}, 32) }
	var err error
	if d.Kind == 2 {
		p := NewProposalMessage()
		p.Height = d.Height
		p.Round = d.Round
		p.BlockPartSetID = &PartSetID{Count: uint16(1 + d.Dec), Hash: fill(byte(0xA2 + 0x10*d.Dec))}
		p.POLRound = int32(-1 + d.TS)
		p.NID = uint32(d.NID)
		if err = p.Sign(c06Wallet(d.Signer)); err != nil {
			panic(err)
		}
		m.prop = p
		m.sb = p.proposal.bytes()
		p.hash()
		if p.address() == nil {
			panic("unsigned proposal")
		}
		m.dsd, err = newDoubleSignDataWithProposalMessage(p)
	} else {
		v := newVoteMessage()
		v.Height = d.Height
		v.Round = d.Round
		v.Type = VoteType(d.Kind)
		switch d.Dec {
		case 0, 1:
			psid := &PartSetID{Count: uint16(1 + d.Dec), Hash: fill(byte(0xA2 + 0x10*d.Dec))}
			v.SetRoundDecision(fill(byte(0xA1+0x10*d.Dec)), psid.WithAppData(psidAppData(uint32(d.NID), 0)), nil)
		default:
			v.SetRoundDecision(codec.MustMarshalToBytes(d.NID), nil, nil)
		}
		v.Timestamp = int64(1000 + d.TS)
		if err = v.Sign(c06Wallet(d.Signer)); err != nil {
			panic(err)
		}
		m.vote = v
		m.sb = v._byteser.bytes()
		v.hash()
		v.RoundDecisionDigest()
		if v.address() == nil {
			panic("unsigned vote")
		}
		// What the real NID() reads back is not asserted here: a vote whose network
		// is misread is the code under test, and the pair oracle (descriptor
		// networks vs what the four observation points accept) decides it.
		m.dsd, err = newDoubleSignDataWithVoteMessage(v)
	}
	if err != nil {
		panic(err)
	}
	return m
}

func c06Universe(nSigners, nHeights, nRounds, nNIDs int) []c06Desc {
	var ds []c06Desc
	for s := 0; s < nSigners; s++ {
		for h := int64(1); h <= int64(nHeights); h++ {
			for r := int32(0); r < int32(nRounds); r++ {
				for k := 0; k < 3; k++ {
					for nid := 0; nid < nNIDs; nid++ {
						for dec := 0; dec < 3; dec++ {
							for ts := 0; ts < 2; ts++ {
								ds = append(ds, c06Desc{s, h, r, k, nid, dec, ts, 0})
							}
						}
					}
				}
			}
		}
	}
	return ds
}

// c06Genuine is the property statement: the list of clauses of the statement
// that the pair fails (empty = genuine double sign).
func c06Genuine(a, b c06Desc) (failed []string) {
	if a.Signer != b.Signer {
		failed = append(failed, "signer")
	}
	if a.Height != b.Height {
		failed = append(failed, "height")
	}
	if a.Round != b.Round {
		failed = append(failed, "round")
	}
	if a.Kind != b.Kind {
		failed = append(failed, "kind")
	}
	if !(a.NID == b.NID || a.NID == 0 || b.NID == 0) {
		failed = append(failed, "nid")
	}
	a.Enc, b.Enc = 0, 0 // the encoding is not part of the signed content
	if a == b {
		failed = append(failed, "identical")
	}
	return
}

func c06Family(a, b c06Desc) string {
	switch {
	case a.Kind == 2 && b.Kind == 2:
		return "proposal"
	case a.Kind != 2 && b.Kind != 2:
		return "vote"
	}
	return "mixed"
}

type c06Plt struct{}

func (c06Plt) ToRevision(int) module.Revision { return module.LatestRevision }
func (c06Plt) DoubleSignDataDecoder() module.DoubleSignDataDecoder {
	return DecodeDoubleSignData
}

type c06BI struct{}

func (c06BI) Height() int64    { return 10 }
func (c06BI) Timestamp() int64 { return 1_000_000 }

// c06World builds a real world context (nid is the DSR transaction's nid, 1)
// whose validator state holds the two signers.
func c06World() (state.WorldContext, module.DoubleSignContextRoot) {
	dbase := db.NewMapDB()
	var vals []module.Validator
	for i := 0; i < 3; i++ {
		v, err := state.ValidatorFromAddress(c06Wallet(i).Address())
		if err != nil {
			panic(err)
		}
		vals = append(vals, v)
	}
	vss, err := state.ValidatorSnapshotFromSlice(dbase, vals)
	if err != nil {
		panic(err)
	}
	ws := state.NewWorldState(dbase, nil, vss, nil, nil)
	wc := state.NewWorldContext(ws, c06BI{}, nil, c06Plt{})
	root, err := wc.GetDoubleSignContextRoot()
	if err != nil || root == nil {
		panic(fmt.Sprintf("no double sign context root: %v", err))
	}
	return wc, root
}

type c06Case struct {
	A     c06Desc  `json:"a"`
	B     c06Desc  `json:"b"`
	C     *c06Desc `json:"c,omitempty"`
	Point string   `json:"point"`
}

const (
	c06PConflict = "IsConflictWith"
	c06PLog      = "dsmLog"
	c06PDirect   = "PreValidate(direct)"
	c06PParsed   = "PreValidate(parsed)"
	c06PLog3     = "dsmLog-sequence"
)

type c06Checker struct {
	r        *ev.Run
	wcPool   sync.Pool
	accepted [5]int64 // per point: pairs accepted as evidence
	rejected [5]int64
}

func c06PointIdx(p string) int {
	switch p {
	case c06PConflict:
		return 0
	case c06PLog:
		return 1
	case c06PDirect:
		return 2
	case c06PParsed:
		return 3
	}
	return 4
}

// verdict compares what one observation point said about the pair with the statement.
func (c *c06Checker) verdict(point string, a, b *c06Msg, accepted bool, extra string) {
	failed := c06Genuine(a.d, b.d)
	if accepted {
		atomic.AddInt64(&c.accepted[c06PointIdx(point)], 1)
	} else {
		atomic.AddInt64(&c.rejected[c06PointIdx(point)], 1)
	}
	switch {
	case accepted && len(failed) > 0:
		sig := fmt.Sprintf("evidence-accepted-despite-%s-mismatch:%s@%s", strings.Join(failed, "+"), c06Family(a.d, b.d), point)
		if len(failed) == 1 && failed[0] == "identical" {
			sig = fmt.Sprintf("evidence-accepted-for-identical-messages:%s@%s", c06Family(a.d, b.d), point)
			if a.d.Enc != b.d.Enc {
				sig = fmt.Sprintf("evidence-accepted-for-one-signed-content-in-two-encodings:%s@%s", c06Family(a.d, b.d), point)
			}
		} else if len(failed) == 1 && failed[0] == "nid" {
			sig = fmt.Sprintf("evidence-accepted-despite-different-nonzero-nids:%s@%s", c06Family(a.d, b.d), point)
		}
		c.r.Violation(sig, fmt.Sprintf("%s treats %v and %v as double-sign evidence although the pair fails: %v %s", point, a.d, b.d, failed, extra),
			c06Case{A: a.d, B: b.d, Point: point})
	case !accepted && len(failed) == 0:
		sig := fmt.Sprintf("genuine-conflict-not-recognised:%s@%s", c06Family(a.d, b.d), point)
		c.r.Violation(sig, fmt.Sprintf("%s does not treat %v and %v as double-sign evidence although same signer/height/round/kind, compatible nid and different signed content %s", point, a.d, b.d, extra),
			c06Case{A: a.d, B: b.d, Point: point})
	}
}

func c06LogFeed(l *dsmLog, m *c06Msg) []module.DoubleSignData {
	if m.vote != nil {
		return l.LogAndCheckVoteMessage(m.vote)
	}
	return l.LogAndCheckProposalMessage(m.prop)
}

func (c *c06Checker) getWC() (state.WorldContext, module.DoubleSignContextRoot) {
	if x := c.wcPool.Get(); x != nil {
		p := x.(*[2]interface{})
		return p[0].(state.WorldContext), p[1].(module.DoubleSignContextRoot)
	}
	return c06World()
}

func (c *c06Checker) putWC(wc state.WorldContext, root module.DoubleSignContextRoot) {
	c.wcPool.Put(&[2]interface{}{wc, root})
}

// pair runs every selected observation point on the ordered pair (a,b).
func (c *c06Checker) pair(a, b *c06Msg, points map[string]bool) {
	if points[c06PConflict] {
		c.r.Eval(1)
		var got bool
		if p := ev.Catch(func() { got = a.dsd.IsConflictWith(b.dsd) }); p != "" {
			c.r.Violation("panic@"+c06PConflict, fmt.Sprintf("%v vs %v: %s", a.d, b.d, p), c06Case{A: a.d, B: b.d, Point: c06PConflict})
		} else {
			c.verdict(c06PConflict, a, b, got, "")
		}
	}
	if points[c06PLog] {
		c.r.Eval(1)
		l := makeDSMLog(configDSMLogSize)
		var first, second []module.DoubleSignData
		if p := ev.Catch(func() { first = c06LogFeed(&l, a); second = c06LogFeed(&l, b) }); p != "" {
			c.r.Violation("panic@"+c06PLog, fmt.Sprintf("%v then %v: %s", a.d, b.d, p), c06Case{A: a.d, B: b.d, Point: c06PLog})
		} else {
			if first != nil {
				c.r.Violation("evidence-from-empty-log@dsmLog", fmt.Sprintf("first message %v into an empty log returned evidence", a.d), c06Case{A: a.d, B: b.d, Point: c06PLog})
			}
			c.verdict(c06PLog, a, b, second != nil, "")
			if second != nil {
				ok := len(second) == 2 && bytes.Equal(second[0].Bytes(), a.dsd.Bytes()) && bytes.Equal(second[1].Bytes(), b.dsd.Bytes())
				if !ok {
					c.r.Violation("evidence-is-not-the-logged-pair@dsmLog", fmt.Sprintf("%v then %v: returned %d items that are not (first, second)", a.d, b.d, len(second)), c06Case{A: a.d, B: b.d, Point: c06PLog})
				}
			}
		}
	}
	if points[c06PDirect] || points[c06PParsed] {
		wc, root := c.getWC()
		defer c.putWC(wc, root)
		tn := a.dsd.Type()
		dsc, err := root.ContextOf(tn)
		if err != nil {
			panic(err)
		}
		var tx transaction.Transaction
		if p := ev.Catch(func() {
			tx = transaction.NewDoubleSignReportTx([]module.DoubleSignData{a.dsd, b.dsd}, dsc, 1, 1_000_000)
		}); p != "" {
			c.r.Violation("panic@NewDoubleSignReportTx", fmt.Sprintf("%v, %v: %s", a.d, b.d, p), c06Case{A: a.d, B: b.d, Point: c06PDirect})
			return
		}
		if points[c06PDirect] {
			c.r.Eval(1)
			var perr error
			if p := ev.Catch(func() { perr = tx.PreValidate(wc, false) }); p != "" {
				c.r.Violation("panic@"+c06PDirect, fmt.Sprintf("%v, %v: %s", a.d, b.d, p), c06Case{A: a.d, B: b.d, Point: c06PDirect})
			} else {
				c.verdict(c06PDirect, a, b, perr == nil, fmt.Sprintf("(err=%v)", perr))
			}
		}
		if points[c06PParsed] {
			c.r.Eval(1)
			var perr error
			if p := ev.Catch(func() {
				tx2, err := transaction.NewTransaction(tx.Bytes())
				if err != nil {
					perr = err
					return
				}
				if err := tx2.Verify(); err != nil {
					perr = err
					return
				}
				perr = tx2.PreValidate(wc, false)
			}); p != "" {
				c.r.Violation("panic@"+c06PParsed, fmt.Sprintf("%v, %v: %s", a.d, b.d, p), c06Case{A: a.d, B: b.d, Point: c06PParsed})
			} else {
				c.verdict(c06PParsed, a, b, perr == nil, fmt.Sprintf("(err=%v)", perr))
			}
		}
	}
}

// triple feeds a, b, c (all of one signer/height/round/kind group) into one
// log. Soundness only: whatever is returned must be a genuine conflict between
// the message just fed and a message fed before.
func (c *c06Checker) triple(ms [3]*c06Msg) {
	c.r.Eval(1)
	l := makeDSMLog(configDSMLogSize)
	for k := 0; k < 3; k++ {
		var got []module.DoubleSignData
		cs := c06Case{A: ms[0].d, B: ms[1].d, C: &ms[2].d, Point: c06PLog3}
		if p := ev.Catch(func() { got = c06LogFeed(&l, ms[k]) }); p != "" {
			c.r.Violation("panic@"+c06PLog3, fmt.Sprintf("%v: %s", cs, p), cs)
			return
		}
		if got == nil {
			atomic.AddInt64(&c.rejected[4], 1)
			continue
		}
		atomic.AddInt64(&c.accepted[4], 1)
		if len(got) != 2 || !bytes.Equal(got[1].Bytes(), ms[k].dsd.Bytes()) {
			c.r.Violation("evidence-is-not-the-logged-pair@dsmLog-sequence", fmt.Sprintf("step %d of %v,%v,%v", k, ms[0].d, ms[1].d, ms[2].d), cs)
			return
		}
		var prev *c06Msg
		for j := 0; j < k; j++ {
			if bytes.Equal(got[0].Bytes(), ms[j].dsd.Bytes()) {
				prev = ms[j]
			}
		}
		if prev == nil {
			c.r.Violation("evidence-is-not-the-logged-pair@dsmLog-sequence", fmt.Sprintf("step %d of %v,%v,%v: first item was never fed", k, ms[0].d, ms[1].d, ms[2].d), cs)
			return
		}
		if failed := c06Genuine(prev.d, ms[k].d); len(failed) > 0 {
			sig := fmt.Sprintf("evidence-accepted-despite-%s-mismatch:%s@%s", strings.Join(failed, "+"), c06Family(prev.d, ms[k].d), c06PLog3)
			if len(failed) == 1 && failed[0] == "nid" {
				sig = fmt.Sprintf("evidence-accepted-despite-different-nonzero-nids:%s@%s", c06Family(prev.d, ms[k].d), c06PLog3)
			} else if len(failed) == 1 && failed[0] == "identical" {
				sig = fmt.Sprintf("evidence-accepted-for-identical-messages:%s@%s", c06Family(prev.d, ms[k].d), c06PLog3)
				if prev.d.Enc != ms[k].d.Enc {
					sig = fmt.Sprintf("evidence-accepted-for-one-signed-content-in-two-encodings:%s@%s", c06Family(prev.d, ms[k].d), c06PLog3)
				}
			}
			c.r.Violation(sig, fmt.Sprintf("log fed %v,%v,%v returned at step %d the pair %v / %v which fails %v", ms[0].d, ms[1].d, ms[2].d, k, prev.d, ms[k].d, failed), cs)
		}
	}
}

func TestVerifC06(t *testing.T) {
	r := ev.Start(t, "C06", "exploration")
	r.Rule("all ordered pairs (first from copy 1, second from an independently built copy 2) of the universe signer{k1,k2} x height{1,2} x round{0,1} x kind{prevote,precommit,proposal} x nid{0,1,2} x decision{A,B,nil|C} x {timestamp t1,t2 | POLRound -1,0} = 432 messages (thorough adds the extended universe signer{k1,k2,k3} x height{1,2,3} x round{0,1,2} x nid{0,1,2,3} = 1944 messages), at IsConflictWith, a fresh dsmLog, and a DSR transaction pre-validated on a world context (direct and re-parsed); plus an encoding universe in which every signed content also appears in its other wire forms (signature V alias 0/1<->4/5, malleated (r,n-s) signature, votes with an explicit empty NTS-vote list, plain re-decode) which by the statement never differ in signed content; plus all ordered triples inside each (signer k1, height 1, round 0, kind) group through one dsmLog; non-trivial = pair that is a genuine conflict or fails exactly one clause of the statement")
	r.Assume("both signers are validators of the evidence context (the validator-membership test is not the subject)",
		"messages carry valid signatures (evidence objects cannot be built from unsigned messages: newDoubleSignDataWith*Message verifies)",
		"oracle: evidence <=> same signer, height, round, kind, (nid equal or one of them 0), signed bytes differ")
	c := &c06Checker{r: r}

	if ev.Replaying() {
		var cs c06Case
		ev.ReplayCase(&cs)
		a, b := c06Build(cs.A), c06Build(cs.B)
		if cs.C != nil {
			c.triple([3]*c06Msg{a, b, c06Build(*cs.C)})
		} else {
			c.pair(a, b, map[string]bool{cs.Point: true})
		}
		r.Finish(false)
		return
	}

	var classes sync.Map
	var stop int32
	var universes []map[string]interface{}
	var unsupported sync.Map
	// runPairs enumerates all ordered pairs of the universe; the two transaction
	// points run on the pairs selected by txSel.
	runPairs := func(name string, descs []c06Desc, txSel func(a c06Desc) bool) (copy1 []*c06Msg) {
		copy1 = make([]*c06Msg, len(descs))
		copy2 := make([]*c06Msg, len(descs))
		ev.Par(len(descs), 16, func(i int) {
			copy1[i] = c06Build(descs[i])
			copy2[i] = c06Build(descs[i])
		})
		{ // drop the encodings goloop does not accept
			var d2 []c06Desc
			var c1, c2 []*c06Msg
			for i := range descs {
				if copy1[i] == nil || copy2[i] == nil {
					unsupported.Store([]string{"", "V-alias", "high-S", "empty-NTS-list", "re-decoded"}[descs[i].Enc], true)
					continue
				}
				d2, c1, c2 = append(d2, descs[i]), append(c1, copy1[i]), append(c2, copy2[i])
			}
			descs, copy1, copy2 = d2, c1, c2
		}
		encCount := map[int]int{}
		for _, d := range descs {
			encCount[d.Enc]++
		}
		// harness sanity: descriptor equality <=> signed-bytes equality
		sbSeen := map[string]int{}
		for i, m := range copy1 {
			// the signer is not part of the signed bytes; everything else is
			k := fmt.Sprintf("%d/%d/%x", descs[i].Signer, descs[i].Enc, m.sb)
			if j, dup := sbSeen[k]; dup {
				r.Sanity(false, "descriptors %v and %v have the same signed bytes", descs[i], descs[j])
			}
			sbSeen[k] = i
			r.Sanity(bytes.Equal(m.sb, copy2[i].sb) && bytes.Equal(m.dsd.Bytes(), copy2[i].dsd.Bytes()), "copies of %v differ", descs[i])
		}
		n := len(descs)
		var txPairs int64
		ev.Par(n*n, 16, func(idx int) {
			if atomic.LoadInt32(&stop) != 0 {
				return
			}
			if idx%2048 == 0 && r.Expired() {
				atomic.StoreInt32(&stop, 1)
				return
			}
			i, j := idx/n, idx%n
			a, b := copy1[i], copy2[j]
			pts := map[string]bool{c06PConflict: true, c06PLog: true}
			if txSel(a.d) {
				pts[c06PDirect] = true
				pts[c06PParsed] = true
				atomic.AddInt64(&txPairs, 1)
			}
			c.pair(a, b, pts)
			failed := c06Genuine(a.d, b.d)
			if len(failed) <= 1 {
				r.Nontrivial(fmt.Sprintf("%v/%v", a.d, b.d))
				key := "genuine"
				if len(failed) == 1 {
					key = "only-" + failed[0] + "-fails"
				}
				cnt, _ := classes.LoadOrStore(name+":"+key, new(int64))
				atomic.AddInt64(cnt.(*int64), 1)
			}
		})
		universes = append(universes, map[string]interface{}{"name": name, "messages": n, "messages_per_encoding": encCount, "ordered_pairs": n * n, "pairs_through_tx_points": txPairs, "complete": atomic.LoadInt32(&stop) == 0})
		return copy1
	}
	// base universe. quick: tx points on the pairs whose first message is signed
	// by k1 at height 1 (second message ranges over everything); thorough: all pairs.
	txAll := r.Thorough()
	descs := c06Universe(2, 2, 2, 3)
	copy1 := runPairs("base", descs, func(a c06Desc) bool { return txAll || (a.Signer == 0 && a.Height == 1) })
	// encoding universe: every wire form of each signed content. quick: a slice
	// of the base universe (height 1, round 0, nid{0,1}, two decisions), all
	// points on all pairs; thorough: the whole base universe x encodings, tx
	// points on the pairs whose first message is (k1, height 1).
	var encDescs []c06Desc
	for _, d := range descs {
		if r.Quick() && !(d.Height == 1 && d.Round == 0 && d.NID < 2 && d.Dec < 2) {
			continue
		}
		for enc := 0; enc <= 4; enc++ {
			if enc == 3 && d.Kind == 2 {
				continue // proposals have no optional list element
			}
			e := d
			e.Enc = enc
			encDescs = append(encDescs, e)
		}
	}
	var encMsgs []*c06Msg
	if atomic.LoadInt32(&stop) == 0 {
		encMsgs = runPairs("encodings", encDescs, func(a c06Desc) bool { return r.Quick() || (a.Signer == 0 && a.Height == 1) })
	}
	if r.Thorough() && atomic.LoadInt32(&stop) == 0 {
		// extended universe: 3 signers x 3 heights x 3 rounds x 4 nids; tx points on
		// the slice whose first message is (k1, height 1)
		runPairs("extended", c06Universe(3, 3, 3, 4), func(a c06Desc) bool { return a.Signer == 0 && a.Height == 1 })
	}
	n := len(descs)
	complete := stop == 0

	// triples inside one key group
	var triples int64
	runTriples := func(msgs []*c06Msg) {
		for kind := 0; kind < 3; kind++ {
			var grp []*c06Msg
			for _, m := range msgs {
				if m.d.Signer == 0 && m.d.Height == 1 && m.d.Round == 0 && m.d.Kind == kind {
					grp = append(grp, m)
				}
			}
			g := len(grp)
			ev.Par(g*g*g, 16, func(idx int) {
				c.triple([3]*c06Msg{grp[idx/(g*g)], grp[idx/g%g], grp[idx%g]})
				atomic.AddInt64(&triples, 1)
			})
		}
	}
	if complete {
		runTriples(copy1)
		runTriples(encMsgs)
	}

	cls := map[string]int64{}
	classes.Range(func(k, v interface{}) bool { cls[k.(string)] = *(v.(*int64)); return true })
	r.Set("pair_classes", cls)
	r.Set("universes", universes)
	var unsup []string
	unsupported.Range(func(k, v interface{}) bool { unsup = append(unsup, k.(string)); return true })
	sort.Strings(unsup)
	r.Set("encodings_not_accepted_by_goloop", unsup)
	_ = n
	r.Set("dsmlog_triples", triples)
	pts := []string{c06PConflict, c06PLog, c06PDirect, c06PParsed, c06PLog3}
	acc := map[string]int64{}
	rej := map[string]int64{}
	for i, p := range pts {
		acc[p] = c.accepted[i]
		rej[p] = c.rejected[i]
	}
	r.Set("accepted_as_evidence", acc)
	r.Set("rejected", rej)
	r.Set("tx_points_cover_all_pairs", txAll)
	if complete && r.Violations() == 0 {
		var keys []string
		for k := range cls {
			keys = append(keys, k)
		}
		sort.Strings(keys)
		nBase := 0
		for _, k := range keys {
			if strings.HasPrefix(k, "base:") {
				nBase++
			}
		}
		r.Sanity(nBase == 7, "expected genuine + 6 one-clause classes in the base universe, got %v", keys)
		r.Sanity(cls["encodings:only-identical-fails"] > int64(len(encMsgs)), "no cross-encoding pairs of one signed content (%d)", cls["encodings:only-identical-fails"])
		r.Sanity(len(unsup) == 0, "wire forms not accepted by goloop any more: %v (the encoding universe is smaller than stated)", unsup)
		for i := range pts {
			r.Sanity(c.accepted[i] > 0 && c.rejected[i] > 0, "point %s accepted=%d rejected=%d", pts[i], c.accepted[i], c.rejected[i])
		}
	}
	a, b := copy1[0], copy1[1]
	r.Sample(map[string]interface{}{"a": a.d, "b": b.d, "genuine": len(c06Genuine(a.d, b.d)) == 0, "IsConflictWith": a.dsd.IsConflictWith(b.dsd)})
	for i, d := range descs {
		if d.Kind == 1 && d.NID == 1 && d.Dec == 0 {
			for j, e := range descs {
				if e.Kind == 1 && e.NID == 2 && e.Dec == 1 && e.Signer == d.Signer && e.Height == d.Height && e.Round == d.Round {
					r.Sample(map[string]interface{}{"a": d, "b": e, "statement_fails": c06Genuine(d, e), "IsConflictWith": copy1[i].dsd.IsConflictWith(copy1[j].dsd)})
					goto done
				}
			}
		}
	}
done:
	r.Finish(complete)
}
