//go:build verif

package service

import (
	"encoding/base64"
	"encoding/hex"
	"fmt"
	"math/big"
	"sort"
	"strings"
	"sync"
	"testing"
	"time"

	"golang.org/x/crypto/sha3"

	"github.com/icon-project/goloop/common"
	"github.com/icon-project/goloop/common/crypto"
	"github.com/icon-project/goloop/common/db"
	"github.com/icon-project/goloop/common/log"
	"github.com/icon-project/goloop/common/txlocator"
	"github.com/icon-project/goloop/module"
	"github.com/icon-project/goloop/service/scoredb"
	"github.com/icon-project/goloop/service/state"
	"github.com/icon-project/goloop/service/transaction"
	"github.com/icon-project/goloop/verifshim/ev"
	"github.com/icon-project/goloop/verifshim/opseq"
)

// ---------------------------------------------------------------------------
// Fixture constants (the harness' own copy of the chain parameters)
// ---------------------------------------------------------------------------

const (
	c37Height   = int64(10)
	c37BTS      = int64(1_000_000_000) // block timestamp, microseconds
	c37ThMS     = int64(3)             // timestamp_threshold system variable (ms)
	c37Th       = c37ThMS * 1000       // the same in microseconds
	c37Price    = int64(10)            // step price
	c37MinStep  = int64(100)           // "default" step cost, no data
	c37Bal      = int64(10000)         // initial balance of the funded senders
	c37Fee      = c37MinStep * c37Price
	c37PoolSize = 100
)

type c37Platform struct{}

func (c37Platform) ToRevision(value int) module.Revision { return module.LatestRevision }

type c37Monitor struct{}

func (c37Monitor) OnDropTx(n int, user bool)                         {}
func (c37Monitor) OnAddTx(n int, user bool)                          {}
func (c37Monitor) OnRemoveTx(n int, user bool)                       {}
func (c37Monitor) OnCommit(id []byte, ts time.Time, d time.Duration) {}

// ---------------------------------------------------------------------------
// Universe of transactions
// ---------------------------------------------------------------------------

type c37Spec struct {
	From, To string // "A","B","C"
	Value    int64
	TS       int64
	Step     int64
	Nonce    int64
	Note     string
}

type c37Tx struct {
	spec c37Spec
	tx   transaction.Transaction
	id   string
	size int
	from string // address string
	to   string
}

func c37Universe(thorough bool) []c37Spec {
	u := []c37Spec{
		{"A", "C", 0, c37BTS, c37MinStep, 0, "cheap valid"},
		{"A", "C", 5000, c37BTS, c37MinStep, 1, "half"},
		{"A", "C", 5000, c37BTS - c37Th + 1, c37MinStep, 2, "half, earliest valid timestamp"},
		{"A", "C", 9000, c37BTS, c37MinStep, 3, "exactly balance-fee"},
		{"A", "C", 10000, c37BTS, c37MinStep, 4, "value=balance (fee not affordable)"},
		{"A", "C", 0, c37BTS - c37Th, c37MinStep, 5, "expired by one tick"},
		{"A", "C", 0, c37BTS + c37Th, c37MinStep, 6, "latest valid timestamp"},
		{"A", "C", 0, c37BTS + c37Th + 1, c37MinStep, 7, "future by one tick"},
		{"A", "C", 0, c37BTS, c37MinStep - 1, 8, "stepLimit one below minimum"},
		{"C", "B", 4000, c37BTS, c37MinStep, 9, "unfunded sender: affordable only after a 5000 credit"},
		{"C", "B", 0, c37BTS - 1, c37MinStep, 10, "unfunded sender: needs the fee"},
		{"B", "A", 9000, c37BTS, c37MinStep, 11, "credits A"},
		{"B", "A", 5000, c37BTS + c37Th, c37MinStep, 12, "credits A, latest timestamp"},
		{"A", "A", 5000, c37BTS, c37MinStep, 13, "self transfer with value (net effect: only the fee)"},
	}
	if thorough {
		u = append(u,
			c37Spec{"A", "B", 5000, c37BTS + 1, c37MinStep, 14, "half to B"},
			c37Spec{"B", "C", 5000, c37BTS - c37Th + 1, c37MinStep, 15, "B credits C"},
			c37Spec{"C", "A", 5000, c37BTS, c37MinStep, 16, "unfunded sender: needs two credits"},
			c37Spec{"A", "C", 1, c37BTS - c37Th, c37MinStep, 17, "expired with value"},
			c37Spec{"B", "A", 10000, c37BTS, c37MinStep, 18, "B value=balance"},
			c37Spec{"C", "B", 0, c37BTS + c37Th + 1, c37MinStep, 19, "future, unfunded"},
		)
	}
	return u
}

type c37Fixture struct {
	keys map[string]*crypto.PrivateKey
	addr map[string]string
	txs  []*c37Tx
}

func c37NewFixture(thorough bool) *c37Fixture {
	f := &c37Fixture{keys: map[string]*crypto.PrivateKey{}, addr: map[string]string{}}
	for _, n := range []string{"A", "B", "C"} {
		h := sha3.Sum256([]byte("verif-c37-key-" + n))
		k, err := crypto.ParsePrivateKey(h[:])
		if err != nil {
			panic(err)
		}
		f.keys[n] = k
		f.addr[n] = common.NewAccountAddressFromPublicKey(k.PublicKey()).String()
	}
	for _, s := range c37Universe(thorough) {
		mk := func(sig string) []byte {
			return []byte(fmt.Sprintf(`{"version":"0x3","from":"%s","to":"%s","value":"0x%x","stepLimit":"0x%x","timestamp":"0x%x","nid":"0x1","nonce":"0x%x","signature":"%s"}`,
				f.addr[s.From], f.addr[s.To], s.Value, s.Step, s.TS, s.Nonce, sig))
		}
		un, err := transaction.NewTransactionFromJSON(mk(""))
		if err != nil {
			panic(err)
		}
		sig, err := crypto.NewSignature(un.ID(), f.keys[s.From])
		if err != nil {
			panic(err)
		}
		rsv, _ := sig.SerializeRSV()
		tx, err := transaction.NewTransactionFromJSON(mk(base64.StdEncoding.EncodeToString(rsv)))
		if err != nil {
			panic(err)
		}
		if err := tx.Verify(); err != nil {
			panic(err)
		}
		f.txs = append(f.txs, &c37Tx{spec: s, tx: tx, id: string(tx.ID()), size: len(tx.Bytes()), from: f.addr[s.From], to: f.addr[s.To]})
	}
	return f
}

// ---------------------------------------------------------------------------
// World state fixture (one per worker: nothing is shared between goroutines)
// ---------------------------------------------------------------------------

type c37World struct {
	dbase db.Database
	wss   state.WorldSnapshot
}

func c37NewWorld(f *c37Fixture) *c37World {
	dbase := db.NewMapDB()
	ws := state.NewWorldState(dbase, nil, nil, nil, nil)
	sys := ws.GetAccountState(state.SystemID)
	as := sys // AccountState is a writable BytesStoreState
	must := func(err error) {
		if err != nil {
			panic(err)
		}
	}
	must(scoredb.NewVarDB(as, state.VarStepPrice).Set(c37Price))
	must(scoredb.NewArrayDB(as, state.VarStepTypes).Put(string(state.StepTypeDefault)))
	must(scoredb.NewArrayDB(as, state.VarStepTypes).Put(string(state.StepTypeInput)))
	must(scoredb.NewDictDB(as, state.VarStepCosts, 1).Set(string(state.StepTypeDefault), c37MinStep))
	must(scoredb.NewDictDB(as, state.VarStepCosts, 1).Set(string(state.StepTypeInput), int64(1)))
	must(scoredb.NewVarDB(as, state.VarTimestampThreshold).Set(c37ThMS))
	for _, n := range []string{"A", "B"} {
		a := common.MustNewAddressFromString(f.addr[n])
		ws.GetAccountState(a.ID()).SetBalance(big.NewInt(c37Bal))
	}
	wss := ws.GetSnapshot()
	must(wss.Flush())
	return &c37World{dbase: dbase, wss: wss}
}

func (w *c37World) freshContext() state.WorldContext {
	ws, err := state.WorldStateFromSnapshot(w.wss)
	if err != nil {
		panic(err)
	}
	return state.NewWorldContext(ws, common.NewBlockInfo(c37Height, c37BTS), nil, c37Platform{})
}

// ---------------------------------------------------------------------------
// One case
// ---------------------------------------------------------------------------

type c37Case struct {
	Tier      string    `json:"universe_tier"`
	Seq       []int     `json:"insertion_order"` // indices into the universe, in insertion order (repeats = re-submission)
	Committed []int     `json:"precommitted"`    // universe indices already in a finalized block
	MaxBytes  int       `json:"max_bytes"`
	MaxCount  int       `json:"max_count"`
	Direct    bool      `json:"direct"`
	Restart   int       `json:"restart"` // 0 none, 1 before first pass, 2 before first pass + one finalize, 3 between passes
	Specs     []c37Spec `json:"specs,omitempty"`
}

type c37Stats struct {
	mu                                                  sync.Mutex
	selected, omittedValid, rejExpired, rejFuture       int64
	rejCommitted, rejBalance, rejStep, cutByLimit       int64
	cumulativeMattered, creditMattered, round2Reselects int64
	outcomes                                            map[string]struct{}
	byRestart                                           [4]int64
	committedEarlierLife                                int64
}

type c37Ctx struct {
	r     *ev.Run
	f     *c37Fixture
	log   log.Logger
	stats c37Stats
}

// model is the harness' own accounting of balances.
type c37Model struct{ bal map[string]int64 }

func c37NewModel(f *c37Fixture) *c37Model {
	return &c37Model{bal: map[string]int64{f.addr["A"]: c37Bal, f.addr["B"]: c37Bal, f.addr["C"]: 0}}
}

func (m *c37Model) affordable(t *c37Tx) bool {
	return t.spec.Step >= c37MinStep && m.bal[t.from] >= t.spec.Value+t.spec.Step*c37Price
}

func (m *c37Model) apply(t *c37Tx) {
	m.bal[t.from] -= t.spec.Value + t.spec.Step*c37Price
	m.bal[t.to] += t.spec.Value
}

func c37InWindow(ts int64) bool { return ts > c37BTS-c37Th && ts <= c37BTS+c37Th }

// c37Node is one "life" of the node's transaction bookkeeping: locator
// manager, TXID manager and pool on a locator database that survives restarts.
type c37Node struct {
	lm   module.LocatorManager
	tim  TXIDManager
	pool *TransactionPool
}

func (c *c37Ctx) startNode(ldb db.Database) *c37Node {
	lm, err := txlocator.NewManager(ldb, c.log)
	if err != nil {
		panic(err)
	}
	tim, _ := NewTXIDManager(lm, NewTimestampChecker(), nil)
	pool := NewTransactionPool(module.TransactionGroupNormal, c37PoolSize, tim, c37Monitor{}, c.log)
	return &c37Node{lm, tim, pool}
}

// stop ends a life: Term waits until every committed locator is in the database.
func (n *c37Node) stop() { n.lm.Term() }

func (n *c37Node) finalize(w *c37World, height, ts int64, l []module.Transaction, force bool) error {
	tr := n.tim.NewLogger(module.TransactionGroupNormal, height, ts)
	if _, err := tr.Add(transaction.NewTransactionListFromSlice(w.dbase, l), force); err != nil {
		return err
	}
	return tr.Commit()
}

const (
	c37NoRestart           = 0
	c37RestartBefore       = 1 // restart after the pre-committed block, before the first Candidate pass
	c37RestartThenFinalize = 2 // same, and the new life finalizes exactly one (empty) block before the pass
	c37RestartBetween      = 3 // restart between the two Candidate passes
)

var c37RestartName = []string{"none", "before-first-pass", "before-first-pass+one-finalize", "between-passes"}

func (c *c37Ctx) runCase(w *c37World, cs c37Case) {
	r, f := c.r, c.f
	r.Eval(1)
	for _, i := range cs.Seq {
		cs.Specs = append(cs.Specs, f.txs[i].spec)
	}
	ldb := db.NewMapDB() // locator database: survives restarts
	node := c.startNode(ldb)
	defer func() { node.stop() }()

	committed := map[string]bool{}
	if len(cs.Committed) > 0 {
		var l []module.Transaction
		for _, i := range cs.Committed {
			l = append(l, f.txs[i].tx)
			committed[f.txs[i].id] = true
		}
		if err := node.finalize(w, c37Height-2, c37BTS-1000, l, true); err != nil {
			panic(err)
		}
	}
	if cs.Restart == c37RestartBefore || cs.Restart == c37RestartThenFinalize {
		node.stop()
		node = c.startNode(ldb)
		if cs.Restart == c37RestartThenFinalize {
			if err := node.finalize(w, c37Height-1, c37BTS-500, nil, true); err != nil {
				panic(err)
			}
		}
	}
	inPool := map[string]*c37Tx{}
	fill := func() bool {
		for _, i := range cs.Seq {
			t := f.txs[i]
			err := node.pool.Add(t.tx, cs.Direct)
			if node.pool.HasTx(t.tx.ID()) && err == ErrDuplicateTransaction {
				// re-submission of something already in this pool
			} else if err != nil {
				r.Violation("pool-add-failed", fmt.Sprintf("Add returned %v", err), cs)
				return false
			}
			inPool[t.id] = t
		}
		return true
	}
	// duplicate Add must be refused (only meaningful for repeated elements)
	seenAdd := map[string]bool{}
	for _, i := range cs.Seq {
		t := f.txs[i]
		err := node.pool.Add(t.tx, cs.Direct)
		if seenAdd[t.id] {
			if err != ErrDuplicateTransaction {
				r.Violation("pool-accepts-duplicate-add", fmt.Sprintf("second Add of the same transaction returned %v", err), cs)
			}
		} else if err != nil {
			r.Violation("pool-add-failed", fmt.Sprintf("Add returned %v", err), cs)
		}
		seenAdd[t.id] = true
		inPool[t.id] = t
	}

	outcome := make([]string, 0, 2)
	for round := 1; round <= 2; round++ {
		wc := w.freshContext()
		var txs []module.Transaction
		var size int
		if p := ev.Catch(func() { txs, size = node.pool.Candidate(wc, cs.MaxBytes, cs.MaxCount) }); p != "" {
			r.Violation(fmt.Sprintf("candidate-panics/round%d", round), p, cs)
			return
		}
		sel := c.checkBlock(w, node.tim, cs, round, txs, size, inPool, committed)
		if sel == nil {
			return
		}
		outcome = append(outcome, strings.Join(sel, ","))
		if round == 2 || (len(txs) == 0 && cs.Restart != c37RestartBetween) {
			break
		}
		// Another proposer's block with exactly these transactions gets
		// finalized (ids committed through the real tracker); our pool is not
		// told to remove them. Proposing again must not re-select them.
		if err := node.finalize(w, c37Height, c37BTS, txs, false); err != nil {
			// already reported by checkBlock
			return
		}
		for _, t := range txs {
			committed[string(t.ID())] = true
		}
		if cs.Restart == c37RestartBetween {
			// the node goes down and comes back on the same database; the
			// same transactions are delivered to it again
			node.stop()
			node = c.startNode(ldb)
			if !fill() {
				return
			}
		}
	}
	c.stats.mu.Lock()
	c.stats.outcomes[strings.Join(outcome, "|")] = struct{}{}
	c.stats.byRestart[cs.Restart]++
	c.stats.mu.Unlock()
}

// checkBlock treats the candidate list as the normal transactions of the
// block (height c37Height, timestamp c37BTS) and validates it the way a peer
// would, plus with the harness' own arithmetic. Returns the selected universe
// notes (nil after a violation).
func (c *c37Ctx) checkBlock(w *c37World, tim TXIDManager, cs c37Case, round int, txs []module.Transaction, size int,
	inPool map[string]*c37Tx, committed map[string]bool) []string {
	r, f := c.r, c.f
	_ = f
	rd := fmt.Sprintf("round%d", round)
	desc := func() string {
		var b strings.Builder
		fmt.Fprintf(&b, "pool (insertion order): ")
		for _, i := range cs.Seq {
			s := c.f.txs[i].spec
			fmt.Fprintf(&b, "[#%d %s->%s v=%d ts=bts%+d step=%d] ", i, s.From, s.To, s.Value, s.TS-c37BTS, s.Step)
		}
		fmt.Fprintf(&b, "\n committed=%v maxBytes=%d maxCount=%d direct=%v restart=%s %s\n selected: ", cs.Committed, cs.MaxBytes, cs.MaxCount, cs.Direct, c37RestartName[cs.Restart], rd)
		for _, t := range txs {
			if u := inPool[string(t.ID())]; u != nil {
				fmt.Fprintf(&b, "#%d ", u.spec.Nonce)
			} else {
				fmt.Fprintf(&b, "?%x ", t.ID())
			}
		}
		return b.String()
	}
	sel := []string{}
	seen := map[string]bool{}
	model := c37NewModel(c.f)
	total := 0
	st := &c.stats
	for pos, t := range txs {
		u := inPool[string(t.ID())]
		if u == nil {
			r.Violation("selected-transaction-not-in-pool/"+rd, desc(), cs)
			return nil
		}
		if seen[u.id] {
			r.Violation("selected-twice-in-one-block/"+rd, desc(), cs)
			return nil
		}
		seen[u.id] = true
		sel = append(sel, fmt.Sprint(u.spec.Nonce))
		total += u.size
		// (1) timestamp window, harness arithmetic
		if !c37InWindow(u.spec.TS) {
			rel := "ts<=bts-th"
			if u.spec.TS > c37BTS {
				rel = "ts>bts+th"
			}
			r.Violation(fmt.Sprintf("selected-outside-timestamp-window/%s/delta=%+d/%s", rel, u.spec.TS-c37BTS, rd), desc(), cs)
			return nil
		}
		// (2) not included before
		if committed[u.id] {
			r.Violation("selected-already-committed/restart="+c37RestartName[cs.Restart]+"/"+rd, desc(), cs)
			return nil
		}
		// (3) affordable given everything selected before it (harness model)
		if !model.affordable(u) {
			why := "balance"
			if u.spec.Step < c37MinStep {
				why = "stepLimit"
			}
			r.Violation(fmt.Sprintf("selected-not-affordable-cumulatively/%s/position=%d/%s", why, pos, rd),
				desc()+fmt.Sprintf("\n model balance of sender before it: %d, needs %d", model.bal[u.from], u.spec.Value+u.spec.Step*c37Price), cs)
			return nil
		}
		// vacuity: did the cumulative effect matter for this position?
		fresh := c37NewModel(c.f)
		if pos > 0 && !fresh.affordable(u) {
			st.mu.Lock()
			st.creditMattered++
			st.mu.Unlock()
		}
		model.apply(u)
	}
	// (4) limits
	if cs.MaxCount > 0 && len(txs) > cs.MaxCount {
		r.Violation("more-than-maxCount/"+rd, desc(), cs)
		return nil
	}
	if cs.MaxBytes > 0 && total > cs.MaxBytes {
		r.Violation("more-than-maxBytes/"+rd, desc()+fmt.Sprintf("\n bytes=%d", total), cs)
		return nil
	}
	if size != total {
		r.Violation("reported-size-differs/"+rd, desc()+fmt.Sprintf("\n reported=%d actual=%d", size, total), cs)
		return nil
	}
	// (5) the real validation gates of a peer, on a fresh context
	if len(txs) > 0 {
		wc2 := w.freshContext()
		tsr := NewTxTimestampRangeFor(wc2, module.TransactionGroupNormal)
		for pos, t := range txs {
			tx := t.(transaction.Transaction)
			if err := tx.Verify(); err != nil {
				r.Violation("peer-gate-verify/"+rd, desc()+"\n "+err.Error(), cs)
				return nil
			}
			if err := tsr.CheckTx(tx); err != nil {
				r.Violation("peer-gate-timestamp/"+rd, desc()+"\n "+err.Error(), cs)
				return nil
			}
			if err := tx.PreValidate(wc2, true); err != nil {
				r.Violation(fmt.Sprintf("peer-gate-prevalidate/position=%d/%s", pos, rd), desc()+"\n "+err.Error(), cs)
				return nil
			}
		}
		// duplicate gate: a non-forced Add on a tracker built on the same
		// committed history (a throw-away tracker: nothing is committed here)
		tr := tim.NewLogger(module.TransactionGroupNormal, c37Height, c37BTS)
		if _, err := tr.Add(transaction.NewTransactionListFromSlice(w.dbase, txs), false); err != nil {
			r.Violation("peer-gate-duplicate/"+rd, desc()+"\n "+err.Error(), cs)
			return nil
		}
		// the real post-state must equal the model's
		for _, n := range []string{"A", "B", "C"} {
			a := common.MustNewAddressFromString(c.f.addr[n])
			got := wc2.GetAccountState(a.ID()).GetBalance()
			if got.Cmp(big.NewInt(model.bal[c.f.addr[n]])) != 0 {
				r.Violation("prevalidate-balance-effect-differs-from-model/"+rd,
					fmt.Sprintf("after validating the block, balance of %s is %s; debit(value+limit*price)/credit(value) accounting gives %d\n%s", n, got, model.bal[c.f.addr[n]], desc()), cs)
				return nil
			}
		}
	}
	// statistics about what was left out (no liveness claim: never an alarm)
	st.mu.Lock()
	st.selected += int64(len(txs))
	cut := (cs.MaxCount > 0 && len(txs) == cs.MaxCount) || cs.MaxBytes > 0
	for id, u := range inPool {
		if seen[id] {
			continue
		}
		switch {
		case u.spec.TS <= c37BTS-c37Th:
			st.rejExpired++
		case u.spec.TS > c37BTS+c37Th:
			st.rejFuture++
		case committed[id]:
			st.rejCommitted++
			if cs.Restart != c37NoRestart {
				st.committedEarlierLife++
			}
		case u.spec.Step < c37MinStep:
			st.rejStep++
		case !model.affordable(u):
			st.rejBalance++
			if c37NewModel(c.f).affordable(u) {
				st.cumulativeMattered++
			}
		case cut:
			st.cutByLimit++
		default:
			st.omittedValid++
		}
	}
	st.mu.Unlock()
	return sel
}

// ---------------------------------------------------------------------------

func c37Distinct(seq []int) []int {
	m := map[int]bool{}
	var out []int
	for _, i := range seq {
		if !m[i] {
			m[i] = true
			out = append(out, i)
		}
	}
	sort.Ints(out)
	return out
}

func TestVerifC37(t *testing.T) {
	r := ev.Start(t, "C37", "exploration")
	r.Rule("every insertion sequence (with repetition) of length 1..L over a fixed universe of real signed v3 transactions " +
		"(3 senders incl. an unfunded one, recipients incl. the sender itself (self transfer with value, both tiers), values {0, half, balance-fee, balance}, timestamps {bts-th, bts-th+1, bts-1, bts, bts+1, bts+th, bts+th+1}, stepLimit {min-1, min}) " +
		"x pre-committed subset {none, each single distinct tx, all} x limits {none, maxCount 1, maxCount 2, maxBytes = first tx, first tx+1, first two} x direct {true,false} (length-4 sequences: committed {none, all}, limits {none, maxCount 2}); " +
		"each case: Candidate, validate as a block, commit the selection elsewhere, Candidate again; RESTART dimension (every sequence x committed subset x limits {none, maxCount 1}): the pre-committed block is finalized by one life of the node (real TXIDManager + locator manager on a database), then a NEW locator manager/TXIDManager/pool is started on the same database before the first pass, or before it plus exactly one finalized empty block, or between the two passes (pool refilled with the same transactions); non-trivial = distinct case")
	r.Assume("the pool holds only signature-verified transactions of the right network (that is what TransactionManager.Add guarantees)",
		"the asynchronous `go tp.dropTransactions(dropped)` in Candidate is run synchronously (overlay rewrite of that one statement) so that the second Candidate call is deterministic",
		"state fixture: step price 10, default step cost 100, threshold 3 ms, two funded senders (10000) and one unfunded; no contracts, no data payloads",
		"no liveness claim: omitted valid transactions are counted, never reported")
	thorough := r.Thorough()
	f := c37NewFixture(thorough)
	lg := log.New()
	lg.SetLevel(log.FatalLevel)
	c := &c37Ctx{r: r, f: f, log: lg}
	c.stats.outcomes = map[string]struct{}{}

	if ev.Replaying() {
		var cs c37Case
		ev.ReplayCase(&cs)
		if (cs.Tier == "thorough") != thorough {
			c.f = c37NewFixture(cs.Tier == "thorough")
		}
		cs.Specs = nil
		c.runCase(c37NewWorld(c.f), cs)
		r.Finish(false)
		return
	}

	// sanity of the fixture itself: window arithmetic agrees with the real range on every universe element
	{
		w := c37NewWorld(f)
		wc := w.freshContext()
		tsr := NewTxTimestampRangeFor(wc, module.TransactionGroupNormal)
		for _, u := range f.txs {
			if (tsr.CheckTx(u.tx) == nil) != c37InWindow(u.spec.TS) {
				// not a harness error: it is exactly what (1) vs (5) would show; just make it visible early
				fmt.Printf("note: real timestamp range and harness window disagree on ts=bts%+d\n", u.spec.TS-c37BTS)
			}
		}
		r.Sanity(wc.StepPrice() != nil && wc.StepPrice().Int64() == c37Price, "step price fixture")
		r.Sanity(wc.StepsFor(state.StepTypeDefault, 1) == c37MinStep, "step cost fixture")
		r.Sanity(TransactionTimestampThreshold(wc, module.TransactionGroupNormal) == c37Th, "threshold fixture")
	}

	maxLen := r.Pick(3, 4)
	n := len(f.txs)
	var cases []c37Case
	opseq.Sequences(n, 1, maxLen, func(seq []int) bool {
		s := append([]int(nil), seq...)
		d := c37Distinct(s)
		commits := [][]int{nil}
		for _, i := range d {
			commits = append(commits, []int{i})
		}
		if len(d) > 1 {
			commits = append(commits, d)
		}
		first := f.txs[s[0]].size
		limits := [][2]int{{0, 0}, {0, 1}, {0, 2}, {first, 0}, {first + 1, 0}}
		if len(s) > 1 {
			limits = append(limits, [2]int{first + f.txs[s[1]].size, 0})
		}
		if len(s) == 4 {
			// longest sequences of the thorough tier: reduced side dimensions
			commits = [][]int{nil, d}
			limits = [][2]int{{0, 0}, {0, 2}}
		}
		for _, cm := range commits {
			for _, lim := range limits {
				for _, direct := range []bool{true, false} {
					cases = append(cases, c37Case{Tier: r.Tier(), Seq: s, Committed: cm, MaxBytes: lim[0], MaxCount: lim[1], Direct: direct})
				}
			}
		}
		// restart dimension: every committed subset again, limits {none, maxCount 1}
		// (length 4: {none}), restart before the first pass (needs a
		// pre-committed block), the same plus one finalize, and between the passes
		rlimits := [][2]int{{0, 0}, {0, 1}}
		if len(s) == 4 {
			rlimits = rlimits[:1]
		}
		for _, cm := range commits {
			for _, lim := range rlimits {
				for _, mode := range []int{c37RestartBefore, c37RestartThenFinalize, c37RestartBetween} {
					if len(cm) == 0 && mode != c37RestartBetween {
						continue
					}
					cases = append(cases, c37Case{Tier: r.Tier(), Seq: s, Committed: cm, MaxBytes: lim[0], MaxCount: lim[1], Direct: true, Restart: mode})
				}
			}
		}
		return true
	})
	r.Set("universe", n)
	r.Set("max_sequence_length", maxLen)
	r.Set("cases", len(cases))

	const workers = 16
	var next int64
	var nmu sync.Mutex
	var wg sync.WaitGroup
	done := int64(0)
	doneByLen := map[int]int64{}
	totalByLen := map[int]int64{}
	for _, cs := range cases {
		totalByLen[len(cs.Seq)]++
	}
	for wk := 0; wk < workers; wk++ {
		wg.Add(1)
		go func() {
			defer wg.Done()
			w := c37NewWorld(f)
			for {
				nmu.Lock()
				i := next
				next++
				nmu.Unlock()
				if i >= int64(len(cases)) || r.Expired() {
					return
				}
				cs := cases[i]
				if p := ev.Catch(func() { c.runCase(w, cs) }); p != "" {
					r.Violation("harness-or-code-panic", p, cs)
				}
				r.Nontrivial(fmt.Sprintf("%v|%v|%d|%d|%v|%d", cs.Seq, cs.Committed, cs.MaxBytes, cs.MaxCount, cs.Direct, cs.Restart))
				nmu.Lock()
				done++
				doneByLen[len(cs.Seq)]++
				nmu.Unlock()
			}
		}()
	}
	wg.Wait()
	exhaustive := done == int64(len(cases))
	st := &c.stats
	r.Set("cases_done", done)
	byLen := map[string]string{}
	for l, tot := range totalByLen {
		byLen[fmt.Sprint(l)] = fmt.Sprintf("%d/%d", doneByLen[l], tot)
	}
	r.Set("cases_done_by_sequence_length", byLen)
	r.Set("selected_total", st.selected)
	r.Set("left_out", map[string]int64{"expired": st.rejExpired, "future": st.rejFuture, "already_committed": st.rejCommitted,
		"stepLimit": st.rejStep, "balance": st.rejBalance, "cut_by_limit": st.cutByLimit, "valid_but_omitted": st.omittedValid})
	r.Set("left_out_only_because_of_cumulative_debit", st.cumulativeMattered)
	r.Set("selected_only_thanks_to_earlier_credit", st.creditMattered)
	r.Set("distinct_outcomes", len(st.outcomes))
	r.Set("cases_by_restart_mode", map[string]int64{"none": st.byRestart[0], "before-first-pass": st.byRestart[1], "before-first-pass+one-finalize": st.byRestart[2], "between-passes": st.byRestart[3]})
	r.Set("left_out_committed_in_an_earlier_life", st.committedEarlierLife)
	if exhaustive {
		r.Sanity(st.selected > 0 && st.rejExpired > 0 && st.rejFuture > 0 && st.rejCommitted > 0 && st.rejStep > 0 && st.rejBalance > 0 && st.cutByLimit > 0,
			"every rejection reason must occur: %+v", map[string]int64{"sel": st.selected, "exp": st.rejExpired, "fut": st.rejFuture, "com": st.rejCommitted, "step": st.rejStep, "bal": st.rejBalance, "cut": st.cutByLimit})
		r.Sanity(st.cumulativeMattered > 0 && st.creditMattered > 0, "cumulative effects must matter: debit=%d credit=%d", st.cumulativeMattered, st.creditMattered)
		r.Sanity(st.byRestart[1] > 0 && st.byRestart[2] > 0 && st.byRestart[3] > 0 && st.committedEarlierLife > 0, "restart dimension vacuous: %v %d", st.byRestart, st.committedEarlierLife)
		r.Sanity(len(st.outcomes) > 20, "too few distinct outcomes: %d", len(st.outcomes))
	}
	for _, i := range []int{0, len(cases) / 2, len(cases) - 1} {
		cs := cases[i]
		for _, j := range cs.Seq {
			cs.Specs = append(cs.Specs, f.txs[j].spec)
		}
		r.Sample(cs)
	}
	r.Sample(map[string]interface{}{"universe": c37Universe(thorough), "bts": c37BTS, "th": c37Th, "price": c37Price, "min_step": c37MinStep, "balance": c37Bal,
		"addresses": f.addr, "first_tx_id": hex.EncodeToString([]byte(f.txs[0].id))})
	r.Finish(exhaustive)
}

// verifC37SyncGo replaces the one `go tp.dropTransactions(dropped)` statement of
// TransactionPool.Candidate (AST-level rewrite by the recipe): the drop runs
// synchronously so that the second Candidate call of a case is deterministic.
func verifC37SyncGo(f func()) { f() }
