//go:build verif

package consensus

// Reference model and helpers of the C03 check (see c03_test.go).

import (
	"bytes"
	"encoding/binary"
	"fmt"
	"sort"
	"strconv"
	"strings"
	"time"
)

// ---- operations of a write history ---------------------------------------------

type c03Op uint8

const (
	c03W0     c03Op = iota // WriteBytes(0-byte payload)
	c03W1                  // WriteBytes(1 byte)
	c03W5                  // WriteBytes(5 bytes)
	c03W4100               // WriteBytes(4100 bytes) > bufio buffer: partial flushes / direct write
	c03Sync                // Sync()
	c03Shift               // Shift(): sync, close tail, open next segment
	c03HkSoon              // doHousekeeping() right away (sync interval not yet elapsed)
	c03HkLate              // doHousekeeping() after more than SyncInterval since the eldest un-synced write
	c03Reopen              // Close() and OpenWALForWrite() again
	// record sizes derived from the limits the code compares sizes with
	c03W19     // FileLimit in use (20) - 1
	c03W20     // FileLimit in use
	c03W21     // FileLimit in use + 1
	c03W41     // 2 x FileLimit in use + 1
	c03WBigM1  // configWALFileLimit (2 MiB, the constant in wal.go) - 1
	c03WBig    // configWALFileLimit
	c03WBigP1  // configWALFileLimit + 1
	c03WBig2P1 // 2 x configWALFileLimit + 1
	c03NumOps
)

var c03OpNames = [...]string{"W0", "W1", "W5", "W4100", "Sync", "Shift", "HkSoon", "HkLate", "Reopen",
	"W19", "W20", "W21", "W41", "WLimit-1", "WLimit", "WLimit+1", "W2xLimit+1"}

func (o c03Op) String() string { return c03OpNames[o] }

func c03ParseOp(s string) c03Op {
	for i, n := range c03OpNames {
		if n == s {
			return c03Op(i)
		}
	}
	panic("unknown op " + s)
}

func (o c03Op) writeLen() int {
	switch o {
	case c03W0:
		return 0
	case c03W1:
		return 1
	case c03W5:
		return 5
	case c03W4100:
		return 4100
	case c03W19:
		return 19
	case c03W20:
		return 20
	case c03W21:
		return 21
	case c03W41:
		return 41
	case c03WBigM1:
		return configWALFileLimit - 1
	case c03WBig:
		return configWALFileLimit
	case c03WBigP1:
		return configWALFileLimit + 1
	case c03WBig2P1:
		return 2*configWALFileLimit + 1
	}
	return -1
}

func (o c03Op) isHousekeep() bool { return o == c03HkSoon || o == c03HkLate }

// WAL configuration of every writer the check opens: limits of a few dozen
// bytes so that rotation and head-segment deletion really happen; the ticker of
// the housekeeping goroutine never fires inside a run (1000 h), housekeeping is
// invoked directly by the harness.
var c03Cfg = WALConfig{
	FileLimit:            20,
	TotalLimit:           60,
	HousekeepingInterval: 1000 * time.Hour,
	SyncInterval:         time.Hour,
}

// c03Payload: record #id with the given length; every record of one execution
// is distinguishable from every other as far as its length allows (a 0-byte
// payload carries nothing; the sequence oracle copes with that).
func c03Payload(id, n int) []byte {
	b := make([]byte, n)
	for j := range b {
		b[j] = byte(id*37 + j*11 + 1)
	}
	if n > 0 {
		b[0] = byte(id + 1)
	}
	return b
}

// ---- independent frame scan (only used for classification and bookkeeping) --------

// c03Scan walks length-prefixed frames (4 bytes ignored, 4 bytes big-endian
// payload length, payload) and returns the payloads of all complete frames, the
// length of the complete part, and the declared payload length of a trailing
// incomplete frame whose header is complete (-1 if there is none).
func c03Scan(b []byte) (recs [][]byte, valid int, tornDeclared int) {
	tornDeclared = -1
	for {
		rest := b[valid:]
		if len(rest) < 8 {
			return
		}
		n := int(binary.BigEndian.Uint32(rest[4:8]))
		if len(rest)-8 < n {
			tornDeclared = n
			return
		}
		recs = append(recs, rest[8:8+n])
		valid += 8 + n
	}
}

// c03Segments returns the segment indexes present in a file-name -> content map
// for the WAL whose files are "<dir>/round_<n>", ascending.
func c03Segments(files map[string][]byte) []int {
	var idx []int
	for p := range files {
		if strings.HasPrefix(p, c03FilePrefix) {
			if n, err := strconv.Atoi(p[len(c03FilePrefix):]); err == nil {
				idx = append(idx, n)
			}
		}
	}
	sort.Ints(idx)
	return idx
}

const (
	c03Dir        = "/wal"
	c03Base       = "/wal/round"
	c03FilePrefix = "/wal/round_"
)

func c03SegPath(i int) string { return c03FilePrefix + strconv.Itoa(i) }

// ---- the oracle ---------------------------------------------------------------------

// c03Match decides whether the records read after a recovery, got, are
// acceptable for a log to which app was appended (in this order), of which
// app[:synced] is known to be durable and app[:floor] may have been deleted by
// housekeeping: got must equal app[a:a+len(got)] for some a (a contiguous run of
// the appended sequence: nothing invented, nothing corrupted, nothing skipped,
// order kept) and contain app[floor:synced]. It returns "" or the kind of failure.
func c03Match(app [][]byte, floor, synced int, got [][]byte) (kind string, a int) {
	if floor > synced {
		floor = synced
	}
	contiguous := false
	for a = 0; a+len(got) <= len(app); a++ {
		ok := true
		for i := range got {
			if !bytes.Equal(got[i], app[a+i]) {
				ok = false
				break
			}
		}
		if !ok {
			continue
		}
		contiguous = true
		if floor == synced || (a <= floor && a+len(got) >= synced) {
			return "", a
		}
	}
	if contiguous {
		return "synced-record-lost", -1
	}
	// which way is it not a run of the appended sequence?
	known := 0
	for _, g := range got {
		for _, x := range app {
			if bytes.Equal(g, x) {
				known++
				break
			}
		}
	}
	if known < len(got) {
		return "record-never-appended-returned", -1
	}
	return "records-skipped-or-reordered", -1
}

func c03Lens(recs [][]byte) string {
	var sb strings.Builder
	sb.WriteByte('[')
	for i, r := range recs {
		if i > 0 {
			sb.WriteByte(' ')
		}
		if len(r) > 0 {
			fmt.Fprintf(&sb, "#%d/%dB", int(r[0])-1, len(r))
		} else {
			sb.WriteString("#?/0B")
		}
	}
	sb.WriteByte(']')
	return sb.String()
}

func c03Concat(a [][]byte, b ...[]byte) [][]byte {
	out := make([][]byte, 0, len(a)+len(b))
	out = append(out, a...)
	return append(out, b...)
}

func c03Equal(a, b [][]byte) bool {
	if len(a) != len(b) {
		return false
	}
	for i := range a {
		if !bytes.Equal(a[i], b[i]) {
			return false
		}
	}
	return true
}
