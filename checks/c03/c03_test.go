//go:build verif

package consensus

// C03 — the write-ahead log recovers exactly the durable prefix after any crash;
// repeated crash/recover/append cycles never lose a synced record.
//
// The real consensus/wal.go runs over crashfs (its import "os" is rewritten by
// the overlay). The check enumerates
//
//	every history over {W0,W1,W5,W4100,Sync,Shift,HkSoon,HkLate,Reopen} up to a depth
//	x every crash point (every file-system call of the last operation; shorter
//	  histories provide the earlier ones)
//	x every surviving byte length of the un-synced suffix of every file
//
// recovers on the crash image exactly as consensus.applyRoundWAL does, appends
// and syncs, reads back, and then does the same again for every crash point and
// torn length of that recovery+append cycle (second generation).

import (
	"encoding/binary"
	"fmt"
	"runtime/debug"
	"sort"
	"strings"
	"sync"
	"sync/atomic"
	"testing"
	"time"

	"github.com/icon-project/goloop/verifshim/crashfs"
	"github.com/icon-project/goloop/verifshim/ev"
)

// ---- one worker = one mount prefix -------------------------------------------------

type c03Worker struct {
	prefix string // "/w7"
	id     string // WAL id as seen by wal.go: "/w7/wal/round"
}

var c03Workers chan *c03Worker

func c03InitWorkers(n int) {
	c03Workers = make(chan *c03Worker, n)
	for i := 0; i < n; i++ {
		p := fmt.Sprintf("/w%d", i)
		c03Workers <- &c03Worker{prefix: p, id: p + c03Base}
	}
}

// ---- recovery exactly as consensus.applyRoundWAL does it ------------------------------

type c03Recovery struct {
	recs     [][]byte
	how      string // "notexist", "eof", "repair"
	err      error  // what applyRoundWAL would return (other than not-exist)
	panicTxt string
}

// c03ReadLoop is the control flow of applyRoundWAL (consensus.go) without the
// message decoding: open for read, ReadBytes until an error; io.EOF ends the
// loop; corrupted / unexpected EOF -> CloseAndRepair and end; anything else is
// returned. repair=false gives a read-only pass (used to look at a log).
func c03ReadLoop(id string, repair bool) (res c03Recovery) {
	res.panicTxt = ev.Catch(func() {
		wr, err := OpenWALForRead(id)
		if err != nil {
			if IsNotExist(err) { // applyWAL ignores not-exist
				res.how = "notexist"
				return
			}
			res.err = err
			return
		}
		defer func() {
			if err := wr.Close(); err != nil && res.err == nil {
				res.err = err
			}
		}()
		for {
			bs, err := wr.ReadBytes()
			if IsEOF(err) {
				res.how = "eof"
				break
			} else if IsCorruptedWAL(err) || IsUnexpectedEOF(err) {
				res.how = "repair"
				if repair {
					if err := wr.CloseAndRepair(); err != nil {
						res.err = err
						return
					}
				}
				break
			} else if err != nil {
				res.err = err
				return
			}
			res.recs = append(res.recs, bs)
		}
	})
	return
}

// ---- one crash/recover/append cycle ---------------------------------------------------

type c03Viol struct {
	kind   string
	detail string
}

type c03Cycle struct {
	fs       *crashfs.FS
	rec      c03Recovery
	cause    string // root-cause classification of a defect pattern seen in this cycle ("" = none)
	shape    string // shape of the image: segments and tail
	newRecs  [][]byte
	syncDone int // crash points >= syncDone have the appended records synced
	viol     []c03Viol
	final    [][]byte
}

// c03Shape describes the crash image: number of segments and what the tail
// segment ends with.
func c03Shape(img *crashfs.Image) (shape string, orphanHeader bool) {
	segs := c03Segments(img.Files)
	if len(segs) == 0 {
		return "segments=0", false
	}
	tail := img.Files[c03SegPath(segs[len(segs)-1])]
	_, valid, torn := c03Scan(tail)
	left := len(tail) - valid
	ts := "clean"
	switch {
	case left == 0:
	case left < 8:
		ts = "torn-header"
	case left == 8 && torn > 0:
		ts = "header-only"
		orphanHeader = true
	default:
		ts = "torn-payload"
	}
	return fmt.Sprintf("segments=%d,tail=%s", len(segs), ts), orphanHeader
}

// c03HasGap: a segment index between the lowest and the highest is missing.
func c03HasGap(img *crashfs.Image) bool {
	segs := c03Segments(img.Files)
	return len(segs) > 0 && segs[len(segs)-1]-segs[0]+1 != len(segs)
}

// c03RepairCause recognises the exact pattern of the known CloseAndRepair defect
// in the calls the repair issued: the valid part was measured correctly (a
// Truncate, if any, cuts the right segment to the right size), segments behind
// the one in which the valid part ends exist, and the only file removed is that
// very segment (fileFor(id, idx)) - the later ones (fileFor(id, i)) are left.
// Any other wrong removal is reported as a different cause.
func c03RepairCause(img *crashfs.Image, ops []crashfs.Op) string {
	segs := c03Segments(img.Files)
	var all []byte
	for _, s := range segs {
		all = append(all, img.Files[c03SegPath(s)]...)
	}
	_, valid, _ := c03Scan(all)
	loopIdx, cum, before := -1, 0, 0
	for _, s := range segs {
		before = cum
		cum += len(img.Files[c03SegPath(s)])
		if valid <= cum {
			loopIdx = s
			break
		}
	}
	if loopIdx < 0 {
		return ""
	}
	later := segs[len(segs)-1] > loopIdx
	removedKept, removedEarlier, removedLater, truncOK := 0, 0, 0, true
	for _, o := range ops {
		if !strings.HasPrefix(o.Path, c03FilePrefix) {
			continue
		}
		var ri int
		fmt.Sscanf(o.Path[len(c03FilePrefix):], "%d", &ri)
		switch o.Kind {
		case crashfs.OpRemove:
			switch {
			case ri == loopIdx:
				removedKept++
			case ri < loopIdx:
				removedEarlier++
			default:
				removedLater++
			}
		case crashfs.OpTruncate:
			if ri != loopIdx || int(o.Size) != valid-before {
				truncOK = false
			}
		}
	}
	switch {
	case removedKept == 1 && removedEarlier == 0 && removedLater == 0 && later && truncOK:
		return "CloseAndRepair-removes-fileFor(id,idx)-instead-of-fileFor(id,i)"
	case removedKept+removedEarlier > 0:
		return "CloseAndRepair-removes-a-segment-that-holds-valid-records"
	}
	return ""
}

// cycle: a fresh instance from img; recover; (if repaired: look again, nothing
// that was valid may have changed); open for write, append records of the given
// lengths (ids idBase, idBase+1, ...), Sync, Close; read back.
func (w *c03Worker) cycle(img *crashfs.Image, appendLens []int, idBase int) *c03Cycle {
	c := &c03Cycle{fs: crashfs.FromImage(img)}
	crashfs.Mount(w.prefix, c.fs)
	var orphan bool
	c.shape, orphan = c03Shape(img)
	add := func(kind, f string, a ...interface{}) {
		c.viol = append(c.viol, c03Viol{kind, fmt.Sprintf(f, a...)})
	}

	c.fs.Mark("recover")
	c.rec = c03ReadLoop(w.id, true)
	repairOps := c.fs.Log()
	if c.rec.how == "notexist" && c03HasGap(img) {
		c.cause = "segment-numbering-gap(crash-inside-CloseAndRepair-ascending-remove-loop)-log-reported-not-exist"
	}
	if c.rec.how == "eof" && orphan {
		c.cause = "header-only-torn-record(len>0,0-payload-bytes)-read-as-clean-EOF-no-repair"
	}
	if c.rec.how == "repair" {
		if rc := c03RepairCause(img, repairOps); rc != "" {
			c.cause = rc
		}
	}
	if c.rec.panicTxt != "" {
		add("recovery-panicked", "recovery panicked: %s", c.rec.panicTxt)
		return c
	}
	if c.rec.err != nil {
		add("recovery-error", "recovery (applyRoundWAL control flow) fails: %v", c.rec.err)
		return c
	}
	if c.rec.how == "repair" {
		again := c03ReadLoop(w.id, false)
		switch {
		case again.panicTxt != "" || again.err != nil:
			add("log-unreadable-after-repair", "after CloseAndRepair: panic=%q err=%v", again.panicTxt, again.err)
		case !c03Equal(again.recs, c.rec.recs):
			add("repair-changed-valid-prefix", "read before repair %s, after repair %s", c03Lens(c.rec.recs), c03Lens(again.recs))
		case again.how == "repair":
			add("log-still-damaged-after-repair", "after CloseAndRepair the log still ends in a damaged record (%s)", c03Lens(again.recs))
		}
		if len(c.viol) > 0 {
			return c
		}
	}

	c.fs.Mark("open")
	var ww WALWriter
	var err error
	if p := ev.Catch(func() { ww, err = OpenWALForWrite(w.id, &c03Cfg) }); p != "" || err != nil {
		add("open-for-write-after-recovery-failed", "panic=%q err=%v", p, err)
		return c
	}
	c.fs.Mark("append")
	closing := false
	p := ev.Catch(func() {
		for i, n := range appendLens {
			pl := c03Payload(idBase+i, n)
			c.newRecs = append(c.newRecs, pl)
			if _, err = ww.WriteBytes(pl); err != nil {
				return
			}
		}
		c.fs.Mark("sync")
		if err = ww.Sync(); err != nil {
			return
		}
		c.syncDone = c.fs.LogLen()
		c.fs.Mark("close")
		closing = true
		err = ww.Close()
	})
	if p != "" || err != nil {
		if p != "" && !closing {
			ww.(*walWriter).stopHousekeeping()
		}
		add("append-after-recovery-failed", "panic=%q err=%v", p, err)
		return c
	}
	fin := c03ReadLoop(w.id, false)
	c.final = fin.recs
	want := c03Concat(c.rec.recs, c.newRecs...)
	if fin.panicTxt != "" || fin.err != nil || fin.how == "repair" || !c03Equal(fin.recs, want) {
		add("appended-synced-records-not-read-back",
			"recovery returned %s, then appended+synced %s; reading the intact log gives %s end=%s err=%v panic=%q",
			c03Lens(c.rec.recs), c03Lens(c.newRecs), c03Lens(fin.recs), fin.how, fin.err, fin.panicTxt)
	}
	return c
}

// ---- a write history on a fresh instance ---------------------------------------------

type c03Hist struct {
	fs           *crashfs.FS
	ops          []c03Op
	app          [][]byte // every payload appended, in order
	syncedBefore int      // records known durable before the last operation
	syncedAfter  int      // ... after it completed
	lastMark     int      // crash points (lastMark, logLen] belong to the last operation
	logLen       int
	panicTxt     string
	failErr      error
}

func (w *c03Worker) runHistory(ops []c03Op, failAfter int) *c03Hist {
	h := &c03Hist{fs: crashfs.New(), ops: ops}
	crashfs.Mount(w.prefix, h.fs)
	var wr *walWriter
	open := func() error {
		ww, err := OpenWALForWrite(w.id, &c03Cfg)
		if err != nil {
			return err
		}
		wr = ww.(*walWriter)
		return nil
	}
	h.fs.Mark("open")
	synced := 0
	closing := false // Close() reaps the housekeeping goroutine before it touches the disk
	h.panicTxt = ev.Catch(func() {
		if len(ops) == 0 && failAfter >= 0 {
			h.fs.FailAfter(failAfter, crashfs.FailPanic)
		}
		if h.failErr = open(); h.failErr != nil {
			return
		}
		for i, op := range ops {
			if i == len(ops)-1 {
				h.syncedBefore = synced
				h.lastMark = h.fs.Mark(op.String())
				if failAfter >= 0 {
					h.fs.FailAfter(failAfter, crashfs.FailPanic)
				}
			}
			var err error
			switch {
			case op.writeLen() >= 0:
				pl := c03Payload(len(h.app), op.writeLen())
				h.app = append(h.app, pl)
				_, err = wr.WriteBytes(pl)
			case op == c03Sync:
				err = wr.Sync()
				synced = len(h.app)
			case op == c03Shift:
				err = wr.Shift()
				synced = len(h.app)
			case op == c03HkLate:
				if wr.eldestUnsyncData != nil { // let more than SyncInterval pass
					t := wr.eldestUnsyncData.Add(-2 * wr.cfg.SyncInterval)
					wr.eldestUnsyncData = &t
				}
				wr.doHousekeeping()
			case op == c03HkSoon:
				wr.doHousekeeping()
			case op == c03Reopen:
				closing = true
				if err = wr.Close(); err == nil {
					wr, closing = nil, false
					err = open()
				}
				synced = len(h.app)
			}
			if err != nil {
				h.failErr = fmt.Errorf("%s: %w", op, err)
				return
			}
		}
	})
	h.syncedAfter = synced
	if len(ops) == 0 {
		h.lastMark = -1 // the initial open: crash points 0..logLen
	}
	h.logLen = h.fs.LogLen()
	if wr != nil && !closing {
		ev.Catch(wr.stopHousekeeping) // the "crashed" process: only its goroutine is reaped
	}
	return h
}

// c03Removal is one head-segment deletion by housekeeping inside a history.
type c03Removal struct {
	logIdx int
	nrecs  int
}

// housekeepingRemovals validates every Remove a history issued (only
// doHousekeeping removes) and says how many records each one deleted:
// the removed file must be the lowest existing segment, must not be the newest
// one, and the segments on disk must exceed TotalLimit at that moment.
func (h *c03Hist) housekeepingRemovals() (rem []c03Removal, bad []c03Viol) {
	log := h.fs.Log()
	deleted := 0
	for i, o := range log {
		if o.Kind != crashfs.OpRemove {
			continue
		}
		st := h.fs.StateAt(i)
		files := map[string][]byte{}
		total := 0
		for _, f := range st.Files {
			files[f.Path] = f.Data
			if strings.HasPrefix(f.Path, c03FilePrefix) {
				total += len(f.Data)
			}
		}
		segs := c03Segments(files)
		switch {
		case len(segs) == 0 || o.Path != c03SegPath(segs[0]):
			bad = append(bad, c03Viol{"housekeeping-removed-non-head-segment", fmt.Sprintf("removed %s while segments %v exist", o.Path, segs)})
		case len(segs) == 1:
			bad = append(bad, c03Viol{"housekeeping-removed-newest-segment", fmt.Sprintf("removed %s, the only segment", o.Path)})
		case int64(total) <= c03Cfg.TotalLimit:
			bad = append(bad, c03Viol{"housekeeping-removed-under-total-limit", fmt.Sprintf("removed %s with %d bytes on disk, limit %d", o.Path, total, c03Cfg.TotalLimit)})
		}
		recs, valid, _ := c03Scan(files[o.Path])
		if deleted > len(h.app) {
			deleted = len(h.app)
		}
		if valid != len(files[o.Path]) || !c03Equal(recs, h.app[deleted:c03Min(deleted+len(recs), len(h.app))]) {
			bad = append(bad, c03Viol{"removed-segment-content-unexpected", fmt.Sprintf("removed %s holds %s, expected the records from #%d on", o.Path, c03Lens(recs), deleted)})
		}
		deleted += len(recs)
		rem = append(rem, c03Removal{i, len(recs)})
	}
	return
}

// ---- replayable case -------------------------------------------------------------------

type c03Case struct {
	Ops     []string       `json:"ops"`
	K1      int            `json:"crash1_point"` // number of file-system calls of the history that were applied
	Tear1   map[string]int `json:"crash1_file_lengths"`
	Append1 []int          `json:"append1_lens"`
	Zero1   map[string]int `json:"crash1_zeroed_tail,omitempty"` // trailing bytes of the surviving content that read as zeros
	K2      int            `json:"crash2_point"`                 // -1: no second crash
	Tear2   map[string]int `json:"crash2_file_lengths,omitempty"`
	Zero2   map[string]int `json:"crash2_zeroed_tail,omitempty"`
	Append2 []int          `json:"append2_lens,omitempty"`
}

func c03TearMap(img *crashfs.Image) map[string]int {
	m := map[string]int{}
	for p, b := range img.Files {
		m[p] = len(b)
	}
	return m
}

func c03ZeroMap(tears []crashfs.Tear) map[string]int {
	var m map[string]int
	for _, t := range tears {
		if t.Zeroed > 0 {
			if m == nil {
				m = map[string]int{}
			}
			m[t.Path] = t.Zeroed
		}
	}
	return m
}

// c03Torn: the image is not a clean cut at a durable / complete boundary.
func c03Torn(tears []crashfs.Tear) (torn, zeroed bool) {
	for _, t := range tears {
		if t.Survived != t.Durable && t.Survived != t.Full {
			torn = true
		}
		if t.Zeroed > 0 {
			torn, zeroed = true, true
		}
	}
	return
}

// ---- dedup set ----------------------------------------------------------------------------

type c03Set struct {
	sh [64]struct {
		mu sync.Mutex
		m  map[string]struct{}
	}
}

func newC03Set() *c03Set {
	s := &c03Set{}
	for i := range s.sh {
		s.sh[i].m = map[string]struct{}{}
	}
	return s
}

// add reports whether key was new.
func (s *c03Set) add(key string) bool {
	h := uint32(2166136261)
	for i := 0; i < len(key); i++ {
		h = (h ^ uint32(key[i])) * 16777619
	}
	sh := &s.sh[h%64]
	sh.mu.Lock()
	defer sh.mu.Unlock()
	if _, ok := sh.m[key]; ok {
		return false
	}
	sh.m[key] = struct{}{}
	return true
}

func (s *c03Set) size() int {
	n := 0
	for i := range s.sh {
		s.sh[i].mu.Lock()
		n += len(s.sh[i].m)
		s.sh[i].mu.Unlock()
	}
	return n
}

// ---- the exploration -------------------------------------------------------------------

type c03Explorer struct {
	r       *ev.Run
	append1 [][]int // variants of the records appended after the first recovery
	append2 []int   // records appended after the second recovery
	second  bool    // explore the second generation
	tear    *crashfs.TearOptions

	seen1, seen2 *c03Set
	verbose      bool

	nHist, nPoints, nImg1, nImg1Distinct, nImg2, nImg2Distinct           atomic.Int64
	nRepair, nEOF, nNotExist, nHkRemovals, nSkipped2                     atomic.Int64
	nTornImages, nInsideOp, nNonExhaustiveTear, nMultiUnsynced, nZeroImg atomic.Int64
	stop                                                                 atomic.Bool  // budget used up
	windows                                                              sync.Map     // "lo..hi" of live segment indexes with hi >= 9
	nBigTail, nBigNonTail                                                atomic.Int64 // crash points with a >= 2 MiB segment as tail / as non-tail segment
	sampleMu                                                             sync.Mutex
	nSamples                                                             map[string]int
}

func c03Boundaries(fc *crashfs.FileCrashState) []int {
	// record boundaries inside the file (the harness knows the framing)
	var out []int
	off := 0
	for off+8 <= len(fc.Data) {
		n := int(uint32(fc.Data[off+4])<<24 | uint32(fc.Data[off+5])<<16 | uint32(fc.Data[off+6])<<8 | uint32(fc.Data[off+7]))
		off += 8 + n
		if off <= len(fc.Data) {
			out = append(out, off)
		}
	}
	return out
}

// c03CauseExplains: a recognised root cause is attached to a violation only if
// the violation is the direct, expected consequence of that cause; any other
// violation in the same cycle stays unclassified (and therefore alarms even
// when the cause is a listed known finding).
func c03CauseExplains(cause, kind string, err error) bool {
	switch {
	case strings.HasPrefix(cause, "header-only-torn-record"):
		return kind == "appended-synced-records-not-read-back"
	case strings.HasPrefix(cause, "segment-numbering-gap"):
		return kind == "synced-record-lost" || kind == "appended-synced-records-not-read-back"
	case strings.HasPrefix(cause, "CloseAndRepair-removes-fileFor(id,idx)"):
		return kind == "repair-changed-valid-prefix" || kind == "log-still-damaged-after-repair" ||
			(kind == "recovery-error" && IsNotExist(err)) // second Remove of the same file
	}
	return false
}

func (e *c03Explorer) report(c c03Case, cycleNo int, cy *c03Cycle, v c03Viol, inherited string) {
	sig := ""
	if cy.cause != "" && c03CauseExplains(cy.cause, v.kind, cy.rec.err) {
		sig = fmt.Sprintf("%s/cause=%s", v.kind, cy.cause)
	} else {
		shifted := "no-rotation"
		for _, o := range c.Ops {
			if o == "Shift" || strings.HasPrefix(o, "Hk") {
				shifted = "rotation-possible"
			}
		}
		sig = fmt.Sprintf("%s/recovery%d/unclassified/%s/%s", v.kind, cycleNo, cy.shape, shifted)
	}
	detail := fmt.Sprintf("history=%v crash1@%d files=%v append1=%v crash2@%d files=%v | image: %s | %s",
		c.Ops, c.K1, c.Tear1, c.Append1, c.K2, c.Tear2, cy.shape, v.detail)
	e.r.Violation(sig, detail, c)
}

func (e *c03Explorer) sample(kind string, v interface{}) {
	e.sampleMu.Lock()
	defer e.sampleMu.Unlock()
	if e.nSamples[kind] >= 1 {
		return
	}
	e.nSamples[kind]++
	e.r.Sample(v)
}

// noteWindow remembers the window of live segment indexes of a crash point once
// the indexes have two digits (long-rotation family).
func (e *c03Explorer) noteWindow(st *crashfs.State) {
	lo, hi := -1, -1
	for i := range st.Files {
		p := st.Files[i].Path
		if !strings.HasPrefix(p, c03FilePrefix) {
			continue
		}
		var n int
		if _, err := fmt.Sscanf(p[len(c03FilePrefix):], "%d", &n); err != nil {
			continue
		}
		if lo < 0 || n < lo {
			lo = n
		}
		if n > hi {
			hi = n
		}
	}
	if hi >= 9 {
		e.windows.Store(fmt.Sprintf("%d..%d", lo, hi), true)
	}
	for i := range st.Files { // where does a record of about configWALFileLimit sit?
		if len(st.Files[i].Data) >= configWALFileLimit-1 && strings.HasPrefix(st.Files[i].Path, c03FilePrefix) {
			if st.Files[i].Path == c03SegPath(hi) {
				e.nBigTail.Add(1)
			} else {
				e.nBigNonTail.Add(1)
			}
		}
	}
}

// c03LongHistories: directed long histories (the exhaustive phases never get
// past ~7 segments). Segment i of the log holds [W5], [W1] or [W1,W5] (i mod 3),
// so neighbouring segments differ in size; n rotations give the window 0..n;
// an optional housekeeping call with TotalLimit=60 deletes head segments
// (windows like 8..11, 9..12, 97..101); the tail patterns leave the torn record
// as first record of the last segment, as second record of the last segment, or
// behind an empty middle segment. Every history is explored together with its
// two shorter prefixes, each for all crash points of its last operation.
func c03LongHistories(thorough bool) [][]c03Op {
	seg := func(i int) []c03Op {
		switch i % 3 {
		case 0:
			return []c03Op{c03W5}
		case 1:
			return []c03Op{c03W1}
		}
		return []c03Op{c03W1, c03W5}
	}
	base := func(n int) []c03Op { // segments 0..n-1 filled and rotated: the tail is the empty segment n
		var ops []c03Op
		for i := 0; i < n; i++ {
			ops = append(ops, seg(i)...)
			ops = append(ops, c03Shift)
		}
		return ops
	}
	tails := [][]c03Op{
		{c03W5, c03Sync},                 // torn first record of the last segment
		{c03W1, c03Sync, c03W5, c03Sync}, // torn second record of the last segment
		{c03Shift, c03W5, c03Sync},       // an empty middle segment before the torn one
		{c03W5, c03W1, c03HkLate},        // housekeeping's own sync tears
	}
	var out [][]c03Op
	add := func(ops []c03Op) {
		for cut := 2; cut >= 0; cut-- {
			out = append(out, append([]c03Op(nil), ops[:len(ops)-cut]...))
		}
	}
	ns := []int{9, 10, 11, 12}
	for _, n := range ns {
		for _, tl := range tails {
			add(append(base(n), tl...))
		}
	}
	// head deletion: windows that straddle 9/10 without starting at 0
	for _, n := range []int{11, 12, 13} {
		for _, tl := range tails[:3] {
			add(append(append(base(n), c03HkSoon), tl...))
		}
	}
	if thorough {
		for _, n := range []int{100, 101} {
			for _, tl := range tails[:3] {
				add(append(append(base(n), c03HkSoon), tl...))
			}
		}
	}
	return out
}

// c03BigHistories: histories with exactly ONE record whose size is derived from
// wal.go's own constant configWALFileLimit (2 MiB): every sequence of length
// 0..maxLen over {W5, Sync, Shift, HkLate} with the big record inserted at
// every position. The family runs with FileLimit = configWALFileLimit and
// TotalLimit = 4 x that (the defaults of wal.go), so housekeeping rotates a
// segment that holds the big record and deletes nothing; the big record ends
// up in the tail, or in a non-tail segment with a small or empty tail.
func c03BigHistories(big c03Op, maxLen int) [][]c03Op {
	small := []c03Op{c03W5, c03Sync, c03Shift, c03HkLate}
	var out [][]c03Op
	var rec func(prefix []c03Op)
	rec = func(prefix []c03Op) {
		for pos := 0; pos <= len(prefix); pos++ {
			h := make([]c03Op, 0, len(prefix)+1)
			h = append(h, prefix[:pos]...)
			h = append(h, big)
			h = append(h, prefix[pos:]...)
			out = append(out, h)
		}
		if len(prefix) == maxLen {
			return
		}
		for _, o := range small {
			rec(append(append([]c03Op(nil), prefix...), o))
		}
	}
	rec(nil)
	return out
}

// exploreHistory runs one history and everything below it.
func (e *c03Explorer) exploreHistory(w *c03Worker, ops []c03Op) {
	h := w.runHistory(ops, -1)
	e.nHist.Add(1)
	opNames := make([]string, len(ops))
	for i, o := range ops {
		opNames[i] = o.String()
	}
	if h.panicTxt != "" || h.failErr != nil {
		e.r.Violation("operation-failed-without-crash/"+strings.Join(append([]string{"open"}, opNames...)[len(opNames):], ""),
			fmt.Sprintf("history=%v panic=%q err=%v", opNames, h.panicTxt, h.failErr), c03Case{Ops: opNames, K1: -1, K2: -1})
		return
	}
	rem, bad := h.housekeepingRemovals()
	for _, b := range bad {
		e.r.Violation(b.kind, fmt.Sprintf("history=%v: %s", opNames, b.detail), c03Case{Ops: opNames, K1: -1, K2: -1})
	}
	e.nHkRemovals.Add(int64(len(rem)))
	from := h.lastMark + 1
	if from > h.logLen {
		return // the last operation touched nothing on disk: same crash points as the prefix history
	}
	h.fs.StatesFrom(from, h.logLen, func(st *crashfs.State) {
		e.nPoints.Add(1)
		e.noteWindow(st)
		k1 := st.LogIdx
		synced := h.syncedBefore
		if k1 == h.logLen {
			synced = h.syncedAfter
		} else {
			e.nInsideOp.Add(1)
		}
		floor := 0
		for _, rm := range rem {
			if rm.logIdx < k1 {
				floor += rm.nrecs
			}
		}
		if !st.Exhaustive(e.tear) {
			e.nNonExhaustiveTear.Add(1)
		}
		if st.Reduced(e.tear) {
			e.r.Cap("a crash point with several files holding long un-synced suffixes: product of torn lengths reduced to one-file-at-a-time")
		}
		unsynced := 0
		for i := range st.Files {
			if st.Files[i].Unsynced() > 0 {
				unsynced++
			}
		}
		if unsynced > 1 {
			e.nMultiUnsynced.Add(1)
		}
		st.Images(e.tear, func(img *crashfs.Image, tears []crashfs.Tear) bool {
			if e.stop.Load() || (e.nImg1.Load()%256 == 0 && e.r.Expired()) {
				e.stop.Store(true)
				return false
			}
			e.exploreImage1(w, h, opNames, k1, floor, synced, img, tears)
			return true
		})
	})
}

func (e *c03Explorer) exploreImage1(w *c03Worker, h *c03Hist, opNames []string, k1, floor, synced int, img *crashfs.Image, tears []crashfs.Tear) {
	e.nImg1.Add(1)
	ikey := img.Key()
	torn, zeroed := c03Torn(tears)
	var lens strings.Builder
	for _, a := range h.app {
		fmt.Fprintf(&lens, "%d,", len(a))
	}
	if torn || k1 != h.logLen {
		e.r.Nontrivial(ikey) // before the dedup: which history reaches an image first must not matter
	}
	for vi, ap := range e.append1 {
		if !e.seen1.add(fmt.Sprintf("%s|%d|%d|%s|%d", ikey, floor, synced, lens.String(), vi)) {
			continue
		}
		e.nImg1Distinct.Add(1)
		if zeroed {
			e.nZeroImg.Add(1)
		}
		c := c03Case{Ops: opNames, K1: k1, Tear1: c03TearMap(img), Zero1: c03ZeroMap(tears), Append1: ap, K2: -1}
		cy := w.cycle(img, ap, 200)
		e.count(cy)
		shape := cy.shape
		if torn || k1 != h.logLen {
			e.nTornImages.Add(1)
		}
		if kind, _ := c03Match(h.app, floor, synced, cy.rec.recs); kind != "" && cy.rec.err == nil && cy.rec.panicTxt == "" {
			cy.viol = append([]c03Viol{{kind, fmt.Sprintf("appended %s, durable for sure: #%d..#%d, deleted by housekeeping: first %d; recovery returned %s (%s)",
				c03Lens(h.app), floor, synced-1, floor, c03Lens(cy.rec.recs), cy.rec.how)}}, cy.viol...)
		}
		if len(cy.viol) > 0 {
			for _, v := range cy.viol {
				e.report(c, 1, cy, v, "")
			}
			e.nSkipped2.Add(1)
			continue // the log is already broken: nothing sound can be said about a further cycle
		}
		if torn {
			e.sample("torn-"+cy.rec.how, map[string]interface{}{"history": opNames, "crash_point": k1, "image": img.Describe(),
				"shape": shape, "recovered": c03Lens(cy.rec.recs), "end": cy.rec.how, "then_appended": ap, "read_back": c03Lens(cy.final)})
		}
		if !e.second || !e.seen2.add(fmt.Sprintf("%s|%d", ikey, vi)) {
			continue
		}
		e.exploreSecond(w, c, cy, ikey)
	}
}

func (e *c03Explorer) count(cy *c03Cycle) {
	switch cy.rec.how {
	case "repair":
		e.nRepair.Add(1)
	case "eof":
		e.nEOF.Add(1)
	case "notexist":
		e.nNotExist.Add(1)
	}
}

// exploreSecond: every crash point and torn length of the first
// recovery+append cycle, then recover again.
func (e *c03Explorer) exploreSecond(w *c03Worker, c c03Case, cy1 *c03Cycle, ikey1 string) {
	app2 := c03Concat(cy1.rec.recs, cy1.newRecs...)
	fs1 := cy1.fs
	n := fs1.LogLen()
	if n == 0 {
		return
	}
	local := map[string]bool{}
	fs1.StatesFrom(1, n, func(st *crashfs.State) {
		must := len(cy1.rec.recs)
		if st.LogIdx >= cy1.syncDone {
			must = len(app2)
		}
		st.Images(e.tear, func(img *crashfs.Image, tears []crashfs.Tear) bool {
			if e.stop.Load() || (e.nImg2.Load()%256 == 0 && e.r.Expired()) {
				e.stop.Store(true)
				return false
			}
			e.nImg2.Add(1)
			k := fmt.Sprintf("%s|%d", img.Key(), must)
			if local[k] {
				return true
			}
			local[k] = true
			e.nImg2Distinct.Add(1)
			c2 := c
			c2.K2, c2.Tear2, c2.Zero2, c2.Append2 = st.LogIdx, c03TearMap(img), c03ZeroMap(tears), e.append2
			torn2, zeroed2 := c03Torn(tears)
			if zeroed2 {
				e.nZeroImg.Add(1)
			}
			cy2 := w.cycle(img, e.append2, 210)
			e.count(cy2)
			if torn2 {
				e.r.Nontrivial(ikey1 + "/" + img.Key())
			}
			if kind, _ := c03Match(app2, 0, must, cy2.rec.recs); kind != "" && cy2.rec.err == nil && cy2.rec.panicTxt == "" {
				cy2.viol = append([]c03Viol{{kind, fmt.Sprintf("first recovery returned %s, then %s were appended (synced: %v); second recovery returned %s (%s)",
					c03Lens(cy1.rec.recs), c03Lens(cy1.newRecs), must == len(app2), c03Lens(cy2.rec.recs), cy2.rec.how)}}, cy2.viol...)
			}
			for _, v := range cy2.viol {
				e.report(c2, 2, cy2, v, "")
			}
			if len(cy2.viol) == 0 && len(tears) > 0 {
				e.sample("second-"+cy2.rec.how, map[string]interface{}{"history": c.Ops, "crash1_point": c.K1, "crash1_files": c.Tear1,
					"first_recovery": c03Lens(cy1.rec.recs), "appended": c03Lens(cy1.newRecs), "crash2_point": st.LogIdx, "crash2_image": img.Describe(),
					"second_recovery": c03Lens(cy2.rec.recs), "end": cy2.rec.how, "read_back_after_second_append": c03Lens(cy2.final)})
			}
			return true
		})
	})
}

// runCase re-executes one replay case with full reporting.
func (e *c03Explorer) runCase(w *c03Worker, c c03Case) {
	ops := make([]c03Op, len(c.Ops))
	for i, s := range c.Ops {
		ops[i] = c03ParseOp(s)
	}
	h := w.runHistory(ops, -1)
	fmt.Printf("replay: history %v: %d file-system calls, appended %s\n", c.Ops, h.logLen, c03Lens(h.app))
	for i, o := range h.fs.Log() {
		fmt.Printf("  fs call %d: %s\n", i, o)
	}
	if h.panicTxt != "" || h.failErr != nil {
		e.r.Violation("operation-failed-without-crash/"+c.Ops[len(c.Ops)-1], fmt.Sprintf("panic=%q err=%v", h.panicTxt, h.failErr), c)
		return
	}
	rem, bad := h.housekeepingRemovals()
	for _, b := range bad {
		e.r.Violation(b.kind, b.detail, c)
	}
	if c.K1 < 0 {
		return
	}
	st := h.fs.StateAt(c.K1)
	img := st.ImageWithZero(c.Tear1, c.Zero1)
	synced := h.syncedBefore
	if c.K1 == h.logLen {
		synced = h.syncedAfter
	}
	floor := 0
	for _, rm := range rem {
		if rm.logIdx < c.K1 {
			floor += rm.nrecs
		}
	}
	fmt.Printf("replay: crash image 1: %s (durable for sure #%d..#%d)\n", img.Describe(), floor, synced-1)
	cy := w.cycle(img, c.Append1, 200)
	fmt.Printf("replay: recovery 1 returned %s end=%s err=%v; appended %s; read back %s\n", c03Lens(cy.rec.recs), cy.rec.how, cy.rec.err, c03Lens(cy.newRecs), c03Lens(cy.final))
	for i, o := range cy.fs.Log() {
		fmt.Printf("  fs call %d: %s\n", i, o)
	}
	if kind, _ := c03Match(h.app, floor, synced, cy.rec.recs); kind != "" && cy.rec.err == nil && cy.rec.panicTxt == "" {
		cy.viol = append([]c03Viol{{kind, fmt.Sprintf("appended %s, recovery returned %s", c03Lens(h.app), c03Lens(cy.rec.recs))}}, cy.viol...)
	}
	c1 := c
	c1.K2, c1.Tear2, c1.Zero2, c1.Append2 = -1, nil, nil, nil
	for _, v := range cy.viol {
		e.report(c1, 1, cy, v, "")
	}
	if c.K2 < 0 || len(cy.viol) > 0 {
		return
	}
	app2 := c03Concat(cy.rec.recs, cy.newRecs...)
	st2 := cy.fs.StateAt(c.K2)
	img2 := st2.ImageWithZero(c.Tear2, c.Zero2)
	must := len(cy.rec.recs)
	if c.K2 >= cy.syncDone {
		must = len(app2)
	}
	fmt.Printf("replay: crash image 2: %s\n", img2.Describe())
	cy2 := w.cycle(img2, c.Append2, 210)
	fmt.Printf("replay: recovery 2 returned %s end=%s err=%v; appended %s; read back %s\n", c03Lens(cy2.rec.recs), cy2.rec.how, cy2.rec.err, c03Lens(cy2.newRecs), c03Lens(cy2.final))
	if kind, _ := c03Match(app2, 0, must, cy2.rec.recs); kind != "" && cy2.rec.err == nil && cy2.rec.panicTxt == "" {
		cy2.viol = append([]c03Viol{{kind, fmt.Sprintf("expected a prefix of %s containing the first %d, second recovery returned %s", c03Lens(app2), must, c03Lens(cy2.rec.recs))}}, cy2.viol...)
	}
	for _, v := range cy2.viol {
		e.report(c, 2, cy2, v, "")
	}
}

// selfTest: (1) FailAfter(k) on a fresh execution freezes exactly the state that
// StateAt(k) reconstructs from the log of the uninterrupted execution;
// (2) two executions of the same history give identical logs (determinism).
func (e *c03Explorer) selfTest(w *c03Worker) {
	hists := [][]c03Op{
		{},
		{c03W5, c03Sync, c03W4100},
		{c03W5, c03W4100, c03Shift},
		{c03W4100, c03W5, c03HkLate},
		{c03W5, c03W5, c03Sync, c03W1, c03Reopen},
	}
	checked := 0
	for _, ops := range hists {
		full := w.runHistory(ops, -1)
		again := w.runHistory(ops, -1)
		e.r.Sanity(fmt.Sprint(full.fs.Log()) == fmt.Sprint(again.fs.Log()), "self-test: history %v is not deterministic", ops)
		from := full.lastMark
		if from < 0 {
			from = 0
		}
		for k := from; k < full.logLen; k++ {
			cr := w.runHistory(ops, k-from)
			want := full.fs.StateAt(k)
			got := cr.fs.CrashState()
			ok := cr.fs.Frozen() && strings.Contains(cr.panicTxt, "simulated crash") && fmt.Sprint(want.Files) == fmt.Sprint(got.Files) && fmt.Sprint(want.Dirs) == fmt.Sprint(got.Dirs)
			e.r.Sanity(ok, "self-test: FailAfter(%d) on %v: frozen=%v panic=%q state differs from StateAt(%d)", k-from, ops, cr.fs.Frozen(), cr.panicTxt, k)
			checked++
		}
	}
	e.r.Set("selftest_failafter_points", checked)
	e.r.Sanity(checked > 10, "self-test covered only %d crash points", checked)
}

func TestVerifC03(t *testing.T) {
	r := ev.Start(t, "C03", "fault_enumeration")
	r.SetBudget(80*time.Second, 14*time.Minute)
	e := &c03Explorer{r: r, seen1: newC03Set(), seen2: newC03Set(), nSamples: map[string]int{}, second: true}
	e.tear = &crashfs.TearOptions{AllUpTo: 64, Boundaries: c03Boundaries, MaxProduct: 4096,
		ZeroTails: crashfs.FramedZeroTails(8, func(h []byte) int { return int(binary.BigEndian.Uint32(h[4:8])) })}
	full := []c03Op{c03W0, c03W1, c03W5, c03W4100, c03Sync, c03Shift, c03HkSoon, c03HkLate, c03Reopen}
	reduced := []c03Op{c03W5, c03W4100, c03Sync, c03Shift, c03HkLate, c03Reopen}
	type phase struct {
		name               string
		alphabet           []c03Op
		minDepth, maxDepth int
	}
	dFull, dRed := r.Pick(4, 6), r.Pick(5, 7)
	limitSized := []c03Op{c03W19, c03W20, c03W21, c03W41, c03W5, c03Sync, c03Shift, c03HkSoon, c03HkLate}
	dLim := r.Pick(3, 4)
	phases := []phase{{"full", full, 0, dFull}, {"reduced", reduced, dRed, dRed}, {"limit-sized-records", limitSized, 1, dLim}}
	phaseDesc := fmt.Sprintf("every sequence of length 0..%d over %v, every sequence of length %d over %v, and every sequence of length 1..%d over %v (record sizes FileLimit-1, FileLimit, FileLimit+1, 2xFileLimit+1)", dFull, full, dRed, reduced, dLim, limitSized)
	e.append1 = [][]int{{5, 1}}
	if r.Thorough() {
		e.append1 = [][]int{{5, 1}, {0, 4100}}
	}
	e.append2 = []int{1, 5}
	c03InitWorkers(16)
	debug.SetGCPercent(300)

	r.Rule(fmt.Sprintf("histories: %s, on a fresh log (FileLimit=%d, TotalLimit=%d bytes); "+
		"crash points: every file-system call boundary of the last operation of every history (= every call of every operation, since all prefixes are histories); "+
		"crash images: per file with an un-synced suffix every surviving length if the suffix is <= 64 bytes, else lengths {0,1,len-1,len} and b-1,b,b+1,b+7,b+8,b+9 around every record / write-call boundary b; "+
		"plus the zero-filled-payload-tail family: for each such length whose last byte lies in the payload of a record with an intact un-synced header, the last z in {1, half, all} surviving payload bytes read as zeros (never a header byte); "+
		"plus the long-rotation family: directed histories with 9..13 (thorough: 100, 101) rotations, segments of differing sizes, optionally a housekeeping call that deletes head segments (live windows 0..9 .. 0..13, 7..11-like, thorough 9x..101), ending in a torn first / second record of the last segment or a torn record behind an empty middle segment, each with its two shorter prefixes, all crash points of the last operation; "+
		"plus the big-record family: every sequence of length 0..2 (thorough 3) over {W5,Sync,Shift,HkLate} with ONE record of configWALFileLimit+1 bytes (the 2 MiB constant of wal.go) inserted at every position, and the same with length 0..1 (2) for configWALFileLimit-1, configWALFileLimit and 2xconfigWALFileLimit+1, run with FileLimit=configWALFileLimit and TotalLimit=4x (first generation only; thorough: both generations for 12 directed histories); "+
		"per image: recovery as in applyRoundWAL, append records of lengths %v (one run per variant), Sync, Close, read back; then every crash point x torn length of that cycle, second recovery, append %v, read back. "+
		"evaluations = crash images recovered (both generations); distinct_nontrivial = distinct images with a torn (partially surviving) un-synced suffix or taken inside an operation",
		phaseDesc, c03Cfg.FileLimit, c03Cfg.TotalLimit, e.append1, e.append2))
	r.Assume(
		"crash model: directory operations (create, remove, truncate, mkdir) are ordered and durable once issued",
		"crash model: file data is durable up to the last File.Sync of that file; of the bytes written after it any byte prefix (and nothing else) may survive a crash, independently per file",
		"additional family (size metadata may be durable before payload data): the file survives to some length but a tail of the un-synced bytes reads as zeros; enumerated only for zeros confined to the payload of the record in which the surviving content ends, whose 8-byte header survived intact (an all-zero header would parse as a valid empty record - outside the property's prefix quantifier - and is never produced)",
		"no other bit rot, no loss of synced data, no reordering of un-synced writes inside a file, no lost directory entries",
		"recovery procedure = control flow of consensus.applyRoundWAL (open for read, ReadBytes until error, CloseAndRepair on corrupted/unexpected EOF) followed by OpenWALForWrite, WriteBytes, Sync",
		"records a recovery returned are on disk in the crash image, hence durable: a later recovery must return them again",
		"housekeeping is driven by direct calls of doHousekeeping (the ticker never fires); elapsed time for the sync branch is simulated by moving eldestUnsyncData back",
		"deleting head segments is legitimate only inside doHousekeeping, lowest segment first, never the newest, only while the segments on disk exceed TotalLimit",
	)

	w := <-c03Workers
	if ev.Replaying() {
		var c c03Case
		ev.ReplayCase(&c)
		e.verbose = true
		e.runCase(w, c)
		r.Finish(false)
		return
	}
	e.selfTest(w)
	c03Workers <- w

	tStart := time.Now()
	// enumerate histories phase by phase, depth by depth, so that a budget cap
	// leaves whole depths covered
	var completed []string
	allDone := true
	for _, ph := range phases {
		for d := ph.minDepth; d <= ph.maxDepth; d++ {
			if r.Expired() {
				allDone = false
				break
			}
			n := 1
			for i := 0; i < d; i++ {
				n *= len(ph.alphabet)
			}
			var capped atomic.Bool
			ev.Par(n, 16, func(i int) {
				if capped.Load() || e.stop.Load() {
					capped.Store(true)
					return
				}
				if i%64 == 0 && r.Expired() {
					capped.Store(true)
					return
				}
				ops := make([]c03Op, d)
				x := i
				for j := d - 1; j >= 0; j-- {
					ops[j] = ph.alphabet[x%len(ph.alphabet)]
					x /= len(ph.alphabet)
				}
				w := <-c03Workers
				defer func() { c03Workers <- w }()
				e.exploreHistory(w, ops)
			})
			if capped.Load() || e.stop.Load() {
				allDone = false
				break
			}
			completed = append(completed, fmt.Sprintf("%s:depth=%d", ph.name, d))
		}
	}

	tPhases := time.Now()
	// long-rotation family
	long := c03LongHistories(r.Thorough())
	if allDone && !r.Expired() {
		histBefore, imgBefore := e.nHist.Load(), e.nImg1.Load()+e.nImg2.Load()
		ev.Par(len(long), 16, func(i int) {
			if e.stop.Load() {
				return
			}
			w := <-c03Workers
			defer func() { c03Workers <- w }()
			e.exploreHistory(w, long[i])
		})
		if e.stop.Load() {
			allDone = false
		} else {
			completed = append(completed, "long-rotation")
		}
		r.Set("long_rotation_histories", e.nHist.Load()-histBefore)
		r.Set("long_rotation_crash_images", e.nImg1.Load()+e.nImg2.Load()-imgBefore)
	} else {
		allDone = false
	}
	tLong := time.Now()
	// big-record family: one record of about configWALFileLimit (the 2 MiB constant of wal.go)
	if allDone && !r.Expired() {
		saved, savedSecond := c03Cfg, e.second
		c03Cfg.FileLimit, c03Cfg.TotalLimit = configWALFileLimit, 4*configWALFileLimit
		var big [][]c03Op
		big = append(big, c03BigHistories(c03WBigP1, r.Pick(2, 3))...)
		for _, o := range []c03Op{c03WBigM1, c03WBig, c03WBig2P1} {
			big = append(big, c03BigHistories(o, r.Pick(1, 2))...)
		}
		histBefore, imgBefore := e.nHist.Load(), e.nImg1.Load()+e.nImg2.Load()
		e.second = false // first generation only: a second one over 2..4 MiB images is too dear (thorough: the directed subset below)
		run := func(hs [][]c03Op) {
			ev.Par(len(hs), 16, func(i int) {
				if e.stop.Load() || (i%8 == 0 && r.Expired()) {
					e.stop.Store(true)
					return
				}
				w := <-c03Workers
				defer func() { c03Workers <- w }()
				e.exploreHistory(w, hs[i])
			})
		}
		run(big)
		if r.Thorough() && !e.stop.Load() {
			// both generations for the histories that put the big record into a non-tail segment behind a small tail
			e.second = true
			var directed [][]c03Op
			for _, o := range []c03Op{c03WBigM1, c03WBig, c03WBigP1, c03WBig2P1} {
				directed = append(directed,
					[]c03Op{c03W5, o, c03Shift, c03W5, c03Sync},
					[]c03Op{c03W5, o, c03HkLate, c03W5, c03Sync},
					[]c03Op{c03W5, c03Sync, o, c03Sync})
			}
			run(directed)
		}
		c03Cfg, e.second = saved, savedSecond
		if e.stop.Load() {
			allDone = false
		} else {
			completed = append(completed, "big-record")
		}
		r.Set("big_record_histories", e.nHist.Load()-histBefore)
		r.Set("big_record_crash_images", e.nImg1.Load()+e.nImg2.Load()-imgBefore)
		r.Set("big_record_crash_points_with_big_segment_as_tail", e.nBigTail.Load())
		r.Set("big_record_crash_points_with_big_segment_not_tail", e.nBigNonTail.Load())
		if allDone {
			r.Sanity(e.nBigTail.Load() > 0 && e.nBigNonTail.Load() > 0, "big-record family vacuous: tail=%d non-tail=%d", e.nBigTail.Load(), e.nBigNonTail.Load())
		}
	} else {
		allDone = false
	}
	r.Set("wall_s_by_part", map[string]float64{"exhaustive_phases": tPhases.Sub(tStart).Seconds(), "long_rotation": tLong.Sub(tPhases).Seconds(), "big_record": time.Since(tLong).Seconds()})
	var windows []string
	e.windows.Range(func(k, _ interface{}) bool { windows = append(windows, k.(string)); return true })
	sort.Strings(windows)
	r.Set("segment_windows_with_two_digit_indexes", windows)
	if allDone {
		straddle := false
		for _, wd := range windows {
			var lo, hi int
			fmt.Sscanf(wd, "%d..%d", &lo, &hi)
			if lo > 0 && lo <= 9 && hi >= 10 {
				straddle = true
			}
		}
		r.Sanity(straddle && len(windows) >= 4, "long-rotation family vacuous: windows %v", windows)
	}

	r.Eval(int(e.nImg1.Load() + e.nImg2.Load()))
	r.Set("history_phases", phaseDesc)
	r.Set("history_depths_completed", completed)
	r.Set("histories", e.nHist.Load())
	r.Set("crash_points_first_generation", e.nPoints.Load())
	r.Set("crash_points_inside_an_operation", e.nInsideOp.Load())
	r.Set("crash_points_with_boundary_focused_tear_set", e.nNonExhaustiveTear.Load())
	r.Set("crash_points_with_more_than_one_unsynced_file", e.nMultiUnsynced.Load())
	r.Set("crash_images_with_zero_filled_payload_tail_run", e.nZeroImg.Load())
	r.Set("crash_images_first_generation", e.nImg1.Load())
	r.Set("crash_images_first_generation_distinct_cases_run", e.nImg1Distinct.Load())
	r.Set("crash_images_first_generation_torn_or_inside_op_run", e.nTornImages.Load())
	r.Set("crash_images_second_generation", e.nImg2.Load())
	r.Set("crash_images_second_generation_distinct_cases_run", e.nImg2Distinct.Load())
	r.Set("second_generation_roots", e.seen2.size())
	r.Set("second_generation_skipped_because_first_cycle_violated", e.nSkipped2.Load())
	r.Set("recoveries_ending_in_repair", e.nRepair.Load())
	r.Set("recoveries_ending_in_clean_eof", e.nEOF.Load())
	r.Set("recoveries_finding_no_log", e.nNotExist.Load())
	r.Set("head_segments_deleted_by_housekeeping", e.nHkRemovals.Load())
	r.Sanity(e.nRepair.Load() > 0 && e.nEOF.Load() > 0 && e.nNotExist.Load() > 0, "vacuity: repair=%d eof=%d notexist=%d", e.nRepair.Load(), e.nEOF.Load(), e.nNotExist.Load())
	r.Sanity(e.nZeroImg.Load() > 0, "vacuity: no zero-filled-tail image was run")
	r.Sanity(e.nHkRemovals.Load() > 0, "vacuity: housekeeping never deleted a segment")
	r.Sanity(e.nTornImages.Load() > 0 && e.nImg2Distinct.Load() > 0, "vacuity: torn images=%d second generation=%d", e.nTornImages.Load(), e.nImg2Distinct.Load())
	r.Finish(allDone)
}

func c03Min(a, b int) int {
	if a < b {
		return a
	}
	return b
}
