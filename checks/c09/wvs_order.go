//go:build verif

package state

import (
	"sort"

	"github.com/icon-project/goloop/verifshim/explore"
)

// verifCommitOrder owns the one place in worldvirtualstate.go where Go's
// randomised map iteration order decides the order of *synchronisation*
// operations: the loop over wvs.accountStates in Commit (for every write-locked
// entry whose dependency is still pending it waits for the predecessor's
// commit). A stateless search needs determinism, and the property quantifies
// over every behaviour, so inside an exploration the order of the entries that
// matter (write lock + pending dependency) is an explicit environment choice
// (all permutations are explored); all other entries are visited afterwards in
// sorted order (their loop bodies touch no lock and are independent of each
// other). Outside an exploration the natural map order is kept.
func verifCommitOrder(wvs *worldVirtualState) []string {
	ids := make([]string, 0, len(wvs.accountStates))
	if !explore.Active() {
		for id := range wvs.accountStates {
			ids = append(ids, id)
		}
		return ids
	}
	var rel, rest []string
	for id, las := range wvs.accountStates {
		if las.lock == AccountWriteLock && las.depend != nil {
			rel = append(rel, id)
		} else {
			rest = append(rest, id)
		}
	}
	sort.Strings(rel)
	sort.Strings(rest)
	if n := len(rel); n >= 2 {
		f := 1
		for i := 2; i <= n; i++ {
			f *= i
		}
		k := explore.Choose(f)
		// k-th permutation (factoradic)
		pool := append([]string(nil), rel...)
		rel = rel[:0]
		for i := n; i >= 1; i-- {
			f /= i
			j := k / f
			k %= f
			rel = append(rel, pool[j])
			pool = append(pool[:j], pool[j+1:]...)
		}
	}
	ids = append(ids, rel...)
	return append(ids, rest...)
}

// verifSortedIDs replaces the other `range wvs.accountStates` loops
// (GetSnapshot, Reset, applyLockRequests). On the unchanged code their bodies
// perform no synchronisation, so their order is immaterial; the loops are
// still given a fixed order inside an exploration so that an edit which adds a
// lock operation to one of them (found by a seeded change: a "fast path" in
// applyLockRequests calling a mutex-protected isCommitted()) cannot make the
// stateless search diverge instead of reporting the violation. Outside an
// exploration the natural map order is kept.
func verifSortedIDs(wvs *worldVirtualState) []string {
	ids := make([]string, 0, len(wvs.accountStates))
	for id := range wvs.accountStates {
		ids = append(ids, id)
	}
	if explore.Active() {
		sort.Strings(ids)
	}
	return ids
}
