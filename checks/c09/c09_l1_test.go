//go:build verif

package service

// C09 level 1: worldVirtualState (real code, rewritten onto vsync) driven by
// small transaction programs under every interleaving inside a preemption
// bound; oracle = sequential execution of the same program on the plain world
// state.

import (
	"bytes"
	"encoding/hex"
	"fmt"
	"math/big"
	"sort"
	"strings"

	"github.com/icon-project/goloop/common/db"
	"github.com/icon-project/goloop/service/state"
	"github.com/icon-project/goloop/verifshim/explore"
	"github.com/icon-project/goloop/verifshim/vsync"
)

const l1World = 3 // pseudo account index of the whole-world lock

type l1Req struct {
	A int  `json:"a"` // 0..2 account, 3 world
	W bool `json:"w"`
}

type l1Step struct {
	A int  `json:"a"`
	W bool `json:"w"` // false: read balance+value; true: read-modify-write balance, re-get, set a storage value
}

type l1Tx struct {
	Locks []l1Req  `json:"locks"`
	Steps []l1Step `json:"steps"`
	Retry bool     `json:"retry,omitempty"` // first attempt is rolled back with Reset(snapshot) and re-run
}

type l1Prog struct {
	// Root 0: the first transaction's virtual state is NewWorldVirtualState(ws, reqs)
	// (what worldContext.GetFuture does in the real flow); Root 1: an empty root
	// NewWorldVirtualState(ws, nil) and every transaction is a GetFuture of its
	// predecessor (what the repository's unit tests do).
	Root int    `json:"root"`
	Txs  []l1Tx `json:"txs"`
}

func (r l1Req) String() string {
	s := "R"
	if r.W {
		s = "W"
	}
	if r.A == l1World {
		return s + "*"
	}
	return s + string(rune('a'+r.A))
}

func (t l1Tx) lockString() string {
	var sb strings.Builder
	sb.WriteByte('[')
	for _, r := range t.Locks {
		sb.WriteString(r.String())
	}
	sb.WriteByte(']')
	return sb.String()
}

func (t l1Tx) String() string {
	var sb strings.Builder
	sb.WriteString(t.lockString())
	for _, s := range t.Steps {
		if s.W {
			sb.WriteString(" wr ")
		} else {
			sb.WriteString(" rd ")
		}
		sb.WriteByte(byte('a' + s.A))
	}
	if t.Retry {
		sb.WriteString(" retry")
	}
	return sb.String()
}

func (p l1Prog) String() string {
	parts := make([]string, len(p.Txs))
	for i, t := range p.Txs {
		parts[i] = t.String()
	}
	return fmt.Sprintf("root%d{%s}", p.Root, strings.Join(parts, "; "))
}

// lockPattern is the lock-request shape of the program without the bodies
// (used in violation signatures).
func (p l1Prog) lockPattern() string {
	var sb strings.Builder
	fmt.Fprintf(&sb, "root%d", p.Root)
	for _, t := range p.Txs {
		sb.WriteString(t.lockString())
	}
	return sb.String()
}

// access computes what a transaction may touch: 0 nothing, 1 read, 2 write.
func (t l1Tx) access() [3]int {
	var acc [3]int
	world := 0
	for _, r := range t.Locks {
		lv := 1
		if r.W {
			lv = 2
		}
		if r.A == l1World {
			if lv > world {
				world = lv
			}
		} else if lv > acc[r.A] {
			acc[r.A] = lv
		}
	}
	for i := range acc {
		if world > acc[i] {
			acc[i] = world
		}
	}
	return acc
}

func (t l1Tx) touchesWorld() bool {
	for _, r := range t.Locks {
		if r.A == l1World {
			return true
		}
	}
	return false
}

// l1LockLists enumerates the lock request lists of one transaction: every list
// of one or two requests over {R,W}x{a,b,c,world}; for two requests on
// *different* ids the order is immaterial (applyLockRequests keeps them in a
// map), so only one order is kept; for two requests on the same id both orders
// are kept (upgrade path).
func l1LockLists() [][]l1Req {
	var all []l1Req
	for a := 0; a <= l1World; a++ {
		all = append(all, l1Req{a, false}, l1Req{a, true})
	}
	var out [][]l1Req
	for _, r := range all {
		out = append(out, []l1Req{r})
	}
	for i, r1 := range all {
		for j, r2 := range all {
			if r1.A != r2.A && i > j {
				continue
			}
			out = append(out, []l1Req{r1, r2})
		}
	}
	return out
}

// l1Bodies enumerates the step lists of one transaction: every ordered
// selection of up to maxSteps distinct accessible accounts (including the empty
// body: a transaction that never resolves what it locked).
func l1Bodies(acc [3]int, maxSteps int) [][]l1Step {
	out := [][]l1Step{nil}
	var rec func(cur []l1Step, used [3]bool)
	rec = func(cur []l1Step, used [3]bool) {
		if len(cur) >= maxSteps {
			return
		}
		for a := 0; a < 3; a++ {
			if used[a] || acc[a] == 0 {
				continue
			}
			// an account the transaction may write is touched by a wr step (which
			// reads and records first, so a separate rd would add nothing the
			// virtual state can see); a read-only account by a rd step
			nx := append(append([]l1Step(nil), cur...), l1Step{a, acc[a] == 2})
			out = append(out, nx)
			u := used
			u[a] = true
			rec(nx, u)
		}
	}
	rec(nil, [3]bool{})
	return out
}

func l1Rename(p l1Prog, perm [3]int) l1Prog {
	q := l1Prog{Root: p.Root, Txs: make([]l1Tx, len(p.Txs))}
	for i, t := range p.Txs {
		nt := l1Tx{Retry: t.Retry}
		for _, r := range t.Locks {
			if r.A != l1World {
				r.A = perm[r.A]
			}
			nt.Locks = append(nt.Locks, r)
		}
		if len(nt.Locks) == 2 && nt.Locks[0].A != nt.Locks[1].A {
			a, b := nt.Locks[0], nt.Locks[1]
			if b.A < a.A {
				nt.Locks[0], nt.Locks[1] = b, a
			}
		}
		for _, s := range t.Steps {
			s.A = perm[s.A]
			nt.Steps = append(nt.Steps, s)
		}
		q.Txs[i] = nt
	}
	return q
}

var l1Perms = [][3]int{{0, 1, 2}, {0, 2, 1}, {1, 0, 2}, {1, 2, 0}, {2, 0, 1}, {2, 1, 0}}

// l1Canonical reports whether p is the representative of its class under
// renaming of the three accounts.
func l1Canonical(p l1Prog) bool {
	self := l1Rename(p, l1Perms[0]).String()
	for _, pm := range l1Perms[1:] {
		if l1Rename(p, pm).String() < self {
			return false
		}
	}
	return true
}

// collides: at least two transactions touch a common account or one of them
// takes a world lock.
func (p l1Prog) collides() bool {
	for i := range p.Txs {
		ai := p.Txs[i].access()
		if p.Txs[i].touchesWorld() {
			return true
		}
		for j := i + 1; j < len(p.Txs); j++ {
			aj := p.Txs[j].access()
			for a := 0; a < 3; a++ {
				if ai[a] > 0 && aj[a] > 0 {
					return true
				}
			}
		}
	}
	return false
}

// conflicts: some pair of transactions accesses a common account and at least
// one of the two may write it (a genuine ordering constraint).
func (p l1Prog) conflicts() bool {
	for i := range p.Txs {
		ai := p.Txs[i].access()
		for j := i + 1; j < len(p.Txs); j++ {
			aj := p.Txs[j].access()
			for a := 0; a < 3; a++ {
				if ai[a] > 0 && aj[a] > 0 && (ai[a] == 2 || aj[a] == 2) {
					return true
				}
			}
		}
	}
	return false
}

type l1Family struct {
	Name     string
	K        int
	MaxSteps int
	Roots    []int
	Retry    bool // additionally every variant with exactly one retrying transaction
	Collide  bool // keep only colliding programs
	NoEmpty  bool // drop the empty body
	// LockFilter restricts the lock lists (nil = all)
	LockFilter func(l []l1Req) bool
}

func l1Enumerate(f l1Family) []l1Prog {
	var txs []l1Tx
	for _, ll := range l1LockLists() {
		if f.LockFilter != nil && !f.LockFilter(ll) {
			continue
		}
		t := l1Tx{Locks: ll}
		for _, b := range l1Bodies(t.access(), f.MaxSteps) {
			if f.NoEmpty && len(b) == 0 {
				continue
			}
			txs = append(txs, l1Tx{Locks: ll, Steps: b})
		}
	}
	// renamed string of every transaction under every account permutation
	names := make([][6]string, len(txs))
	for i, t := range txs {
		for pi, pm := range l1Perms {
			names[i][pi] = l1Rename(l1Prog{Txs: []l1Tx{t}}, pm).Txs[0].String()
		}
	}
	canonical := func(idx []int) bool {
		for pi := 1; pi < 6; pi++ {
			for _, i := range idx {
				if c := strings.Compare(names[i][pi], names[i][0]); c < 0 {
					return false
				} else if c > 0 {
					break
				}
			}
		}
		return true
	}
	var out []l1Prog
	idx := make([]int, f.K)
	for {
		if canonical(idx) {
			for _, root := range f.Roots {
				p := l1Prog{Root: root}
				for _, i := range idx {
					p.Txs = append(p.Txs, txs[i])
				}
				if f.Collide && !p.collides() {
					continue
				}
				out = append(out, p)
				if f.Retry {
					for r := 0; r < f.K; r++ {
						if len(p.Txs[r].Steps) == 0 {
							continue
						}
						q := l1Prog{Root: root, Txs: append([]l1Tx(nil), p.Txs...)}
						q.Txs[r].Retry = true
						out = append(out, q)
					}
				}
			}
		}
		i := f.K - 1
		for ; i >= 0; i-- {
			idx[i]++
			if idx[i] < len(txs) {
				break
			}
			idx[i] = 0
		}
		if i < 0 {
			break
		}
	}
	return out
}

// ---------------------------------------------------------------------------
// execution

var l1IDs = [3][]byte{
	append([]byte{0}, bytes.Repeat([]byte{0xa1}, 20)...),
	append([]byte{0}, bytes.Repeat([]byte{0xb2}, 20)...),
	append([]byte{0}, bytes.Repeat([]byte{0xc3}, 20)...),
}

type l1Env struct {
	dbase db.Database
	hash  []byte
	wss   state.WorldSnapshot
}

// newL1Env builds the initial state (three accounts with distinct balances and
// one storage value each), flushes it into a MapDB and keeps the snapshot; every
// execution starts from a fresh WorldState made from that snapshot with
// WorldStateFromSnapshot, exactly like transition.newWorldContext does with
// its parent's snapshot.
func newL1Env() *l1Env {
	dbase := db.NewMapDB()
	ws := state.NewWorldState(dbase, nil, nil, nil, nil)
	for i, id := range l1IDs {
		as := ws.GetAccountState(id)
		as.SetBalance(big.NewInt(int64(10 * (i + 1))))
		if _, err := as.SetValue([]byte("k0"), []byte{byte(0x70 + i)}); err != nil {
			panic(err)
		}
	}
	ss := ws.GetSnapshot()
	if err := ss.Flush(); err != nil {
		panic(err)
	}
	return &l1Env{dbase: dbase, hash: ss.StateHash(), wss: ss}
}

func (e *l1Env) newWorld() state.WorldState {
	ws, err := state.WorldStateFromSnapshot(e.wss)
	if err != nil {
		panic(err)
	}
	return ws
}

// l1Obs is what one run of a program exposes.
type l1Obs struct {
	Reads    [][]string // per transaction: values read by its (final) attempt
	Hash     string     // state hash of the real world state after Realize
	VHash    string     // state hash of the last virtual state's snapshot after Realize
	Balances [3]string
	Order    []byte // global order of executed steps (tx index per step), schedule diversity
	Err      string
	Post     [][3]string // sequential oracle only: "balance/value" of a,b,c after each transaction
}

func (o *l1Obs) key() string {
	var sb strings.Builder
	for i, r := range o.Reads {
		fmt.Fprintf(&sb, "t%d:%s|", i, strings.Join(r, ","))
	}
	fmt.Fprintf(&sb, "h=%s vh=%s b=%v err=%s", o.Hash, o.VHash, o.Balances, o.Err)
	return sb.String()
}

// l1RunSteps executes the body of transaction ti against ws (a virtual state in
// the concurrent run, the plain world state in the sequential reference).
func l1RunSteps(ws state.WorldState, ti int, t *l1Tx, order *[]byte) (reads []string, err string) {
	for _, s := range t.Steps {
		explore.Point()
		if order != nil {
			*order = append(*order, byte(ti))
		}
		id := l1IDs[s.A]
		as := ws.GetAccountState(id)
		if as == nil {
			return reads, fmt.Sprintf("tx%d: GetAccountState(%c)=nil", ti, 'a'+s.A)
		}
		bal := as.GetBalance()
		v, e := as.GetValue([]byte("k0"))
		if e != nil {
			return reads, fmt.Sprintf("tx%d: GetValue: %v", ti, e)
		}
		reads = append(reads, fmt.Sprintf("%c=%s/%x", 'a'+s.A, bal.String(), v))
		if s.W {
			nb := new(big.Int).Mul(bal, big.NewInt(2))
			nb.Add(nb, big.NewInt(int64(ti+1)))
			as.SetBalance(nb)
			as2 := ws.GetAccountState(id) // second lookup takes the already-resolved path
			if as2 == nil {
				return reads, fmt.Sprintf("tx%d: second GetAccountState(%c)=nil", ti, 'a'+s.A)
			}
			if _, e := as2.SetValue([]byte("k0"), append(append([]byte(nil), v...), byte(ti+1))); e != nil {
				return reads, fmt.Sprintf("tx%d: SetValue: %v", ti, e)
			}
		}
	}
	return reads, ""
}

// l1RunTx is the worker of one transaction, mirroring the goroutine of
// executeTxsConcurrent: snapshot first, body (with optional reset+retry), commit.
func l1RunTx(ws state.WorldState, ti int, t *l1Tx, order *[]byte) (reads []string, err string) {
	wss := ws.GetSnapshot()
	for attempt := 0; ; attempt++ {
		reads, err = l1RunSteps(ws, ti, t, order)
		if err != "" || !t.Retry || attempt == 1 {
			return
		}
		explore.Point()
		if e := ws.Reset(wss); e != nil {
			return reads, fmt.Sprintf("tx%d: Reset: %v", ti, e)
		}
	}
}

func l1Lq(t *l1Tx) []state.LockRequest {
	lq := make([]state.LockRequest, len(t.Locks))
	for i, r := range t.Locks {
		lk := state.AccountReadLock
		if r.W {
			lk = state.AccountWriteLock
		}
		if r.A == l1World {
			lq[i] = state.LockRequest{ID: state.WorldIDStr, Lock: lk}
		} else {
			lq[i] = state.LockRequest{ID: string(l1IDs[r.A]), Lock: lk}
		}
	}
	return lq
}

func l1Final(o *l1Obs, ws state.WorldState, last state.WorldVirtualState) {
	ss := ws.GetSnapshot()
	o.Hash = hex.EncodeToString(ss.StateHash())
	if last != nil {
		o.VHash = hex.EncodeToString(last.GetSnapshot().StateHash())
	} else {
		o.VHash = o.Hash
	}
	for i, id := range l1IDs {
		if as := ss.GetAccountSnapshot(id); as != nil {
			o.Balances[i] = as.GetBalance().String()
		}
	}
}

// l1Sequential is the oracle: the transactions one by one on the plain state.
func l1Sequential(env *l1Env, p *l1Prog) *l1Obs {
	ws := env.newWorld()
	o := &l1Obs{Reads: make([][]string, len(p.Txs))}
	for i := range p.Txs {
		r, e := l1RunTx(ws, i, &p.Txs[i], nil)
		o.Reads[i] = r
		if e != "" && o.Err == "" {
			o.Err = e
		}
		var post [3]string
		for a, id := range l1IDs {
			as := ws.GetAccountState(id)
			v, _ := as.GetValue([]byte("k0"))
			post[a] = fmt.Sprintf("%s/%x", as.GetBalance().String(), v)
		}
		o.Post = append(o.Post, post)
	}
	l1Final(o, ws, nil)
	return o
}

// effLock names the lock through which transaction t may touch account a.
func (t l1Tx) effLock(a int) string {
	acct, world := 0, 0
	for _, r := range t.Locks {
		lv := 1
		if r.W {
			lv = 2
		}
		if r.A == l1World {
			if lv > world {
				world = lv
			}
		} else if r.A == a && lv > acct {
			acct = lv
		}
	}
	names := []string{"", "R", "W"}
	// applyLockRequests: a world write lock swallows everything; an account
	// request not stronger than the world lock is dropped
	if world == 2 || (world >= acct && world > 0) {
		return "world-" + names[world]
	}
	if acct > 0 {
		return "account-" + names[acct]
	}
	return "none"
}

// l1Diagnose turns a difference between the sequential oracle and a concurrent
// observation into a narrow signature: which kind of wrong value a transaction
// read, through which lock, and through which lock the transaction whose write
// it wrongly saw / missed holds the account.
func l1Diagnose(p *l1Prog, want, got *l1Obs) string {
	if got.Err != want.Err {
		return "error:" + p.lockPattern()
	}
	for i := range p.Txs {
		if i >= len(got.Reads) || i >= len(want.Reads) {
			break
		}
		w, g := want.Reads[i], got.Reads[i]
		for k := 0; k < len(w) || k < len(g); k++ {
			if k >= len(w) || k >= len(g) {
				return fmt.Sprintf("reads-missing:tx%d:%s", i, p.lockPattern())
			}
			if w[k] == g[k] {
				continue
			}
			a := int(w[k][0] - 'a')
			val := g[k][2:]
			wantVal := w[k][2:]
			half := func(s string, i int) string { return strings.SplitN(s, "/", 2)[i] }
			kind, writer := "inconsistent-read", -1
			// a value only a later (or the same) transaction produces: the whole
			// account state of that transaction (future-read) or only one half of
			// it, i.e. a view into the middle of its update (dirty-read)
			for j := i; j < len(p.Txs) && writer < 0; j++ {
				prev := l1Initial(a)
				if j > 0 {
					prev = want.Post[j-1][a]
				}
				post := want.Post[j][a]
				if post == prev {
					continue
				}
				switch {
				case post == val:
					kind, writer = "future-read", j
				case (half(val, 0) == half(post, 0) && half(val, 0) != half(wantVal, 0)) ||
					(half(val, 1) == half(post, 1) && half(val, 1) != half(wantVal, 1)):
					kind, writer = "dirty-read", j
				}
			}
			if writer < 0 {
				for j := i - 1; j >= 0; j-- { // the last earlier writer of the account was missed
					if (j == 0 && want.Post[j][a] != l1Initial(a)) || (j > 0 && want.Post[j][a] != want.Post[j-1][a]) {
						kind, writer = "stale-read", j
						break
					}
				}
			}
			if writer < 0 {
				return fmt.Sprintf("%s:reader=%s:%s", kind, p.Txs[i].effLock(a), p.lockPattern())
			}
			return fmt.Sprintf("%s:reader=%s:writer=%s", kind, p.Txs[i].effLock(a), p.Txs[writer].effLock(a))
		}
	}
	return "final-state-differs:" + p.lockPattern()
}

func l1Initial(a int) string { return fmt.Sprintf("%d/%x", 10*(a+1), []byte{byte(0x70 + a)}) }

// l1Body is the managed body: thread 0 plays the dispatcher.
func l1Body(env *l1Env, p *l1Prog, free bool) func(x *explore.Exec) {
	return func(x *explore.Exec) {
		ws := env.newWorld()
		o := &l1Obs{Reads: make([][]string, len(p.Txs))}
		x.Data = o
		errs := make([]string, len(p.Txs))
		var cur state.WorldVirtualState
		if p.Root == 1 {
			cur = state.NewWorldVirtualState(ws, nil)
		}
		for i := range p.Txs {
			lq := l1Lq(&p.Txs[i])
			if cur == nil {
				cur = state.NewWorldVirtualState(ws, lq)
			} else {
				cur = cur.GetFuture(lq)
			}
			i, wvs := i, cur
			vsync.Go(func() {
				order := &o.Order
				if free {
					order = nil // shared slice: only under the cooperative scheduler
				}
				o.Reads[i], errs[i] = l1RunTx(wvs, i, &p.Txs[i], order)
				wvs.Commit()
			})
		}
		cur.Realize()
		l1Final(o, ws, cur)
		// errs of transactions are complete here only if Realize really waited;
		// they are folded in by the caller after the execution ended.
		x.Data = &l1Run{obs: o, errs: errs}
	}
}

type l1Run struct {
	obs  *l1Obs
	errs []string
}

func (r *l1Run) finish() *l1Obs {
	for _, e := range r.errs {
		if e != "" && r.obs.Err == "" {
			r.obs.Err = e
		}
	}
	return r.obs
}

// l1FreeRun executes the program once with native goroutines (no explorer):
// used by the -race pass and as a sanity run.
func l1FreeRun(env *l1Env, p *l1Prog) *l1Obs {
	x := &explore.Exec{}
	done := make(chan struct{})
	go func() {
		defer close(done)
		l1Body(env, p, true)(x)
	}()
	<-done
	// workers end right after Commit; Realize returned only after all commits,
	// but the goroutines may still be returning: their results were written
	// before Commit, so reading them after Realize is ordered by the commit.
	return x.Data.(*l1Run).finish()
}

func sortedKeys(m map[string]int64) []string {
	ks := make([]string, 0, len(m))
	for k := range m {
		ks = append(ks, k)
	}
	sort.Strings(ks)
	return ks
}
