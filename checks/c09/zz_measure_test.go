//go:build verif

package service

import (
	"os"
	"strconv"
	"testing"
	"time"
)

func TestVerifC09Measure(t *testing.T) {
	tier := os.Getenv("VERIF_TIER")
	st := time.Now()
	plan := c09Plan(tier)
	t.Logf("plan built in %v", time.Since(st))
	stride, _ := strconv.Atoi(os.Getenv("STRIDE"))
	if stride == 0 {
		stride = 200
	}
	rr := &c09Runner{deadline: time.Now().Add(time.Hour)}
	defer rr.close()
	for _, ph := range plan {
		if os.Getenv("SKIPREL") != "" {
			for i := range ph.Items {
				ph.Items[i].SkipRel = true
			}
		}
		cnt := map[string]int{}
		for _, it := range ph.Items {
			cnt[it.Family]++
		}
		t.Logf("phase %s families: %v", ph.Name, cnt)
		if os.Getenv("ONLY") != "" && os.Getenv("ONLY") != ph.Name {
			continue
		}
		famE := map[string]int64{}
		famN := map[string]int{}
		defer func(name string) { t.Logf("%s per-family sampled execs: %v n=%v", name, famE, famN) }(ph.Name)
		var execs int64
		var secs float64
		n := 0
		var maxE int64
		var maxIt c09Item
		for i := 0; i < len(ph.Items); i += stride {
			res := rr.run(ph.Items[i])
			execs += res.Res.Executions
			famE[ph.Items[i].Family] += res.Res.Executions
			famN[ph.Items[i].Family]++
			secs += res.Secs
			n++
			if res.Res.Executions > maxE {
				maxE = res.Res.Executions
				maxIt = ph.Items[i]
			}
			if len(res.Viol) > 0 {
				t.Logf("VIOL %s: %s", res.Viol[0].Sig, res.Viol[0].Detail)
			}
			if res.Harness != "" {
				t.Logf("HARNESS %s", res.Harness)
			}
		}
		t.Logf("phase %s: items=%d sampled=%d execs=%d secs=%.2f => est total execs=%.0f est cpu-secs=%.0f  (%.0f exec/s) max=%d (%s)", ph.Name, len(ph.Items), n, execs, secs,
			float64(execs)/float64(n)*float64(len(ph.Items)), secs/float64(n)*float64(len(ph.Items)), float64(execs)/secs, maxE, maxIt)
	}
}
