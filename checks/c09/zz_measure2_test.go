//go:build verif

package service

import (
	"testing"
	"time"
)

func TestVerifC09Prof(t *testing.T) {
	env := newL1Env()
	p := &l1Prog{Txs: []l1Tx{
		{Locks: []l1Req{{0, true}, {1, true}}, Steps: []l1Step{{0, true}, {1, true}}},
		{Locks: []l1Req{{1, true}, {2, false}}, Steps: []l1Step{{1, true}, {2, false}}},
	}}
	st := time.Now()
	n := 3000
	for i := 0; i < n; i++ {
		l1FreeRun(env, p)
	}
	t.Logf("free run: %v per exec", time.Since(st)/time.Duration(n))
	st = time.Now()
	for i := 0; i < n; i++ {
		l1Sequential(env, p)
	}
	t.Logf("sequential: %v per exec", time.Since(st)/time.Duration(n))
}
