//go:build verif

package service

// Level-2 harness shared by C09 and C10: the real transition.doExecute (and so
// the real executeTxs -> executeTxsConcurrent / executeTxsSequential, receipt
// aggregation and result computation) on a transition whose parent comes from a
// real test.Node chain, with the chain's ConcurrencyLevel overridden.

import (
	"encoding/base64"
	"encoding/hex"
	"fmt"
	"strings"

	"github.com/icon-project/goloop/chain/base"
	"github.com/icon-project/goloop/common"
	"github.com/icon-project/goloop/common/log"
	"github.com/icon-project/goloop/module"
	"github.com/icon-project/goloop/service/state"
	"github.com/icon-project/goloop/service/transaction"
)

// VerifFixture is produced by the external test package (see l2_fixture_test.go).
type VerifFixture struct {
	Parent  module.Transition
	Height  int64
	Close   func()
	WorldTx func(tag string, ts int64) module.Transaction // test.Transaction: world write lock, writes a system variable
	PriceTx func(price int64, ts int64) module.Transaction // test.Transaction: world write lock, sets the step price
}

var VerifNewFixture func(genesis string) *VerifFixture

// account universe of level 2: three funded accounts, one poor account (its
// balance covers the fee of one transfer but no value), the treasury.
var l2Addr = []string{
	"hx00000000000000000000000000000000000000a1",
	"hx00000000000000000000000000000000000000b2",
	"hx00000000000000000000000000000000000000c3",
	"hx00000000000000000000000000000000000000d4",
}

const (
	l2StepPrice = 10
	l2StepLimit = 1000
	l2Rich      = 1000000
	l2Poor      = 25000 // pays two fees (10*1000 each... limit reserve) but little value
)

func l2Genesis() string {
	return fmt.Sprintf(`{
 "accounts": [
  {"name": "god", "address": "hx54f7853dc6481b670caf69c5a27c7c8fe5be8269", "balance": "0x2961fff8ca4a62327800000"},
  {"name": "treasury", "address": "hx1000000000000000000000000000000000000000", "balance": "0x0"},
  {"name": "a", "address": "%s", "balance": "0x%x"},
  {"name": "b", "address": "%s", "balance": "0x%x"},
  {"name": "c", "address": "%s", "balance": "0x%x"},
  {"name": "d", "address": "%s", "balance": "0x%x"}
 ],
 "chain": {
  "revision": "0x8",
  "fee": {
   "stepPrice": "0x%x",
   "stepLimit": {"invoke": "0x10000000", "query": "0x1000000"},
   "stepCosts": {"default": "0x64", "contractCall": "0x1", "contractCreate": "0x1", "contractUpdate": "0x1",
     "contractDestruct": "0x1", "contractSet": "0x1", "get": "0x0", "set": "0x1", "replace": "0x1",
     "delete": "-0x1", "input": "0x1", "eventLog": "0x1", "apiCall": "0x1"}
  }
 },
 "message": "verif level-2 genesis",
 "nid": "0x1"
}`, l2Addr[0], l2Rich, l2Addr[1], l2Rich, l2Addr[2], l2Rich, l2Addr[3], l2Poor, l2StepPrice)
}

// l2Transfer builds a real version-3 transfer. Signatures are not checked at
// execution time (the transition is created "already validated"), so a dummy
// one is attached.
func l2Transfer(from, to int, value int64, nonce int, ts int64) module.Transaction {
	sig := base64.StdEncoding.EncodeToString(make([]byte, 65))
	js := fmt.Sprintf(`{"version":"0x3","from":"%s","to":"%s","value":"0x%x","stepLimit":"0x%x","timestamp":"0x%x","nid":"0x1","nonce":"0x%x","signature":"%s"}`,
		l2Addr[from], l2Addr[to], value, l2StepLimit, ts, nonce, sig)
	tx, err := transaction.NewTransactionFromJSON([]byte(js))
	if err != nil {
		panic(err)
	}
	return tx
}

type l2Chain struct {
	module.Chain
	level int
}

func (c *l2Chain) ConcurrencyLevel() int { return c.level }

type l2Env struct {
	fx     *VerifFixture
	parent *transition
	quiet  log.Logger
}

func newL2Env() *l2Env {
	if VerifNewFixture == nil {
		panic("level-2 fixture hook not installed")
	}
	fx := VerifNewFixture(l2Genesis())
	lg := log.New()
	lg.SetLevel(log.PanicLevel)
	e := &l2Env{fx: fx, parent: fx.Parent.(*transition), quiet: lg}
	// Warm the parent's immutable account trie: resolving the touched leaves once
	// keeps the decoded account objects in the shared snapshot, so that each
	// execution does not pay for decoding the system account (chain SCORE API
	// info) again. Purely a cache effect.
	ids := [][]byte{state.SystemID, common.MustNewAddressFromString("hx1000000000000000000000000000000000000000").ID()}
	for _, a := range l2Addr {
		ids = append(ids, common.MustNewAddressFromString(a).ID())
	}
	for _, id := range ids {
		e.parent.worldSnapshot.GetAccountSnapshot(id)
	}
	return e
}

func (e *l2Env) close() { e.fx.Close() }

// l2Obs is what one block execution exposes.
type l2Obs struct {
	Called   bool     // OnExecute was called
	Err      string   // error given to OnExecute ("" = success)
	Receipts []string // per transaction, in block order (success case)
	Result   string
	Hash     string
	Balances []string
	Nil      []int // indices of nil receipts left in the list
}

func (o *l2Obs) key() string {
	return fmt.Sprintf("called=%v err=%q rcts=[%s] result=%s hash=%s bal=%v", o.Called, o.Err, strings.Join(o.Receipts, " "), o.Result, o.Hash, o.Balances)
}

type l2Callback struct{ o *l2Obs }

func (c *l2Callback) OnValidate(tr module.Transition, err error) {
	if err != nil {
		c.o.Called = true
		c.o.Err = "validate: " + err.Error()
	}
}

func (c *l2Callback) OnExecute(tr module.Transition, err error) {
	c.o.Called = true
	if err != nil {
		c.o.Err = errCodeString(err)
	}
}

func errCodeString(err error) string {
	s := err.Error()
	if i := strings.IndexByte(s, '\n'); i >= 0 {
		s = s[:i]
	}
	return s
}

// exec runs the REAL transition.doExecute for a block of the given
// transactions on the calling goroutine (a managed thread inside an
// exploration). level<=1 selects executeTxsSequential, otherwise
// executeTxsConcurrent(level).
func (e *l2Env) exec(txs []module.Transaction, level int) *l2Obs {
	o := &l2Obs{}
	e.execInto(o, txs, level)
	return o
}

// l2Opt varies how the block is run (used by C10).
type l2Opt struct {
	// Platform, if set, wraps the transition's platform (fault injection into the
	// platform hooks called during block execution).
	Platform func(base.Platform) base.Platform
	// Patch puts the transactions into the patch list (always executed by
	// executeTxsSequential) instead of the normal list.
	Patch bool
}

func (e *l2Env) execInto(o *l2Obs, txs []module.Transaction, level int) {
	e.execIntoOpt(o, txs, level, l2Opt{})
}

func (e *l2Env) execIntoOpt(o *l2Obs, txs []module.Transaction, level int, opt l2Opt) {
	p := e.parent
	tc := *p.transitionContext
	tc.log = e.quiet
	tc.chain = &l2Chain{Chain: p.chain, level: level}
	if opt.Platform != nil {
		tc.plt = opt.Platform(tc.plt)
	}
	txl := transaction.NewTransactionListFromSlice(p.db, txs)
	bi := common.NewBlockInfo(e.fx.Height+1, 1000)
	var t *transition
	if opt.Patch {
		t = newTransition(p, txl, nil, bi, nil, true)
		// patchTransition sets the patch block info; executing needs none of it
	} else {
		t = newTransition(p, nil, txl, bi, nil, true)
	}
	t.transitionContext = &tc
	t.cb = &l2Callback{o: o}
	t.step = stepExecuting // what startExecution does for a validated transition
	t.doExecute(true)
	if !o.Called || o.Err != "" {
		return
	}
	o.Result = hex.EncodeToString(t.result)
	o.Hash = hex.EncodeToString(t.worldSnapshot.StateHash())
	idx := 0
	rl := t.normalReceipts
	if opt.Patch {
		rl = t.patchReceipts
	}
	for it := rl.Iterator(); it.Has(); it.Next() {
		r, err := it.Get()
		if err != nil || r == nil {
			o.Nil = append(o.Nil, idx)
			o.Receipts = append(o.Receipts, "nil")
		} else {
			o.Receipts = append(o.Receipts, fmt.Sprintf("%d:s%d:u%s:%x", idx, r.Status(), r.StepUsed(), r.Bytes()))
		}
		idx++
	}
	for _, a := range l2Addr {
		as := t.worldSnapshot.GetAccountSnapshot(common.MustNewAddressFromString(a).ID())
		if as == nil {
			o.Balances = append(o.Balances, "-")
		} else {
			o.Balances = append(o.Balances, as.GetBalance().String())
		}
	}
}
