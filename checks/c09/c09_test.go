//go:build verif

package service

// C09 — parallel transaction execution is equivalent to sequential execution
// for every goroutine schedule. Driver: builds the work list (level-1 programs
// over worldVirtualState, level-2 blocks through the real transition), shards
// it over GOMAXPROCS=1 child processes, aggregates, runs the free-running
// -race pass, writes the evidence.

import (
	"bytes"
	"encoding/json"
	"fmt"
	"os"
	"os/exec"
	"path/filepath"
	"sort"
	"strconv"
	"strings"
	"testing"
	"time"

	"github.com/icon-project/goloop/module"
	"github.com/icon-project/goloop/verifshim/ev"
	"github.com/icon-project/goloop/verifshim/explore"
	"github.com/icon-project/goloop/verifshim/vsync"
)

// ---------------------------------------------------------------------------
// level-2 blocks

type l2TxSpec struct {
	K     string `json:"k"` // "x" transfer, "w" world-write-lock test transaction, "p" set step price (world write lock)
	From  int    `json:"f,omitempty"`
	To    int    `json:"t,omitempty"`
	Value int64  `json:"v,omitempty"`
}

func (s l2TxSpec) String() string {
	if s.K == "w" {
		return "W"
	}
	if s.K == "p" {
		return fmt.Sprintf("P=%d", s.Value)
	}
	return fmt.Sprintf("%c>%c:%d", 'a'+s.From, 'a'+s.To, s.Value)
}

type l2Block struct {
	Txs  []l2TxSpec `json:"txs"`
	Conc int        `json:"conc"`
}

func (b l2Block) String() string {
	parts := make([]string, len(b.Txs))
	for i, t := range b.Txs {
		parts[i] = t.String()
	}
	return fmt.Sprintf("c%d[%s]", b.Conc, strings.Join(parts, " "))
}

func (b l2Block) build(e *l2Env) []module.Transaction {
	txs := make([]module.Transaction, len(b.Txs))
	for i, s := range b.Txs {
		if s.K == "w" {
			txs[i] = e.fx.WorldTx(fmt.Sprintf("w%d", i), 1000)
		} else if s.K == "p" {
			txs[i] = e.fx.PriceTx(s.Value+int64(i), 1000)
		} else {
			txs[i] = l2Transfer(s.From, s.To, s.Value, i, 1000)
		}
	}
	return txs
}

// alphabet of level-2 transactions: transfers among the three funded accounts
// a,b,c and the poor account d (index 3: its 25000 cover a fee reserve of
// 10000 but not a value of 100000, so d>c:100000 succeeds only if an earlier
// transfer into d is observed), and the world-lock transaction.
var l2Alphabet = []l2TxSpec{
	{K: "x", From: 0, To: 1, Value: 500},
	{K: "x", From: 1, To: 0, Value: 700},
	{K: "x", From: 1, To: 2, Value: 900},
	{K: "x", From: 0, To: 3, Value: 200000},
	{K: "x", From: 3, To: 2, Value: 100000},
	{K: "x", From: 2, To: 2, Value: 300},
	{K: "w"},
}

// l2Blocks enumerates all blocks of n transactions over the first m letters.
func l2Blocks(n, m, conc int) []l2Block {
	var out []l2Block
	idx := make([]int, n)
	for {
		b := l2Block{Conc: conc}
		for _, i := range idx {
			b.Txs = append(b.Txs, l2Alphabet[i])
		}
		out = append(out, b)
		i := n - 1
		for ; i >= 0; i-- {
			idx[i]++
			if idx[i] < m {
				break
			}
			idx[i] = 0
		}
		if i < 0 {
			break
		}
	}
	return out
}

func (b l2Block) shared() bool {
	for i := range b.Txs {
		if b.Txs[i].K != "x" {
			return true
		}
		for j := i + 1; j < len(b.Txs); j++ {
			if b.Txs[j].K != "x" {
				return true
			}
			a, c := b.Txs[i], b.Txs[j]
			if a.From == c.From || a.From == c.To || a.To == c.From || a.To == c.To {
				return true
			}
		}
	}
	return false
}

// ---------------------------------------------------------------------------
// work items

type c09Item struct {
	Level   int      `json:"level"`
	Family  string   `json:"family"`
	Prog    *l1Prog  `json:"prog,omitempty"`
	Block   *l2Block `json:"block,omitempty"`
	P       int      `json:"p"`
	SkipRel bool     `json:"skiprel,omitempty"`
}

func (it c09Item) String() string {
	if it.Level == 1 {
		return fmt.Sprintf("L1 %s P=%d", it.Prog, it.P)
	}
	return fmt.Sprintf("L2 %s P=%d skiprel=%v", it.Block, it.P, it.SkipRel)
}

// k3Locks is the reduced lock alphabet of three-transaction programs: single
// requests, two writes, read+write on different accounts, the read->write
// upgrade.
func k3Locks(l []l1Req) bool {
	if len(l) == 1 {
		return true
	}
	a, b := l[0], l[1]
	if a.A == l1World || b.A == l1World {
		return false
	}
	if a.A != b.A {
		return a.W || b.W
	}
	return !a.W && b.W
}

// k3SmallLocks: single requests and two writes only.
func k3SmallLocks(l []l1Req) bool {
	if len(l) == 1 {
		return true
	}
	a, b := l[0], l[1]
	return a.A != l1World && b.A != l1World && a.A != b.A && a.W && b.W
}

type c09Phase struct {
	Name  string
	Level int
	P     int
	Items []c09Item
}

func l1Phase(name string, p int, skipRel bool, fams ...l1Family) c09Phase {
	ph := c09Phase{Name: name, Level: 1, P: p}
	for _, f := range fams {
		for _, pr := range l1Enumerate(f) {
			pr := pr
			ph.Items = append(ph.Items, c09Item{Level: 1, Family: f.Name, Prog: &pr, P: p, SkipRel: skipRel})
		}
	}
	return ph
}

func l2Phase(name string, p int, blocks []l2Block) c09Phase {
	ph := c09Phase{Name: name, Level: 2, P: p}
	for i := range blocks {
		ph.Items = append(ph.Items, c09Item{Level: 2, Family: "blocks", Block: &blocks[i], P: p, SkipRel: true})
	}
	return ph
}

// c09Plan is the stated finite space per tier. Phases are explored in order; a
// wall-clock cap stops between/inside phases and the evidence says which
// phases were completed.
func c09Plan(tier string) []c09Phase {
	k2 := l1Family{Name: "k2-steps<=2", K: 2, MaxSteps: 2, Roots: []int{0}}
	k2r := l1Family{Name: "k2-steps<=1-root1-retry", K: 2, MaxSteps: 1, Roots: []int{1}, Retry: true}
	k3one := l1Family{Name: "k3-onestep-collide", K: 3, MaxSteps: 1, NoEmpty: true, Roots: []int{0}, Collide: true, LockFilter: k3SmallLocks}
	k3 := l1Family{Name: "k3-steps<=1-collide", K: 3, MaxSteps: 1, Roots: []int{0}, Collide: true, LockFilter: k3Locks}
	sharedOnly := func(bs []l2Block) []l2Block {
		var out []l2Block
		for _, b := range bs {
			if b.shared() {
				out = append(out, b)
			}
		}
		return out
	}
	four := func(conc int) []l2Block {
		a := l2Alphabet
		return []l2Block{
			{Conc: conc, Txs: []l2TxSpec{a[0], a[3], a[4], a[2]}},
			{Conc: conc, Txs: []l2TxSpec{a[3], a[6], a[4], a[1]}},
			{Conc: conc, Txs: []l2TxSpec{a[4], a[3], a[4], a[6]}},
		}
	}
	// blocks in which a governance-style transaction (world write lock, changes
	// the step price in the system account) sits between transfers: every
	// transaction read-locks the system account, so the later transfers must
	// observe the new price (receipts carry it) exactly as in sequential mode
	price := func(conc int) []l2Block {
		a := l2Alphabet
		p := l2TxSpec{K: "p", Value: 20}
		return []l2Block{
			{Conc: conc, Txs: []l2TxSpec{a[0], p, a[2]}},
			{Conc: conc, Txs: []l2TxSpec{a[0], p}},
			{Conc: conc, Txs: []l2TxSpec{p, a[0]}},
			{Conc: conc, Txs: []l2TxSpec{a[3], p, a[4]}},
			{Conc: conc, Txs: []l2TxSpec{a[0], p, a[2], a[5]}},
			{Conc: conc, Txs: []l2TxSpec{a[0], a[6], p, a[1]}},
		}
	}
	// the reader / writer / reader shapes first (cheap, and the ones a change
	// to the dependency tracking is most likely to break)
	rd := func(a int) []l1Step { return []l1Step{{A: a}} }
	wr := func(a int) []l1Step { return []l1Step{{A: a, W: true}} }
	focus := []l1Prog{
		{Txs: []l1Tx{{Locks: []l1Req{{0, false}}, Steps: rd(0)}, {Locks: []l1Req{{0, true}}, Steps: wr(0)}, {Locks: []l1Req{{0, false}}, Steps: rd(0)}}},
		{Txs: []l1Tx{{Locks: []l1Req{{0, false}}, Steps: rd(0)}, {Locks: []l1Req{{l1World, true}}, Steps: wr(0)}, {Locks: []l1Req{{0, false}}, Steps: rd(0)}}},
		{Txs: []l1Tx{{Locks: []l1Req{{0, true}}, Steps: wr(0)}, {Locks: []l1Req{{0, false}}, Steps: rd(0)}, {Locks: []l1Req{{0, true}}, Steps: wr(0)}}},
		{Txs: []l1Tx{{Locks: []l1Req{{0, false}, {1, true}}, Steps: wr(1)}, {Locks: []l1Req{{0, true}}, Steps: wr(0)}, {Locks: []l1Req{{0, false}, {2, true}}, Steps: []l1Step{{A: 0}, {A: 2, W: true}}}}},
	}
	focusPhase := func(name string, p int) c09Phase {
		ph := c09Phase{Name: name, Level: 1, P: p}
		for i := range focus {
			ph.Items = append(ph.Items, c09Item{Level: 1, Family: "k3-focus", Prog: &focus[i], P: p, SkipRel: false})
		}
		return ph
	}
	merge := func(name string, a c09Phase, b c09Phase) c09Phase {
		a.Name = name
		a.Items = append(a.Items, b.Items...)
		return a
	}
	if tier != "thorough" {
		l2 := append(sharedOnly(l2Blocks(3, 5, 2)), four(2)...)
		l2 = append(l2, four(3)...)
		// quick: release operations are not preemption points (except in the
		// focus programs); cheap, bug-prone families first so that a loaded
		// machine still covers both levels before the wall-clock cap
		return []c09Phase{
			l2Phase("L2 system-parameter (step price) blocks P<=1", 1, append(price(2), price(3)...)),
			merge("L1 k=3 focus programs P<=2 (all points) and one-step family P<=1", focusPhase("", 2), l1Phase("", 1, true, k3one)),
			l2Phase("L2 two-transaction blocks P<=2", 2, l2Blocks(2, 7, 2)),
			l1Phase("L1 k=2 P<=2 (release operations not preemptible)", 2, true, k2),
			l2Phase("L2 three/four-transaction blocks P<=1", 1, l2),
			// the one-step k=3 family at P<=2 (2.5M executions) is in the thorough tier
		}
	}
	var l2a, l2b, l2c []l2Block
	for _, c := range []int{2, 3} {
		l2a = append(l2a, l2Blocks(2, 7, c)...)
		l2b = append(l2b, sharedOnly(l2Blocks(3, 7, c))...)
		l2b = append(l2b, four(c)...)
		l2c = append(l2c, sharedOnly(l2Blocks(3, 5, c))...)
	}
	return []c09Phase{
		l2Phase("L2 system-parameter (step price) blocks P<=2", 2, append(price(2), price(3)...)),
		merge("L1 k=3 focus programs P<=3 (all points) and one-step family P<=2", focusPhase("", 3), l1Phase("", 2, true, k3one)),
		l2Phase("L2 two-transaction blocks P<=2", 2, l2a),
		l2Phase("L2 three/four-transaction blocks P<=1", 1, l2b),
		l1Phase("L1 k=3 P<=2 (release operations not preemptible)", 2, true, k3),
		l1Phase("L1 k=2 P<=3 (all scheduling points)", 3, false, k2, k2r),
		l1Phase("L1 k=3 one-step P<=3 (release operations not preemptible)", 3, true, k3one),
		l2Phase("L2 three-transaction blocks P<=2", 2, l2c),
	}
}

// ---------------------------------------------------------------------------
// running one item

type c09Case struct {
	Item  c09Item       `json:"item"`
	Trace explore.Trace `json:"trace"`
}

type c09Viol struct {
	Sig    string  `json:"sig"`
	Detail string  `json:"detail"`
	Case   c09Case `json:"case"`
}

type c09Res struct {
	Phase    int             `json:"phase"`
	Idx      int             `json:"idx"`
	Skipped  bool            `json:"skipped,omitempty"`
	Res      explore.Result  `json:"res"`
	Orders   int             `json:"orders"`   // distinct global step orders seen (level 1)
	Outcomes int             `json:"outcomes"` // distinct observable outcomes
	Viol     []c09Viol       `json:"viol,omitempty"`
	Harness  string          `json:"harness,omitempty"`
	Secs     float64         `json:"secs"`
	extra    map[string]bool // not serialised
}

type c09Runner struct {
	l1       *l1Env
	l2       *l2Env
	deadline time.Time
	diagnose func(x *explore.Exec) string // narrow description of a difference (set by bodyAndOracle)
	known    map[string]bool              // signatures listed as known in known_findings.json
}

// loadKnown reads the committed known-findings list: executions that only show
// a known signature do not stop the exploration of their program early, so the
// check keeps looking for *other* violations behind a known one.
func (r *c09Runner) loadKnown(property string) {
	r.known = map[string]bool{}
	b, err := os.ReadFile(filepath.Join(ev.Root(), "known_findings.json"))
	if err != nil {
		return
	}
	var list []struct{ State, Property, Signature string }
	if json.Unmarshal(b, &list) != nil {
		return
	}
	for _, k := range list {
		if k.State == "known" && k.Property == property {
			r.known[k.Signature] = true
		}
	}
}

func (r *c09Runner) close() {
	if r.l2 != nil {
		r.l2.close()
	}
}

func (r *c09Runner) envL1() *l1Env {
	if r.l1 == nil {
		r.l1 = newL1Env()
	}
	return r.l1
}

func (r *c09Runner) envL2() *l2Env {
	if r.l2 == nil {
		r.l2 = newL2Env()
	}
	return r.l2
}

// bodyAndOracle returns the managed body, the sequential oracle's key and a
// function extracting the observed key (plus a schedule-diversity string) of
// an execution.
func (r *c09Runner) bodyAndOracle(it c09Item) (body func(x *explore.Exec), want string, got func(x *explore.Exec) (string, string)) {
	if it.Level == 1 {
		env := r.envL1()
		seq := l1Sequential(env, it.Prog)
		want = seq.key()
		r.diagnose = func(x *explore.Exec) string {
			if run, ok := x.Data.(*l1Run); ok {
				return l1Diagnose(it.Prog, seq, run.finish())
			}
			return "incomplete:" + it.Prog.lockPattern()
		}
		body = l1Body(env, it.Prog, false)
		got = func(x *explore.Exec) (string, string) {
			run, ok := x.Data.(*l1Run)
			if !ok {
				return "incomplete:" + x.Data.(*l1Obs).key(), ""
			}
			o := run.finish()
			return o.key(), string(o.Order)
		}
		return
	}
	env := r.envL2()
	txs := it.Block.build(env)
	want = env.exec(txs, 1).key()
	r.diagnose = func(x *explore.Exec) string { return it.Block.String() }
	body = func(x *explore.Exec) {
		o := &l2Obs{}
		x.Data = o
		env.execInto(o, txs, it.Block.Conc)
	}
	got = func(x *explore.Exec) (string, string) { return x.Data.(*l2Obs).key(), "" }
	return
}

func c09Pattern(it c09Item) string {
	if it.Level == 1 {
		return it.Prog.lockPattern()
	}
	return it.Block.String()
}

// classify compares one execution with the oracle; "" = fine.
func c09Classify(it c09Item, out *explore.Outcome, want, got string, diagnose func() string) (sig, detail string) {
	lvl := fmt.Sprintf("L%d", it.Level)
	switch {
	case out.Deadlock:
		return lvl + ":deadlock:" + c09Pattern(it), fmt.Sprintf("deadlock; waiting=%v", out.Waiting)
	case out.Horizon:
		return lvl + ":livelock:" + c09Pattern(it), fmt.Sprintf("step horizon exceeded after %d scheduling points", out.Steps)
	case out.Panic != "":
		first := out.Panic
		if i := strings.IndexByte(first, '\n'); i > 0 {
			first = first[:i]
		}
		return lvl + ":panic:" + c09Pattern(it), "panic in a managed thread: " + out.Panic[:minInt(len(out.Panic), 1500)] + " [" + first + "]"
	case got != want:
		return lvl + ":differs-from-sequential:" + diagnose(), fmt.Sprintf("concurrent outcome differs from sequential execution\n sequential: %s\n concurrent: %s", want, got)
	}
	return "", ""
}

func minInt(a, b int) int {
	if a < b {
		return a
	}
	return b
}

func (r *c09Runner) run(it c09Item) c09Res {
	st := time.Now()
	var res c09Res
	body, want, got := r.bodyAndOracle(it)
	orders := map[string]struct{}{}
	outcomes := map[string]struct{}{}
	nviol := 0
	n := 0
	seenSig := map[string]bool{}
	opt := explore.Options{MaxPreemptions: it.P, SkipReleasePoints: it.SkipRel, MaxSteps: 50000}
	opt.Stop = func() bool {
		n++
		if nviol >= 5 {
			return true
		}
		return n%64 == 0 && time.Now().After(r.deadline)
	}
	res.Res = explore.Explore(opt, body, func(x *explore.Exec, out *explore.Outcome) {
		g, ord := got(x)
		if it.Level == 1 {
			orders[ord] = struct{}{}
		}
		outcomes[g] = struct{}{}
		sig, detail := c09Classify(it, out, want, g, func() string { return r.diagnose(x) })
		if sig == "" {
			return
		}
		if !r.known[sig] {
			nviol++
		}
		if seenSig[sig] || len(res.Viol) >= 4 {
			return
		}
		seenSig[sig] = true
		// confirm by replaying the recorded decisions before reporting
		tr := append(explore.Trace(nil), out.Trace...)
		x2, out2, err := explore.Replay(tr, opt, body)
		if err != nil {
			res.Harness = "replay of a violating execution diverged: " + err.Error()
			return
		}
		g2, _ := got(x2)
		if sig2, _ := c09Classify(it, out2, want, g2, func() string { return r.diagnose(x2) }); sig2 != sig {
			res.Harness = fmt.Sprintf("violation %q did not reproduce on replay (got %q)", sig, sig2)
			return
		}
		res.Viol = append(res.Viol, c09Viol{Sig: sig, Detail: it.String() + "\n" + detail + "\n trace: " + tr.String(), Case: c09Case{Item: it, Trace: tr}})
	})
	res.Orders = len(orders)
	res.Outcomes = len(outcomes)
	res.Secs = time.Since(st).Seconds()
	return res
}

// ---------------------------------------------------------------------------
// shard child

func c09ShardMain(t *testing.T) {
	tier := os.Getenv("VERIF_TIER")
	phase, _ := strconv.Atoi(os.Getenv("VERIF_C09_PHASE"))
	dl, _ := strconv.ParseInt(os.Getenv("VERIF_C09_DEADLINE"), 10, 64)
	plan := c09Plan(tier)
	items := plan[phase].Items
	r := &c09Runner{deadline: time.UnixMilli(dl)}
	r.loadKnown("C09")
	defer r.close()
	for {
		i, ok := explore.NextItem()
		if !ok {
			break
		}
		var res c09Res
		if time.Now().After(r.deadline) {
			res.Skipped = true
		} else {
			res = r.run(items[i])
		}
		res.Phase, res.Idx = phase, i
		b, err := json.Marshal(&res)
		if err != nil {
			panic(err)
		}
		explore.Emit(b)
	}
}

// ---------------------------------------------------------------------------
// free-running pass (same bodies, native goroutines); run in the -race binary

func c09RaceMain(t *testing.T) {
	tier := os.Getenv("VERIF_TIER")
	plan := c09Plan(tier)
	r := &c09Runner{}
	defer r.close()
	dl, _ := strconv.ParseInt(os.Getenv("VERIF_C09_DEADLINE"), 10, 64)
	deadline := time.UnixMilli(dl)
	seen := map[string]bool{}
	runs, mismatches, items := 0, 0, 0
	// level-2 blocks first (they run the dispatcher of transition_pe.go), then a
	// deterministic stride of the conflicting level-1 programs
	var cands []c09Item
	for _, lvl := range []int{2, 1} {
		for _, ph := range plan {
			for i, it := range ph.Items {
				if it.Level != lvl {
					continue
				}
				key := fmt.Sprintf("%d/%v/%v", it.Level, it.Prog, it.Block)
				if seen[key] {
					continue
				}
				seen[key] = true
				if it.Level == 1 && !(it.Prog.conflicts() && i%11 == 0) {
					continue
				}
				if it.Level == 2 && len(it.Block.Txs) == 3 && i%3 != 0 {
					continue
				}
				cands = append(cands, it)
			}
		}
	}
	for _, it := range cands {
		// the first 150 items are run whatever the clock says (a loaded machine
		// must not turn the pass into a no-op)
		if items >= 150 && time.Now().After(deadline) {
			fmt.Printf("RACE-PASS-CAPPED after %d of %d items\n", items, len(cands))
			break
		}
		items++
		for k := 0; k < 3; k++ {
			var want, got, sig string
			if it.Level == 1 {
				env := r.envL1()
				seq := l1Sequential(env, it.Prog)
				obs := l1FreeRun(env, it.Prog)
				want, got = seq.key(), obs.key()
				if got != want {
					sig = "L1:differs-from-sequential:" + l1Diagnose(it.Prog, seq, obs)
				}
			} else {
				env := r.envL2()
				txs := it.Block.build(env)
				want = env.exec(txs, 1).key()
				got = env.exec(txs, it.Block.Conc).key()
				if got != want {
					sig = "L2:differs-from-sequential:" + it.Block.String()
				}
			}
			runs++
			if sig != "" {
				mismatches++
				if mismatches <= 5 {
					fmt.Printf("RACE-PASS-MISMATCH sig=%s\n case: %s (free-running)\n sequential: %s\n concurrent: %s\nRACE-PASS-MISMATCH-END\n", sig, it, want, got)
				}
			}
		}
	}
	fmt.Printf("RACE-PASS items=%d runs=%d mismatches=%d\n", items, runs, mismatches)
}

// c09StartRacePass builds the same test binary with -race (same overlay) and
// runs the free-running pass in it; the returned function waits for the result.
func c09StartRacePass(deadline time.Time) func() (summary string, races int, mismatch string, raw []byte, err error) {
	type result struct {
		out []byte
		err error
	}
	ch := make(chan result, 1)
	work := os.Getenv("VERIF_SCRATCH")
	if work == "" {
		work = filepath.Join(ev.Root(), ".work", "c09")
	}
	go func() {
		bin := filepath.Join(work, "check.race.test")
		build := exec.Command("go", "test", "-c", "-race", "-tags", "verif", "-overlay", filepath.Join(work, "overlay.json"), "-vet=off", "-o", bin, ".")
		if out, err := build.CombinedOutput(); err != nil {
			ch <- result{out, fmt.Errorf("race build failed: %v", err)}
			return
		}
		run := exec.Command(bin, "-test.run", "^TestVerifC09$", "-test.count", "1", "-test.timeout", "0")
		run.Env = append(os.Environ(), "VERIF_C09_RACE=1", fmt.Sprintf("VERIF_C09_DEADLINE=%d", deadline.UnixMilli()),
			"VERIF_C09_TMP="+filepath.Join(work, "tmp-race"), "GORACE=halt_on_error=0")
		out, err := run.CombinedOutput()
		os.RemoveAll(filepath.Join(work, "tmp-race"))
		ch <- result{out, err}
	}()
	return func() (string, int, string, []byte, error) {
		r := <-ch
		races := bytes.Count(r.out, []byte("WARNING: DATA RACE"))
		var summary, mismatch string
		for _, ln := range strings.Split(string(r.out), "\n") {
			if strings.HasPrefix(ln, "RACE-PASS ") || strings.HasPrefix(ln, "RACE-PASS-CAPPED") {
				summary += ln + " "
			}
		}
		rest := r.out
		for {
			i := bytes.Index(rest, []byte("RACE-PASS-MISMATCH sig="))
			if i < 0 {
				break
			}
			j := bytes.Index(rest[i:], []byte("RACE-PASS-MISMATCH-END"))
			if j < 0 {
				j = minInt(len(rest)-i, 1500)
			}
			mismatch += string(rest[i:i+j]) + "\x00"
			rest = rest[i+j:]
		}
		if races > 0 {
			i := bytes.Index(r.out, []byte("WARNING: DATA RACE"))
			mismatch = "DATA RACE\n" + string(r.out[i:minInt(len(r.out), i+3000)])
		}
		if r.err != nil && races == 0 && summary == "" {
			tail := r.out
			if len(tail) > 3000 {
				tail = tail[len(tail)-3000:]
			}
			return summary, races, mismatch, r.out, fmt.Errorf("%v\n%s", r.err, tail)
		}
		return summary, races, mismatch, r.out, nil
	}
}

// ---------------------------------------------------------------------------
// parent

func TestVerifC09(t *testing.T) {
	if os.Getenv("VERIF_C09_RACE") != "" {
		c09RaceMain(t)
		return
	}
	if explore.IsShard() {
		c09ShardMain(t)
		return
	}
	started := time.Now()
	r := ev.Start(t, "C09", "exploration")
	r.SetBudget(80*time.Second, 14*time.Minute)
	budget := 80 * time.Second
	if r.Thorough() {
		budget = 14 * time.Minute
	}
	if s := os.Getenv("VERIF_BUDGET_S"); s != "" {
		if n, err := strconv.Atoi(s); err == nil {
			budget = time.Duration(n) * time.Second
		}
	}
	budgetDeadline := started.Add(budget - 3*time.Second)
	r.Rule("a case is one (program, schedule) execution: level 1 = canonical program (up to account renaming) of 2-3 transactions with lock requests over {R,W}x{a,b,c,world} and bodies touching distinct accessible accounts, run on the real worldVirtualState; level 2 = block of 2-4 real transfers / world-lock transactions run through the real transition.doExecute with concurrency 2-3; every schedule with at most P preemptions (and every order of pending write-dependencies in Commit) is enumerated by stateless DFS. distinct_nontrivial counts programs/blocks with a genuine read-write or write-write conflict in which at least one execution really blocked a thread.")
	r.Assume("only service/state/worldvirtualstate.go and service/transition_pe.go run on the vsync shim (their mutexes, the Cond, the semaphore channel and the go statement are scheduling points); the mutexes inside worldStateImpl, accounts, tries and loggers are leaf locks and stay native",
		"the cooperative scheduler yields sequentially consistent executions only; data races are left to the free-running -race pass",
		"sequential execution of the same transactions on the plain world state (level 1) / through executeTxsSequential (level 2) is the oracle")
	if err := vsync.SelfCheck(); err != nil {
		r.Sanity(false, "engine self-check failed: %v", err)
		r.Sample("engine self-check failed")
		r.Finish(false)
		return
	}
	if ev.Replaying() {
		c09Replay(r)
		return
	}
	tier := r.Tier()
	plan := c09Plan(tier)
	work := os.Getenv("VERIF_SCRATCH")
	if work == "" {
		work = filepath.Join(ev.Root(), ".work", "c09")
	}
	// determinism self-test on one conflicting program of each level
	{
		rr := &c09Runner{}
		for _, ph := range plan {
			for _, it := range ph.Items {
				if it.Level == 1 && it.Prog.conflicts() && len(it.Prog.Txs[0].Steps) > 0 && len(it.Prog.Txs[1].Steps) > 0 {
					body, _, got := rr.bodyAndOracle(it)
					if err := explore.SelfTest(explore.Options{}, body, func(x *explore.Exec, o *explore.Outcome) string { g, ord := got(x); return g + "#" + ord }); err != nil {
						r.Sanity(false, "determinism self-test: %v", err)
					}
					goto l1done
				}
			}
		}
	l1done:
	}

	racePassDeadline := started.Add(budget * 6 / 10)
	waitRace := func() (string, int, string, []byte, error) { return "RACE-PASS disabled", 0, "", nil, nil }
	if os.Getenv("VERIF_C09_NORACE") == "" {
		waitRace = c09StartRacePass(racePassDeadline)
	}

	var total explore.Result
	total.BlockedByKind = map[string]int64{}
	var harness []string
	exhaustive := true
	phaseDone := map[string]interface{}{}
	minBound := map[int]int{1: 99, 2: 99}
	type famStat struct {
		Programs, Conflicting, BlockedProgs int
		Execs                               int64
		MinOrders, MaxOrders                int
		SumOrders                           int64
		MultiOutcome                        int
	}
	fams := map[string]*famStat{}
	sampled := 0
	for pi, ph := range plan {
		if r.Expired() {
			exhaustive = false
			break
		}
		done := make([]bool, len(ph.Items))
		skipped := 0
		// biggest programs first is not known a priori; keep enumeration order
		err := explore.RunShards(explore.ShardSpec{
			Test: "TestVerifC09", Items: len(ph.Items), Procs: c09Procs(),
			Env: []string{fmt.Sprintf("VERIF_C09_PHASE=%d", pi), fmt.Sprintf("VERIF_C09_DEADLINE=%d", budgetDeadline.UnixMilli()),
				"VERIF_C09_TMP=" + filepath.Join(work, "tmp")},
		}, func(shard int, line []byte) {
			var res c09Res
			if err := json.Unmarshal(line, &res); err != nil {
				harness = append(harness, "bad shard line: "+err.Error())
				return
			}
			it := ph.Items[res.Idx]
			if res.Skipped {
				skipped++
				return
			}
			done[res.Idx] = true
			total.Merge(res.Res)
			r.Eval(int(res.Res.Executions))
			if !res.Res.Complete && len(res.Viol) == 0 {
				skipped++
			} else if !res.Res.Complete {
				r.Cap("exploration of violating programs stopped after 5 violating executions each")
			}
			if res.Harness != "" {
				harness = append(harness, it.String()+": "+res.Harness)
			}
			fs := fams[ph.Name+"/"+it.Family]
			if fs == nil {
				fs = &famStat{MinOrders: 1 << 30}
				fams[ph.Name+"/"+it.Family] = fs
			}
			fs.Programs++
			fs.Execs += res.Res.Executions
			conflict := (it.Level == 1 && it.Prog.conflicts()) || (it.Level == 2 && it.Block.shared())
			if conflict {
				fs.Conflicting++
			}
			if res.Res.BlockedExecutions > 0 {
				fs.BlockedProgs++
				if conflict {
					r.Nontrivial(fmt.Sprintf("%d/%v/%v", it.Level, it.Prog, it.Block))
				}
			}
			if it.Level == 1 {
				if res.Orders < fs.MinOrders {
					fs.MinOrders = res.Orders
				}
				if res.Orders > fs.MaxOrders {
					fs.MaxOrders = res.Orders
				}
				fs.SumOrders += int64(res.Orders)
			}
			if res.Outcomes > 1 {
				fs.MultiOutcome++
			}
			for _, v := range res.Viol {
				r.Violation(v.Sig, v.Detail, v.Case)
			}
			if sampled < 6 && conflict && res.Res.BlockedExecutions > 0 && (res.Idx%97 == 3 || it.Level == 2) && it.P > 0 {
				sampled++
				r.Sample(map[string]interface{}{"case": it.String(), "executions": res.Res.Executions, "blocked_executions": res.Res.BlockedExecutions,
					"distinct_step_orders": res.Orders, "distinct_outcomes": res.Outcomes, "max_decisions": res.Res.MaxDepth})
			}
		})
		os.RemoveAll(filepath.Join(work, "tmp"))
		if err != nil {
			harness = append(harness, err.Error())
			exhaustive = false
			break
		}
		fmt.Printf("VERIF-C09 phase %s: items=%d incomplete=%d executions so far=%d (%.0fs)\n", ph.Name, len(ph.Items), skipped, total.Executions, time.Since(started).Seconds())
		if skipped > 0 {
			exhaustive = false
			r.Cap(fmt.Sprintf("phase %s: %d of %d items not (fully) explored before the wall-clock budget", ph.Name, skipped, len(ph.Items)))
			break
		}
		pmin := ph.P
		for _, it := range ph.Items {
			if it.P < pmin {
				pmin = it.P
			}
		}
		phaseDone[ph.Name] = map[string]interface{}{"preemption_bound_completed": pmin, "items": len(ph.Items)}
		if pmin < minBound[ph.Level] {
			minBound[ph.Level] = pmin
		}
	}

	summary, races, mismatch, raceOut, err := waitRace()
	if err != nil {
		harness = append(harness, "race pass: "+err.Error())
	}
	if races > 0 {
		for sig, rep := range c09RaceSignatures(raceOut) {
			r.Violation(sig, "the Go race detector reported a data race in the free-running pass of the same bodies (native goroutines, -race build):\n"+rep, nil)
		}
	}
	if mismatch != "" && !strings.HasPrefix(mismatch, "DATA RACE") {
		for _, m := range strings.Split(mismatch, "\x00") {
			if !strings.HasPrefix(m, "RACE-PASS-MISMATCH sig=") {
				continue
			}
			sig := strings.TrimPrefix(strings.SplitN(m, "\n", 2)[0], "RACE-PASS-MISMATCH sig=")
			r.Violation(sig, "free-running execution (native goroutines, -race build) differs from sequential execution:\n"+m, nil)
		}
	}
	if summary == "" && err == nil {
		harness = append(harness, "race pass produced no summary")
	}
	if strings.Contains(summary, "runs=0 ") {
		harness = append(harness, "race pass ran nothing")
	}
	if strings.Contains(summary, "CAPPED") {
		r.Cap("free-running -race pass capped by the wall clock: " + strings.TrimSpace(summary))
	}

	for _, h := range harness {
		r.Sanity(false, "%s", h)
	}
	if len(harness) > 0 {
		// a crashed shard / diverging replay is not a verdict: make bin/check exit 2
		defer t.Errorf("C09: %d harness error(s), first: %s", len(harness), harness[0])
	}
	r.Set("executions", total.Executions)
	r.Set("phases_completed", phaseDone)
	for lv, b := range minBound {
		if b == 99 {
			b = -1
		}
		// the smallest bound among the completed phases of that level: every
		// explored program/block of the level is complete at least to that bound
		r.Set(fmt.Sprintf("preemption_bound_completed_level%d", lv), b)
	}
	r.Set("executions_with_a_blocked_thread", total.BlockedExecutions)
	r.Set("executions_blocked_by_kind", total.BlockedByKind)
	r.Set("executions_by_preemptions", total.ByPreemptions)
	r.Set("deadlocks", total.Deadlocks)
	r.Set("max_decisions_per_execution", total.MaxDepth)
	r.Set("max_threads", total.MaxThreads)
	r.Set("race_pass", strings.TrimSpace(summary))
	r.Set("race_pass_data_races", races)
	names := make([]string, 0, len(fams))
	for k := range fams {
		names = append(names, k)
	}
	sort.Strings(names)
	famOut := map[string]interface{}{}
	multi := 0
	for _, k := range names {
		fs := fams[k]
		m := map[string]interface{}{"programs": fs.Programs, "with_conflict": fs.Conflicting, "programs_with_blocking": fs.BlockedProgs,
			"executions": fs.Execs, "programs_with_more_than_one_outcome": fs.MultiOutcome}
		if fs.MaxOrders > 0 {
			m["distinct_step_orders_min"] = fs.MinOrders
			m["distinct_step_orders_max"] = fs.MaxOrders
			m["distinct_step_orders_avg"] = float64(fs.SumOrders) / float64(fs.Programs)
		}
		famOut[k] = m
		multi += fs.MultiOutcome
	}
	r.Set("families", famOut)
	r.Set("programs_with_more_than_one_outcome", multi)
	r.Sanity(total.Executions > 0, "nothing explored")
	r.Sanity(total.BlockedByKind["cond.Wait"] > 0, "no execution ever blocked in Cond.Wait (waitCommit): vacuous")
	r.Sanity(total.BlockedByKind["mutex.Lock"] > 0, "no execution ever blocked on a mutex: vacuous")
	if sampled == 0 {
		r.Sample(map[string]interface{}{"note": "no conflicting item was sampled", "executions": total.Executions})
	}
	r.Finish(exhaustive && len(harness) == 0)
}

// c09RaceSignatures turns the race detector's reports into one narrow
// signature per unordered pair of racing functions ("data-race:<f>|<g>") and
// keeps the first report of each.
func c09RaceSignatures(out []byte) map[string]string {
	res := map[string]string{}
	for _, rep := range strings.Split(string(out), "WARNING: DATA RACE")[1:] {
		if i := strings.Index(rep, "=================="); i > 0 {
			rep = rep[:i]
		}
		lines := strings.Split(rep, "\n")
		var fns []string
		for i, l := range lines {
			l = strings.TrimSpace(l)
			if (strings.HasPrefix(l, "Write at") || strings.HasPrefix(l, "Read at") || strings.HasPrefix(l, "Previous write at") || strings.HasPrefix(l, "Previous read at") ||
				strings.HasPrefix(l, "Atomic") || strings.HasPrefix(l, "Previous atomic")) && i+1 < len(lines) {
				fn := strings.TrimSpace(lines[i+1])
				fn = strings.TrimSuffix(fn, "()")
				if j := strings.LastIndex(fn, "/"); j >= 0 {
					fn = fn[j+1:]
				}
				fns = append(fns, fn)
			}
		}
		sort.Strings(fns)
		sig := "race-pass:data-race:" + strings.Join(fns, "|")
		if _, ok := res[sig]; !ok {
			var keep []string
			for _, l := range lines {
				if len(l) > 2 && l[1] == '|' { // log line of the node
					continue
				}
				keep = append(keep, l)
				if len(keep) > 60 {
					break
				}
			}
			res[sig] = strings.Join(keep, "\n")
		}
	}
	return res
}

func c09Procs() int {
	if n, err := strconv.Atoi(os.Getenv("VERIF_C09_PROCS")); err == nil && n > 0 {
		return n
	}
	return 16
}

func c09Replay(r *ev.Run) {
	var c c09Case
	ev.ReplayCase(&c)
	rr := &c09Runner{}
	defer rr.close()
	body, want, got := rr.bodyAndOracle(c.Item)
	x, out, err := explore.Replay(c.Trace, explore.Options{SkipReleasePoints: c.Item.SkipRel, MaxSteps: 50000}, body)
	r.Eval(1)
	if err != nil {
		r.Sanity(false, "replay diverged: %v", err)
		r.Finish(false)
		return
	}
	g, _ := got(x)
	fmt.Printf("REPLAY %s\n sequential: %s\n concurrent: %s\n deadlock=%v panic=%v\n", c.Item, want, g, out.Deadlock, out.Panic != "")
	if sig, detail := c09Classify(c.Item, out, want, g, func() string { return rr.diagnose(x) }); sig != "" {
		r.Violation(sig, c.Item.String()+"\n"+detail, c)
	}
	r.Sample(map[string]interface{}{"replayed": c.Item.String()})
	r.Finish(false)
}
