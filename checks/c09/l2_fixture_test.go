//go:build verif

package service_test

// External half of the level-2 harness (C09 and C10): a real test.Node chain
// (genesis executed through the real block manager / service code) supplies the
// parent transition; package test cannot be imported from package service
// itself (import cycle), hence the hook.

import (
	"fmt"
	"os"

	"github.com/icon-project/goloop/common/log"
	"github.com/icon-project/goloop/consensus"
	"github.com/icon-project/goloop/module"
	"github.com/icon-project/goloop/service"
	"github.com/icon-project/goloop/test"
)

type quietT struct{}

func (quietT) Errorf(format string, args ...interface{}) {
	log.Panicf("level-2 fixture: "+format, args...)
}
func (quietT) Logf(format string, args ...any) {}

func init() {
	service.VerifNewFixture = func(genesis string) *service.VerifFixture {
		lg := log.GlobalLogger()
		lg.SetLevel(log.PanicLevel)
		// the node keeps its files under os.TempDir(); keep that inside the
		// check's work directory and remove it on Close
		if d := os.Getenv("VERIF_C09_TMP"); d != "" {
			os.MkdirAll(d, 0o755)
			os.Setenv("TMPDIR", d)
		}
		node := test.NewNode(quietT{}, test.UseGenesis(genesis))
		node.Chain.Logger().SetLevel(log.PanicLevel)
		// block 1 (empty) carries the result of executing the genesis transaction
		node.ProposeFinalizeBlock(consensus.NewEmptyCommitVoteList())
		blk := node.LastBlock
		parent, err := node.SM.CreateInitialTransition(blk.Result(), blk.NextValidators())
		if err != nil {
			panic(err)
		}
		return &service.VerifFixture{
			Parent: parent,
			Height: blk.Height(),
			Close:  node.Close,
			PriceTx: func(price int64, ts int64) module.Transaction {
				// governance-style transaction: world write lock, calls the chain
				// SCORE's setStepPrice (default caller = governance address)
				return test.NewTx().SetTimestamp(ts).Call("setStepPrice", map[string]string{"price": fmt.Sprintf("0x%x", price)})
			},
			WorldTx: func(tag string, ts int64) module.Transaction {
				tg := tag
				return test.NewTx().SetTimestamp(ts).SetVarTest(&tg)
			},
		}
	}
}
