//go:build verif

package containerdb

import (
	"bytes"
	"crypto/sha256"
	"encoding/binary"
	"encoding/hex"
	"fmt"
	"math/big"
	"sort"
	"strings"
	"sync"
	"sync/atomic"
	"testing"

	"github.com/icon-project/goloop/common"
	"github.com/icon-project/goloop/common/db"
	"github.com/icon-project/goloop/common/trie"
	"github.com/icon-project/goloop/common/trie/trie_manager"
	"github.com/icon-project/goloop/verifshim/ev"
	"github.com/icon-project/goloop/verifshim/opseq"
)

// ===========================================================================
// Part 1: key tuples
// ===========================================================================

// c21Part is one typed key part together with its byte form, which is written
// down by hand / computed by c21Int (independent of ToBytes and intconv).
type c21Part struct {
	name string
	v    interface{}
	form []byte
}

// c21Int: minimal two's-complement big-endian bytes of v.
func c21Int(v int64) []byte {
	b := make([]byte, 8)
	for i := 0; i < 8; i++ {
		b[7-i] = byte(uint64(v) >> (8 * uint(i)))
	}
	for len(b) > 1 {
		if (b[0] == 0x00 && b[1]&0x80 == 0) || (b[0] == 0xff && b[1]&0x80 != 0) {
			b = b[1:]
		} else {
			break
		}
	}
	return b
}

// c21Frame: RLP byte-string header + payload (reference, for "rlp of another part").
func c21Frame(b []byte) []byte {
	if len(b) == 1 && b[0] < 0x80 {
		return []byte{b[0]}
	}
	if len(b) <= 55 {
		return append([]byte{0x80 + byte(len(b))}, b...)
	}
	var sz []byte
	for x := len(b); x > 0; x >>= 8 {
		sz = append([]byte{byte(x)}, sz...)
	}
	return append(append([]byte{0xb7 + byte(len(sz))}, sz...), b...)
}

func c21Parts(thorough bool) []c21Part {
	var out []c21Part
	addB := func(name string, b []byte) { out = append(out, c21Part{name, b, b}) }
	addB("empty", []byte{})
	for _, x := range []byte{0x00, 0x01, 0x7f, 0x80, 0x81, 0xb7, 0xb8, 0xc0, 0xff} {
		addB(fmt.Sprintf("byte-%02x", x), []byte{x})
	}
	out = append(out, c21Part{"str-a", "a", []byte("a")}, c21Part{"str-ab", "ab", []byte("ab")}, c21Part{"str-b", "b", []byte("b")})
	for _, n := range []int{55, 56, 255, 256} {
		addB(fmt.Sprintf("a*%d", n), bytes.Repeat([]byte{'a'}, n))
	}
	// framings of other parts, to try to confuse the framing
	addB("rlp(ab)", c21Frame([]byte("ab")))
	addB("rlp(a*56)", c21Frame(bytes.Repeat([]byte{'a'}, 56)))
	addB("rlp(empty)", []byte{0x80})
	addB("hdr-b838", []byte{0xb8, 0x38})
	addB("hdr-8261", []byte{0x82, 0x61})
	addB("a,b", []byte("ab")[:2:2])
	addr := common.MustNewAddressFromString("cx0102030405060708090a0b0c0d0e0f1011121314")
	out = append(out, c21Part{"address", addr, append([]byte{1}, []byte{1, 2, 3, 4, 5, 6, 7, 8, 9, 10, 11, 12, 13, 14, 15, 16, 17, 18, 19, 20}...)})
	for _, i := range []int{0, 1, -1, 127, 128, -128, -129, 255, 256, 65535} {
		out = append(out, c21Part{fmt.Sprintf("int(%d)", i), i, c21Int(int64(i))})
	}
	out = append(out, c21Part{"int64(-129)", int64(-129), c21Int(-129)}, c21Part{"int16(128)", int16(128), c21Int(128)}, c21Part{"int32(-1)", int32(-1), c21Int(-1)},
		c21Part{"true", true, []byte{1}}, c21Part{"false", false, []byte{0}}, c21Part{"byte(0x80)", byte(0x80), []byte{0x80}},
		c21Part{"big(2^64)", new(big.Int).Lsh(big.NewInt(1), 64), []byte{1, 0, 0, 0, 0, 0, 0, 0, 0}},
		c21Part{"hexint(-256)", common.NewHexInt(-256), c21Int(-256)})
	if thorough {
		for _, n := range []int{2, 54, 57, 254, 257, 65535, 65536} {
			addB(fmt.Sprintf("b*%d", n), bytes.Repeat([]byte{'b'}, n))
		}
		for _, x := range []byte{0x02, 0x55, 0x7e, 0x82, 0xb9, 0xbf, 0xc1, 0xf7, 0xf8, 0xfe} {
			addB(fmt.Sprintf("byte-%02x", x), []byte{x})
		}
		addB("0000", []byte{0, 0})
		addB("8080", []byte{0x80, 0x80})
		addB("f800", []byte{0xf8, 0x00})
		for _, i := range []int{-32768, 32767, 32768, 1 << 31, -(1 << 31)} {
			out = append(out, c21Part{fmt.Sprintf("int(%d)", i), i, c21Int(int64(i))})
		}
	}
	return out
}

func c21TupleKey(forms [][]byte) string {
	var sb strings.Builder
	for _, f := range forms {
		fmt.Fprintf(&sb, "%d:", len(f))
		sb.Write(f)
		sb.WriteByte('|')
	}
	return sb.String()
}

type c21TupleCase struct {
	Phase string   `json:"phase"`
	Parts []string `json:"parts,omitempty"` // names of the parts (tuple phase)
	Ops   []int    `json:"ops,omitempty"`   // op indices (container phases)
	Hex   string   `json:"hex,omitempty"`   // raw bytes (split phase)
	Note  string   `json:"note,omitempty"`
}

type c21Img struct {
	tuple uint64 // hash of prefix + byte-form tuple
	idx   int32  // position of the tuple in the enumeration (for messages)
}

// c21Images: per builder kind, image (as a 16-byte SHA-256 prefix, to bound
// memory) -> the tuple that produced it.
type c21Images struct {
	mu sync.Mutex
	m  map[string]map[[16]byte]c21Img
}

func c21H64(s string) uint64 {
	h := sha256.Sum256([]byte(s))
	return binary.BigEndian.Uint64(h[:8])
}

func (im *c21Images) put(kind string, image []byte, tuple string, idx int32) (int32, bool) {
	full := sha256.Sum256(image)
	var k [16]byte
	copy(k[:], full[:16])
	th := c21H64(tuple)
	im.mu.Lock()
	defer im.mu.Unlock()
	mm := im.m[kind]
	if mm == nil {
		mm = map[[16]byte]c21Img{}
		im.m[kind] = mm
	}
	if prev, ok := mm[k]; ok && prev.tuple != th {
		return prev.idx, false
	}
	mm[k] = c21Img{th, idx}
	return 0, true
}

type c21Env struct {
	r        *ev.Run
	im       *c21Images
	names    []string // tuple names by enumeration index
	splitOK  int64
	splitErr int64
	aliases  int64 // typed tuples with an already seen byte-form tuple (aliases by design)
}

func (e *c21Env) tuple(parts []c21Part, idx int32) {
	r := e.r
	r.Eval(1)
	names := make([]string, len(parts))
	vals := make([]interface{}, len(parts))
	forms := make([][]byte, len(parts))
	for i, p := range parts {
		names[i], vals[i], forms[i] = p.name, p.v, p.form
	}
	c := c21TupleCase{Phase: "tuple", Parts: names}
	tk := c21TupleKey(forms)
	r.Nontrivial("t|" + tk)
	fail := func(sig, format string, a ...interface{}) {
		r.Violation(sig, fmt.Sprintf("tuple=%v ", names)+fmt.Sprintf(format, a...), c)
	}
	if p := ev.Catch(func() {
		for i, p := range parts {
			if got := ToBytes(p.v); !bytes.Equal(got, p.form) {
				fail("ToBytes-form:"+fmt.Sprintf("%T", p.v), "part %d: ToBytes=%x want %x", i, got, p.form)
			}
		}
		// plain framing and its inverse
		key := AppendKeys(nil, vals...)
		back, err := SplitKeys(key)
		if err != nil || len(back) != len(forms) {
			fail("SplitKeys-of-AppendKeys", "key=%s split=%x err=%v", c21Hex(key), back, err)
		} else {
			for i := range back {
				if !bytes.Equal(back[i], forms[i]) {
					fail("SplitKeys-of-AppendKeys", "key=%s part %d = %x want %x", c21Hex(key), i, back[i], forms[i])
					break
				}
			}
		}
		who := func(i int32) string {
			if int(i) < len(e.names) {
				return e.names[i]
			}
			return fmt.Sprintf("tuple #%d", i)
		}
		if prev, ok := e.im.put("AppendKeys", key, tk, idx); !ok {
			fail("key-collision:AppendKeys", "key=%s is also the image of %s", c21Hex(key), who(prev))
		}
		// builders: the pre-image handed to the hash (resp. the key itself) must be
		// injective per builder kind, across the prefixes as well
		record := func(kind, prefix string, pre []byte) {
			if prev, ok := e.im.put(kind, pre, prefix+"#"+tk, idx); !ok {
				fail("key-collision:"+kind, "pre-image %s (prefix %s) is also the image of %s", c21Hex(pre), prefix, who(prev))
			}
		}
		hk := ToKey(HashBuilder, vals...)
		record("hash", "", []byte(hk.(hashKeyBuilder)))
		if len(hk.Build()) != 32 {
			fail("hash-key-length", "%x", hk.Build())
		}
		rk := ToKey(RLPBuilder, vals...)
		record("rlp", "", rk.Build())
		if sp, err := SplitKeys(rk.Build()); err != nil || c21TupleKey(sp) != tk {
			fail("SplitKeys-of-RLPBuilder", "key=%s split=%x err=%v", c21Hex(rk.Build()), sp, err)
		}
		// incremental Append == one-shot
		if len(vals) > 0 {
			inc := ToKey(HashBuilder, vals[0])
			incR := ToKey(RLPBuilder, vals[0])
			for _, v := range vals[1:] {
				inc, incR = inc.Append(v), incR.Append(v)
			}
			if !bytes.Equal(inc.Build(), hk.Build()) || !bytes.Equal(incR.Build(), rk.Build()) {
				fail("Append-differs-from-one-shot", "hash %x vs %x, rlp %x vs %x", inc.Build(), hk.Build(), incR.Build(), rk.Build())
			}
		}
		for _, prefix := range [][]byte{{0x00}, {0x01}, {0x70}} {
			nk := NewHashKey(prefix, vals...)
			record("hash-rawprefix", hex.EncodeToString(prefix), []byte(nk.(hashKeyBuilder)))
			pk := ToKey(PrefixedHashBuilder, append([]interface{}{prefix}, vals...)...).(*prefixedHashKeyBuilder)
			record("prefixedhash", hex.EncodeToString(prefix), append(append(append([]byte{}, pk.rawPrefix...), '|'), pk.hashPrefix...))
			if fin := pk.Build(); !bytes.HasPrefix(fin, prefix) || len(fin) != len(prefix)+33 {
				fail("prefixedhash-key-shape", "key=%x prefix=%x", fin, prefix)
			}
			// scoredb style: the type byte is framed like every other part
			sk := ToKey(HashBuilder, append([]interface{}{prefix[0]}, vals...)...)
			record("hash-typebyte", hex.EncodeToString(prefix), []byte(sk.(hashKeyBuilder)))
			// the same keys from ONE caller prefix slice that has spare capacity, each
			// followed by a sibling key from the same slice; all results stay alive
			wantA := append(append([]byte{}, prefix...), key...)
			for mode := 1; mode <= 4; mode++ {
				sb := c21NewSpare(prefix, mode)
				a1 := AppendKeys(sb.slice(), vals...)
				a2 := AppendKeys(sb.slice(), byte(0x5a), "sibling")
				h1 := NewHashKey(sb.slice(), vals...)
				h2 := NewHashKey(sb.slice(), byte(0x5a), "sibling")
				p1 := ToKey(PrefixedHashBuilder, append([]interface{}{sb.slice()}, vals...)...)
				k1 := p1.Build()
				k2 := p1.Append(byte(0x5a)).Build()
				_, _, _ = a2, h2, k2
				if !bytes.Equal(a1, wantA) || !bytes.Equal([]byte(h1.(hashKeyBuilder)), []byte(nk.(hashKeyBuilder))) || !bytes.Equal(k1, pk.Build()) || !sb.intact() {
					fail("keys-from-one-spare-capacity-prefix-interfere", "prefix %x with %s: AppendKeys=%s want %s; NewHashKey pre-image=%s want %s; prefixed key=%x want %x; caller buffer intact=%v",
						prefix, c21SpareNames[mode], c21Hex(a1), c21Hex(wantA), c21Hex([]byte(h1.(hashKeyBuilder))), c21Hex([]byte(nk.(hashKeyBuilder))), k1, pk.Build(), sb.intact())
					break
				}
			}
		}
	}); p != "" {
		fail("key-builder-panics", "%s", p)
	}
}

func c21Hex(b []byte) string {
	if len(b) > 48 {
		return fmt.Sprintf("%x…(%d bytes)", b[:48], len(b))
	}
	return fmt.Sprintf("%x", b)
}

// split feeds raw bytes to SplitKeys. want != nil: the bytes are a truncation of
// a real key at offset cut; boundaries = offsets at which a part ends.
func (e *c21Env) split(raw []byte, forms [][]byte, boundaries []int, family string) {
	r := e.r
	r.Eval(1)
	r.Nontrivial("s|" + string(raw))
	c := c21TupleCase{Phase: "split", Hex: hex.EncodeToString(raw), Note: family}
	var parts [][]byte
	var err error
	if p := ev.Catch(func() { parts, err = SplitKeys(raw) }); p != "" {
		r.Violation("SplitKeys-panics:"+family, fmt.Sprintf("input=%s panic=%s", c21Hex(raw), p), c)
		return
	}
	if err != nil {
		atomic.AddInt64(&e.splitErr, 1)
		return
	}
	atomic.AddInt64(&e.splitOK, 1)
	total := 0
	for _, p := range parts {
		total += len(p)
	}
	if total > len(raw) {
		r.Violation("SplitKeys-returns-more-than-input:"+family, fmt.Sprintf("input=%s parts=%x", c21Hex(raw), parts), c)
	}
	// accepted bytes must mean the same tuple after re-framing
	again, err := SplitKeys(AppendKeys(nil, c21Iface(parts)...))
	if err != nil || c21TupleKey(again) != c21TupleKey(parts) {
		r.Violation("SplitKeys-not-stable:"+family, fmt.Sprintf("input=%s parts=%x again=%x err=%v", c21Hex(raw), parts, again, err), c)
	}
	if forms != nil {
		k := -1
		for i, b := range boundaries {
			if b == len(raw) {
				k = i
			}
		}
		if k < 0 {
			r.Violation("SplitKeys-accepts-cut-inside-part", fmt.Sprintf("input=%s (cut at %d, part boundaries %v) parts=%x", c21Hex(raw), len(raw), boundaries, parts), c)
		} else if c21TupleKey(parts) != c21TupleKey(forms[:k]) {
			r.Violation("SplitKeys-prefix-differs", fmt.Sprintf("input=%s parts=%x want %x", c21Hex(raw), parts, forms[:k]), c)
		}
	}
}

func c21Iface(bs [][]byte) []interface{} {
	out := make([]interface{}, len(bs))
	for i, b := range bs {
		out[i] = b
	}
	return out
}

// ===========================================================================
// Part 2: containers against a slice / map model
// ===========================================================================

type c21Store struct{ m trie.Mutable }

func (s *c21Store) GetValue(k []byte) ([]byte, error)    { return s.m.Get(k) }
func (s *c21Store) SetValue(k, v []byte) ([]byte, error) { return s.m.Set(k, v) }
func (s *c21Store) DeleteValue(k []byte) ([]byte, error) { return s.m.Delete(k) }
func c21NewStore() *c21Store                             { return &c21Store{trie_manager.NewMutable(db.NewMapDB(), nil)} }
func c21Val(v Value) string {
	if v == nil {
		return "<nil>"
	}
	if v.Bytes() == nil {
		return "<nil>"
	}
	return "=" + string(v.Bytes())
}

// ---- slices with spare capacity (the capacity of a slice is invisible in its value) ----

// c21SpareBuf owns a buffer filled with the sentinel 0xEE; slice() is a slice of
// it holding a copy of the wanted bytes, with spare capacity behind (and, for the
// sub-slice variant, other bytes of the buffer in front of) it.
type c21SpareBuf struct {
	buf    []byte
	off, n int
	want   []byte
}

const c21Sentinel = 0xEE

// spare modes: 1: cap=len+1, 2: cap=len+8, 3: cap=len+64, 4: sub-slice at offset 5 of a buffer of len+261 bytes
var c21SpareNames = []string{"exact capacity", "cap=len+1", "cap=len+8", "cap=len+64", "sub-slice of a larger buffer"}

func c21NewSpare(b []byte, mode int) *c21SpareBuf {
	off, extra := 0, 0
	switch mode {
	case 1:
		extra = 1
	case 2:
		extra = 8
	case 3:
		extra = 64
	case 4:
		off, extra = 5, 256
	}
	sb := &c21SpareBuf{buf: make([]byte, off+len(b)+extra), off: off, n: len(b), want: append([]byte{}, b...)}
	for i := range sb.buf {
		sb.buf[i] = c21Sentinel
	}
	copy(sb.buf[off:], b)
	return sb
}

func (sb *c21SpareBuf) slice() []byte { return sb.buf[sb.off : sb.off+sb.n] }

// intact: the caller's bytes are unchanged and nothing was written into the room around them
func (sb *c21SpareBuf) intact() bool {
	for i, x := range sb.buf {
		if i >= sb.off && i < sb.off+sb.n {
			if x != sb.want[i-sb.off] {
				return false
			}
		} else if x != c21Sentinel {
			return false
		}
	}
	return true
}

// c21Respare returns a builder equal to kb whose internal slices have spare capacity.
func c21Respare(kb KeyBuilder, mode int, reg *[]*c21SpareBuf) KeyBuilder {
	if mode == 0 {
		return kb
	}
	sp := func(b []byte) []byte {
		sb := c21NewSpare(b, mode)
		if reg != nil {
			*reg = append(*reg, sb)
		}
		return sb.slice()
	}
	switch b := kb.(type) {
	case hashKeyBuilder:
		return hashKeyBuilder(sp(b))
	case rlpKeyBuilder:
		return rlpKeyBuilder(sp(b))
	case rawKeyBuilder:
		return rawKeyBuilder(sp(b))
	case *prefixedHashKeyBuilder:
		return &prefixedHashKeyBuilder{rawPrefix: sp(b.rawPrefix), hashPrefix: sp(b.hashPrefix)}
	}
	panic(fmt.Sprintf("unknown builder %T", kb))
}

// builder index b: b%3 = kind (hash, rlp, prefixedhash); b/3 = 0 exact-capacity
// root as the public constructors return it, 1 = the same root with spare
// capacity (sub-slice of a larger buffer), 2 = root made by the public entry
// points from a caller slice with spare capacity (cap=len+64).
const c21NB = 9

func c21BName(b int) string {
	return c21BuilderNames[b%3] + []string{"", "+spare-capacity-root", "+root-from-spare-caller-slice"}[b/3]
}

func c21Builder(b int, name string) KeyBuilder {
	kind := b % 3
	switch b / 3 {
	case 1:
		return c21Respare(c21Builder(kind, name), 4, nil)
	case 2:
		switch kind {
		case 0:
			return NewHashKey(c21NewSpare(AppendKeys(nil, byte(0x00), name), 3).slice())
		case 1:
			return rlpKeyBuilder(AppendKeys(c21NewSpare(AppendKeys(nil, []byte{0x10}, name), 3).slice()))
		default:
			return ToKey(PrefixedHashBuilder, c21NewSpare([]byte{0x70}, 3).slice(), name)
		}
	}
	switch kind {
	case 0:
		return ToKey(HashBuilder, byte(0x00), name) // as service/scoredb does
	case 1:
		return ToKey(RLPBuilder, []byte{0x10}, name) // as icon/iiss/icstage does
	default:
		return ToKey(PrefixedHashBuilder, []byte{0x70}, name)
	}
}

var c21BuilderNames = []string{"hash", "rlp", "prefixedhash"}

// ---- ArrayDB ----

type c21ArrOp struct {
	kind string // put | pop | set
	idx  int
	val  string
}

var c21ArrOps = []c21ArrOp{{"put", 0, "x"}, {"put", 0, "y"}, {"pop", 0, ""}, {"set", 0, "x"}, {"set", 0, "y"}, {"set", 1, "x"}, {"set", 1, "y"}, {"set", 2, "y"}}

func (o c21ArrOp) String() string {
	switch o.kind {
	case "put":
		return "Put(" + o.val + ")"
	case "pop":
		return "Pop"
	}
	return fmt.Sprintf("Set(%d,%s)", o.idx, o.val)
}

// runArray replays seq on a fresh ArrayDB and a slice; returns a description of
// the first divergence ("" if none) and the final model.
func c21RunArray(builder int, seq []int) (sig, detail string, final []string) {
	a := NewArrayDB(c21NewStore(), c21Builder(builder, "arr"))
	var model []string
	for step, oi := range seq {
		op := c21ArrOps[oi]
		where := fmt.Sprintf("step %d %s", step, op)
		switch op.kind {
		case "put":
			if err := a.Put(op.val); err != nil {
				return "ArrayDB-Put-fails", where + ": " + err.Error(), model
			}
			model = append(model, op.val)
		case "pop":
			got := c21Val(a.Pop())
			want := "<nil>"
			if len(model) > 0 {
				want = "=" + model[len(model)-1]
				model = model[:len(model)-1]
			}
			if got != want {
				return "ArrayDB-Pop-value", fmt.Sprintf("%s: got %s want %s", where, got, want), model
			}
		case "set":
			err := a.Set(op.idx, op.val)
			inRange := op.idx >= 0 && op.idx < len(model)
			if inRange != (err == nil) {
				return "ArrayDB-Set-range", fmt.Sprintf("%s: err=%v with %d elements", where, err, len(model)), model
			}
			if inRange {
				model[op.idx] = op.val
			}
		}
		if a.Size() != len(model) {
			return "ArrayDB-Size", fmt.Sprintf("%s: Size()=%d want %d", where, a.Size(), len(model)), model
		}
		for i := -1; i <= len(model)+1; i++ {
			want := "<nil>"
			if i >= 0 && i < len(model) {
				want = "=" + model[i]
			}
			if got := c21Val(a.Get(i)); got != want {
				return "ArrayDB-Get", fmt.Sprintf("%s: Get(%d)=%s want %s", where, i, got, want), model
			}
		}
	}
	return "", "", model
}

// ---- DictDB ----

var c21DictKeys1 = []string{"a", "ab"}
var c21DictKeys2 = [][2]string{{"a", "b"}, {"ab", ""}, {"", "ab"}} // same raw concatenation
var c21Probe = []string{"", "a", "ab", "b"}

type c21DictOp struct {
	kind string // set | del | subset (Set through GetDB)
	keys []string
	val  string
}

func (o c21DictOp) String() string { return fmt.Sprintf("%s(%q,%s)", o.kind, o.keys, o.val) }

func c21DictOps(depth int) []c21DictOp {
	var ops []c21DictOp
	if depth == 1 {
		for _, k := range c21DictKeys1 {
			ops = append(ops, c21DictOp{"set", []string{k}, "x"}, c21DictOp{"set", []string{k}, "y"}, c21DictOp{"del", []string{k}, ""})
		}
		return ops
	}
	for _, p := range c21DictKeys2 {
		ks := []string{p[0], p[1]}
		ops = append(ops, c21DictOp{"set", ks, "x"}, c21DictOp{"set", ks, "y"}, c21DictOp{"del", ks, ""}, c21DictOp{"subset", ks, "z"})
	}
	return ops
}

func c21Keys(ks []string) []interface{} {
	out := make([]interface{}, len(ks))
	for i, k := range ks {
		out[i] = k
	}
	return out
}

func c21RunDict(builder, depth int, ops []c21DictOp, seq []int) (sig, detail string, final map[string]string) {
	d := NewDictDB(c21NewStore(), depth, c21Builder(builder, "dict"))
	model := map[string]string{}
	mk := func(ks []string) string { return fmt.Sprintf("%q", ks) }
	for step, oi := range seq {
		op := ops[oi]
		where := fmt.Sprintf("step %d %s", step, op)
		switch op.kind {
		case "set":
			if err := d.Set(append(c21Keys(op.keys), op.val)...); err != nil {
				return "DictDB-Set-fails", where + ": " + err.Error(), model
			}
			model[mk(op.keys)] = op.val
		case "subset":
			sub := d.GetDB(op.keys[0])
			if sub == nil {
				return "DictDB-GetDB-nil", where, model
			}
			if err := sub.Set(op.keys[1], op.val); err != nil {
				return "DictDB-Set-fails", where + ": " + err.Error(), model
			}
			model[mk(op.keys)] = op.val
		case "del":
			_ = d.Delete(c21Keys(op.keys)...) // deleting an absent entry is a no-op; its error value is not specified
			delete(model, mk(op.keys))
		}
		// observe every probe key tuple
		var probe func(prefix []string)
		bad := ""
		probe = func(prefix []string) {
			if bad != "" {
				return
			}
			if len(prefix) == depth {
				want := "<nil>"
				if v, ok := model[mk(prefix)]; ok {
					want = "=" + v
				}
				if got := c21Val(d.Get(c21Keys(prefix)...)); got != want {
					bad = fmt.Sprintf("%s: Get(%q)=%s want %s", where, prefix, got, want)
				}
				if depth == 2 {
					if got := c21Val(d.GetDB(prefix[0]).Get(prefix[1])); got != want {
						bad = fmt.Sprintf("%s: GetDB(%q).Get(%q)=%s want %s", where, prefix[0], prefix[1], got, want)
					}
				}
				return
			}
			for _, k := range c21Probe {
				probe(append(append([]string{}, prefix...), k))
			}
		}
		probe(nil)
		if bad != "" {
			return "DictDB-Get", bad, model
		}
		// wrong arity
		if d.Get() != nil || d.Get(c21Keys(append(append([]string{}, op.keys...), "extra"))...) != nil {
			return "DictDB-Get-wrong-arity", where, model
		}
		if d.Set(c21Keys(op.keys)...) == nil {
			return "DictDB-Set-wrong-arity", where, model
		}
		if d.GetDB(c21Keys(op.keys)...) != nil {
			return "DictDB-GetDB-full-depth", where, model
		}
	}
	return "", "", model
}

// ---- containers that share one key prefix, against a flat tuple-keyed model ----
//
// All containers are built on the SAME key builder K. By design
//   ArrayDB(K).size  is  VarDB(K)              (tuple ())
//   ArrayDB(K)[i]    is  DictDB(K,1).Get(i)    is  VarDB(K.Append(i))   (tuple (i))
//   DictDB(K,2).Get(i,j)                                                (tuple (i,j))
// and nothing else may alias. The model runs the same container logic over a
// map keyed by the *tuple of byte forms*, the implementation over framed and
// hashed byte strings.

type c21Flat map[string]string

func (f c21Flat) key(parts ...int) string {
	forms := make([][]byte, len(parts))
	for i, p := range parts {
		forms[i] = c21Int(int64(p))
	}
	return c21TupleKey(forms)
}

type c21MixOp struct {
	name string
	impl func(m *c21Mix) string // returns an observation of the op's own result
	mod  func(f c21Flat) string
}

type c21Mix struct {
	a  *ArrayDB
	d1 *DictDB
	d2 *DictDB
	v  *VarDB
	v0 *VarDB
}

func c21SizeOf(f c21Flat) int {
	if s, ok := f[f.key()]; ok {
		return int(new(big.Int).SetBytes([]byte(s)).Int64()) // only small non-negative sizes occur
	}
	return 0
}

func c21MixOps() []c21MixOp {
	errs := func(err error) string {
		if err != nil {
			return "err"
		}
		return "ok"
	}
	return []c21MixOp{
		{"arr.Put(x)", func(m *c21Mix) string { return errs(m.a.Put("x")) }, func(f c21Flat) string {
			n := c21SizeOf(f)
			f[f.key(n)] = "x"
			f[f.key()] = string(c21Int(int64(n + 1)))
			return "ok"
		}},
		{"arr.Pop", func(m *c21Mix) string { return c21Val(m.a.Pop()) }, func(f c21Flat) string {
			n := c21SizeOf(f)
			if n == 0 {
				return "<nil>"
			}
			got := "<nil>"
			if v, ok := f[f.key(n-1)]; ok {
				got = "=" + v
			}
			delete(f, f.key(n-1))
			if n > 1 {
				f[f.key()] = string(c21Int(int64(n - 1)))
			} else {
				delete(f, f.key())
			}
			return got
		}},
		{"arr.Set(0,y)", func(m *c21Mix) string { return errs(m.a.Set(0, "y")) }, func(f c21Flat) string {
			if c21SizeOf(f) <= 0 {
				return "err"
			}
			f[f.key(0)] = "y"
			return "ok"
		}},
		{"dict1.Set(0,w)", func(m *c21Mix) string { return errs(m.d1.Set(0, "w")) }, func(f c21Flat) string { f[f.key(0)] = "w"; return "ok" }},
		{"dict1.Set(1,w)", func(m *c21Mix) string { return errs(m.d1.Set(1, "w")) }, func(f c21Flat) string { f[f.key(1)] = "w"; return "ok" }},
		{"dict1.Delete(0)", func(m *c21Mix) string { m.d1.Delete(0); return "ok" }, func(f c21Flat) string { delete(f, f.key(0)); return "ok" }},
		{"var.Set(2)", func(m *c21Mix) string { return errs(m.v.Set(2)) }, func(f c21Flat) string { f[f.key()] = string(c21Int(2)); return "ok" }},
		{"var.Delete", func(m *c21Mix) string { m.v.Delete(); return "ok" }, func(f c21Flat) string { delete(f, f.key()); return "ok" }},
		{"var0.Set(v)", func(m *c21Mix) string { return errs(m.v0.Set("v")) }, func(f c21Flat) string { f[f.key(0)] = "v"; return "ok" }},
		{"dict2.Set(0,0,u)", func(m *c21Mix) string { return errs(m.d2.Set(0, 0, "u")) }, func(f c21Flat) string { f[f.key(0, 0)] = "u"; return "ok" }},
		{"dict2.Delete(0,0)", func(m *c21Mix) string { m.d2.Delete(0, 0); return "ok" }, func(f c21Flat) string { delete(f, f.key(0, 0)); return "ok" }},
	}
}

func c21RunMix(builder int, ops []c21MixOp, seq []int) (sig, detail string, final c21Flat) {
	st := c21NewStore()
	k := c21Builder(builder, "shared")
	m := &c21Mix{a: NewArrayDB(st, k), d1: NewDictDB(st, 1, k), d2: NewDictDB(st, 2, k), v: NewVarDB(st, k), v0: NewVarDB(st, k.Append(0))}
	f := c21Flat{}
	get := func(parts ...int) string {
		if v, ok := f[f.key(parts...)]; ok {
			return "=" + v
		}
		return "<nil>"
	}
	for step, oi := range seq {
		op := ops[oi]
		where := fmt.Sprintf("step %d %s", step, op.name)
		want := op.mod(f)
		got := op.impl(m)
		if got != want {
			return "shared-prefix:op-result", fmt.Sprintf("%s: got %s want %s", where, got, want), f
		}
		obs := []struct {
			name      string
			got, want string
		}{
			{"arr.Size", fmt.Sprint(m.a.Size()), fmt.Sprint(c21SizeOf(f))},
			{"arr.Get(0)", c21Val(m.a.Get(0)), get(0)}, {"arr.Get(1)", c21Val(m.a.Get(1)), get(1)}, {"arr.Get(2)", c21Val(m.a.Get(2)), get(2)},
			{"dict1.Get(0)", c21Val(m.d1.Get(0)), get(0)}, {"dict1.Get(1)", c21Val(m.d1.Get(1)), get(1)},
			{"var", c21Val(m.v), get()}, {"var0", c21Val(m.v0), get(0)},
			{"dict2.Get(0,0)", c21Val(m.d2.Get(0, 0)), get(0, 0)}, {"dict2.Get(0,1)", c21Val(m.d2.Get(0, 1)), get(0, 1)}, {"dict2.Get(1,0)", c21Val(m.d2.Get(1, 0)), get(1, 0)},
		}
		for _, o := range obs {
			if o.got != o.want {
				return "shared-prefix:unexpected-alias-or-loss", fmt.Sprintf("%s: %s = %s want %s", where, o.name, o.got, o.want), f
			}
		}
	}
	return "", "", f
}

// ===========================================================================

func TestVerifC21(t *testing.T) {
	r := ev.Start(t, "C21", "exploration")
	r.Rule("(1) keys: all tuples of length<=3 over a part alphabet (quick 46 / thorough 71 typed parts: empty, single bytes at the RLP boundaries, strings, byte strings of length 55/56/255/256 (thorough + 2/54/57/254/257, and 65535/65536 in tuples of length<=2), RLP framings of other parts, a 21-byte address, ints/bools/big ints through ToBytes) under AppendKeys and the Hash / Hash+raw-prefix / Hash+type-byte / PrefixedHash / RLP builders with 3 prefixes; SplitKeys on every truncation of the framed keys of all tuples of length<=2 and on every byte string of length<=2 (thorough: + 3-byte strings with a header first byte). (1b) sibling builders: for every builder kind (hash, hash+raw prefix, prefixed hash, rlp, raw), every parent of 0..2 parts over 6 (thorough 10) parts, built one-shot and by successive Append, every ordered pair (and triple over a subset) of children from 10 (thorough 14) child part lists incl. two multi-part Appends is derived from the ONE parent builder and kept alive together with the Build() results, then two grandchildren per child; every key must equal the key of the same path built one-shot on fresh slices, before and after the later derivations. (2) containers on a real trie store, every operation sequence up to depth d against a Go slice/map: ArrayDB {Put x,Put y,Pop,Set(0..2,·)} (8 ops, d=5 quick / 6 thorough, hash builder; d-1 for the rlp and prefixed-hash builders), DictDB depth 1 (6 ops, d=6/7) and depth 2 with three key pairs whose raw concatenations coincide (12 ops incl. Set through GetDB, d=4/5), containers sharing one key prefix (ArrayDB+DictDB(1)+DictDB(2)+2 VarDB, 11 ops, d=4/5) against a tuple-keyed flat model; (2b) 9 container handles derived from one parent builder (3-level DictDB with two kept sub-dictionaries and two kept sub-sub-dictionaries, two ArrayDB, two VarDB; 3 root names of different length x 2 opening orders x 3 builder kinds) held at once, every interleaving of 13 operations up to depth 3 (thorough 4), observed through the held handles, through fresh GetDB chains and through fresh one-shot builders; long arrays of 0..300 (thorough 70000) elements. (3) spare-capacity prefixes: every slice handed to a key builder also with cap=len+1/+8/+64 and as a sub-slice of a larger sentinel-filled buffer: sibling family with the parent builder's slices re-seated on such slices and with the parent made by NewHashKey/ToKey/AppendKeys/AppendRawKeys from such a caller slice (8 extra parent styles, quick parents of 0..1 parts), AppendKeys/AppendRawKeys siblings on one caller prefix, every tuple built from one such prefix followed by a sibling key, caller buffer must stay untouched; container families under 9 root builders (3 kinds x exact / spare-capacity root / root from a spare-capacity caller slice). distinct_nontrivial = distinct byte-form tuples, distinct SplitKeys inputs, distinct operation sequences")
	r.Assume("typed parts with the same byte form (true / int 1 / byte 01) share a key by design and are compared at the byte-form level",
		"RawBuilder (plain concatenation) is outside the property; raw prefixes of different lengths are not compared with each other",
		"hash builders: pre-images are compared for injectivity; equality of SHA3-256 outputs of different pre-images is additionally checked but cannot be excluded by enumeration",
		"container values are non-empty byte strings; the error value of deleting an absent dictionary entry is not specified and not compared")
	e := &c21Env{r: r, im: &c21Images{m: map[string]map[[16]byte]c21Img{}}}
	parts := c21Parts(r.Thorough())
	byName := map[string]c21Part{}
	for _, p := range parts {
		byName[p.name] = p
	}
	mixOps := c21MixOps()

	if ev.Replaying() {
		var c c21TupleCase
		ev.ReplayCase(&c)
		switch c.Phase {
		case "tuple":
			var ps []c21Part
			for _, n := range c.Parts {
				p, ok := byName[n]
				if !ok {
					for _, q := range c21Parts(true) {
						if q.name == n {
							p = q
						}
					}
				}
				ps = append(ps, p)
			}
			e.tuple(ps, 0)
		case "split":
			raw, _ := hex.DecodeString(c.Hex)
			e.split(raw, nil, nil, c.Note)
		case "array":
			b := 0
			fmt.Sscanf(c.Note, "builder=%d", &b)
			if sig, detail, _ := c21RunArray(b, c.Ops); sig != "" {
				r.Violation(sig, detail, c)
			}
			r.Eval(1)
		case "dict1", "dict2":
			b, depth := 0, 1
			if c.Phase == "dict2" {
				depth = 2
			}
			fmt.Sscanf(c.Note, "builder=%d", &b)
			if sig, detail, _ := c21RunDict(b, depth, c21DictOps(depth), c.Ops); sig != "" {
				r.Violation(sig, detail, c)
			}
			r.Eval(1)
		case "siblings":
			var sc c21SibCase
			ev.ReplayCase(&sc)
			all := map[string]c21Part{}
			for _, q := range c21Parts(true) {
				all[q.name] = q
			}
			get := func(ns []string) []c21Part {
				var out []c21Part
				for _, n := range ns {
					out = append(out, all[n])
				}
				return out
			}
			var kids [][]c21Part
			for _, k := range sc.Kids {
				kids = append(kids, get(k))
			}
			e.siblings(sc.Kind, sc.Style, get(sc.Parent), kids, [][]c21Part{{all["int(0)"]}, {all["str-b"]}})
		case "handles":
			b, ni, order := 0, 0, 0
			fmt.Sscanf(c.Note, "builder=%d name=%d order=%d", &b, &ni, &order)
			if sig, detail, _ := c21RunHandles(b, ni, order, c21HOps(), c.Ops); sig != "" {
				r.Violation(sig+":"+c21BName(b), detail, c)
			}
			r.Eval(1)
		case "mix":
			b := 0
			fmt.Sscanf(c.Note, "builder=%d", &b)
			if sig, detail, _ := c21RunMix(b, mixOps, c.Ops); sig != "" {
				r.Violation(sig, detail, c)
			}
			r.Eval(1)
		}
		r.Finish(false)
		return
	}

	exhaustive := true
	expired := func() bool {
		if r.Expired() {
			exhaustive = false
			return true
		}
		return false
	}
	type job func()
	var batch []job
	flush := func() {
		b := batch
		ev.Par(len(b), 16, func(i int) { b[i]() })
		batch = batch[:0]
	}
	add := func(j job) {
		batch = append(batch, j)
		if len(batch) >= 1<<14 {
			flush()
		}
	}

	// ---- (1) tuples ----
	seenForm := map[string]bool{}
	nTuples := 0
	for l := 0; l <= 3 && !expired(); l++ {
		dims := make([]int, l)
		for i := range dims {
			dims[i] = len(parts)
		}
		run := func(idx []int) bool {
			ps := make([]c21Part, len(idx))
			forms := make([][]byte, len(idx))
			big := 0
			for i, x := range idx {
				ps[i] = parts[x]
				forms[i] = parts[x].form
				if len(parts[x].form) > 1000 {
					big++
				}
			}
			if big > 1 || (big == 1 && l == 3) {
				return true // 64 KiB parts only in tuples of length <= 2, at most one per tuple (stated in the rule)
			}
			tk := c21TupleKey(forms)
			if seenForm[tk] {
				e.aliases++
			}
			seenForm[tk] = true
			names := make([]string, len(ps))
			for i, p := range ps {
				names[i] = p.name
			}
			ti := int32(nTuples)
			e.names = append(e.names, "("+strings.Join(names, ", ")+")")
			nTuples++
			add(func() { e.tuple(ps, ti) })
			if l <= 2 {
				// every truncation of the framed key
				vals := make([]interface{}, len(ps))
				for i, p := range ps {
					vals[i] = p.v
				}
				key := AppendKeys(nil, vals...)
				if len(key) <= 700 {
					bounds := []int{0}
					for _, f := range forms {
						bounds = append(bounds, bounds[len(bounds)-1]+len(c21Frame(f)))
					}
					for cut := 0; cut <= len(key); cut++ {
						raw := key[:cut:cut]
						add(func() { e.split(raw, forms, bounds, "truncation") })
					}
				}
			}
			return true
		}
		if l == 0 {
			run(nil)
		} else {
			opseq.Product(dims, run)
		}
	}
	flush()
	r.Set("key_tuples", nTuples)
	r.Set("distinct_byte_form_tuples", len(seenForm))
	r.Set("typed_aliases_by_design", e.aliases)
	// arbitrary short inputs to SplitKeys
	add(func() { e.split([]byte{}, nil, nil, "short") })
	for x := 0; x < 256; x++ {
		x := x
		add(func() { e.split([]byte{byte(x)}, nil, nil, "short") })
		for y := 0; y < 256; y++ {
			y := y
			add(func() { e.split([]byte{byte(x), byte(y)}, nil, nil, "short") })
			if r.Thorough() && x >= 0x80 && x <= 0xc0 {
				for z := 0; z < 256; z++ {
					z := z
					add(func() { e.split([]byte{byte(x), byte(y), byte(z)}, nil, nil, "short3") })
				}
			}
		}
	}
	// long-form headers with every size-field length and boundary sizes
	for ll := 1; ll <= 8; ll++ {
		for _, size := range []uint64{0, 1, 55, 56, 57, 255, 256, 65536, 1<<31 - 1, 1 << 31, 1<<63 - 1, 1 << 63, 1<<64 - 1} {
			if ll < 8 && size >= 1<<(8*uint(ll)) {
				continue
			}
			hdr := []byte{byte(0xb7 + ll)}
			for i := ll - 1; i >= 0; i-- {
				hdr = append(hdr, byte(size>>(8*uint(i))))
			}
			for _, n := range []int{0, 1, 55, 56, 57, 256} {
				raw := append(append([]byte{}, hdr...), bytes.Repeat([]byte{'p'}, n)...)
				add(func() { e.split(raw, nil, nil, "length-field") })
			}
			for cut := 1; cut < len(hdr); cut++ {
				raw := append([]byte{}, hdr[:cut]...)
				add(func() { e.split(raw, nil, nil, "length-field") })
			}
		}
	}
	flush()
	r.Set("SplitKeys_accepted", e.splitOK)
	r.Set("SplitKeys_rejected", e.splitErr)

	// ---- (1b) sibling builders derived from one parent, all kept alive ----
	{
		pick := func(names ...string) []c21Part {
			var out []c21Part
			for _, n := range names {
				p, ok := byName[n]
				if !ok {
					t.Fatalf("unknown part %s", n)
				}
				out = append(out, p)
			}
			return out
		}
		parentAlpha := pick("int(1)", "str-a", "empty", "byte-80", "a*55", "address")
		kidAlpha := pick("int(0)", "int(1)", "int(256)", "str-a", "str-ab", "empty", "true", "address")
		if r.Thorough() {
			parentAlpha = pick("int(1)", "int(-1)", "str-a", "str-ab", "empty", "byte-80", "a*55", "a*56", "address", "big(2^64)")
			kidAlpha = pick("int(0)", "int(1)", "int(256)", "int(-129)", "str-a", "str-ab", "empty", "byte-80", "true", "address", "a*55", "hexint(-256)")
		}
		var kidLists [][]c21Part
		for _, k := range kidAlpha {
			kidLists = append(kidLists, []c21Part{k})
		}
		one, two, three := byName["int(1)"], byName["int(-1)"], byName["int(128)"]
		kidLists = append(kidLists, []c21Part{one, two}, []c21Part{one, three}) // multi-part Append, as parent.Append(1,2) / (1,3)
		grand := [][]c21Part{{byName["int(0)"]}, {byName["str-b"]}}
		var parents [][]c21Part
		parents = append(parents, nil)
		for _, a := range parentAlpha {
			parents = append(parents, []c21Part{a})
			for _, b := range parentAlpha {
				parents = append(parents, []c21Part{a, b})
			}
		}
		nSib, nSibSpare := 0, 0
		tripleN := r.Pick(5, len(kidLists))
		spareParents := 7 // parents of 0..1 parts for the spare-capacity styles in the quick tier
		if r.Thorough() {
			spareParents = len(parents)
		}
		for kind := range c21SibKinds {
			for style := 0; style < c21NStyles && !expired(); style++ {
				for pi, parent := range parents {
					kind, style, parent := kind, style, parent
					if style == 1 && len(parent) == 0 {
						continue
					}
					if style >= 2 && pi >= 0 && spareParents < len(parents) && len(parent) > 1 {
						continue
					}
					for i := range kidLists {
						for j := range kidLists {
							kids := [][]c21Part{kidLists[i], kidLists[j]}
							nSib++
							if style >= 2 {
								nSibSpare++
							}
							add(func() { e.siblings(kind, style, parent, kids, grand) })
							if triples := tripleN; i < triples && j < triples && (style < 2 || (i < 3 && j < 3)) {
								for k := 0; k < tripleN; k++ {
									kids3 := [][]c21Part{kidLists[i], kidLists[j], kidLists[k]}
									nSib++
									add(func() { e.siblings(kind, style, parent, kids3, grand) })
								}
							}
						}
					}
				}
			}
		}
		flush()
		r.Set("sibling_builder_cases", nSib)
		r.Set("sibling_builder_cases_with_spare_capacity_prefix", nSibSpare)
		r.Sanity(nSibSpare > 1000, "only %d spare-capacity sibling cases", nSibSpare)
	}

	// ---- (2) containers ----
	var nArr, nD1, nD2, nMix int64
	outcomes := map[string]bool{}
	var omu sync.Mutex
	note := func(k string) { omu.Lock(); outcomes[k] = true; omu.Unlock() }
	seqCopy := func(s []int) []int { return append([]int{}, s...) }
	for b := 0; b < c21NB && !expired(); b++ {
		b := b
		d := r.Pick(5, 6)
		if b > 0 {
			d--
		}
		opseq.Sequences(len(c21ArrOps), 0, d, func(s []int) bool {
			seq := seqCopy(s)
			nArr++
			add(func() {
				r.Eval(1)
				r.Nontrivial(fmt.Sprintf("arr|%d|%v", b, seq))
				sig, detail, final := c21RunArray(b, seq)
				if sig != "" {
					r.Violation(sig+":"+c21BName(b), fmt.Sprintf("ops=%v %s", c21ArrNames(seq), detail), c21TupleCase{Phase: "array", Ops: seq, Note: fmt.Sprintf("builder=%d", b)})
				}
				note("arr" + strings.Join(final, ","))
			})
			return !r.Expired()
		})
	}
	flush()
	for b := 0; b < c21NB && !expired(); b++ {
		b := b
		for depth := 1; depth <= 2; depth++ {
			depth := depth
			ops := c21DictOps(depth)
			d := r.Pick(6, 7)
			if depth == 2 {
				d = r.Pick(4, 5)
			}
			if b > 0 {
				d--
			}
			opseq.Sequences(len(ops), 0, d, func(s []int) bool {
				seq := seqCopy(s)
				if depth == 1 {
					nD1++
				} else {
					nD2++
				}
				add(func() {
					r.Eval(1)
					r.Nontrivial(fmt.Sprintf("dict%d|%d|%v", depth, b, seq))
					sig, detail, final := c21RunDict(b, depth, ops, seq)
					if sig != "" {
						r.Violation(sig+":"+c21BName(b), fmt.Sprintf("depth=%d ops=%v %s", depth, seq, detail), c21TupleCase{Phase: fmt.Sprintf("dict%d", depth), Ops: seq, Note: fmt.Sprintf("builder=%d", b)})
					}
					var ks []string
					for k, v := range final {
						ks = append(ks, k+"="+v)
					}
					sort.Strings(ks)
					note(fmt.Sprintf("dict%d", depth) + strings.Join(ks, ","))
				})
				return !r.Expired()
			})
		}
	}
	flush()
	for b := 0; b < c21NB && !expired(); b++ {
		b := b
		d := r.Pick(4, 5)
		if b%3 > 0 {
			d--
		}
		opseq.Sequences(len(mixOps), 0, d, func(s []int) bool {
			seq := seqCopy(s)
			nMix++
			add(func() {
				r.Eval(1)
				r.Nontrivial(fmt.Sprintf("mix|%d|%v", b, seq))
				sig, detail, final := c21RunMix(b, mixOps, seq)
				if sig != "" {
					var names []string
					for _, i := range seq {
						names = append(names, mixOps[i].name)
					}
					r.Violation(sig+":"+c21BName(b), fmt.Sprintf("ops=%v %s", names, detail), c21TupleCase{Phase: "mix", Ops: seq, Note: fmt.Sprintf("builder=%d", b)})
				}
				var ks []string
				for k, v := range final {
					ks = append(ks, k+"="+v)
				}
				sort.Strings(ks)
				note("mix" + strings.Join(ks, ","))
			})
			return !r.Expired()
		})
	}
	flush()
	if r.Expired() {
		exhaustive = false
	}
	// ---- (2b) handles derived from one parent and held at once ----
	var nHandles int64
	{
		hops := c21HOps()
		d := r.Pick(3, 4)
		for kind := 0; kind < c21NB && !expired(); kind++ {
			for ni := range c21RootNames {
				for order := 0; order < 2; order++ {
					kind, ni, order := kind, ni, order
					opseq.Sequences(len(hops), 0, d, func(sq []int) bool {
						seq := seqCopy(sq)
						nHandles++
						add(func() {
							r.Eval(1)
							r.Nontrivial(fmt.Sprintf("handles|%d|%d|%d|%v", kind, ni, order, seq))
							sig, detail, final := c21RunHandles(kind, ni, order, hops, seq)
							if sig != "" {
								var names []string
								for _, i := range seq {
									names = append(names, hops[i].name)
								}
								r.Violation(sig+":"+c21BName(kind), fmt.Sprintf("root=%q handles opened in order %d, ops=%v %s", c21RootNames[ni], order, names, detail),
									c21TupleCase{Phase: "handles", Ops: seq, Note: fmt.Sprintf("builder=%d name=%d order=%d", kind, ni, order)})
							}
							note("handles" + final)
						})
						return !r.Expired()
					})
				}
			}
		}
		flush()
		if r.Expired() {
			exhaustive = false
		}
	}
	// long arrays: index keys cross the 1-, 2- and 3-byte boundaries
	for b := 0; b < 3; b++ {
		n := r.Pick(300, 70000)
		if b > 0 {
			n = 300
		}
		r.Eval(1)
		r.Nontrivial(fmt.Sprintf("long|%d|%d", b, n))
		a := NewArrayDB(c21NewStore(), c21Builder(b, "long"))
		val := func(i int) string { return fmt.Sprintf("v%d", i) }
		bad := ""
		for i := 0; i < n && bad == ""; i++ {
			if err := a.Put(val(i)); err != nil || a.Size() != i+1 {
				bad = fmt.Sprintf("Put #%d: err=%v Size=%d", i, err, a.Size())
			}
		}
		for i := 0; i < n && bad == ""; i++ {
			if got := c21Val(a.Get(i)); got != "="+val(i) {
				bad = fmt.Sprintf("after %d Puts: Get(%d)=%s", n, i, got)
			}
		}
		for i := n - 1; i >= 0 && bad == ""; i-- {
			if got := c21Val(a.Pop()); got != "="+val(i) || a.Size() != i {
				bad = fmt.Sprintf("Pop #%d: got %s Size=%d", i, got, a.Size())
			}
		}
		if bad != "" {
			r.Violation("ArrayDB-long:"+c21BName(b), bad, c21TupleCase{Phase: "long", Note: fmt.Sprintf("builder=%d n=%d", b, n)})
		}
	}
	r.Set("array_sequences", nArr)
	r.Set("dict1_sequences", nD1)
	r.Set("dict2_sequences", nD2)
	r.Set("shared_prefix_sequences", nMix)
	r.Set("held_handle_sequences", nHandles)
	r.Set("distinct_final_container_states", len(outcomes))
	r.Sanity(e.splitOK > 1000 && e.splitErr > 1000, "SplitKeys inputs must be both accepted and rejected (%d/%d)", e.splitOK, e.splitErr)
	r.Sanity(e.aliases > 0, "no typed alias (same byte form) in the tuple space")
	r.Sanity(len(outcomes) > 50, "too few distinct container end states (%d)", len(outcomes))

	r.Sample(map[string]interface{}{"tuple": []string{"str-a", "str-b"}, "framed": fmt.Sprintf("%x", AppendKeys(nil, "a", "b")), "vs_tuple": []string{"str-ab"}, "framed2": fmt.Sprintf("%x", AppendKeys(nil, "ab"))})
	r.Sample(map[string]interface{}{"tuple": []string{"int(128)", "byte-80"}, "framed": fmt.Sprintf("%x", AppendKeys(nil, 128, []byte{0x80}))})
	r.Sample(map[string]interface{}{"array_ops": c21ArrNames([]int{0, 1, 5, 2, 2, 2}), "end_state": "[]"})
	r.Sample(map[string]interface{}{"shared_prefix_ops": []string{mixOps[6].name, mixOps[8].name, mixOps[1].name}, "meaning": "a VarDB at the array's own key sets its size; Pop then removes element 1 and leaves var0 = element 0"})
	r.Finish(exhaustive)
}

// ===========================================================================
// Part 1b: sibling key builders derived from ONE parent and kept alive
// ===========================================================================

var c21SibKinds = []string{"hash", "hash-rawprefix", "prefixedhash", "rlp", "raw"}

func c21OneShot(kind int, vals []interface{}) KeyBuilder {
	switch kind {
	case 0:
		return ToKey(HashBuilder, vals...)
	case 1:
		return NewHashKey([]byte{0x00}, vals...)
	case 2:
		return ToKey(PrefixedHashBuilder, append([]interface{}{[]byte{0x70}}, vals...)...)
	case 3:
		return ToKey(RLPBuilder, vals...)
	default:
		return ToKey(RawBuilder, vals...)
	}
}

func c21Vals(lists ...[]c21Part) []interface{} {
	var out []interface{}
	for _, l := range lists {
		for _, p := range l {
			out = append(out, p.v)
		}
	}
	return out
}

func c21Names(lists ...[]c21Part) []string {
	var out []string
	for _, l := range lists {
		var n []string
		for _, p := range l {
			n = append(n, p.name)
		}
		out = append(out, "("+strings.Join(n, ",")+")")
	}
	return out
}

type c21SibCase struct {
	Phase  string     `json:"phase"`
	Kind   int        `json:"kind"`
	Style  int        `json:"style"`
	Parent []string   `json:"parent"`
	Kids   [][]string `json:"kids"`
}

// siblings derives the children parent.Append(kid_i...) in the given order,
// keeps every builder and every Build() result alive, derives grandchildren
// from every child, and compares every key with the key of the same path built
// one-shot on fresh slices before anything was derived.
func (e *c21Env) siblings(kind, style int, parent []c21Part, kids [][]c21Part, grand [][]c21Part) {
	r := e.r
	r.Eval(1)
	c := c21SibCase{Phase: "siblings", Kind: kind, Style: style}
	for _, p := range parent {
		c.Parent = append(c.Parent, p.name)
	}
	for _, k := range kids {
		var n []string
		for _, p := range k {
			n = append(n, p.name)
		}
		c.Kids = append(c.Kids, n)
	}
	r.Nontrivial(fmt.Sprintf("sib|%d|%d|%v|%v", kind, style, c.Parent, c.Kids))
	kn := c21SibKinds[kind]
	fail := func(sig, format string, a ...interface{}) {
		r.Violation(sig+":"+kn, fmt.Sprintf("builder=%s parent=%v (built %s) children=%v: ", kn, c.Parent, c21StyleName(style), c21Names(kids...))+fmt.Sprintf(format, a...), c)
	}
	var reg []*c21SpareBuf
	if p := ev.Catch(func() {
		dup := func(b []byte) []byte { return append([]byte{}, b...) }
		// expected keys, each from a fresh one-shot builder
		expP := dup(c21OneShot(kind, c21Vals(parent)).Build())
		exp := make([][]byte, len(kids))
		expG := make([][][]byte, len(kids))
		for i, k := range kids {
			exp[i] = dup(c21OneShot(kind, c21Vals(parent, k)).Build())
			for _, g := range grand {
				expG[i] = append(expG[i], dup(c21OneShot(kind, c21Vals(parent, k, g)).Build()))
			}
		}
		// the parent
		var P KeyBuilder
		switch {
		case style == 0:
			P = c21OneShot(kind, c21Vals(parent))
		case style == 1:
			P = c21OneShot(kind, nil)
			for _, p := range parent {
				P = P.Append(p.v)
			}
		case style < 6:
			// the parent builder's own slices have spare capacity (mode style-1)
			P = c21Respare(c21OneShot(kind, c21Vals(parent)), style-1, &reg)
		default:
			// the parent is made by the public entry points from a CALLER slice with spare capacity
			mode := style - 5
			sp := func(b []byte) []byte {
				sb := c21NewSpare(b, mode)
				reg = append(reg, sb)
				return sb.slice()
			}
			switch kind {
			case 0:
				P = NewHashKey(sp(AppendKeys(nil, c21Vals(parent)...)))
			case 1:
				P = NewHashKey(sp([]byte{0x00}), c21Vals(parent)...)
			case 2:
				P = ToKey(PrefixedHashBuilder, append([]interface{}{sp([]byte{0x70})}, c21Vals(parent)...)...)
			case 3:
				P = rlpKeyBuilder(AppendKeys(sp(AppendKeys(nil, c21Vals(parent)...))))
			default:
				P = rawKeyBuilder(AppendRawKeys(sp(AppendRawKeys(nil, c21Vals(parent)...))))
			}
		}
		// children, all kept; each key is also built right away and the result held
		ch := make([]KeyBuilder, len(kids))
		held := make([][]byte, len(kids))
		for i, k := range kids {
			ch[i] = P.Append(c21Vals(k)...)
			held[i] = ch[i].Build()
			if !bytes.Equal(held[i], exp[i]) {
				fail("derived-key-differs-from-one-shot", "child %d %s: key %s want %s", i, c21Names(k), c21Hex(held[i]), c21Hex(exp[i]))
			}
		}
		check := func(when string) {
			for i := range kids {
				if got := ch[i].Build(); !bytes.Equal(got, exp[i]) {
					fail("sibling-builders-interfere", "%s: child %d %s now builds %s, want %s", when, i, c21Names(kids[i]), c21Hex(got), c21Hex(exp[i]))
				}
				if !bytes.Equal(held[i], exp[i]) {
					fail("held-key-mutated", "%s: the key bytes returned earlier for child %d %s are now %s, want %s", when, i, c21Names(kids[i]), c21Hex(held[i]), c21Hex(exp[i]))
				}
			}
			if got := P.Build(); !bytes.Equal(got, expP) {
				fail("parent-builder-mutated", "%s: parent builds %s, want %s", when, c21Hex(got), c21Hex(expP))
			}
		}
		check("after deriving all children")
		// grandchildren from every child, all kept
		gc := make([][]KeyBuilder, len(kids))
		for i := range kids {
			for _, g := range grand {
				gc[i] = append(gc[i], ch[i].Append(c21Vals(g)...))
			}
		}
		for i := range kids {
			for j := range grand {
				if got := gc[i][j].Build(); !bytes.Equal(got, expG[i][j]) {
					fail("sibling-builders-interfere", "grandchild %d.%d %s%s builds %s, want %s", i, j, c21Names(kids[i]), c21Names(grand[j]), c21Hex(got), c21Hex(expG[i][j]))
				}
			}
		}
		check("after deriving grandchildren")
		if style >= 2 && kind >= 3 {
			// the plain functions on ONE caller prefix with spare capacity: all results kept alive
			mode := style - 1
			if style >= 6 {
				mode = style - 5
			}
			var wantP, wantPR []byte
			for _, f := range c21Forms(parent) {
				wantP = append(wantP, c21Frame(f)...)
				wantPR = append(wantPR, f...)
			}
			sbF, sbR := c21NewSpare(wantP, mode), c21NewSpare(wantPR, mode)
			reg = append(reg, sbF, sbR)
			var gotF, gotR, wantF, wantR [][]byte
			for _, k := range kids {
				wf, wr := append([]byte{}, wantP...), append([]byte{}, wantPR...)
				for _, f := range c21Forms(k) {
					wf = append(wf, c21Frame(f)...)
					wr = append(wr, f...)
				}
				wantF, wantR = append(wantF, wf), append(wantR, wr)
				if kind == 3 {
					gotF = append(gotF, AppendKeys(sbF.slice(), c21Vals(k)...))
				} else {
					gotR = append(gotR, AppendRawKeys(sbR.slice(), c21Vals(k)...))
				}
			}
			for i := range gotF {
				if !bytes.Equal(gotF[i], wantF[i]) {
					fail("AppendKeys-results-on-one-prefix-interfere", "AppendKeys(prefix with %s, child %d) is now %s, want %s", c21SpareNames[mode], i, c21Hex(gotF[i]), c21Hex(wantF[i]))
				}
			}
			for i := range gotR {
				if !bytes.Equal(gotR[i], wantR[i]) {
					fail("AppendRawKeys-results-on-one-prefix-interfere", "AppendRawKeys(prefix with %s, child %d) is now %s, want %s", c21SpareNames[mode], i, c21Hex(gotR[i]), c21Hex(wantR[i]))
				}
			}
		}
		for _, sb := range reg {
			if !sb.intact() {
				fail("caller-prefix-buffer-written", "a key builder wrote into the caller's buffer (%s): buffer now %s, caller's bytes %s", c21StyleName(style), c21Hex(sb.buf), c21Hex(sb.want))
				break
			}
		}
		if kind == 3 {
			for i, k := range kids {
				want := c21TupleKey(c21Forms(parent, k))
				if sp, err := SplitKeys(ch[i].Build()); err != nil || c21TupleKey(sp) != want {
					fail("derived-rlp-key-does-not-split-to-its-parts", "child %d: split=%x err=%v", i, sp, err)
				}
			}
		}
	}); p != "" {
		fail("key-builder-panics", "%s", p)
	}
}

// styles of building the parent: 0 one-shot, 1 successive Append, 2..5 the
// parent builder's slices get spare capacity (modes 1..4), 6..9 the parent is
// made by the public entry points from a caller slice with spare capacity.
const c21NStyles = 10

func c21StyleName(style int) string {
	switch {
	case style == 0:
		return "one-shot"
	case style == 1:
		return "by successive Append"
	case style < 6:
		return "one-shot, builder slices with " + c21SpareNames[style-1]
	default:
		return "by NewHashKey/ToKey/AppendKeys from a caller slice with " + c21SpareNames[style-5]
	}
}

func c21Forms(lists ...[]c21Part) [][]byte {
	var out [][]byte
	for _, l := range lists {
		for _, p := range l {
			out = append(out, p.form)
		}
	}
	return out
}

// ===========================================================================
// Part 2b: several container handles derived from one parent, held at once
// ===========================================================================

var c21RootNames = []string{"d", "dict", "container"}

type c21Handles struct {
	D, s1, s2, s11, s12 *DictDB
	a1, a2              *ArrayDB
	v1, v2              *VarDB
}

func c21Root(kind int, name string) KeyBuilder {
	if kind >= 3 {
		return c21Builder(kind, name)
	}
	switch kind {
	case 0:
		return ToKey(HashBuilder, byte(0x00), name)
	case 1:
		return ToKey(RLPBuilder, []byte{0x10}, name)
	default:
		return ToKey(PrefixedHashBuilder, []byte{0x70}, name)
	}
}

func c21Open(st *c21Store, kind int, name string, order int) *c21Handles {
	K := c21Root(kind, name)
	h := &c21Handles{}
	var KD, KA, KV KeyBuilder
	if order == 0 {
		KD, KA, KV = K.Append("d"), K.Append("a"), K.Append("v")
		h.D = NewDictDB(st, 3, KD)
		h.s1, h.s2 = h.D.GetDB(1), h.D.GetDB(2)
		h.s11, h.s12 = h.s1.GetDB(1), h.s1.GetDB(2)
		h.a1, h.a2 = NewArrayDB(st, KA.Append(1)), NewArrayDB(st, KA.Append(2))
		h.v1, h.v2 = NewVarDB(st, KV.Append(1)), NewVarDB(st, KV.Append(2))
	} else {
		KV, KA, KD = K.Append("v"), K.Append("a"), K.Append("d")
		h.v2, h.v1 = NewVarDB(st, KV.Append(2)), NewVarDB(st, KV.Append(1))
		h.a2, h.a1 = NewArrayDB(st, KA.Append(2)), NewArrayDB(st, KA.Append(1))
		h.D = NewDictDB(st, 3, KD)
		h.s2, h.s1 = h.D.GetDB(2), h.D.GetDB(1)
		h.s12, h.s11 = h.s1.GetDB(2), h.s1.GetDB(1)
	}
	return h
}

// fresh one-shot builder of the same path (never shares a slice with anything)
func c21Path(kind int, name string, parts ...interface{}) KeyBuilder {
	switch kind % 3 {
	case 0:
		return ToKey(HashBuilder, append([]interface{}{byte(0x00), name}, parts...)...)
	case 1:
		return ToKey(RLPBuilder, append([]interface{}{[]byte{0x10}, name}, parts...)...)
	default:
		return ToKey(PrefixedHashBuilder, append([]interface{}{[]byte{0x70}, name}, parts...)...)
	}
}

type c21HModel struct {
	dict map[[3]int]string
	arr  [3][]string
	vr   [3]*string
}

type c21HOp struct {
	name string
	impl func(h *c21Handles) string
	mod  func(m *c21HModel) string
}

func c21HOps() []c21HOp {
	errs := func(err error) string {
		if err != nil {
			return "err:" + err.Error()
		}
		return "ok"
	}
	set := func(i, j, k int, v string) func(m *c21HModel) string {
		return func(m *c21HModel) string { m.dict[[3]int{i, j, k}] = v; return "ok" }
	}
	del := func(i, j, k int) func(m *c21HModel) string {
		return func(m *c21HModel) string { delete(m.dict, [3]int{i, j, k}); return "ok" }
	}
	put := func(n int, v string) func(m *c21HModel) string {
		return func(m *c21HModel) string { m.arr[n] = append(m.arr[n], v); return "ok" }
	}
	str := func(s string) *string { return &s }
	return []c21HOp{
		{"d[1][1].Set(1,x)", func(h *c21Handles) string { return errs(h.s11.Set(1, "x")) }, set(1, 1, 1, "x")},
		{"d[1][2].Set(1,y)", func(h *c21Handles) string { return errs(h.s12.Set(1, "y")) }, set(1, 2, 1, "y")},
		{"d[2].Set(1,1,z)", func(h *c21Handles) string { return errs(h.s2.Set(1, 1, "z")) }, set(2, 1, 1, "z")},
		{"d[1].Set(2,1,w)", func(h *c21Handles) string { return errs(h.s1.Set(2, 1, "w")) }, set(1, 2, 1, "w")},
		{"d.Set(2,2,1,u)", func(h *c21Handles) string { return errs(h.D.Set(2, 2, 1, "u")) }, set(2, 2, 1, "u")},
		{"d[1][1].Delete(1)", func(h *c21Handles) string { h.s11.Delete(1); return "ok" }, del(1, 1, 1)},
		{"d[2].Delete(1,1)", func(h *c21Handles) string { h.s2.Delete(1, 1); return "ok" }, del(2, 1, 1)},
		{"a[1].Put(p)", func(h *c21Handles) string { return errs(h.a1.Put("p")) }, put(1, "p")},
		{"a[2].Put(q)", func(h *c21Handles) string { return errs(h.a2.Put("q")) }, put(2, "q")},
		{"a[1].Pop", func(h *c21Handles) string { return c21Val(h.a1.Pop()) }, func(m *c21HModel) string {
			if len(m.arr[1]) == 0 {
				return "<nil>"
			}
			v := m.arr[1][len(m.arr[1])-1]
			m.arr[1] = m.arr[1][:len(m.arr[1])-1]
			return "=" + v
		}},
		{"v[1].Set(m)", func(h *c21Handles) string { return errs(h.v1.Set("m")) }, func(m *c21HModel) string { m.vr[1] = str("m"); return "ok" }},
		{"v[2].Set(n)", func(h *c21Handles) string { return errs(h.v2.Set("n")) }, func(m *c21HModel) string { m.vr[2] = str("n"); return "ok" }},
		{"v[1].Delete", func(h *c21Handles) string { h.v1.Delete(); return "ok" }, func(m *c21HModel) string { m.vr[1] = nil; return "ok" }},
	}
}

func c21RunHandles(kind, nameIdx, order int, ops []c21HOp, seq []int) (sig, detail string, final string) {
	st := c21NewStore()
	name := c21RootNames[nameIdx]
	h := c21Open(st, kind, name, order)
	m := &c21HModel{dict: map[[3]int]string{}}
	state := func() string {
		var ks []string
		for k, v := range m.dict {
			ks = append(ks, fmt.Sprint(k, v))
		}
		sort.Strings(ks)
		return fmt.Sprint(ks, m.arr, m.vr[1] != nil, m.vr[2] != nil)
	}
	observe := func(where string) (string, string) {
		for i := 1; i <= 2; i++ {
			for j := 1; j <= 2; j++ {
				want := "<nil>"
				if v, ok := m.dict[[3]int{i, j, 1}]; ok {
					want = "=" + v
				}
				views := map[string]Value{
					"root.Get":              h.D.Get(i, j, 1),
					"fresh one-shot DictDB": NewDictDB(st, 3, c21Path(kind, name, "d")).Get(i, j, 1),
					"fresh GetDB chain":     h.D.GetDB(i).GetDB(j).Get(1),
				}
				if i == 1 {
					views["held d[1]"] = h.s1.Get(j, 1)
					if j == 1 {
						views["held d[1][1]"] = h.s11.Get(1)
					} else {
						views["held d[1][2]"] = h.s12.Get(1)
					}
				} else {
					views["held d[2]"] = h.s2.Get(j, 1)
				}
				for vn, v := range views {
					if got := c21Val(v); got != want {
						return "held-handles:dict-entry", fmt.Sprintf("%s: d[%d][%d][1] through %s = %s want %s", where, i, j, vn, got, want)
					}
				}
			}
		}
		for n, a := range map[int]*ArrayDB{1: h.a1, 2: h.a2} {
			fresh := NewArrayDB(st, c21Path(kind, name, "a", n))
			if a.Size() != len(m.arr[n]) || fresh.Size() != len(m.arr[n]) {
				return "held-handles:array-size", fmt.Sprintf("%s: a[%d].Size held=%d fresh=%d want %d", where, n, a.Size(), fresh.Size(), len(m.arr[n]))
			}
			for i := 0; i <= len(m.arr[n]); i++ {
				want := "<nil>"
				if i < len(m.arr[n]) {
					want = "=" + m.arr[n][i]
				}
				if g1, g2 := c21Val(a.Get(i)), c21Val(fresh.Get(i)); g1 != want || g2 != want {
					return "held-handles:array-element", fmt.Sprintf("%s: a[%d].Get(%d) held=%s fresh=%s want %s", where, n, i, g1, g2, want)
				}
			}
		}
		for n, v := range map[int]*VarDB{1: h.v1, 2: h.v2} {
			want := "<nil>"
			if m.vr[n] != nil {
				want = "=" + *m.vr[n]
			}
			fresh := NewVarDB(st, c21Path(kind, name, "v", n))
			if g1, g2 := c21Val(v), c21Val(fresh); g1 != want || g2 != want {
				return "held-handles:var", fmt.Sprintf("%s: v[%d] held=%s fresh=%s want %s", where, n, g1, g2, want)
			}
		}
		return "", ""
	}
	for step, oi := range seq {
		op := ops[oi]
		where := fmt.Sprintf("step %d %s", step, op.name)
		want := op.mod(m)
		got := op.impl(h)
		if got != want {
			return "held-handles:op-result", fmt.Sprintf("%s: got %s want %s", where, got, want), state()
		}
		if sig, detail := observe(where); sig != "" {
			return sig, detail, state()
		}
	}
	return "", "", state()
}

func c21ArrNames(seq []int) []string {
	out := make([]string, len(seq))
	for i, s := range seq {
		out[i] = c21ArrOps[s].String()
	}
	return out
}
