//go:build verif

package containerdb

import (
	"bytes"
	"crypto/sha256"
	"encoding/binary"
	"encoding/hex"
	"fmt"
	"math/big"
	"sort"
	"strings"
	"sync"
	"sync/atomic"
	"testing"

	"github.com/icon-project/goloop/common"
	"github.com/icon-project/goloop/common/db"
	"github.com/icon-project/goloop/common/trie"
	"github.com/icon-project/goloop/common/trie/trie_manager"
	"github.com/icon-project/goloop/verifshim/ev"
	"github.com/icon-project/goloop/verifshim/opseq"
)

// ===========================================================================
// Part 1: key tuples
// ===========================================================================

// c21Part is one typed key part together with its byte form, which is written
// down by hand / computed by c21Int (independent of ToBytes and intconv).
type c21Part struct {
	name string
	v    interface{}
	form []byte
}

// c21Int: minimal two's-complement big-endian bytes of v.
func c21Int(v int64) []byte {
	b := make([]byte, 8)
	for i := 0; i < 8; i++ {
		b[7-i] = byte(uint64(v) >> (8 * uint(i)))
	}
	for len(b) > 1 {
		if (b[0] == 0x00 && b[1]&0x80 == 0) || (b[0] == 0xff && b[1]&0x80 != 0) {
			b = b[1:]
		} else {
			break
		}
	}
	return b
}

// c21Frame: RLP byte-string header + payload (reference, for "rlp of another part").
func c21Frame(b []byte) []byte {
	if len(b) == 1 && b[0] < 0x80 {
		return []byte{b[0]}
	}
	if len(b) <= 55 {
		return append([]byte{0x80 + byte(len(b))}, b...)
	}
	var sz []byte
	for x := len(b); x > 0; x >>= 8 {
		sz = append([]byte{byte(x)}, sz...)
	}
	return append(append([]byte{0xb7 + byte(len(sz))}, sz...), b...)
}

func c21Parts(thorough bool) []c21Part {
	var out []c21Part
	addB := func(name string, b []byte) { out = append(out, c21Part{name, b, b}) }
	addB("empty", []byte{})
	for _, x := range []byte{0x00, 0x01, 0x7f, 0x80, 0x81, 0xb7, 0xb8, 0xc0, 0xff} {
		addB(fmt.Sprintf("byte-%02x", x), []byte{x})
	}
	out = append(out, c21Part{"str-a", "a", []byte("a")}, c21Part{"str-ab", "ab", []byte("ab")}, c21Part{"str-b", "b", []byte("b")})
	for _, n := range []int{55, 56, 255, 256} {
		addB(fmt.Sprintf("a*%d", n), bytes.Repeat([]byte{'a'}, n))
	}
	// framings of other parts, to try to confuse the framing
	addB("rlp(ab)", c21Frame([]byte("ab")))
	addB("rlp(a*56)", c21Frame(bytes.Repeat([]byte{'a'}, 56)))
	addB("rlp(empty)", []byte{0x80})
	addB("hdr-b838", []byte{0xb8, 0x38})
	addB("hdr-8261", []byte{0x82, 0x61})
	addB("a,b", []byte("ab")[:2:2])
	addr := common.MustNewAddressFromString("cx0102030405060708090a0b0c0d0e0f1011121314")
	out = append(out, c21Part{"address", addr, append([]byte{1}, []byte{1, 2, 3, 4, 5, 6, 7, 8, 9, 10, 11, 12, 13, 14, 15, 16, 17, 18, 19, 20}...)})
	for _, i := range []int{0, 1, -1, 127, 128, -128, -129, 255, 256, 65535} {
		out = append(out, c21Part{fmt.Sprintf("int(%d)", i), i, c21Int(int64(i))})
	}
	out = append(out, c21Part{"int64(-129)", int64(-129), c21Int(-129)}, c21Part{"int16(128)", int16(128), c21Int(128)}, c21Part{"int32(-1)", int32(-1), c21Int(-1)},
		c21Part{"true", true, []byte{1}}, c21Part{"false", false, []byte{0}}, c21Part{"byte(0x80)", byte(0x80), []byte{0x80}},
		c21Part{"big(2^64)", new(big.Int).Lsh(big.NewInt(1), 64), []byte{1, 0, 0, 0, 0, 0, 0, 0, 0}},
		c21Part{"hexint(-256)", common.NewHexInt(-256), c21Int(-256)})
	if thorough {
		for _, n := range []int{2, 54, 57, 254, 257, 65535, 65536} {
			addB(fmt.Sprintf("b*%d", n), bytes.Repeat([]byte{'b'}, n))
		}
		for _, x := range []byte{0x02, 0x55, 0x7e, 0x82, 0xb9, 0xbf, 0xc1, 0xf7, 0xf8, 0xfe} {
			addB(fmt.Sprintf("byte-%02x", x), []byte{x})
		}
		addB("0000", []byte{0, 0})
		addB("8080", []byte{0x80, 0x80})
		addB("f800", []byte{0xf8, 0x00})
		for _, i := range []int{-32768, 32767, 32768, 1 << 31, -(1 << 31)} {
			out = append(out, c21Part{fmt.Sprintf("int(%d)", i), i, c21Int(int64(i))})
		}
	}
	return out
}

func c21TupleKey(forms [][]byte) string {
	var sb strings.Builder
	for _, f := range forms {
		fmt.Fprintf(&sb, "%d:", len(f))
		sb.Write(f)
		sb.WriteByte('|')
	}
	return sb.String()
}

type c21TupleCase struct {
	Phase string   `json:"phase"`
	Parts []string `json:"parts,omitempty"` // names of the parts (tuple phase)
	Ops   []int    `json:"ops,omitempty"`   // op indices (container phases)
	Hex   string   `json:"hex,omitempty"`   // raw bytes (split phase)
	Note  string   `json:"note,omitempty"`
}

type c21Img struct {
	tuple uint64 // hash of prefix + byte-form tuple
	idx   int32  // position of the tuple in the enumeration (for messages)
}

// c21Images: per builder kind, image (as a 16-byte SHA-256 prefix, to bound
// memory) -> the tuple that produced it.
type c21Images struct {
	mu sync.Mutex
	m  map[string]map[[16]byte]c21Img
}

func c21H64(s string) uint64 {
	h := sha256.Sum256([]byte(s))
	return binary.BigEndian.Uint64(h[:8])
}

func (im *c21Images) put(kind string, image []byte, tuple string, idx int32) (int32, bool) {
	full := sha256.Sum256(image)
	var k [16]byte
	copy(k[:], full[:16])
	th := c21H64(tuple)
	im.mu.Lock()
	defer im.mu.Unlock()
	mm := im.m[kind]
	if mm == nil {
		mm = map[[16]byte]c21Img{}
		im.m[kind] = mm
	}
	if prev, ok := mm[k]; ok && prev.tuple != th {
		return prev.idx, false
	}
	mm[k] = c21Img{th, idx}
	return 0, true
}

type c21Env struct {
	r        *ev.Run
	im       *c21Images
	names    []string // tuple names by enumeration index
	splitOK  int64
	splitErr int64
	aliases  int64 // typed tuples with an already seen byte-form tuple (aliases by design)
}

func (e *c21Env) tuple(parts []c21Part, idx int32) {
	r := e.r
	r.Eval(1)
	names := make([]string, len(parts))
	vals := make([]interface{}, len(parts))
	forms := make([][]byte, len(parts))
	for i, p := range parts {
		names[i], vals[i], forms[i] = p.name, p.v, p.form
	}
	c := c21TupleCase{Phase: "tuple", Parts: names}
	tk := c21TupleKey(forms)
	r.Nontrivial("t|" + tk)
	fail := func(sig, format string, a ...interface{}) {
		r.Violation(sig, fmt.Sprintf("tuple=%v ", names)+fmt.Sprintf(format, a...), c)
	}
	if p := ev.Catch(func() {
		for i, p := range parts {
			if got := ToBytes(p.v); !bytes.Equal(got, p.form) {
				fail("ToBytes-form:"+fmt.Sprintf("%T", p.v), "part %d: ToBytes=%x want %x", i, got, p.form)
			}
		}
		// plain framing and its inverse
		key := AppendKeys(nil, vals...)
		back, err := SplitKeys(key)
		if err != nil || len(back) != len(forms) {
			fail("SplitKeys-of-AppendKeys", "key=%s split=%x err=%v", c21Hex(key), back, err)
		} else {
			for i := range back {
				if !bytes.Equal(back[i], forms[i]) {
					fail("SplitKeys-of-AppendKeys", "key=%s part %d = %x want %x", c21Hex(key), i, back[i], forms[i])
					break
				}
			}
		}
		who := func(i int32) string {
			if int(i) < len(e.names) {
				return e.names[i]
			}
			return fmt.Sprintf("tuple #%d", i)
		}
		if prev, ok := e.im.put("AppendKeys", key, tk, idx); !ok {
			fail("key-collision:AppendKeys", "key=%s is also the image of %s", c21Hex(key), who(prev))
		}
		// builders: the pre-image handed to the hash (resp. the key itself) must be
		// injective per builder kind, across the prefixes as well
		record := func(kind, prefix string, pre []byte) {
			if prev, ok := e.im.put(kind, pre, prefix+"#"+tk, idx); !ok {
				fail("key-collision:"+kind, "pre-image %s (prefix %s) is also the image of %s", c21Hex(pre), prefix, who(prev))
			}
		}
		hk := ToKey(HashBuilder, vals...)
		record("hash", "", []byte(hk.(hashKeyBuilder)))
		if len(hk.Build()) != 32 {
			fail("hash-key-length", "%x", hk.Build())
		}
		rk := ToKey(RLPBuilder, vals...)
		record("rlp", "", rk.Build())
		if sp, err := SplitKeys(rk.Build()); err != nil || c21TupleKey(sp) != tk {
			fail("SplitKeys-of-RLPBuilder", "key=%s split=%x err=%v", c21Hex(rk.Build()), sp, err)
		}
		// incremental Append == one-shot
		if len(vals) > 0 {
			inc := ToKey(HashBuilder, vals[0])
			incR := ToKey(RLPBuilder, vals[0])
			for _, v := range vals[1:] {
				inc, incR = inc.Append(v), incR.Append(v)
			}
			if !bytes.Equal(inc.Build(), hk.Build()) || !bytes.Equal(incR.Build(), rk.Build()) {
				fail("Append-differs-from-one-shot", "hash %x vs %x, rlp %x vs %x", inc.Build(), hk.Build(), incR.Build(), rk.Build())
			}
		}
		for _, prefix := range [][]byte{{0x00}, {0x01}, {0x70}} {
			nk := NewHashKey(prefix, vals...)
			record("hash-rawprefix", hex.EncodeToString(prefix), []byte(nk.(hashKeyBuilder)))
			pk := ToKey(PrefixedHashBuilder, append([]interface{}{prefix}, vals...)...).(*prefixedHashKeyBuilder)
			record("prefixedhash", hex.EncodeToString(prefix), append(append(append([]byte{}, pk.rawPrefix...), '|'), pk.hashPrefix...))
			if fin := pk.Build(); !bytes.HasPrefix(fin, prefix) || len(fin) != len(prefix)+33 {
				fail("prefixedhash-key-shape", "key=%x prefix=%x", fin, prefix)
			}
			// scoredb style: the type byte is framed like every other part
			sk := ToKey(HashBuilder, append([]interface{}{prefix[0]}, vals...)...)
			record("hash-typebyte", hex.EncodeToString(prefix), []byte(sk.(hashKeyBuilder)))
		}
	}); p != "" {
		fail("key-builder-panics", "%s", p)
	}
}

func c21Hex(b []byte) string {
	if len(b) > 48 {
		return fmt.Sprintf("%x…(%d bytes)", b[:48], len(b))
	}
	return fmt.Sprintf("%x", b)
}

// split feeds raw bytes to SplitKeys. want != nil: the bytes are a truncation of
// a real key at offset cut; boundaries = offsets at which a part ends.
func (e *c21Env) split(raw []byte, forms [][]byte, boundaries []int, family string) {
	r := e.r
	r.Eval(1)
	r.Nontrivial("s|" + string(raw))
	c := c21TupleCase{Phase: "split", Hex: hex.EncodeToString(raw), Note: family}
	var parts [][]byte
	var err error
	if p := ev.Catch(func() { parts, err = SplitKeys(raw) }); p != "" {
		r.Violation("SplitKeys-panics:"+family, fmt.Sprintf("input=%s panic=%s", c21Hex(raw), p), c)
		return
	}
	if err != nil {
		atomic.AddInt64(&e.splitErr, 1)
		return
	}
	atomic.AddInt64(&e.splitOK, 1)
	total := 0
	for _, p := range parts {
		total += len(p)
	}
	if total > len(raw) {
		r.Violation("SplitKeys-returns-more-than-input:"+family, fmt.Sprintf("input=%s parts=%x", c21Hex(raw), parts), c)
	}
	// accepted bytes must mean the same tuple after re-framing
	again, err := SplitKeys(AppendKeys(nil, c21Iface(parts)...))
	if err != nil || c21TupleKey(again) != c21TupleKey(parts) {
		r.Violation("SplitKeys-not-stable:"+family, fmt.Sprintf("input=%s parts=%x again=%x err=%v", c21Hex(raw), parts, again, err), c)
	}
	if forms != nil {
		k := -1
		for i, b := range boundaries {
			if b == len(raw) {
				k = i
			}
		}
		if k < 0 {
			r.Violation("SplitKeys-accepts-cut-inside-part", fmt.Sprintf("input=%s (cut at %d, part boundaries %v) parts=%x", c21Hex(raw), len(raw), boundaries, parts), c)
		} else if c21TupleKey(parts) != c21TupleKey(forms[:k]) {
			r.Violation("SplitKeys-prefix-differs", fmt.Sprintf("input=%s parts=%x want %x", c21Hex(raw), parts, forms[:k]), c)
		}
	}
}

func c21Iface(bs [][]byte) []interface{} {
	out := make([]interface{}, len(bs))
	for i, b := range bs {
		out[i] = b
	}
	return out
}

// ===========================================================================
// Part 2: containers against a slice / map model
// ===========================================================================

type c21Store struct{ m trie.Mutable }

func (s *c21Store) GetValue(k []byte) ([]byte, error)    { return s.m.Get(k) }
func (s *c21Store) SetValue(k, v []byte) ([]byte, error) { return s.m.Set(k, v) }
func (s *c21Store) DeleteValue(k []byte) ([]byte, error) { return s.m.Delete(k) }
func c21NewStore() *c21Store                             { return &c21Store{trie_manager.NewMutable(db.NewMapDB(), nil)} }
func c21Val(v Value) string {
	if v == nil {
		return "<nil>"
	}
	if v.Bytes() == nil {
		return "<nil>"
	}
	return "=" + string(v.Bytes())
}

func c21Builder(kind int, name string) KeyBuilder {
	switch kind {
	case 0:
		return ToKey(HashBuilder, byte(0x00), name) // as service/scoredb does
	case 1:
		return ToKey(RLPBuilder, []byte{0x10}, name) // as icon/iiss/icstage does
	default:
		return ToKey(PrefixedHashBuilder, []byte{0x70}, name)
	}
}

var c21BuilderNames = []string{"hash", "rlp", "prefixedhash"}

// ---- ArrayDB ----

type c21ArrOp struct {
	kind string // put | pop | set
	idx  int
	val  string
}

var c21ArrOps = []c21ArrOp{{"put", 0, "x"}, {"put", 0, "y"}, {"pop", 0, ""}, {"set", 0, "x"}, {"set", 0, "y"}, {"set", 1, "x"}, {"set", 1, "y"}, {"set", 2, "y"}}

func (o c21ArrOp) String() string {
	switch o.kind {
	case "put":
		return "Put(" + o.val + ")"
	case "pop":
		return "Pop"
	}
	return fmt.Sprintf("Set(%d,%s)", o.idx, o.val)
}

// runArray replays seq on a fresh ArrayDB and a slice; returns a description of
// the first divergence ("" if none) and the final model.
func c21RunArray(builder int, seq []int) (sig, detail string, final []string) {
	a := NewArrayDB(c21NewStore(), c21Builder(builder, "arr"))
	var model []string
	for step, oi := range seq {
		op := c21ArrOps[oi]
		where := fmt.Sprintf("step %d %s", step, op)
		switch op.kind {
		case "put":
			if err := a.Put(op.val); err != nil {
				return "ArrayDB-Put-fails", where + ": " + err.Error(), model
			}
			model = append(model, op.val)
		case "pop":
			got := c21Val(a.Pop())
			want := "<nil>"
			if len(model) > 0 {
				want = "=" + model[len(model)-1]
				model = model[:len(model)-1]
			}
			if got != want {
				return "ArrayDB-Pop-value", fmt.Sprintf("%s: got %s want %s", where, got, want), model
			}
		case "set":
			err := a.Set(op.idx, op.val)
			inRange := op.idx >= 0 && op.idx < len(model)
			if inRange != (err == nil) {
				return "ArrayDB-Set-range", fmt.Sprintf("%s: err=%v with %d elements", where, err, len(model)), model
			}
			if inRange {
				model[op.idx] = op.val
			}
		}
		if a.Size() != len(model) {
			return "ArrayDB-Size", fmt.Sprintf("%s: Size()=%d want %d", where, a.Size(), len(model)), model
		}
		for i := -1; i <= len(model)+1; i++ {
			want := "<nil>"
			if i >= 0 && i < len(model) {
				want = "=" + model[i]
			}
			if got := c21Val(a.Get(i)); got != want {
				return "ArrayDB-Get", fmt.Sprintf("%s: Get(%d)=%s want %s", where, i, got, want), model
			}
		}
	}
	return "", "", model
}

// ---- DictDB ----

var c21DictKeys1 = []string{"a", "ab"}
var c21DictKeys2 = [][2]string{{"a", "b"}, {"ab", ""}, {"", "ab"}} // same raw concatenation
var c21Probe = []string{"", "a", "ab", "b"}

type c21DictOp struct {
	kind string // set | del | subset (Set through GetDB)
	keys []string
	val  string
}

func (o c21DictOp) String() string { return fmt.Sprintf("%s(%q,%s)", o.kind, o.keys, o.val) }

func c21DictOps(depth int) []c21DictOp {
	var ops []c21DictOp
	if depth == 1 {
		for _, k := range c21DictKeys1 {
			ops = append(ops, c21DictOp{"set", []string{k}, "x"}, c21DictOp{"set", []string{k}, "y"}, c21DictOp{"del", []string{k}, ""})
		}
		return ops
	}
	for _, p := range c21DictKeys2 {
		ks := []string{p[0], p[1]}
		ops = append(ops, c21DictOp{"set", ks, "x"}, c21DictOp{"set", ks, "y"}, c21DictOp{"del", ks, ""}, c21DictOp{"subset", ks, "z"})
	}
	return ops
}

func c21Keys(ks []string) []interface{} {
	out := make([]interface{}, len(ks))
	for i, k := range ks {
		out[i] = k
	}
	return out
}

func c21RunDict(builder, depth int, ops []c21DictOp, seq []int) (sig, detail string, final map[string]string) {
	d := NewDictDB(c21NewStore(), depth, c21Builder(builder, "dict"))
	model := map[string]string{}
	mk := func(ks []string) string { return fmt.Sprintf("%q", ks) }
	for step, oi := range seq {
		op := ops[oi]
		where := fmt.Sprintf("step %d %s", step, op)
		switch op.kind {
		case "set":
			if err := d.Set(append(c21Keys(op.keys), op.val)...); err != nil {
				return "DictDB-Set-fails", where + ": " + err.Error(), model
			}
			model[mk(op.keys)] = op.val
		case "subset":
			sub := d.GetDB(op.keys[0])
			if sub == nil {
				return "DictDB-GetDB-nil", where, model
			}
			if err := sub.Set(op.keys[1], op.val); err != nil {
				return "DictDB-Set-fails", where + ": " + err.Error(), model
			}
			model[mk(op.keys)] = op.val
		case "del":
			_ = d.Delete(c21Keys(op.keys)...) // deleting an absent entry is a no-op; its error value is not specified
			delete(model, mk(op.keys))
		}
		// observe every probe key tuple
		var probe func(prefix []string)
		bad := ""
		probe = func(prefix []string) {
			if bad != "" {
				return
			}
			if len(prefix) == depth {
				want := "<nil>"
				if v, ok := model[mk(prefix)]; ok {
					want = "=" + v
				}
				if got := c21Val(d.Get(c21Keys(prefix)...)); got != want {
					bad = fmt.Sprintf("%s: Get(%q)=%s want %s", where, prefix, got, want)
				}
				if depth == 2 {
					if got := c21Val(d.GetDB(prefix[0]).Get(prefix[1])); got != want {
						bad = fmt.Sprintf("%s: GetDB(%q).Get(%q)=%s want %s", where, prefix[0], prefix[1], got, want)
					}
				}
				return
			}
			for _, k := range c21Probe {
				probe(append(append([]string{}, prefix...), k))
			}
		}
		probe(nil)
		if bad != "" {
			return "DictDB-Get", bad, model
		}
		// wrong arity
		if d.Get() != nil || d.Get(c21Keys(append(append([]string{}, op.keys...), "extra"))...) != nil {
			return "DictDB-Get-wrong-arity", where, model
		}
		if d.Set(c21Keys(op.keys)...) == nil {
			return "DictDB-Set-wrong-arity", where, model
		}
		if d.GetDB(c21Keys(op.keys)...) != nil {
			return "DictDB-GetDB-full-depth", where, model
		}
	}
	return "", "", model
}

// ---- containers that share one key prefix, against a flat tuple-keyed model ----
//
// All containers are built on the SAME key builder K. By design
//   ArrayDB(K).size  is  VarDB(K)              (tuple ())
//   ArrayDB(K)[i]    is  DictDB(K,1).Get(i)    is  VarDB(K.Append(i))   (tuple (i))
//   DictDB(K,2).Get(i,j)                                                (tuple (i,j))
// and nothing else may alias. The model runs the same container logic over a
// map keyed by the *tuple of byte forms*, the implementation over framed and
// hashed byte strings.

type c21Flat map[string]string

func (f c21Flat) key(parts ...int) string {
	forms := make([][]byte, len(parts))
	for i, p := range parts {
		forms[i] = c21Int(int64(p))
	}
	return c21TupleKey(forms)
}

type c21MixOp struct {
	name string
	impl func(m *c21Mix) string // returns an observation of the op's own result
	mod  func(f c21Flat) string
}

type c21Mix struct {
	a  *ArrayDB
	d1 *DictDB
	d2 *DictDB
	v  *VarDB
	v0 *VarDB
}

func c21SizeOf(f c21Flat) int {
	if s, ok := f[f.key()]; ok {
		return int(new(big.Int).SetBytes([]byte(s)).Int64()) // only small non-negative sizes occur
	}
	return 0
}

func c21MixOps() []c21MixOp {
	errs := func(err error) string {
		if err != nil {
			return "err"
		}
		return "ok"
	}
	return []c21MixOp{
		{"arr.Put(x)", func(m *c21Mix) string { return errs(m.a.Put("x")) }, func(f c21Flat) string {
			n := c21SizeOf(f)
			f[f.key(n)] = "x"
			f[f.key()] = string(c21Int(int64(n + 1)))
			return "ok"
		}},
		{"arr.Pop", func(m *c21Mix) string { return c21Val(m.a.Pop()) }, func(f c21Flat) string {
			n := c21SizeOf(f)
			if n == 0 {
				return "<nil>"
			}
			got := "<nil>"
			if v, ok := f[f.key(n-1)]; ok {
				got = "=" + v
			}
			delete(f, f.key(n-1))
			if n > 1 {
				f[f.key()] = string(c21Int(int64(n - 1)))
			} else {
				delete(f, f.key())
			}
			return got
		}},
		{"arr.Set(0,y)", func(m *c21Mix) string { return errs(m.a.Set(0, "y")) }, func(f c21Flat) string {
			if c21SizeOf(f) <= 0 {
				return "err"
			}
			f[f.key(0)] = "y"
			return "ok"
		}},
		{"dict1.Set(0,w)", func(m *c21Mix) string { return errs(m.d1.Set(0, "w")) }, func(f c21Flat) string { f[f.key(0)] = "w"; return "ok" }},
		{"dict1.Set(1,w)", func(m *c21Mix) string { return errs(m.d1.Set(1, "w")) }, func(f c21Flat) string { f[f.key(1)] = "w"; return "ok" }},
		{"dict1.Delete(0)", func(m *c21Mix) string { m.d1.Delete(0); return "ok" }, func(f c21Flat) string { delete(f, f.key(0)); return "ok" }},
		{"var.Set(2)", func(m *c21Mix) string { return errs(m.v.Set(2)) }, func(f c21Flat) string { f[f.key()] = string(c21Int(2)); return "ok" }},
		{"var.Delete", func(m *c21Mix) string { m.v.Delete(); return "ok" }, func(f c21Flat) string { delete(f, f.key()); return "ok" }},
		{"var0.Set(v)", func(m *c21Mix) string { return errs(m.v0.Set("v")) }, func(f c21Flat) string { f[f.key(0)] = "v"; return "ok" }},
		{"dict2.Set(0,0,u)", func(m *c21Mix) string { return errs(m.d2.Set(0, 0, "u")) }, func(f c21Flat) string { f[f.key(0, 0)] = "u"; return "ok" }},
		{"dict2.Delete(0,0)", func(m *c21Mix) string { m.d2.Delete(0, 0); return "ok" }, func(f c21Flat) string { delete(f, f.key(0, 0)); return "ok" }},
	}
}

func c21RunMix(builder int, ops []c21MixOp, seq []int) (sig, detail string, final c21Flat) {
	st := c21NewStore()
	k := c21Builder(builder, "shared")
	m := &c21Mix{a: NewArrayDB(st, k), d1: NewDictDB(st, 1, k), d2: NewDictDB(st, 2, k), v: NewVarDB(st, k), v0: NewVarDB(st, k.Append(0))}
	f := c21Flat{}
	get := func(parts ...int) string {
		if v, ok := f[f.key(parts...)]; ok {
			return "=" + v
		}
		return "<nil>"
	}
	for step, oi := range seq {
		op := ops[oi]
		where := fmt.Sprintf("step %d %s", step, op.name)
		want := op.mod(f)
		got := op.impl(m)
		if got != want {
			return "shared-prefix:op-result", fmt.Sprintf("%s: got %s want %s", where, got, want), f
		}
		obs := []struct {
			name      string
			got, want string
		}{
			{"arr.Size", fmt.Sprint(m.a.Size()), fmt.Sprint(c21SizeOf(f))},
			{"arr.Get(0)", c21Val(m.a.Get(0)), get(0)}, {"arr.Get(1)", c21Val(m.a.Get(1)), get(1)}, {"arr.Get(2)", c21Val(m.a.Get(2)), get(2)},
			{"dict1.Get(0)", c21Val(m.d1.Get(0)), get(0)}, {"dict1.Get(1)", c21Val(m.d1.Get(1)), get(1)},
			{"var", c21Val(m.v), get()}, {"var0", c21Val(m.v0), get(0)},
			{"dict2.Get(0,0)", c21Val(m.d2.Get(0, 0)), get(0, 0)}, {"dict2.Get(0,1)", c21Val(m.d2.Get(0, 1)), get(0, 1)}, {"dict2.Get(1,0)", c21Val(m.d2.Get(1, 0)), get(1, 0)},
		}
		for _, o := range obs {
			if o.got != o.want {
				return "shared-prefix:unexpected-alias-or-loss", fmt.Sprintf("%s: %s = %s want %s", where, o.name, o.got, o.want), f
			}
		}
	}
	return "", "", f
}

// ===========================================================================

func TestVerifC21(t *testing.T) {
	r := ev.Start(t, "C21", "exploration")
	r.Rule("(1) keys: all tuples of length<=3 over a part alphabet (quick 46 / thorough 71 typed parts: empty, single bytes at the RLP boundaries, strings, byte strings of length 55/56/255/256 (thorough + 2/54/57/254/257, and 65535/65536 in tuples of length<=2), RLP framings of other parts, a 21-byte address, ints/bools/big ints through ToBytes) under AppendKeys and the Hash / Hash+raw-prefix / Hash+type-byte / PrefixedHash / RLP builders with 3 prefixes; SplitKeys on every truncation of the framed keys of all tuples of length<=2 and on every byte string of length<=2 (thorough: + 3-byte strings with a header first byte). (2) containers on a real trie store, every operation sequence up to depth d against a Go slice/map: ArrayDB {Put x,Put y,Pop,Set(0..2,·)} (8 ops, d=5 quick / 6 thorough, hash builder; d-1 for the rlp and prefixed-hash builders), DictDB depth 1 (6 ops, d=6/7) and depth 2 with three key pairs whose raw concatenations coincide (12 ops incl. Set through GetDB, d=4/5), containers sharing one key prefix (ArrayDB+DictDB(1)+DictDB(2)+2 VarDB, 11 ops, d=4/5) against a tuple-keyed flat model; long arrays of 0..300 (thorough 70000) elements. distinct_nontrivial = distinct byte-form tuples, distinct SplitKeys inputs, distinct operation sequences")
	r.Assume("typed parts with the same byte form (true / int 1 / byte 01) share a key by design and are compared at the byte-form level",
		"RawBuilder (plain concatenation) is outside the property; raw prefixes of different lengths are not compared with each other",
		"hash builders: pre-images are compared for injectivity; equality of SHA3-256 outputs of different pre-images is additionally checked but cannot be excluded by enumeration",
		"container values are non-empty byte strings; the error value of deleting an absent dictionary entry is not specified and not compared")
	e := &c21Env{r: r, im: &c21Images{m: map[string]map[[16]byte]c21Img{}}}
	parts := c21Parts(r.Thorough())
	byName := map[string]c21Part{}
	for _, p := range parts {
		byName[p.name] = p
	}
	mixOps := c21MixOps()

	if ev.Replaying() {
		var c c21TupleCase
		ev.ReplayCase(&c)
		switch c.Phase {
		case "tuple":
			var ps []c21Part
			for _, n := range c.Parts {
				p, ok := byName[n]
				if !ok {
					for _, q := range c21Parts(true) {
						if q.name == n {
							p = q
						}
					}
				}
				ps = append(ps, p)
			}
			e.tuple(ps, 0)
		case "split":
			raw, _ := hex.DecodeString(c.Hex)
			e.split(raw, nil, nil, c.Note)
		case "array":
			b := 0
			fmt.Sscanf(c.Note, "builder=%d", &b)
			if sig, detail, _ := c21RunArray(b, c.Ops); sig != "" {
				r.Violation(sig, detail, c)
			}
			r.Eval(1)
		case "dict1", "dict2":
			b, depth := 0, 1
			if c.Phase == "dict2" {
				depth = 2
			}
			fmt.Sscanf(c.Note, "builder=%d", &b)
			if sig, detail, _ := c21RunDict(b, depth, c21DictOps(depth), c.Ops); sig != "" {
				r.Violation(sig, detail, c)
			}
			r.Eval(1)
		case "mix":
			b := 0
			fmt.Sscanf(c.Note, "builder=%d", &b)
			if sig, detail, _ := c21RunMix(b, mixOps, c.Ops); sig != "" {
				r.Violation(sig, detail, c)
			}
			r.Eval(1)
		}
		r.Finish(false)
		return
	}

	exhaustive := true
	expired := func() bool {
		if r.Expired() {
			exhaustive = false
			return true
		}
		return false
	}
	type job func()
	var batch []job
	flush := func() {
		b := batch
		ev.Par(len(b), 16, func(i int) { b[i]() })
		batch = batch[:0]
	}
	add := func(j job) {
		batch = append(batch, j)
		if len(batch) >= 1<<14 {
			flush()
		}
	}

	// ---- (1) tuples ----
	seenForm := map[string]bool{}
	nTuples := 0
	for l := 0; l <= 3 && !expired(); l++ {
		dims := make([]int, l)
		for i := range dims {
			dims[i] = len(parts)
		}
		run := func(idx []int) bool {
			ps := make([]c21Part, len(idx))
			forms := make([][]byte, len(idx))
			big := 0
			for i, x := range idx {
				ps[i] = parts[x]
				forms[i] = parts[x].form
				if len(parts[x].form) > 1000 {
					big++
				}
			}
			if big > 1 || (big == 1 && l == 3) {
				return true // 64 KiB parts only in tuples of length <= 2, at most one per tuple (stated in the rule)
			}
			tk := c21TupleKey(forms)
			if seenForm[tk] {
				e.aliases++
			}
			seenForm[tk] = true
			names := make([]string, len(ps))
			for i, p := range ps {
				names[i] = p.name
			}
			ti := int32(nTuples)
			e.names = append(e.names, "("+strings.Join(names, ", ")+")")
			nTuples++
			add(func() { e.tuple(ps, ti) })
			if l <= 2 {
				// every truncation of the framed key
				vals := make([]interface{}, len(ps))
				for i, p := range ps {
					vals[i] = p.v
				}
				key := AppendKeys(nil, vals...)
				if len(key) <= 700 {
					bounds := []int{0}
					for _, f := range forms {
						bounds = append(bounds, bounds[len(bounds)-1]+len(c21Frame(f)))
					}
					for cut := 0; cut <= len(key); cut++ {
						raw := key[:cut:cut]
						add(func() { e.split(raw, forms, bounds, "truncation") })
					}
				}
			}
			return true
		}
		if l == 0 {
			run(nil)
		} else {
			opseq.Product(dims, run)
		}
	}
	flush()
	r.Set("key_tuples", nTuples)
	r.Set("distinct_byte_form_tuples", len(seenForm))
	r.Set("typed_aliases_by_design", e.aliases)
	// arbitrary short inputs to SplitKeys
	add(func() { e.split([]byte{}, nil, nil, "short") })
	for x := 0; x < 256; x++ {
		x := x
		add(func() { e.split([]byte{byte(x)}, nil, nil, "short") })
		for y := 0; y < 256; y++ {
			y := y
			add(func() { e.split([]byte{byte(x), byte(y)}, nil, nil, "short") })
			if r.Thorough() && x >= 0x80 && x <= 0xc0 {
				for z := 0; z < 256; z++ {
					z := z
					add(func() { e.split([]byte{byte(x), byte(y), byte(z)}, nil, nil, "short3") })
				}
			}
		}
	}
	// long-form headers with every size-field length and boundary sizes
	for ll := 1; ll <= 8; ll++ {
		for _, size := range []uint64{0, 1, 55, 56, 57, 255, 256, 65536, 1<<31 - 1, 1 << 31, 1<<63 - 1, 1 << 63, 1<<64 - 1} {
			if ll < 8 && size >= 1<<(8*uint(ll)) {
				continue
			}
			hdr := []byte{byte(0xb7 + ll)}
			for i := ll - 1; i >= 0; i-- {
				hdr = append(hdr, byte(size>>(8*uint(i))))
			}
			for _, n := range []int{0, 1, 55, 56, 57, 256} {
				raw := append(append([]byte{}, hdr...), bytes.Repeat([]byte{'p'}, n)...)
				add(func() { e.split(raw, nil, nil, "length-field") })
			}
			for cut := 1; cut < len(hdr); cut++ {
				raw := append([]byte{}, hdr[:cut]...)
				add(func() { e.split(raw, nil, nil, "length-field") })
			}
		}
	}
	flush()
	r.Set("SplitKeys_accepted", e.splitOK)
	r.Set("SplitKeys_rejected", e.splitErr)

	// ---- (2) containers ----
	var nArr, nD1, nD2, nMix int64
	outcomes := map[string]bool{}
	var omu sync.Mutex
	note := func(k string) { omu.Lock(); outcomes[k] = true; omu.Unlock() }
	seqCopy := func(s []int) []int { return append([]int{}, s...) }
	for b := 0; b < 3 && !expired(); b++ {
		b := b
		d := r.Pick(5, 6)
		if b > 0 {
			d--
		}
		opseq.Sequences(len(c21ArrOps), 0, d, func(s []int) bool {
			seq := seqCopy(s)
			nArr++
			add(func() {
				r.Eval(1)
				r.Nontrivial(fmt.Sprintf("arr|%d|%v", b, seq))
				sig, detail, final := c21RunArray(b, seq)
				if sig != "" {
					r.Violation(sig+":"+c21BuilderNames[b], fmt.Sprintf("ops=%v %s", c21ArrNames(seq), detail), c21TupleCase{Phase: "array", Ops: seq, Note: fmt.Sprintf("builder=%d", b)})
				}
				note("arr" + strings.Join(final, ","))
			})
			return !r.Expired()
		})
	}
	flush()
	for b := 0; b < 3 && !expired(); b++ {
		b := b
		for depth := 1; depth <= 2; depth++ {
			depth := depth
			ops := c21DictOps(depth)
			d := r.Pick(6, 7)
			if depth == 2 {
				d = r.Pick(4, 5)
			}
			if b > 0 {
				d--
			}
			opseq.Sequences(len(ops), 0, d, func(s []int) bool {
				seq := seqCopy(s)
				if depth == 1 {
					nD1++
				} else {
					nD2++
				}
				add(func() {
					r.Eval(1)
					r.Nontrivial(fmt.Sprintf("dict%d|%d|%v", depth, b, seq))
					sig, detail, final := c21RunDict(b, depth, ops, seq)
					if sig != "" {
						r.Violation(sig+":"+c21BuilderNames[b], fmt.Sprintf("depth=%d ops=%v %s", depth, seq, detail), c21TupleCase{Phase: fmt.Sprintf("dict%d", depth), Ops: seq, Note: fmt.Sprintf("builder=%d", b)})
					}
					var ks []string
					for k, v := range final {
						ks = append(ks, k+"="+v)
					}
					sort.Strings(ks)
					note(fmt.Sprintf("dict%d", depth) + strings.Join(ks, ","))
				})
				return !r.Expired()
			})
		}
	}
	flush()
	for b := 0; b < 3 && !expired(); b++ {
		b := b
		d := r.Pick(4, 5)
		if b > 0 {
			d--
		}
		opseq.Sequences(len(mixOps), 0, d, func(s []int) bool {
			seq := seqCopy(s)
			nMix++
			add(func() {
				r.Eval(1)
				r.Nontrivial(fmt.Sprintf("mix|%d|%v", b, seq))
				sig, detail, final := c21RunMix(b, mixOps, seq)
				if sig != "" {
					var names []string
					for _, i := range seq {
						names = append(names, mixOps[i].name)
					}
					r.Violation(sig+":"+c21BuilderNames[b], fmt.Sprintf("ops=%v %s", names, detail), c21TupleCase{Phase: "mix", Ops: seq, Note: fmt.Sprintf("builder=%d", b)})
				}
				var ks []string
				for k, v := range final {
					ks = append(ks, k+"="+v)
				}
				sort.Strings(ks)
				note("mix" + strings.Join(ks, ","))
			})
			return !r.Expired()
		})
	}
	flush()
	if r.Expired() {
		exhaustive = false
	}
	// long arrays: index keys cross the 1-, 2- and 3-byte boundaries
	for b := 0; b < 3; b++ {
		n := r.Pick(300, 70000)
		if b > 0 {
			n = 300
		}
		r.Eval(1)
		r.Nontrivial(fmt.Sprintf("long|%d|%d", b, n))
		a := NewArrayDB(c21NewStore(), c21Builder(b, "long"))
		val := func(i int) string { return fmt.Sprintf("v%d", i) }
		bad := ""
		for i := 0; i < n && bad == ""; i++ {
			if err := a.Put(val(i)); err != nil || a.Size() != i+1 {
				bad = fmt.Sprintf("Put #%d: err=%v Size=%d", i, err, a.Size())
			}
		}
		for i := 0; i < n && bad == ""; i++ {
			if got := c21Val(a.Get(i)); got != "="+val(i) {
				bad = fmt.Sprintf("after %d Puts: Get(%d)=%s", n, i, got)
			}
		}
		for i := n - 1; i >= 0 && bad == ""; i-- {
			if got := c21Val(a.Pop()); got != "="+val(i) || a.Size() != i {
				bad = fmt.Sprintf("Pop #%d: got %s Size=%d", i, got, a.Size())
			}
		}
		if bad != "" {
			r.Violation("ArrayDB-long:"+c21BuilderNames[b], bad, c21TupleCase{Phase: "long", Note: fmt.Sprintf("builder=%d n=%d", b, n)})
		}
	}
	r.Set("array_sequences", nArr)
	r.Set("dict1_sequences", nD1)
	r.Set("dict2_sequences", nD2)
	r.Set("shared_prefix_sequences", nMix)
	r.Set("distinct_final_container_states", len(outcomes))
	r.Sanity(e.splitOK > 1000 && e.splitErr > 1000, "SplitKeys inputs must be both accepted and rejected (%d/%d)", e.splitOK, e.splitErr)
	r.Sanity(e.aliases > 0, "no typed alias (same byte form) in the tuple space")
	r.Sanity(len(outcomes) > 50, "too few distinct container end states (%d)", len(outcomes))

	r.Sample(map[string]interface{}{"tuple": []string{"str-a", "str-b"}, "framed": fmt.Sprintf("%x", AppendKeys(nil, "a", "b")), "vs_tuple": []string{"str-ab"}, "framed2": fmt.Sprintf("%x", AppendKeys(nil, "ab"))})
	r.Sample(map[string]interface{}{"tuple": []string{"int(128)", "byte-80"}, "framed": fmt.Sprintf("%x", AppendKeys(nil, 128, []byte{0x80}))})
	r.Sample(map[string]interface{}{"array_ops": c21ArrNames([]int{0, 1, 5, 2, 2, 2}), "end_state": "[]"})
	r.Sample(map[string]interface{}{"shared_prefix_ops": []string{mixOps[6].name, mixOps[8].name, mixOps[1].name}, "meaning": "a VarDB at the array's own key sets its size; Pop then removes element 1 and leaves var0 = element 0"})
	r.Finish(exhaustive)
}

func c21ArrNames(seq []int) []string {
	out := make([]string, len(seq))
	for i, s := range seq {
		out[i] = c21ArrOps[s].String()
	}
	return out
}
