//go:build verif

package btp

// C29 — BTP network-type proofs require more than two thirds of distinct
// validator signatures, each at its own index.
//
// The harness lives in package btp (so that proofContextMap.Verify can be
// driven in-package) and reaches the ntm proof context only through the
// module.NetworkTypeModule / module.BTPProofContext interfaces and the wire
// format, i.e. exactly the surface an attacker-supplied proof crosses.

import (
	"bytes"
	"crypto/sha256"
	"fmt"
	"sort"
	"strings"
	"sync"
	"sync/atomic"
	"testing"
	"time"

	"github.com/decred/dcrd/dcrec/secp256k1/v4"
	decdsa "github.com/decred/dcrd/dcrec/secp256k1/v4/ecdsa"

	"github.com/icon-project/goloop/btp/ntm"
	"github.com/icon-project/goloop/common/codec"
	"github.com/icon-project/goloop/common/crypto"
	"github.com/icon-project/goloop/common/db"
	"github.com/icon-project/goloop/common/errors"
	"github.com/icon-project/goloop/common/wallet"
	"github.com/icon-project/goloop/module"
	"github.com/icon-project/goloop/verifshim/ev"
)

// ---------------------------------------------------------------- keys

type c29Key struct {
	sk     *crypto.PrivateKey
	comp   []byte
	uncomp []byte
	pub    *secp256k1.PublicKey
	wp     module.WalletProvider
}

type c29WP struct{ w module.BaseWallet }

func (w c29WP) WalletFor(dsa string) module.BaseWallet {
	if dsa == "ecdsa/secp256k1" {
		return w.w
	}
	return nil
}

func c29NewKey(tag string) *c29Key {
	h := sha256.Sum256([]byte("verif-c29-key-" + tag))
	sk, err := crypto.ParsePrivateKey(h[:])
	if err != nil {
		panic(err)
	}
	pk := sk.PublicKey()
	w, _ := wallet.NewFromPrivateKey(sk)
	pub, err := secp256k1.ParsePubKey(pk.SerializeUncompressed())
	if err != nil {
		panic(err)
	}
	return &c29Key{sk: sk, comp: pk.SerializeCompressed(), uncomp: pk.SerializeUncompressed(), pub: pub, wp: c29WP{w}}
}

func (k *c29Key) sign(hash []byte) []byte {
	s, err := crypto.NewSignature(hash, k.sk)
	if err != nil {
		panic(err)
	}
	bs, err := s.SerializeRSV()
	if err != nil {
		panic(err)
	}
	return bs
}

// c29RSVerify is the independent notion of "a valid signature of key k over
// hash": plain ECDSA verification of (r,s), no public key recovery involved.
func c29RSVerify(raw []byte, k *c29Key, hash []byte) bool {
	if len(raw) < 64 {
		return false
	}
	var r, s secp256k1.ModNScalar
	if r.SetByteSlice(raw[:32]) || s.SetByteSlice(raw[32:64]) {
		return false
	}
	if r.IsZero() || s.IsZero() {
		return false
	}
	return decdsa.NewSignature(&r, &s).Verify(hash, k.pub)
}

// ---------------------------------------------------------------- kinds

const (
	c29Nil      = iota // no signature at this index
	c29Valid           // validator i over d
	c29Foreign         // a key outside the validator set, over d
	c29OtherDec        // validator i over another decision d'
	c29Zero            // 65 zero bytes
	c29SFlip           // validator i over d with one bit of S flipped
	c29VFlip           // validator i over d with the recovery id flipped (grey: (r,s) is still a signature of i)
	c29NoV             // validator i over d, 64 bytes without recovery id (grey)
	c29Wrong0          // c29Wrong0+t: validator (i+1+t) mod n over d, placed at index i
)

const c29MaxN = 7

func c29NumKinds(n int) int { return c29Wrong0 + n - 1 }

func c29KindName(k int) string {
	switch k {
	case c29Nil:
		return "nil"
	case c29Valid:
		return "valid"
	case c29Foreign:
		return "foreign-key"
	case c29OtherDec:
		return "other-decision"
	case c29Zero:
		return "zero-bytes"
	case c29SFlip:
		return "s-bit-flipped"
	case c29VFlip:
		return "v-flipped"
	case c29NoV:
		return "no-v"
	}
	return fmt.Sprintf("wrong-index+%d", k-c29Wrong0+1)
}

// generic name used in violation signatures (keeps them narrow but finite)
func c29KindSig(k int) string {
	if k >= c29Wrong0 {
		return "wrong-index"
	}
	return c29KindName(k)
}

const (
	c29ClsNil = iota
	c29ClsGood
	c29ClsBad
	c29ClsGrey
)

func c29Class(k int) int {
	switch k {
	case c29Nil:
		return c29ClsNil
	case c29Valid:
		return c29ClsGood
	case c29VFlip, c29NoV:
		return c29ClsGrey
	}
	return c29ClsBad
}

const (
	c29MustReject = iota
	c29MustAccept
	c29Either
)

// c29Model is the property statement: accepted only if every present entry is
// a valid signature of the validator of its own index over d and the number of
// them exceeds two thirds of n; a proof made only of proper signatures above
// the threshold must be accepted. Entries whose (r,s) is a genuine signature
// of validator i but which cannot be recovered (grey) may be refused.
//
// Validators without a public key for the DSA (nil key; service/state/btp.go
// updateNetworkType produces them) are part of the validator set: n counts
// them (the unchanged Verify compares with 2*len(pc.Validators)/3), but they
// cannot sign, so any signature presented at their index is invalid.
func c29Model(n int, kinds []int, nilMask int) (verdict int, firstBad int, count int) {
	good, grey := 0, 0
	firstBad = -1
	for i, k := range kinds {
		cls := c29Class(k)
		if cls == c29ClsNil {
			continue
		}
		if i >= n || cls == c29ClsBad || nilMask&(1<<uint(i)) != 0 {
			if firstBad < 0 {
				firstBad = i
			}
			continue
		}
		if cls == c29ClsGood {
			good++
		} else {
			grey++
		}
	}
	count = good + grey
	if firstBad >= 0 {
		return c29MustReject, firstBad, count
	}
	if 3*count <= 2*n {
		return c29MustReject, -1, count
	}
	if grey == 0 {
		return c29MustAccept, -1, count
	}
	return c29Either, -1, count
}

// ---------------------------------------------------------------- environment

type c29Env struct {
	uid     string
	mod     module.NetworkTypeModule
	keys    []*c29Key
	foreign *c29Key
	d, d2   []byte
	sigD    [][]byte
	sigD2   [][]byte
	sigF    []byte
}

var (
	c29SrcUID  = []byte("0x1.icon")
	c29NTSHash = bytes.Repeat([]byte{0xa5}, 32)
)

func c29NewEnv(uid string) *c29Env {
	e := &c29Env{uid: uid, mod: ntm.ForUID(uid)}
	for i := 0; i < c29MaxN; i++ {
		e.keys = append(e.keys, c29NewKey(fmt.Sprintf("v%d", i)))
	}
	e.foreign = c29NewKey("foreign")
	pc, err := e.mod.NewProofContext([][]byte{e.keys[0].comp})
	if err != nil {
		panic(err)
	}
	e.d = pc.NewDecision(c29SrcUID, 1, 10, 0, c29NTSHash).Hash()
	e.d2 = pc.NewDecision(c29SrcUID, 1, 10, 1, c29NTSHash).Hash()
	for _, k := range e.keys {
		e.sigD = append(e.sigD, k.sign(e.d))
		e.sigD2 = append(e.sigD2, k.sign(e.d2))
	}
	e.sigF = e.foreign.sign(e.d)
	return e
}

// entry returns the raw wire bytes (R|S|V, or R|S, or nil) of kind at index i
// of an n-validator context.
func (e *c29Env) entry(n, i, kind int) []byte {
	own := i % n
	cp := func(b []byte) []byte { return append([]byte(nil), b...) }
	switch kind {
	case c29Nil:
		return nil
	case c29Valid:
		return cp(e.sigD[own])
	case c29Foreign:
		return cp(e.sigF)
	case c29OtherDec:
		return cp(e.sigD2[own])
	case c29Zero:
		return make([]byte, 65)
	case c29SFlip:
		b := cp(e.sigD[own])
		b[63] ^= 1
		return b
	case c29VFlip:
		b := cp(e.sigD[own])
		b[64] ^= 1
		return b
	case c29NoV:
		return cp(e.sigD[own][:64])
	}
	t := kind - c29Wrong0
	return cp(e.sigD[(own+1+t)%n])
}

const (
	c29FormCompressed = iota
	c29FormUncompressed
	c29FormMixed
	c29NumForms
)

// ctx builds a fresh proof context for the first n validators.
// origin 0: NewProofContext(keys); origin 1: NewProofContextFromBytes(Bytes()).
func (e *c29Env) ctx(n, form, origin int, nilMask ...int) module.BTPProofContext {
	keys := make([][]byte, n)
	for i := range keys {
		if len(nilMask) > 0 && nilMask[0]&(1<<uint(i)) != 0 {
			continue // validator i has no key for this DSA
		}
		switch {
		case form == c29FormCompressed, form == c29FormMixed && i%2 == 0:
			keys[i] = e.keys[i].comp
		default:
			keys[i] = e.keys[i].uncomp
		}
	}
	pc, err := e.mod.NewProofContext(keys)
	if err != nil {
		panic(err)
	}
	if origin == 1 {
		pc, err = e.mod.NewProofContextFromBytes(pc.Bytes())
		if err != nil {
			panic(err)
		}
	}
	return pc
}

// wire encodings (mirrors of the unexported ntm structs; agreement with the
// real encoder is asserted in the self test).
type c29WireProof struct {
	Signatures [][]byte // nil slice -> RLP null, exactly like a nil *crypto.Signature
}
type c29WirePart struct {
	Index     int
	Signature []byte
}

func c29EncodeProof(entries [][]byte) []byte {
	w := c29WireProof{Signatures: make([][]byte, len(entries))}
	copy(w.Signatures, entries)
	return codec.BC.MustMarshalToBytes(&w)
}

func c29EncodePart(idx int, raw []byte) []byte {
	return codec.BC.MustMarshalToBytes(&c29WirePart{Index: idx, Signature: raw})
}

// ---------------------------------------------------------------- cases

type c29VecCase struct {
	Stage  string `json:"stage"`
	UID    string `json:"uid"`
	N      int    `json:"n"`
	Form   int    `json:"form"`   // public key form given to NewProofContext
	Origin int    `json:"origin"` // 0 built, 1 decoded from bytes
	Route  int    `json:"route"`  // 0 wire bytes -> NewProofFromBytes, 1 NewProof + Add(parts)
	Kinds  []int  `json:"kinds"`  // one kind per vector position (length may differ from n)
	Names  string `json:"names,omitempty"`
	// bit i set: validator i has a nil key in the context (it is part of n but cannot sign)
	NilMask int `json:"nil_key_mask,omitempty"`
}

type c29Stats struct {
	accepted, rejected, greyRejected, greyAccepted   int64
	boundaryBelow, boundaryAbove                     int64
	rejIndex, rejWrongIdx, rejNotVal, rejFew, rejRec int64
	decodeErr                                        int64
	evals                                            int64
}

func (c *c29VecCase) names() string {
	s := make([]string, len(c.Kinds))
	for i, k := range c.Kinds {
		s[i] = c29KindName(k)
	}
	return strings.Join(s, ",")
}

// c29RunVec executes one vector against the real proof context and compares
// with the model.
func c29RunVec(r *ev.Run, st *c29Stats, e *c29Env, pc module.BTPProofContext, c *c29VecCase) {
	atomic.AddInt64(&st.evals, 1)
	entries := make([][]byte, len(c.Kinds))
	for i, k := range c.Kinds {
		entries[i] = e.entry(c.N, i, k)
	}
	var verr error
	var phase string
	pan := ev.Catch(func() {
		var p module.BTPProof
		if c.Route == 0 {
			phase = "NewProofFromBytes"
			var err error
			p, err = pc.NewProofFromBytes(c29EncodeProof(entries))
			if err != nil {
				atomic.AddInt64(&st.decodeErr, 1)
				verr = err
				return
			}
		} else {
			phase = "Add"
			p = pc.NewProof()
			for i, b := range entries {
				if b == nil {
					continue
				}
				pp, err := pc.NewProofPartFromBytes(c29EncodePart(i, b))
				if err != nil {
					atomic.AddInt64(&st.decodeErr, 1)
					verr = err
					return
				}
				p.Add(pp)
			}
		}
		phase = "Verify"
		verr = pc.Verify(e.d, p)
	})
	verdict, firstBad, count := c29Model(c.N, c.Kinds, c.NilMask)
	fail := func(sig, detail string) {
		c.Names = c.names()
		r.Violation(sig, fmt.Sprintf("%s uid=%s n=%d nil-key-validators=%0*b form=%d origin=%d route=%d vector=[%s] err=%v", detail, c.UID, c.N, c.N, c.NilMask, c.Form, c.Origin, c.Route, c.Names, verr), c)
	}
	if pan != "" {
		fail("panic-in-"+phase, "panic: "+pan)
		return
	}
	accepted := verr == nil
	if accepted {
		atomic.AddInt64(&st.accepted, 1)
	} else {
		atomic.AddInt64(&st.rejected, 1)
		msg := verr.Error()
		switch {
		case strings.Contains(msg, "invalid proof part index"):
			atomic.AddInt64(&st.rejIndex, 1)
		case strings.Contains(msg, "maybe vote index is wrong"):
			atomic.AddInt64(&st.rejWrongIdx, 1)
		case strings.Contains(msg, "not a validator"):
			atomic.AddInt64(&st.rejNotVal, 1)
		case strings.Contains(msg, "not enough proof parts"):
			atomic.AddInt64(&st.rejFew, 1)
		default:
			atomic.AddInt64(&st.rejRec, 1)
		}
	}
	switch verdict {
	case c29MustReject:
		if accepted {
			if firstBad >= 0 {
				where := c29KindSig(c.Kinds[firstBad])
				if firstBad >= c.N {
					where = "index-beyond-validators"
				} else if c.NilMask&(1<<uint(firstBad)) != 0 {
					where += "@index-of-validator-without-key"
				}
				fail("Verify-accepted-proof-with-invalid-entry:"+where, fmt.Sprintf("accepted although entry %d is not a signature of validator %d over the decision;", firstBad, firstBad))
			} else {
				fail(fmt.Sprintf("Verify-accepted-below-threshold:n=%d,signatures=%d", c.N, count), "accepted with too few signatures;")
			}
		}
		if firstBad < 0 && 3*(count+1) > 2*c.N {
			atomic.AddInt64(&st.boundaryBelow, 1)
		}
	case c29MustAccept:
		if !accepted {
			fail(fmt.Sprintf("Verify-rejected-valid-proof:n=%d,signatures=%d", c.N, count), "rejected a proof of proper signatures above the threshold;")
		}
		if 3*(count-1) <= 2*c.N {
			atomic.AddInt64(&st.boundaryAbove, 1)
		}
	case c29Either:
		if accepted {
			atomic.AddInt64(&st.greyAccepted, 1)
		} else {
			atomic.AddInt64(&st.greyRejected, 1)
		}
	}
}

type c29PartCase struct {
	Stage   string `json:"stage"`
	UID     string `json:"uid"`
	N       int    `json:"n"`
	Form    int    `json:"form"`
	Origin  int    `json:"origin"`
	Signer  int    `json:"signer"` // validator index whose material is used
	Kind    int    `json:"kind"`   // kind (relative to Signer as "own" index); never nil / wrong-index
	Claimed int    `json:"claimed"`
	NilMask int    `json:"nil_key_mask,omitempty"`
}

func c29RunPart(r *ev.Run, e *c29Env, pc module.BTPProofContext, c *c29PartCase, okCnt, rejCnt *int64) {
	r.Eval(1)
	raw := e.entry(c.N, c.Signer, c.Kind)
	var idx int
	var verr error
	pan := ev.Catch(func() {
		pp, err := pc.NewProofPartFromBytes(c29EncodePart(c.Claimed, raw))
		if err != nil {
			verr = err
			return
		}
		idx, verr = pc.VerifyPart(e.d, pp)
	})
	fail := func(sig, detail string) {
		r.Violation(sig, fmt.Sprintf("%s uid=%s n=%d nil-key-validators=%0*b form=%d origin=%d signer=%d kind=%s claimed=%d idx=%d err=%v", detail, c.UID, c.N, c.N, c.NilMask, c.Form, c.Origin, c.Signer, c29KindName(c.Kind), c.Claimed, idx, verr), c)
	}
	if pan != "" {
		fail("panic-in-VerifyPart", "panic: "+pan)
		return
	}
	signerHasNoKey := c.NilMask&(1<<uint(c.Signer)) != 0
	rel := "own-index"
	switch {
	case c.Claimed < 0:
		rel = "negative-index"
	case c.Claimed >= c.N:
		rel = "index-beyond-validators"
	case c.Claimed != c.Signer:
		rel = "other-validators-index"
		if c.NilMask&(1<<uint(c.Claimed)) != 0 {
			rel = "index-of-validator-without-key"
		}
	case signerHasNoKey:
		rel = "own-index-but-validator-has-no-key"
	}
	cls := c29Class(c.Kind)
	if signerHasNoKey {
		cls = c29ClsBad // the context does not know this key: nothing it signs is a validator's signature
	}
	accepted := verr == nil
	if accepted {
		atomic.AddInt64(okCnt, 1)
	} else {
		atomic.AddInt64(rejCnt, 1)
	}
	switch {
	case cls == c29ClsGood && c.Claimed == c.Signer:
		if !accepted {
			fail("VerifyPart-rejected-valid-part", "valid part refused;")
		} else if idx != c.Claimed {
			fail("VerifyPart-returned-wrong-index", "valid part accepted with another index;")
		}
	case cls == c29ClsGrey && c.Claimed == c.Signer:
		if accepted && idx != c.Claimed {
			fail("VerifyPart-returned-wrong-index", "part accepted with another index;")
		}
	default:
		if accepted {
			fail("VerifyPart-accepted:"+c29KindSig(c.Kind)+"@"+rel, "part accepted although it is not a signature of the validator of the claimed index over the decision;")
		}
	}
}

// ---------------------------------------------------------------- proofContextMap stage

type c29NTD struct {
	ntid    int64
	uid     string
	ntsHash []byte
}

func (d *c29NTD) NetworkTypeID() int64                   { return d.ntid }
func (d *c29NTD) UID() string                            { return d.uid }
func (d *c29NTD) NetworkTypeSectionHash() []byte         { return d.ntsHash }
func (d *c29NTD) NetworkDigests() []module.NetworkDigest { return nil }
func (d *c29NTD) NetworkDigestFor(nid int64) module.NetworkDigest {
	return nil
}
func (d *c29NTD) NetworkSectionsRootWithMod(mod module.NetworkTypeModule) []byte { return nil }
func (d *c29NTD) NetworkSectionToRootWithMod(mod module.NetworkTypeModule, nid int64) ([]module.MerkleNode, error) {
	return nil, errors.ErrNotFound
}

type c29DigestCore struct{ ntds []module.NetworkTypeDigest }

func (c *c29DigestCore) Bytes() []byte                                  { return nil }
func (c *c29DigestCore) Hash() []byte                                   { return nil }
func (c *c29DigestCore) NetworkTypeDigests() []module.NetworkTypeDigest { return c.ntds }
func (c *c29DigestCore) Flush(dbase db.Database) error                  { return nil }

type c29NTView struct {
	uid string
	pc  module.BTPProofContext
}

func (v *c29NTView) UID() string                  { return v.uid }
func (v *c29NTView) NextProofContextHash() []byte { return v.pc.Hash() }
func (v *c29NTView) NextProofContext() []byte     { return v.pc.Bytes() }
func (v *c29NTView) OpenNetworkIDs() []int64      { return nil }

type c29View struct{ nts map[int64]*c29NTView }

func (v *c29View) GetNetworkTypeIDs() ([]int64, error) {
	var ids []int64
	for id := range v.nts {
		ids = append(ids, id)
	}
	sort.Slice(ids, func(i, j int) bool { return ids[i] < ids[j] })
	return ids, nil
}
func (v *c29View) GetNetworkView(nid int64) (NetworkView, error) { return nil, errors.ErrNotFound }
func (v *c29View) GetNetworkTypeView(ntid int64) (NetworkTypeView, error) {
	if nt, ok := v.nts[ntid]; ok {
		return nt, nil
	}
	return nil, errors.ErrNotFound
}

type c29List [][]byte

func (l c29List) NTSDProofCount() int      { return len(l) }
func (l c29List) NTSDProofAt(i int) []byte { return l[i] }

// decision tuple mutations
const (
	c29MutNone = iota
	c29MutSrc
	c29MutNTID
	c29MutHeight
	c29MutRound
	c29MutNTSHash
	c29MutOtherKeys // signatures by the other network type's validator set (same positions)
	c29NumMut
)

var c29MutNames = []string{"none", "other-source-network", "other-network-type-id", "other-height", "other-round", "other-nts-hash", "other-validator-set"}

type c29PCMCase struct {
	Stage  string `json:"stage"`
	Mask   [2]int `json:"mask"`  // signer subsets (bit i = validator position i) of the proofs made for network types 1 and 2
	Mut    [2]int `json:"mut"`   // what the signatures of each proof were made over
	Shape  int    `json:"shape"` // 0 exact, 1 last proof missing, 2 extra proof appended, 3 proofs swapped, 4 empty list
	Third  bool   `json:"third"` // digest also carries a network type (id 3) that has no proof context
	Detail string `json:"detail,omitempty"`
}

var c29ShapeNames = []string{"exact", "last-missing", "extra-appended", "swapped", "empty"}

type c29PCMEnv struct {
	envs  [2]*c29Env
	keyIx [2][]int // validator key indices of each network type
	ntid  [2]int64
	nts   [2][]byte
	pcm   module.BTPProofContextMap
	mu    sync.Mutex
	sigs  map[string][]byte
}

func c29NewPCMEnv(eth, icon *c29Env) *c29PCMEnv {
	pe := &c29PCMEnv{envs: [2]*c29Env{eth, icon}, ntid: [2]int64{1, 2}, sigs: map[string][]byte{}}
	pe.keyIx = [2][]int{{0, 1, 2, 3}, {2, 3, 4, 5}}
	pe.nts = [2][]byte{bytes.Repeat([]byte{0x11}, 32), bytes.Repeat([]byte{0x22}, 32)}
	view := &c29View{nts: map[int64]*c29NTView{}}
	for t := 0; t < 2; t++ {
		keys := make([][]byte, 4)
		for i, ix := range pe.keyIx[t] {
			keys[i] = pe.envs[t].keys[ix].comp
		}
		pc, err := pe.envs[t].mod.NewProofContext(keys)
		if err != nil {
			panic(err)
		}
		view.nts[pe.ntid[t]] = &c29NTView{uid: pe.envs[t].uid, pc: pc}
	}
	pcm, err := NewProofContextMap(view)
	if err != nil {
		panic(err)
	}
	pe.pcm = pcm
	return pe
}

const (
	c29Height = int64(100)
	c29Round  = int32(2)
)

func (pe *c29PCMEnv) decision(t, mut int) []byte {
	src, ntid, h, rd, nts := c29SrcUID, pe.ntid[t], c29Height, c29Round, pe.nts[t]
	switch mut {
	case c29MutSrc:
		src = []byte("0x2.icon")
	case c29MutNTID:
		ntid = pe.ntid[1-t]
	case c29MutHeight:
		h++
	case c29MutRound:
		rd = 0 // the zero value a dropped parameter would take
	case c29MutNTSHash:
		nts = pe.nts[1-t]
	}
	pc, err := pe.pcm.ProofContextFor(pe.ntid[t])
	if err != nil {
		panic(err)
	}
	return pc.NewDecision(src, ntid, h, rd, nts).Hash()
}

func (pe *c29PCMEnv) sign(t, keyIx int, hash []byte) []byte {
	k := fmt.Sprintf("%d/%d/%x", t, keyIx, hash)
	pe.mu.Lock()
	defer pe.mu.Unlock()
	if s, ok := pe.sigs[k]; ok {
		return s
	}
	s := pe.envs[t].keys[keyIx].sign(hash)
	pe.sigs[k] = s
	return s
}

// proofFor builds the wire bytes of the proof "for network type t" described
// by (mask, mut).
func (pe *c29PCMEnv) proofFor(t, mask, mut int) []byte {
	hash := pe.decision(t, mut)
	entries := make([][]byte, 4)
	for i := 0; i < 4; i++ {
		if mask&(1<<uint(i)) == 0 {
			continue
		}
		ix := pe.keyIx[t][i]
		if mut == c29MutOtherKeys {
			ix = pe.keyIx[1-t][i]
		}
		entries[i] = pe.sign(t, ix, hash)
	}
	return c29EncodeProof(entries)
}

func c29Pop(m int) int {
	n := 0
	for ; m != 0; m &= m - 1 {
		n++
	}
	return n
}

func c29RunPCM(r *ev.Run, pe *c29PCMEnv, c *c29PCMCase, acc, rej *int64) {
	r.Eval(1)
	ntds := []module.NetworkTypeDigest{
		&c29NTD{pe.ntid[0], pe.envs[0].uid, pe.nts[0]},
		&c29NTD{pe.ntid[1], pe.envs[1].uid, pe.nts[1]},
	}
	if c.Third {
		ntds = append(ntds, &c29NTD{3, "eth", bytes.Repeat([]byte{0x33}, 32)})
	}
	bd := &digest{core: &c29DigestCore{ntds: ntds}}
	p := [2][]byte{pe.proofFor(0, c.Mask[0], c.Mut[0]), pe.proofFor(1, c.Mask[1], c.Mut[1])}
	var list c29List
	// which described proof sits at list position i (-1: none)
	var at []int
	switch c.Shape {
	case 0:
		list, at = c29List{p[0], p[1]}, []int{0, 1}
	case 1:
		list, at = c29List{p[0]}, []int{0}
	case 2:
		list, at = c29List{p[0], p[1], p[1]}, []int{0, 1, 1}
	case 3:
		list, at = c29List{p[1], p[0]}, []int{1, 0}
	case 4:
		list, at = c29List{}, nil
	}
	var verr error
	pan := ev.Catch(func() {
		verr = pe.pcm.Verify(c29SrcUID, c29Height, c29Round, bd, list)
	})
	// model: exactly one proof per network type that has a context, in digest
	// order, each carrying > 2/3 signatures of that type's validators, each at
	// its own position, over that type's decision.
	// A surplus proof that no network type consumes is outside the property
	// statement (every decision still has its proof): accept or reject.
	want := len(at) >= 2
	reason := "decision-without-proof"
	if want {
		for pos := 0; pos < 2; pos++ {
			src := at[pos]
			mask, mut := c.Mask[src], c.Mut[src]
			if mask != 0 && (src != pos || mut != c29MutNone) {
				// src != pos: signatures were made for the other network type
				// (other hash function / ntid / nts hash and other keys at positions 0,1)
				want = false
				reason = "signatures-over:" + c29MutNames[mut]
				if src != pos {
					reason = "proof-of-other-network-type"
				}
				break
			}
			if 3*c29Pop(mask) <= 2*4 {
				want = false
				reason = fmt.Sprintf("below-threshold:n=4,signatures=%d", c29Pop(mask))
				break
			}
		}
	}
	either := want && len(at) > 2
	c.Detail = fmt.Sprintf("masks=%04b/%04b over=%s/%s shape=%s third=%v", c.Mask[0], c.Mask[1], c29MutNames[c.Mut[0]], c29MutNames[c.Mut[1]], c29ShapeNames[c.Shape], c.Third)
	if pan != "" {
		r.Violation("panic-in-proofContextMap.Verify", "panic: "+pan+" "+c.Detail, c)
		return
	}
	got := verr == nil
	if got {
		atomic.AddInt64(acc, 1)
	} else {
		atomic.AddInt64(rej, 1)
	}
	if got && !want {
		r.Violation("proofContextMap.Verify-accepted:"+reason, fmt.Sprintf("accepted; %s", c.Detail), c)
	} else if !got && want && !either {
		r.Violation("proofContextMap.Verify-rejected-valid-proofs", fmt.Sprintf("rejected: %v; %s", verr, c.Detail), c)
	}
}

// ---------------------------------------------------------------- the check

func TestVerifC29(t *testing.T) {
	r := ev.Start(t, "C29", "exploration")
	t0 := time.Now()
	ntm.InitIconModule()
	envs := []*c29Env{c29NewEnv("eth"), c29NewEnv("icon")}
	envOf := func(uid string) *c29Env {
		for _, e := range envs {
			if e.uid == uid {
				return e
			}
		}
		panic("no env " + uid)
	}
	pe := c29NewPCMEnv(envs[0], envs[1])

	if ev.Replaying() {
		var probe struct {
			Stage string `json:"stage"`
		}
		ev.ReplayCase(&probe)
		st := &c29Stats{}
		var a, b int64
		switch probe.Stage {
		case "part":
			var c c29PartCase
			ev.ReplayCase(&c)
			e := envOf(c.UID)
			c29RunPart(r, e, e.ctx(c.N, c.Form, c.Origin, c.NilMask), &c, &a, &b)
		case "pcm-history":
			var c c29HCase
			ev.ReplayCase(&c)
			w := &c29HWorld{envs: map[string]*c29Env{"eth": envs[0], "icon": envs[1]}, sigs: map[string][]byte{}, pcs: map[[2]int]module.BTPProofContext{}}
			w.runHistory(r, &c29HStats{}, &c)
		case "pcm":
			var c c29PCMCase
			ev.ReplayCase(&c)
			c29RunPCM(r, pe, &c, &a, &b)
		default:
			var c c29VecCase
			ev.ReplayCase(&c)
			e := envOf(c.UID)
			c29RunVec(r, st, e, e.ctx(c.N, c.Form, c.Origin, c.NilMask), &c)
		}
		r.Finish(false)
		return
	}

	prodAll := r.Pick(3, 4)       // full product on all 12 context/route variants
	prodSome := r.Pick(4, 5)      // full product on fewer variants
	prodSomeLevel := r.Pick(3, 1) // ... namely two (quick) / four (thorough) of them
	prodLast := r.Pick(0, 6)      // full product, eth module, primary variant only (run last)
	mutAllVariantsUpTo := r.Pick(5, 7)
	nilMaxN := r.Pick(4, 5)  // validator sets with nil keys: every non-empty subset of nil positions for n <= this
	nilFullN := r.Pick(2, 3) // ... with the full kind alphabet up to this n, {nil, valid, every wrong index, foreign} above
	mutPositions := r.Pick(1, 2)
	setRule := func(prodLast int) {
		r.Rule(fmt.Sprintf("network-type modules eth+icon; n validators with fixed keys; per index a kind from {nil, valid, signature of every other validator j!=i (wrong index), foreign key, validator i over another decision, 65 zero bytes, S bit flipped, V flipped, 64-byte no-V}. (A) full product of kinds: n<=%d on all 12 variants {compressed,uncompressed,mixed keys}x{built,decoded context}x{wire bytes, NewProof+Add}, n<=%d on 2 (quick) / 4 (thorough) variants, n<=%d on the primary variant of the eth module (n=6 only when stages A-F took < 4 min, decided before it starts); (B) n=1..7: every signer subset x every choice of <=%d mutated positions x every non-valid kind; (C) every subset truncated to every shorter length and extended by 1-2 entries beyond n; (D) VerifyPart for every signer/kind x every claimed index in -2..n+1 and 2^31; (E) honest NewProofPart/Add/Bytes path for every signer subset n<=7; (G) validator sets in which every non-empty subset of the validators (n<=%d) has a NIL key (part of n, cannot sign), context built from keys and decoded from bytes: full product of kinds per index (all kinds for n<=%d, {nil, valid, every wrong index, foreign} above), plus VerifyPart/NewProofPart on them; (F) proofContextMap.Verify over 2 network types x (all 16 signer subsets x 7 things signed [the decision, other source network, other network type id, other height, other round, other NTS hash, other validator set]) for the first x (3 quick / 5 thorough subsets x 4 / 7 things signed) for the second x 5 proof-list shapes x digest with/without a context-less third type. (H) proofContextMap histories: first map over network types {1}, {1,2}, {1,2,3} (eth, icon, eth; 4- and 3-validator sets by version), then every sequence of <= 2 (thorough 3) Update calls over the block-section alphabet {empty, message-only(nt), new proof context / opening (nt), inactivation (nt), and all two-element combinations on distinct network types} built by the real SectionBuilder; after every Update every map of the history (new map, receiver, older maps) must still know exactly the network types and validator sets of ITS model and must accept a proof list for a block digest iff every network type it knows has a proof with > 2/3 valid signatures at own indices (7 proof kinds per network type, missing / empty / surplus lists). A case is non-trivial if the vector has at least one non-nil entry; distinct = (module,n,nil-key mask,vector).", prodAll, prodSome, prodLast, mutPositions, nilMaxN, nilFullN))
	}
	setRule(prodSome)
	r.Assume("signatures are produced with fixed private keys (RFC 6979 deterministic); forgery is represented by the listed mutation alphabet, not by searching the key space",
		"entries whose (r,s) is a genuine signature of validator i but which lack a usable recovery id (V flipped, 64-byte form) may be refused or counted: only the threshold is enforced on them",
		"validators with a nil key (no key registered for the DSA) are part of n — the unchanged Verify compares with 2*len(Validators)/3 — but cannot sign: a signature at their index is invalid",
		"validator sets with duplicate keys are outside the stated quantifier and are not generated")

	// ---- self test of the alphabet (independent of ntm)
	for _, e := range envs {
		for n := 1; n <= c29MaxN; n++ {
			for i := 0; i < n; i++ {
				for k := 1; k < c29NumKinds(n); k++ {
					raw := e.entry(n, i, k)
					isSig := c29RSVerify(raw, e.keys[i], e.d)
					wantSig := c29Class(k) == c29ClsGood || c29Class(k) == c29ClsGrey
					r.Sanity(isSig == wantSig, "alphabet self test: uid=%s n=%d i=%d kind=%s rs-verifies=%v", e.uid, n, i, c29KindName(k), isSig)
				}
			}
		}
		r.Sanity(!bytes.Equal(e.d, e.d2), "decisions d and d' coincide")
		// wire mirror == real encoder
		pc := e.ctx(4, 0, 0)
		p := pc.NewProof()
		for _, i := range []int{0, 2, 3} {
			pp, err := pc.NewProofPart(e.d, e.keys[i].wp)
			if err != nil {
				t.Fatalf("NewProofPart: %v", err)
			}
			r.Sanity(bytes.Equal(pp.Bytes(), c29EncodePart(i, e.sigD[i])), "wire mirror of proof part differs from real encoding")
			p.Add(pp)
		}
		mine := c29EncodeProof([][]byte{e.sigD[0], nil, e.sigD[2], e.sigD[3]})
		r.Sanity(bytes.Equal(p.Bytes(), mine), "wire mirror of proof differs from real encoding: %x vs %x", p.Bytes(), mine)
		p2, err := pc.NewProofFromBytes(mine)
		r.Sanity(err == nil && p2.ValidatorCount() == 4 && p2.ProofPartAt(1) == nil && p2.ProofPartAt(2) != nil, "decoded proof shape")
		for f := 0; f < c29NumForms; f++ {
			r.Sanity(bytes.Equal(e.ctx(5, f, 0).Bytes(), e.ctx(5, 0, 1).Bytes()), "context bytes differ between key forms")
		}
	}

	st := &c29Stats{}
	type group struct {
		e                   *c29Env
		n, form, orig, rout int
		nilm                int // validators without a key (bit mask)
	}
	type job struct {
		stage string
		g     group
		total int
		vec   func(m int, kinds []int) []int // nil result: index m is a duplicate of another one, skip
	}
	primary := func(g group) bool { return g.form == c29FormCompressed && g.orig == 0 && g.rout == 0 }
	var nilKeyCases int64
	// all jobs of a batch are cut into chunks that are spread over the workers
	runJobs := func(jobs []job) bool {
		const chunk = 256
		type piece struct{ j, lo, hi int }
		var pieces []piece
		for j, jb := range jobs {
			for lo := 0; lo < jb.total; lo += chunk {
				hi := lo + chunk
				if hi > jb.total {
					hi = jb.total
				}
				pieces = append(pieces, piece{j, lo, hi})
			}
		}
		var skipped int64
		ev.Par(len(pieces), 16, func(pi int) {
			if r.Expired() {
				atomic.AddInt64(&skipped, 1)
				return
			}
			pc := pieces[pi]
			jb := jobs[pc.j]
			g := jb.g
			ctx := g.e.ctx(g.n, g.form, g.orig, g.nilm)
			buf := make([]int, 0, g.n+2)
			for m := pc.lo; m < pc.hi; m++ {
				kinds := jb.vec(m, buf[:0])
				if kinds == nil {
					continue
				}
				c := &c29VecCase{Stage: jb.stage, UID: g.e.uid, N: g.n, Form: g.form, Origin: g.orig, Route: g.rout, Kinds: kinds, NilMask: g.nilm}
				if g.nilm != 0 {
					atomic.AddInt64(&nilKeyCases, 1)
					if g.orig == 0 && g.rout == 0 {
						for _, k := range kinds {
							if k != c29Nil {
								r.Nontrivial(fmt.Sprintf("%s/%d/nil%b/%v", g.e.uid, g.n, g.nilm, kinds))
								break
							}
						}
					}
				} else if primary(g) {
					for _, k := range kinds {
						if k != c29Nil {
							r.Nontrivial(fmt.Sprintf("%s/%d/%v", g.e.uid, g.n, kinds))
							break
						}
					}
				}
				c29RunVec(r, st, g.e, ctx, c)
			}
		})
		return skipped == 0
	}
	pow := func(b, e int) int {
		p := 1
		for ; e > 0; e-- {
			p *= b
		}
		return p
	}
	// context/route variants: level 0 = primary only, 3 = two, 1 = four, 2 = all twelve
	variants := func(e *c29Env, n int, level int) []group {
		switch level {
		case 0:
			return []group{{e, n, c29FormCompressed, 0, 0, 0}}
		case 1:
			return []group{{e, n, c29FormCompressed, 0, 0, 0}, {e, n, c29FormUncompressed, 1, 0, 0}, {e, n, c29FormMixed, 0, 1, 0}, {e, n, c29FormCompressed, 1, 1, 0}}
		case 3:
			return []group{{e, n, c29FormCompressed, 0, 0, 0}, {e, n, c29FormMixed, 1, 1, 0}}
		}
		var gs []group
		for f := 0; f < c29NumForms; f++ {
			for o := 0; o < 2; o++ {
				for rt := 0; rt < 2; rt++ {
					gs = append(gs, group{e, n, f, o, rt, 0})
				}
			}
		}
		return gs
	}
	maskKinds := func(kinds []int, mask, n int) []int {
		for i := 0; i < n; i++ {
			if mask&(1<<uint(i)) != 0 {
				kinds = append(kinds, c29Valid)
			} else {
				kinds = append(kinds, c29Nil)
			}
		}
		return kinds
	}
	productJob := func(g group) job {
		n := g.n
		K := c29NumKinds(n)
		return job{"product", g, pow(K, n), func(m int, kinds []int) []int {
			for i := 0; i < n; i++ {
				kinds = append(kinds, m%K)
				m /= K
			}
			return append([]int(nil), kinds...)
		}}
	}
	mut1Job := func(g group) job {
		n := g.n
		bad := c29NumKinds(n) - 2 // kinds other than nil and valid
		return job{"subset+1mutation", g, (1 << uint(n)) * n * bad, func(m int, kinds []int) []int {
			mask := m % (1 << uint(n))
			m /= 1 << uint(n)
			pos, k := m%n, 2+m/n
			if mask&(1<<uint(pos)) != 0 {
				return nil // position pos is overwritten anyway
			}
			kinds = maskKinds(kinds, mask, n)
			kinds[pos] = k
			return append([]int(nil), kinds...)
		}}
	}
	mut2Job := func(g group) job {
		n := g.n
		bad := c29NumKinds(n) - 2
		pairs := n * (n - 1) / 2
		return job{"subset+2mutations", g, (1 << uint(n)) * pairs * bad * bad, func(m int, kinds []int) []int {
			mask := m % (1 << uint(n))
			m /= 1 << uint(n)
			pr := m % pairs
			m /= pairs
			k1, k2 := 2+m%bad, 2+m/bad
			p1, p2 := 0, 1
			for q := 0; q < pr; q++ {
				p2++
				if p2 == n {
					p1++
					p2 = p1 + 1
				}
			}
			if mask&(1<<uint(p1)) != 0 || mask&(1<<uint(p2)) != 0 {
				return nil
			}
			kinds = maskKinds(kinds, mask, n)
			kinds[p1], kinds[p2] = k1, k2
			return append([]int(nil), kinds...)
		}}
	}
	truncJob := func(g group) job {
		n := g.n
		return job{"truncated", g, (1 << uint(n)) * n, func(m int, kinds []int) []int {
			mask := m % (1 << uint(n))
			L := m / (1 << uint(n))
			if mask>>uint(L) != 0 {
				return nil // same vector as a smaller mask
			}
			return append([]int{}, maskKinds(kinds, mask, L)...)
		}}
	}
	extKinds := []int{c29Nil, c29Valid, c29Foreign, c29Wrong0}
	extJob := func(g group) job {
		n := g.n
		ne := len(extKinds)
		return job{"extended", g, (1 << uint(n)) * (ne + ne*ne), func(m int, kinds []int) []int {
			mask := m % (1 << uint(n))
			x := m / (1 << uint(n))
			kinds = maskKinds(kinds, mask, n)
			var ext []int
			if x < ne {
				ext = []int{extKinds[x]}
			} else {
				x -= ne
				ext = []int{extKinds[x%ne], extKinds[x/ne]}
			}
			for _, k := range ext {
				if n == 1 && k >= c29Wrong0 {
					return nil // no other validator exists
				}
			}
			return append(append([]int(nil), kinds...), ext...)
		}}
	}

	// ---- stage A: full product of kinds
	var jobs []job
	for n := 1; n <= prodAll; n++ {
		for _, e := range envs {
			for _, g := range variants(e, n, 2) {
				jobs = append(jobs, productJob(g))
			}
		}
	}
	for n := prodAll + 1; n <= prodSome; n++ {
		for _, e := range envs {
			for _, g := range variants(e, n, prodSomeLevel) {
				jobs = append(jobs, productJob(g))
			}
		}
	}
	// ---- stage B: every signer subset x mutated positions x kinds, n = 1..7
	for n := 1; n <= c29MaxN; n++ {
		lvl := 2
		if n > mutAllVariantsUpTo {
			lvl = 1
		}
		for _, e := range envs {
			for _, g := range variants(e, n, lvl) {
				jobs = append(jobs, mut1Job(g))
			}
			if mutPositions >= 2 && n >= 2 {
				jobs = append(jobs, mut2Job(group{e, n, c29FormCompressed, 0, 0, 0}))
			}
		}
	}
	// ---- stage C: vectors shorter / longer than n (wire route only: Add cannot exceed n)
	for n := 1; n <= c29MaxN; n++ {
		for _, e := range envs {
			for _, g := range variants(e, n, 1)[:2] {
				jobs = append(jobs, truncJob(g), extJob(g))
			}
		}
	}
	// ---- stage G: validator sets with key-less validators (nil key) at every subset of positions,
	// built by NewProofContext(keys incl. nil) and by NewProofContextFromBytes(Bytes())
	nilKinds := func(n int, full bool) []int {
		ks := []int{c29Nil, c29Valid, c29Foreign}
		if full {
			ks = append(ks, c29OtherDec, c29Zero, c29SFlip, c29VFlip, c29NoV)
		}
		for t := 0; t < n-1; t++ {
			ks = append(ks, c29Wrong0+t)
		}
		return ks
	}
	nilProductJob := func(g group, full bool) job {
		n := g.n
		ks := nilKinds(n, full)
		K := len(ks)
		return job{"nil-key-validators", g, pow(K, n), func(m int, kinds []int) []int {
			for i := 0; i < n; i++ {
				kinds = append(kinds, ks[m%K])
				m /= K
			}
			return append([]int(nil), kinds...)
		}}
	}
	for n := 1; n <= nilMaxN; n++ {
		for mask := 1; mask < 1<<uint(n); mask++ {
			for ei, e := range envs {
				for o := 0; o < 2; o++ {
					for rt := 0; rt < 2; rt++ {
						if n == 5 && (rt == 1 || (ei == 1 && o == 1)) {
							continue // n=5: wire route; eth built+decoded, icon built
						}
						if n == 4 && rt == 1 && r.Quick() {
							continue
						}
						jobs = append(jobs, nilProductJob(group{e, n, c29FormCompressed, o, rt, mask}, n <= nilFullN))
					}
				}
			}
		}
	}
	complete := runJobs(jobs)
	r.Set("nil_key_context_vectors", nilKeyCases)
	r.Set("nil_key_contexts_up_to_n", nilMaxN)
	r.Sanity(nilKeyCases > 0, "no nil-key context was exercised")
	r.Set("product_all_variants_up_to_n", prodAll)
	r.Set("product_some_variants_up_to_n", prodSome)
	r.Set("stages_ABC_complete", complete)

	// ---- stage D: VerifyPart with every claimed index
	var partOK, partRej int64
	partKinds := []int{c29Valid, c29Foreign, c29OtherDec, c29Zero, c29SFlip, c29VFlip, c29NoV}
	for n := 1; n <= c29MaxN && !r.Expired(); n++ {
		for _, e := range envs {
			for f := 0; f < c29NumForms; f++ {
				for o := 0; o < 2; o++ {
					pc := e.ctx(n, f, o)
					claimed := []int{-2, -1}
					for i := 0; i <= n+1; i++ {
						claimed = append(claimed, i)
					}
					claimed = append(claimed, 1<<31)
					for signer := 0; signer < n; signer++ {
						for _, k := range partKinds {
							for _, cl := range claimed {
								c := &c29PartCase{Stage: "part", UID: e.uid, N: n, Form: f, Origin: o, Signer: signer, Kind: k, Claimed: cl}
								c29RunPart(r, e, pc, c, &partOK, &partRej)
							}
						}
					}
				}
			}
		}
	}

	// ---- stage D2: VerifyPart on contexts with key-less validators, every claimed index
	for n := 1; n <= 4 && !r.Expired(); n++ {
		for mask := 1; mask < 1<<uint(n); mask++ {
			for _, e := range envs {
				for o := 0; o < 2; o++ {
					pc := e.ctx(n, c29FormCompressed, o, mask)
					for signer := 0; signer < n; signer++ {
						for _, k := range []int{c29Valid, c29Foreign, c29OtherDec} {
							for cl := -1; cl <= n; cl++ {
								c := &c29PartCase{Stage: "part", UID: e.uid, N: n, Form: c29FormCompressed, Origin: o, Signer: signer, Kind: k, Claimed: cl, NilMask: mask}
								c29RunPart(r, e, pc, c, &partOK, &partRej)
							}
						}
						// a validator without a registered key cannot obtain a proof part, the others can
						_, err := pc.NewProofPart(e.d, e.keys[signer].wp)
						if (err == nil) != (mask&(1<<uint(signer)) == 0) {
							r.Violation("NewProofPart-wrong-for-context-with-key-less-validators", fmt.Sprintf("uid=%s n=%d nil-key-validators=%0*b signer=%d err=%v", e.uid, n, n, mask, signer, err), nil)
						}
					}
					// the decoded context must describe the same validator set
					if o == 0 {
						pc2, err := e.mod.NewProofContextFromBytes(pc.Bytes())
						if err != nil || !bytes.Equal(pc2.Bytes(), pc.Bytes()) {
							r.Violation("proof-context-with-nil-keys-does-not-round-trip", fmt.Sprintf("uid=%s n=%d mask=%b err=%v", e.uid, n, mask, err), nil)
						}
					}
				}
			}
		}
	}

	// ---- stage E: the honest path NewProofPart / Add / Bytes / NewProofFromBytes for every signer subset
	var honestAcc, honestRej int64
	for n := 1; n <= c29MaxN && !r.Expired(); n++ {
		for _, e := range envs {
			for o := 0; o < 2; o++ {
				pc := e.ctx(n, c29FormCompressed, o)
				if _, err := pc.NewProofPart(e.d, e.foreign.wp); err == nil {
					r.Violation("NewProofPart-for-non-validator", fmt.Sprintf("uid=%s n=%d: a wallet outside the validator set obtained a proof part", e.uid, n), nil)
				}
				for mask := 0; mask < 1<<uint(n); mask++ {
					r.Eval(1)
					kinds := make([]int, n)
					p := pc.NewProof()
					for i := 0; i < n; i++ {
						if mask&(1<<uint(i)) == 0 {
							continue
						}
						kinds[i] = c29Valid
						pp, err := pc.NewProofPart(e.d, e.keys[i].wp)
						if err != nil {
							r.Violation("NewProofPart-failed-for-validator", fmt.Sprintf("uid=%s n=%d i=%d err=%v", e.uid, n, i, err), nil)
							continue
						}
						if idx, err := pc.VerifyPart(e.d, pp); err != nil || idx != i {
							r.Violation("VerifyPart-rejected-valid-part", fmt.Sprintf("own part: uid=%s n=%d i=%d idx=%d err=%v", e.uid, n, i, idx, err), nil)
						}
						p.Add(pp)
					}
					c := &c29VecCase{Stage: "honest", UID: e.uid, N: n, Form: 0, Origin: o, Route: 1, Kinds: kinds}
					want := 3*c29Pop(mask) > 2*n
					e1 := pc.Verify(e.d, p)
					p2, derr := pc.NewProofFromBytes(p.Bytes())
					var e2 error = derr
					if derr == nil {
						e2 = pc.Verify(e.d, p2)
					}
					if (e1 == nil) != want || (e2 == nil) != want {
						sig := fmt.Sprintf("Verify-accepted-below-threshold:n=%d,signatures=%d", n, c29Pop(mask))
						if want {
							sig = fmt.Sprintf("Verify-rejected-valid-proof:n=%d,signatures=%d", n, c29Pop(mask))
						}
						r.Violation(sig, fmt.Sprintf("honest path uid=%s n=%d mask=%b direct=%v roundtrip=%v", e.uid, n, mask, e1, e2), c)
					}
					// a proof for d must not verify for d'
					if want && pc.Verify(e.d2, p) == nil {
						r.Violation("Verify-accepted-proof-with-invalid-entry:other-decision", fmt.Sprintf("honest proof for d accepted for d' uid=%s n=%d mask=%b", e.uid, n, mask), c)
					}
					if want {
						honestAcc++
					} else {
						honestRej++
					}
				}
			}
		}
	}

	// ---- stage F: proofContextMap.Verify
	var pcmAcc, pcmRej int64
	var pcmCases []*c29PCMCase
	masks2 := []int{0b1111, 0b1110, 0b0111, 0b0110, 0}
	muts2 := []int{c29MutNone, c29MutSrc, c29MutNTID, c29MutHeight, c29MutRound, c29MutNTSHash, c29MutOtherKeys}
	if r.Quick() {
		masks2 = []int{0b1111, 0b0111, 0b0110}
		muts2 = []int{c29MutNone, c29MutHeight, c29MutRound, c29MutOtherKeys}
	}
	for m0 := 0; m0 < 16; m0++ {
		for mu0 := 0; mu0 < c29NumMut; mu0++ {
			for _, m1 := range masks2 {
				for _, mu1 := range muts2 {
					for sh := 0; sh < 5; sh++ {
						for th := 0; th < 2; th++ {
							pcmCases = append(pcmCases, &c29PCMCase{Stage: "pcm", Mask: [2]int{m0, m1}, Mut: [2]int{mu0, mu1}, Shape: sh, Third: th == 1})
						}
					}
				}
			}
		}
	}
	ev.Par(len(pcmCases), 16, func(i int) {
		if r.Expired() {
			return
		}
		c29RunPCM(r, pe, pcmCases[i], &pcmAcc, &pcmRej)
	})
	// decision hashes of all mutations must be pairwise distinct (otherwise the stage is vacuous)
	for tt := 0; tt < 2; tt++ {
		seen := map[string]int{}
		for mu := 0; mu < c29MutOtherKeys; mu++ {
			h := string(pe.decision(tt, mu))
			if prev, dup := seen[h]; dup {
				r.Sanity(false, "decision hash of mutation %s equals that of %s", c29MutNames[mu], c29MutNames[prev])
			}
			seen[h] = mu
		}
	}

	// ---- stage H: histories of proofContextMap.Update (copy-on-write, every map judged against its own model)
	pcmHistComplete := c29PCMTier(r, envs)
	r.Set("pcm_histories_complete", pcmHistComplete)
	if !pcmHistComplete {
		r.Cap("proofContextMap history tier incomplete")
	}

	// ---- stage A (last part): the largest product, run last so that a cap only cuts this one
	prodLastDone := prodSome
	if prodLast > prodSome && !r.Expired() {
		if time.Since(t0) < 4*time.Minute {
			setRule(prodLast)
			ok := true
			for n := prodSome + 1; n <= prodLast && ok; n++ {
				ok = runJobs([]job{productJob(group{envs[0], n, c29FormCompressed, 0, 0, 0})})
				if ok {
					prodLastDone = n
				}
			}
		} else {
			r.Set("product_n6_skipped", "stages A-F took longer than 4 min on this machine; the n=6 product (4.8M vectors) was not started")
		}
	}
	r.Set("product_primary_eth_complete_up_to_n", prodLastDone)
	r.Eval(int(st.evals))

	r.Set("verify_accepted", st.accepted)
	r.Set("verify_rejected", st.rejected)
	r.Set("rejected_index_out_of_range", st.rejIndex)
	r.Set("rejected_wrong_index", st.rejWrongIdx)
	r.Set("rejected_not_a_validator", st.rejNotVal)
	r.Set("rejected_not_enough_parts", st.rejFew)
	r.Set("rejected_recover_error", st.rejRec)
	r.Set("grey_vectors_rejected", st.greyRejected)
	r.Set("grey_vectors_accepted", st.greyAccepted)
	r.Set("threshold_boundary_just_below", st.boundaryBelow)
	r.Set("threshold_boundary_just_above", st.boundaryAbove)
	r.Set("decode_errors", st.decodeErr)
	r.Set("verifypart_accepted", partOK)
	r.Set("verifypart_rejected", partRej)
	r.Set("honest_subsets_above_threshold", honestAcc)
	r.Set("honest_subsets_below_threshold", honestRej)
	r.Set("pcm_accepted", pcmAcc)
	r.Set("pcm_rejected", pcmRej)
	r.Set("pcm_cases", len(pcmCases))
	r.Sanity(st.accepted > 0 && st.rejIndex > 0 && st.rejWrongIdx > 0 && st.rejNotVal > 0 && st.rejFew > 0 && st.rejRec > 0, "a rejection branch was never taken: %+v", *st)
	r.Sanity(st.boundaryBelow > 0 && st.boundaryAbove > 0, "threshold boundary never exercised")
	r.Sanity(st.decodeErr == 0, "%d vectors failed to decode (alphabet is meant to be decodable)", st.decodeErr)
	r.Sanity(partOK > 0 && partRej > 0, "VerifyPart outcomes not both seen")
	r.Sanity(pcmAcc > 0 && pcmRej > 0, "proofContextMap.Verify outcomes not both seen")

	e := envs[0]
	r.Sample(map[string]interface{}{"uid": "eth", "n": 4, "vector": "valid,valid,valid,nil", "expect": "accept (3*3 > 2*4)", "proof_bytes": fmt.Sprintf("%x", c29EncodeProof([][]byte{e.sigD[0], e.sigD[1], e.sigD[2], nil}))})
	r.Sample(map[string]interface{}{"uid": "eth", "n": 4, "vector": "valid,wrong-index+1,valid,valid", "expect": "reject: entry 1 is validator 2's signature"})
	r.Sample(map[string]interface{}{"uid": "icon", "n": 6, "vector": "valid,valid,nil,valid,valid,nil", "expect": "reject (3*4 <= 2*6)"})
	r.Sample(map[string]interface{}{"uid": "eth", "n": 3, "vector": "valid,valid,valid,valid(by validator 0 at index 3)", "expect": "reject: index beyond validators"})
	r.Sample(map[string]interface{}{"stage": "proofContextMap.Verify", "case": "both proofs 4/4 but the first signed over round-1", "expect": "reject"})
	r.Finish(!r.Expired())
}
