//go:build verif

package btp

// C29, proof-context-map tier. A proofContextMap belongs to one block; Update
// returns the map of the next block and the callers (consensus, block manager)
// keep the receiver to verify the NTS votes of its own height. Here histories
// of Update calls over a block-section alphabet are enumerated on real maps
// (NewProofContextMap over real secp256k1 contexts, sections built by the real
// SectionBuilder) and after EVERY Update EVERY map of the history is judged
// against the model of THAT map: which network types it knows, with which
// validators, and which proof lists it accepts for a block digest.

import (
	"bytes"
	"fmt"
	"sort"
	"strings"
	"sync"
	"sync/atomic"

	"github.com/icon-project/goloop/common/errors"
	"github.com/icon-project/goloop/module"
	"github.com/icon-project/goloop/verifshim/ev"
)

// ---- mirrors of the state views the SectionBuilder reads (like btp/*_test.go has them)

type c29HNet struct {
	ntid      int64
	changed   bool
	nextMsgSN int64
}

func (n *c29HNet) Name() string                   { return fmt.Sprintf("net-%d", n.ntid) }
func (n *c29HNet) Owner() module.Address          { return nil }
func (n *c29HNet) NetworkTypeID() int64           { return n.ntid }
func (n *c29HNet) Open() bool                     { return true }
func (n *c29HNet) NextMessageSN() int64           { return n.nextMsgSN }
func (n *c29HNet) NextProofContextChanged() bool  { return n.changed }
func (n *c29HNet) PrevNetworkSectionHash() []byte { return nil }
func (n *c29HNet) LastNetworkSectionHash() []byte { return nil }

type c29HView struct {
	nts  map[int64]*c29NTView
	nets map[int64]*c29HNet // nid = 10*ntid
}

func (v *c29HView) GetNetworkTypeIDs() ([]int64, error) {
	var ids []int64
	for id := range v.nts {
		ids = append(ids, id)
	}
	sort.Slice(ids, func(i, j int) bool { return ids[i] < ids[j] })
	return ids, nil
}
func (v *c29HView) GetNetworkView(nid int64) (NetworkView, error) {
	if n, ok := v.nets[nid]; ok {
		return n, nil
	}
	return nil, errors.ErrNotFound
}
func (v *c29HView) GetNetworkTypeView(ntid int64) (NetworkTypeView, error) {
	if nt, ok := v.nts[ntid]; ok {
		return nt, nil
	}
	return nil, errors.ErrNotFound
}

type c29HSrc struct{ bs module.BTPSection }

func (s c29HSrc) BTPSection() (module.BTPSection, error)                  { return s.bs, nil }
func (s c29HSrc) NextProofContextMap() (module.BTPProofContextMap, error) { return nil, nil }

// ---- the universe: network types 1 (eth), 2 (icon), 3 (eth); validator sets by (ntid, version)

var c29HUIDs = map[int]string{1: "eth", 2: "icon", 3: "eth"}

type c29HWorld struct {
	envs map[string]*c29Env
	mu   sync.Mutex
	sigs map[string][]byte
	pcs  map[[2]int]module.BTPProofContext
}

func (w *c29HWorld) env(ntid int) *c29Env { return w.envs[c29HUIDs[ntid]] }

// validator key indices of (ntid, version): 4 validators for even versions, 3 for odd ones
func c29HKeyIx(ntid, ver int) []int {
	n := 4 - ver%2
	out := make([]int, n)
	for j := range out {
		out[j] = (ntid + 2*ver + j) % c29MaxN
	}
	return out
}

func (w *c29HWorld) pc(ntid, ver int) module.BTPProofContext {
	w.mu.Lock()
	defer w.mu.Unlock()
	k := [2]int{ntid, ver}
	if pc, ok := w.pcs[k]; ok {
		return pc
	}
	e := w.env(ntid)
	var keys [][]byte
	for _, ix := range c29HKeyIx(ntid, ver) {
		keys = append(keys, e.keys[ix].comp)
	}
	pc, err := e.mod.NewProofContext(keys)
	if err != nil {
		panic(err)
	}
	w.pcs[k] = pc
	return pc
}

func (w *c29HWorld) sign(ntid int, key *c29Key, tag string, hash []byte) []byte {
	k := fmt.Sprintf("%d/%s/%x", ntid, tag, hash)
	w.mu.Lock()
	defer w.mu.Unlock()
	if s, ok := w.sigs[k]; ok {
		return s
	}
	s := key.sign(hash)
	w.sigs[k] = s
	return s
}

// ---- block-section alphabet

const (
	c29OpNone  = iota // empty BTP section
	c29OpMsg          // a message-only section of network type A (no proof context change)
	c29OpPC           // network type A gets a new proof context (for a type the map does not know: it is opened)
	c29OpInact        // network type A is inactivated
)

type c29HOp struct {
	Kind  int `json:"kind"`
	A     int `json:"a"`
	Kind2 int `json:"kind2,omitempty"` // optional second element (another network type B)
	B     int `json:"b,omitempty"`
}

func (o c29HOp) String() string {
	one := func(k, a int) string {
		switch k {
		case c29OpMsg:
			return fmt.Sprintf("message-only(nt%d)", a)
		case c29OpPC:
			return fmt.Sprintf("new-proof-context(nt%d)", a)
		case c29OpInact:
			return fmt.Sprintf("inactivate(nt%d)", a)
		}
		return "empty-section"
	}
	if o.B != 0 {
		return one(o.Kind, o.A) + "+" + one(o.Kind2, o.B)
	}
	return one(o.Kind, o.A)
}

// class of an Update for violation signatures
func (o c29HOp) class() string {
	has := func(k int) bool { return o.Kind == k || (o.B != 0 && o.Kind2 == k) }
	switch {
	case has(c29OpInact) && !has(c29OpPC):
		return "inactivation-without-proof-context-change"
	case has(c29OpInact):
		return "inactivation-with-proof-context-change"
	case has(c29OpPC):
		return "proof-context-change"
	case has(c29OpMsg):
		return "message-only"
	}
	return "empty-section"
}

func c29HSingles() []c29HOp {
	ops := []c29HOp{{Kind: c29OpNone}}
	for _, k := range []int{c29OpMsg, c29OpPC, c29OpInact} {
		for a := 1; a <= 3; a++ {
			ops = append(ops, c29HOp{Kind: k, A: a})
		}
	}
	return ops
}

func c29HPairs() []c29HOp {
	var ops []c29HOp
	for a := 1; a <= 3; a++ {
		for b := 1; b <= 3; b++ {
			if a == b {
				continue
			}
			if a < b {
				ops = append(ops, c29HOp{Kind: c29OpPC, A: a, Kind2: c29OpPC, B: b}, c29HOp{Kind: c29OpInact, A: a, Kind2: c29OpInact, B: b})
			}
			ops = append(ops, c29HOp{Kind: c29OpPC, A: a, Kind2: c29OpInact, B: b})
		}
	}
	return ops
}

// ---- model of one map: network type -> version of its validator set
type c29HModel map[int]int

func (m c29HModel) clone() c29HModel {
	c := c29HModel{}
	for k, v := range m {
		c[k] = v
	}
	return c
}

func (m c29HModel) String() string {
	var ks []int
	for k := range m {
		ks = append(ks, k)
	}
	sort.Ints(ks)
	var s []string
	for _, k := range ks {
		s = append(s, fmt.Sprintf("nt%d:v%d", k, m[k]))
	}
	return "{" + strings.Join(s, " ") + "}"
}

type c29HCase struct {
	Stage string   `json:"stage"` // "pcm-history"
	Init  []int    `json:"init"`  // network types of the first map
	Ops   []c29HOp `json:"ops"`
	Desc  string   `json:"desc,omitempty"`
}

type c29HStats struct {
	histories, updates, mapChecks, verifies, accepted, rejected int64
	classes                                                     sync.Map
}

const (
	c29HHeight = int64(77)
	c29HRound  = int32(1)
)

// proof kinds for one network type
var c29HProofKinds = []string{"quorum-all", "quorum-minimal", "one-below-quorum", "two-signatures-swapped", "foreign-signature", "signed-by-another-validator-set", "no-signature"}

func (w *c29HWorld) proof(ntid, ver, kind int, ntsHash []byte) (bs []byte, valid bool) {
	e := w.env(ntid)
	pc := w.pc(ntid, ver)
	d := pc.NewDecision(c29SrcUID, int64(ntid), c29HHeight, c29HRound, ntsHash).Hash()
	ix := c29HKeyIx(ntid, ver)
	n := len(ix)
	need := 2*n/3 + 1
	entries := make([][]byte, n)
	sig := func(pos int) []byte { return w.sign(ntid, e.keys[ix[pos]], fmt.Sprint(ix[pos]), d) }
	switch kind {
	case 0:
		for i := 0; i < n; i++ {
			entries[i] = sig(i)
		}
		valid = true
	case 1:
		for i := 0; i < need; i++ {
			entries[n-1-i] = sig(n - 1 - i)
		}
		valid = true
	case 2:
		for i := 0; i < need-1; i++ {
			entries[i] = sig(i)
		}
	case 3:
		for i := 0; i < n; i++ {
			entries[i] = sig(i)
		}
		entries[0], entries[1] = entries[1], entries[0]
	case 4:
		for i := 0; i < n; i++ {
			entries[i] = sig(i)
		}
		entries[0] = w.sign(ntid, e.foreign, "foreign", d)
	case 5:
		ox := c29HKeyIx(ntid, ver+1)
		opc := w.pc(ntid, ver+1)
		od := opc.NewDecision(c29SrcUID, int64(ntid), c29HHeight, c29HRound, ntsHash).Hash()
		for i := 0; i < n && i < len(ox); i++ {
			entries[i] = w.sign(ntid, e.keys[ox[i]], fmt.Sprint(ox[i]), od)
		}
	case 6:
	}
	return c29EncodeProof(entries), valid
}

func c29HNTSHash(ntid int) []byte { return bytes.Repeat([]byte{byte(0x40 + ntid)}, 32) }

// checkMap judges one map against its model. who = "new-map" | "receiver" | "older-map".
func (w *c29HWorld) checkMap(r *ev.Run, st *c29HStats, c *c29HCase, pcm module.BTPProofContextMap, m c29HModel, who, after string) bool {
	atomic.AddInt64(&st.mapChecks, 1)
	fail := func(sig, detail string) bool {
		r.Violation("pcm:"+who+":"+sig+":after-"+after, fmt.Sprintf("%s; map should be %v — %s", detail, m, c.Desc), c)
		return false
	}
	ok := true
	for ntid := 1; ntid <= 3; ntid++ {
		pc, err := pcm.ProofContextFor(int64(ntid))
		ver, in := m[ntid]
		// a wrong membership is reported and the proof lists are judged all the same,
		// so that the consequence for Verify is on record too
		switch {
		case in && err != nil:
			ok = fail("lost-a-network-type", fmt.Sprintf("ProofContextFor(%d) = %v", ntid, err))
		case !in && err == nil:
			ok = fail("has-a-network-type-it-should-not-have", fmt.Sprintf("ProofContextFor(%d) succeeds", ntid))
		case in && !bytes.Equal(pc.Bytes(), w.pc(ntid, ver).Bytes()):
			ok = fail("wrong-validator-set", fmt.Sprintf("nt%d does not carry validator set v%d", ntid, ver))
		}
	}
	// block digests: all three network types, and only the types this map knows
	var active []int
	for ntid := 1; ntid <= 3; ntid++ {
		if _, ok := m[ntid]; ok {
			active = append(active, ntid)
		}
	}
	digests := [][]int{{1, 2, 3}}
	if len(active) != 3 && len(active) > 0 {
		digests = append(digests, active)
	}
	for _, D := range digests {
		var ntds []module.NetworkTypeDigest
		var req []int // network types of D this map has to see a proof for, in digest order
		for _, ntid := range D {
			ntds = append(ntds, &c29NTD{int64(ntid), c29HUIDs[ntid], c29HNTSHash(ntid)})
			if _, ok := m[ntid]; ok {
				req = append(req, ntid)
			}
		}
		bd := &digest{core: &c29DigestCore{ntds: ntds}}
		verify := func(list c29List, want int, what string) bool {
			atomic.AddInt64(&st.verifies, 1)
			var err error
			pan := ev.Catch(func() { err = pcm.Verify(c29SrcUID, c29HHeight, c29HRound, bd, list) })
			if pan != "" {
				return fail("Verify-panics", pan+" ("+what+")")
			}
			if err == nil {
				atomic.AddInt64(&st.accepted, 1)
			} else {
				atomic.AddInt64(&st.rejected, 1)
			}
			switch {
			case want == c29MustReject && err == nil:
				ok = fail("Verify-accepted:"+what[:strings.IndexByte(what+" ", ' ')], fmt.Sprintf("digest with network types %v, %s: accepted", D, what))
			case want == c29MustAccept && err != nil:
				ok = fail("Verify-rejected-valid-proofs", fmt.Sprintf("digest with network types %v, %s: %v", D, what, err))
			}
			return true
		}
		base := func() c29List {
			var l c29List
			for _, ntid := range req {
				p, _ := w.proof(ntid, m[ntid], 1, c29HNTSHash(ntid))
				l = append(l, p)
			}
			return l
		}
		if !verify(base(), c29MustAccept, "complete-minimal-quorum-proofs") {
			return false
		}
		if len(req) > 0 {
			if !verify(base()[:len(req)-1], c29MustReject, fmt.Sprintf("decision-without-proof the proof for nt%d is missing", req[len(req)-1])) {
				return false
			}
			if !verify(c29List{}, c29MustReject, "decision-without-proof empty proof list") {
				return false
			}
		}
		extra, _ := w.proof(1, 0, 0, c29HNTSHash(1))
		if !verify(append(base(), extra), c29Either, "surplus-proof appended") {
			return false
		}
		for fi, focus := range req {
			for kind := range c29HProofKinds {
				if kind == 1 {
					continue
				}
				l := base()
				p, valid := w.proof(focus, m[focus], kind, c29HNTSHash(focus))
				l[fi] = p
				want := c29MustReject
				if valid {
					want = c29MustAccept
				}
				if !verify(l, want, fmt.Sprintf("%s for nt%d", c29HProofKinds[kind], focus)) {
					return false
				}
			}
		}
	}
	return ok
}

func (w *c29HWorld) runHistory(r *ev.Run, st *c29HStats, c *c29HCase) {
	atomic.AddInt64(&st.histories, 1)
	var names []string
	for _, o := range c.Ops {
		names = append(names, o.String())
	}
	c.Desc = fmt.Sprintf("first map over network types %v, then Update with: %s", c.Init, strings.Join(names, " ; "))
	// world state
	version := map[int]int{1: 0, 2: 0, 3: 0} // version the state holds for each type
	view := &c29HView{nts: map[int64]*c29NTView{}, nets: map[int64]*c29HNet{}}
	model := c29HModel{}
	for _, ntid := range c.Init {
		view.nts[int64(ntid)] = &c29NTView{uid: c29HUIDs[ntid], pc: w.pc(ntid, 0)}
		view.nets[int64(10*ntid)] = &c29HNet{ntid: int64(ntid), nextMsgSN: 1}
		model[ntid] = 0
	}
	pcm0, err := NewProofContextMap(view)
	if err != nil {
		panic(err)
	}
	maps := []module.BTPProofContextMap{pcm0}
	models := []c29HModel{model.clone()}
	if !w.checkMap(r, st, c, pcm0, models[0], "new-map", "NewProofContextMap") {
		return
	}
	for step, op := range c.Ops {
		atomic.AddInt64(&st.updates, 1)
		cnt, _ := st.classes.LoadOrStore(op.class(), new(int64))
		atomic.AddInt64(cnt.(*int64), 1)
		// the transition's final state view + what the builder is told
		builder := NewSectionBuilder(view)
		for _, n := range view.nets {
			n.changed = false
		}
		next := models[len(models)-1].clone()
		apply := func(kind, a int) {
			nid := int64(10 * a)
			switch kind {
			case c29OpMsg:
				if _, ok := view.nets[nid]; ok {
					builder.SendMessage(nid, []byte(fmt.Sprintf("verif-msg-%d", step)))
					view.nets[nid].nextMsgSN++
				}
			case c29OpPC:
				version[a]++
				view.nts[int64(a)] = &c29NTView{uid: c29HUIDs[a], pc: w.pc(a, version[a])}
				if _, ok := view.nets[nid]; !ok {
					view.nets[nid] = &c29HNet{ntid: int64(a), nextMsgSN: 1}
				}
				view.nets[nid].changed = true
				builder.EnsureSection(nid)
				next[a] = version[a]
			case c29OpInact:
				builder.NotifyInactivated(int64(a))
				delete(next, a)
			}
		}
		apply(op.Kind, op.A)
		if op.B != 0 {
			apply(op.Kind2, op.B)
		}
		bs, err := builder.Build()
		if err != nil {
			r.Sanity(false, "pcm: SectionBuilder.Build failed: %v (%s)", err, c.Desc)
			return
		}
		var nm module.BTPProofContextMap
		pan := ev.Catch(func() { nm, err = maps[len(maps)-1].Update(c29HSrc{bs}) })
		if pan != "" || err != nil || nm == nil {
			r.Violation("pcm:Update-failed", fmt.Sprintf("panic=%q err=%v — %s", pan, err, c.Desc), c)
			return
		}
		maps = append(maps, nm)
		models = append(models, next)
		after := "Update(" + op.class() + ")"
		// every map of the history, newest first
		for i := len(maps) - 1; i >= 0; i-- {
			who := "older-map"
			switch i {
			case len(maps) - 1:
				who = "new-map"
			case len(maps) - 2:
				who = "receiver"
			}
			if !w.checkMap(r, st, c, maps[i], models[i], who, after) {
				return
			}
		}
	}
}

func c29HCases(thorough bool) []*c29HCase {
	singles, pairs := c29HSingles(), c29HPairs()
	all := append(append([]c29HOp(nil), singles...), pairs...)
	inits := [][]int{{1}, {1, 2}, {1, 2, 3}}
	var out []*c29HCase
	add := func(init []int, ops ...c29HOp) {
		out = append(out, &c29HCase{Stage: "pcm-history", Init: init, Ops: append([]c29HOp(nil), ops...)})
	}
	for _, init := range inits {
		for _, a := range all {
			add(init, a)
		}
		second := singles
		if thorough {
			second = all
		}
		first := singles
		if thorough {
			first = all
		}
		for _, a := range first {
			for _, b := range second {
				add(init, a, b)
			}
		}
		if thorough {
			// length 3 over the single-element sections without the message-only ones
			var core []c29HOp
			for _, o := range singles {
				if o.Kind != c29OpMsg {
					core = append(core, o)
				}
			}
			for _, a := range core {
				for _, b := range core {
					for _, d := range core {
						add(init, a, b, d)
					}
				}
			}
		}
	}
	return out
}

func c29PCMTier(r *ev.Run, envs []*c29Env) bool {
	w := &c29HWorld{envs: map[string]*c29Env{}, sigs: map[string][]byte{}, pcs: map[[2]int]module.BTPProofContext{}}
	for _, e := range envs {
		w.envs[e.uid] = e
	}
	cases := c29HCases(r.Thorough())
	st := &c29HStats{}
	var done int64
	ev.Par(len(cases), 16, func(i int) {
		if r.Expired() {
			return
		}
		c := cases[i]
		r.Nontrivial(fmt.Sprintf("pcm/%v/%v", c.Init, c.Ops))
		w.runHistory(r, st, c)
		atomic.AddInt64(&done, 1)
	})
	classes := map[string]int64{}
	st.classes.Range(func(k, v interface{}) bool { classes[k.(string)] = *(v.(*int64)); return true })
	r.Eval(int(st.verifies))
	r.Set("pcm_histories", st.histories)
	r.Set("pcm_history_max_length", r.Pick(2, 3))
	r.Set("pcm_updates", st.updates)
	r.Set("pcm_updates_by_class", classes)
	r.Set("pcm_map_checks", st.mapChecks)
	r.Set("pcm_history_verify_calls", st.verifies)
	r.Set("pcm_history_verify_accepted", st.accepted)
	r.Set("pcm_history_verify_rejected", st.rejected)
	for _, k := range []string{"inactivation-without-proof-context-change", "inactivation-with-proof-context-change", "proof-context-change", "message-only", "empty-section"} {
		r.Sanity(classes[k] > 0 || r.Expired(), "pcm histories: Update class %q never exercised", k)
	}
	r.Sanity(st.accepted > 0 && st.rejected > 0 || r.Expired(), "pcm histories: Verify outcomes not both seen")
	return int(done) == len(cases)
}
