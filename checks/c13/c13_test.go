//go:build verif

package transaction

import (
	"bytes"
	"encoding/base64"
	"encoding/hex"
	"encoding/json"
	"fmt"
	"math/big"
	"runtime"
	"runtime/debug"
	"sort"
	"strings"
	"sync"
	"testing"

	"golang.org/x/crypto/sha3"

	"github.com/icon-project/goloop/common"
	"github.com/icon-project/goloop/common/codec"
	"github.com/icon-project/goloop/common/crypto"
	"github.com/icon-project/goloop/verifshim/ev"
)

// ---------------------------------------------------------------------------
// Independent secp256k1 / ECDSA reference (math/big only, textbook formulas).
// Nothing below uses decred or goloop/common/crypto.
// ---------------------------------------------------------------------------

var (
	c13P, _  = new(big.Int).SetString("FFFFFFFFFFFFFFFFFFFFFFFFFFFFFFFFFFFFFFFFFFFFFFFFFFFFFFFEFFFFFC2F", 16)
	c13N, _  = new(big.Int).SetString("FFFFFFFFFFFFFFFFFFFFFFFFFFFFFFFEBAAEDCE6AF48A03BBFD25E8CD0364141", 16)
	c13Gx, _ = new(big.Int).SetString("79BE667EF9DCBBAC55A06295CE870B07029BFCDB2DCE28D959F2815B16F81798", 16)
	c13Gy, _ = new(big.Int).SetString("483ADA7726A3C4655DA4FBFC0E1108A8FD17B448A68554199C47D08FFB10D4B8", 16)
)

// refPt is an affine point; nil pointer = point at infinity.
type refPt struct{ X, Y *big.Int }

func refMod(a *big.Int) *big.Int { return a.Mod(a, c13P) }

func refAdd(a, b *refPt) *refPt {
	if a == nil {
		return b
	}
	if b == nil {
		return a
	}
	var lam *big.Int
	if a.X.Cmp(b.X) == 0 {
		if a.Y.Cmp(b.Y) != 0 || a.Y.Sign() == 0 {
			return nil // P + (-P)
		}
		// doubling: lam = 3x^2 / 2y
		num := new(big.Int).Mul(a.X, a.X)
		num.Mul(num, big.NewInt(3))
		den := new(big.Int).Lsh(a.Y, 1)
		den.ModInverse(refMod(den), c13P)
		lam = refMod(num.Mul(num, den))
	} else {
		num := new(big.Int).Sub(b.Y, a.Y)
		den := new(big.Int).Sub(b.X, a.X)
		den.ModInverse(refMod(den), c13P)
		lam = refMod(num.Mul(num, den))
	}
	x := new(big.Int).Mul(lam, lam)
	x.Sub(x, a.X)
	x.Sub(x, b.X)
	refMod(x)
	y := new(big.Int).Sub(a.X, x)
	y.Mul(y, lam)
	y.Sub(y, a.Y)
	refMod(y)
	return &refPt{x, y}
}

// refMul is plain double-and-add over the affine group law.
func refMul(k *big.Int, p *refPt) *refPt {
	var acc *refPt
	for i := k.BitLen() - 1; i >= 0; i-- {
		acc = refAdd(acc, acc)
		if k.Bit(i) == 1 {
			acc = refAdd(acc, p)
		}
	}
	return acc
}

func refG() *refPt { return &refPt{c13Gx, c13Gy} }

func refOnCurve(p *refPt) bool {
	l := new(big.Int).Mul(p.Y, p.Y)
	refMod(l)
	r := new(big.Int).Mul(p.X, p.X)
	r.Mul(r, p.X)
	r.Add(r, big.NewInt(7))
	refMod(r)
	return l.Cmp(r) == 0
}

// refHashInt: e = the hash bytes as a big-endian integer (at most 32 bytes here).
func refHashInt(h []byte) *big.Int { return new(big.Int).SetBytes(h) }

// refVerify is textbook ECDSA verification of (r,s) for hash e under Q.
func refVerify(r, s *big.Int, q *refPt, hash []byte) bool {
	if q == nil || r.Sign() <= 0 || s.Sign() <= 0 || r.Cmp(c13N) >= 0 || s.Cmp(c13N) >= 0 {
		return false
	}
	e := refHashInt(hash)
	w := new(big.Int).ModInverse(s, c13N)
	u1 := new(big.Int).Mul(e, w)
	u1.Mod(u1, c13N)
	u2 := new(big.Int).Mul(r, w)
	u2.Mod(u2, c13N)
	x := refAdd(refMul(u1, refG()), refMul(u2, q))
	if x == nil {
		return false
	}
	v := new(big.Int).Mod(x.X, c13N)
	return v.Cmp(r) == 0
}

// refRecover is SEC1 4.1.6 public key recovery for recovery id v in 0..3
// (bit0 = y is odd, bit1 = x is r+n). nil if no key exists.
func refRecover(r, s *big.Int, v int, hash []byte) *refPt {
	if v < 0 || v > 3 || r.Sign() <= 0 || s.Sign() <= 0 || r.Cmp(c13N) >= 0 || s.Cmp(c13N) >= 0 {
		return nil
	}
	x := new(big.Int).Set(r)
	if v&2 != 0 {
		x.Add(x, c13N)
		if x.Cmp(c13P) >= 0 {
			return nil
		}
	}
	// y^2 = x^3+7 ; p = 3 mod 4 -> y = (x^3+7)^((p+1)/4)
	y2 := new(big.Int).Mul(x, x)
	y2.Mul(y2, x)
	y2.Add(y2, big.NewInt(7))
	refMod(y2)
	exp := new(big.Int).Add(c13P, big.NewInt(1))
	exp.Rsh(exp, 2)
	y := new(big.Int).Exp(y2, exp, c13P)
	chk := new(big.Int).Mul(y, y)
	if refMod(chk).Cmp(y2) != 0 {
		return nil
	}
	if int(y.Bit(0)) != v&1 {
		y.Sub(c13P, y)
	}
	R := &refPt{x, y}
	e := refHashInt(hash)
	rinv := new(big.Int).ModInverse(r, c13N)
	// Q = r^-1 (s R - e G)
	sR := refMul(s, R)
	eG := refMul(new(big.Int).Mod(e, c13N), refG())
	if eG != nil {
		eG = &refPt{eG.X, new(big.Int).Sub(c13P, eG.Y)}
		if eG.Y.Cmp(c13P) == 0 {
			eG.Y = new(big.Int)
		}
	}
	q := refMul(rinv, refAdd(sR, eG))
	return q
}

func refPad32(v *big.Int) []byte {
	b := v.Bytes()
	out := make([]byte, 32)
	copy(out[32-len(b):], b)
	return out
}

// refAddr: ICON EOA address = "hx" + last 20 bytes of SHA3-256(X||Y).
func refAddr(q *refPt) string {
	d := sha3.Sum256(append(refPad32(q.X), refPad32(q.Y)...))
	return "hx" + hex.EncodeToString(d[12:])
}

// ---------------------------------------------------------------------------
// Case space
// ---------------------------------------------------------------------------

type c13Key struct {
	name string
	d    *big.Int
	priv *crypto.PrivateKey
	pub  *refPt // d*G by the reference arithmetic
	addr string // reference address
}

func c13MakeKey(name string, d *big.Int) *c13Key {
	k := &c13Key{name: name, d: d}
	var err error
	k.priv, err = crypto.ParsePrivateKey(refPad32(d))
	if err != nil {
		panic(err)
	}
	k.pub = refMul(d, refG())
	k.addr = refAddr(k.pub)
	return k
}

func c13HashKey(label string) *big.Int {
	h := sha3.Sum256([]byte(label))
	d := new(big.Int).SetBytes(h[:])
	d.Mod(d, new(big.Int).Sub(c13N, big.NewInt(1)))
	return d.Add(d, big.NewInt(1))
}

type c13Tmpl struct {
	name      string
	to        string
	value     string // "" absent
	stepLimit string
	timestamp string
	nid       string
	nonce     string
	dataType  string
	data      string // raw JSON, "" absent
}

var c13Tmpls = []c13Tmpl{
	{name: "transfer", to: "hx5bfdb090f43a808005ffc27c25b213145e80b7cd", value: "0xde0b6b3a7640000", stepLimit: "0xf4240", timestamp: "0x5c31ae7a6d8f0", nid: "0x1"},
	{name: "nonce-to-contract", to: "cx0000000000000000000000000000000000000001", stepLimit: "0x1", timestamp: "0x1", nonce: "0x7"},
	{name: "message", to: "hx0000000000000000000000000000000000000002", value: "0x0", stepLimit: "0x186a0", timestamp: "0x5c31ae7a6d8f1", nid: "0x3", dataType: "message", data: `"0x68656c6c6f"`},
	{name: "call", to: "cxb0776ee37f5b45bfaea8cff1d8232fbb6122ec32", stepLimit: "0x12345", timestamp: "0x563a6cf330136", nid: "0x3", nonce: "0x1", dataType: "call", data: `{"method":"transfer","params":{"to":"hxab2d8215eab14bc6bdd8bfb2c8151257032ecd8b","value":"0x1"}}`},
	{name: "deposit", to: "cx0000000000000000000000000000000000000002", value: "0x10", stepLimit: "0x2", timestamp: "0x2", dataType: "deposit", data: `{"action":"add"}`},
	{name: "minimal", to: "hxffffffffffffffffffffffffffffffffffffffff", stepLimit: "0x0", timestamp: "0x0"},
}

func (t *c13Tmpl) json(from string, sig []byte) []byte {
	var b strings.Builder
	b.WriteString(`{"version":"0x3","from":"` + from + `","to":"` + t.to + `"`)
	if t.value != "" {
		b.WriteString(`,"value":"` + t.value + `"`)
	}
	b.WriteString(`,"stepLimit":"` + t.stepLimit + `","timestamp":"` + t.timestamp + `"`)
	if t.nid != "" {
		b.WriteString(`,"nid":"` + t.nid + `"`)
	}
	if t.nonce != "" {
		b.WriteString(`,"nonce":"` + t.nonce + `"`)
	}
	if t.dataType != "" {
		b.WriteString(`,"dataType":"` + t.dataType + `"`)
	}
	if t.data != "" {
		b.WriteString(`,"data":` + t.data)
	}
	b.WriteString(`,"signature":"` + base64.StdEncoding.EncodeToString(sig) + `"}`)
	return []byte(b.String())
}

// c13Bin mirrors transactionV3Data field by field with the signature as a
// plain byte string, so that any byte string can be placed in the stored
// binary form.
type c13Bin struct {
	Version   common.HexUint16
	From      common.Address
	To        common.Address
	Value     *common.HexInt
	StepLimit common.HexInt
	TimeStamp common.HexInt64
	NID       *common.HexInt64
	Nonce     *common.HexInt
	Signature []byte
	DataType  *string
	Data      json.RawMessage
}

// c13Case is one fully concrete input (also the replay format).
type c13Case struct {
	Key  int    `json:"key"`
	Tx   int    `json:"tx"`
	From string `json:"from"`
	Sig  string `json:"sig_hex"` // R|S|V as submitted
	Kind string `json:"kind"`
}

type c13Ctx struct {
	r    *ev.Run
	keys []*c13Key
	byAd map[string]*c13Key

	mu       sync.Mutex
	accepted map[string]int // kind -> accepted count
	rejected map[string]int
	stage    map[string]int
	vAccept  map[int]int
	memo     map[string]bool
}

const (
	c13PresJSON = iota
	c13PresRaw
	c13PresBin
	c13NPres
)

var c13PresName = []string{"json", "rawjson", "binary"}

// unsigned parses the transaction with an empty signature and returns its id
// and data (used to build the binary form).
func c13Unsigned(t *c13Tmpl, from string) (id []byte, d transactionV3Data, err error) {
	tx, err := NewTransactionFromJSON(t.json(from, nil))
	if err != nil {
		return nil, d, err
	}
	v3 := tx.(*transaction).Transaction.(*transactionV3)
	return append([]byte(nil), tx.ID()...), v3.transactionV3Data, nil
}

func c13BinBytes(d *transactionV3Data, sig []byte) []byte {
	m := c13Bin{d.Version, d.From, d.To, d.Value, d.StepLimit, d.TimeStamp, d.NID, d.Nonce, sig, d.DataType, d.Data}
	bs, err := codec.MarshalToBytes(&m)
	if err != nil {
		panic(err)
	}
	return bs
}

// submit pushes one presentation through the real constructors and Verify.
func c13Submit(pres int, js, bin []byte) (accepted bool, stage string, id []byte) {
	var tx Transaction
	var err error
	switch pres {
	case c13PresJSON:
		tx, err = NewTransactionFromJSON(js)
	case c13PresRaw:
		tx, err = NewTransaction(js)
	case c13PresBin:
		tx, err = NewTransaction(bin)
	}
	if err != nil {
		return false, "construct", nil
	}
	id = tx.ID()
	if err := tx.Verify(); err != nil {
		return false, "verify", id
	}
	return true, "ok", id
}

func (c *c13Ctx) run(cs c13Case) {
	r := c.r
	t := &c13Tmpls[cs.Tx]
	sig, err := hex.DecodeString(cs.Sig)
	if err != nil {
		panic(err)
	}
	id, data, err := c13Unsigned(t, cs.From)
	if err != nil {
		r.Sanity(false, "unsigned template does not parse: %v", err)
		return
	}
	// oracle (independent arithmetic only)
	may, must := false, false
	vflag := -1
	if len(sig) == 65 {
		rr := new(big.Int).SetBytes(sig[0:32])
		ss := new(big.Int).SetBytes(sig[32:64])
		vflag = int(sig[64])
		// may: (r,s) verifies under the sender's public key. A sender
		// address that belongs to none of the harness keys has no known key
		// at all (the signatures in this alphabet are made by harness keys
		// only), so nothing may be accepted for it.
		if k := c.byAd[cs.From]; k != nil {
			may = c.verifyMemo(rr, ss, k, id)
		}
		// must: SEC1 recovery with this V yields the sender. Recovery can only
		// yield a key under which (r,s) verifies, so it is skipped when may
		// is already false.
		if may && vflag <= 3 {
			if q := refRecover(rr, ss, vflag, id); q != nil && refAddr(q) == cs.From {
				must = true
			}
		}
	}
	js := t.json(cs.From, sig)
	bin := c13BinBytes(&data, sig)
	for pres := 0; pres < c13NPres; pres++ {
		r.Eval(1)
		var acc bool
		var stage string
		var gotID []byte
		if p := ev.Catch(func() { acc, stage, gotID = c13Submit(pres, js, bin) }); p != "" {
			r.Violation("panic-in-verify/"+c13PresName[pres], fmt.Sprintf("%+v: %s", cs, p), cs)
			continue
		}
		if gotID != nil && !bytes.Equal(gotID, id) {
			r.Violation("id-depends-on-signature/"+c13PresName[pres], fmt.Sprintf("%+v id=%x unsigned id=%x", cs, gotID, id), cs)
		}
		if acc && !may {
			r.Violation("accepted-without-sender-signature/"+cs.Kind+"/"+c13PresName[pres],
				fmt.Sprintf("Verify()==nil but (r,s) is not a signature of the sender %s over id %x: %+v", cs.From, id, cs), cs)
		}
		if acc && vflag >= 8 {
			// 0..3 are the SEC1 recovery ids, 4..7 the same with decred's
			// documented "compressed key" flag; no format defines anything else.
			r.Violation("accepted-with-undefined-V-byte/"+c13PresName[pres],
				fmt.Sprintf("Verify()==nil for a signature whose recovery byte is %d: %+v", vflag, cs), cs)
		}
		if !acc && must {
			r.Violation("rejected-correct-signature/"+cs.Kind+"/"+c13PresName[pres]+"/"+stage,
				fmt.Sprintf("signature recovers to the sender %s over id %x but was rejected at %s: %+v", cs.From, id, stage, cs), cs)
		}
		c.mu.Lock()
		if acc {
			c.accepted[cs.Kind]++
			if vflag >= 0 {
				c.vAccept[vflag]++
			}
		} else {
			c.rejected[cs.Kind]++
			c.stage[stage]++
		}
		c.mu.Unlock()
	}
	r.Nontrivial(fmt.Sprintf("%d/%d/%s/%s", cs.Key, cs.Tx, cs.From, cs.Sig))
}

// verifyMemo caches refVerify by (r,s,key,id): the V-byte cases share it.
func (c *c13Ctx) verifyMemo(rr, ss *big.Int, k *c13Key, id []byte) bool {
	key := fmt.Sprintf("%x/%x/%s/%x", rr, ss, k.name, id)
	c.mu.Lock()
	v, ok := c.memo[key]
	c.mu.Unlock()
	if ok {
		return v
	}
	v = refVerify(rr, ss, k.pub, id)
	c.mu.Lock()
	c.memo[key] = v
	c.mu.Unlock()
	return v
}

// ---------------------------------------------------------------------------
// Forgeries that need no private key
// ---------------------------------------------------------------------------

// refForgeE0 builds, from the victim's PUBLIC key only, the (r,s,v) that
// recovers that key for a message hash whose integer value is 0 (mod n):
// R = a*P, r = R.x, s = r/a  =>  r^-1 (s*R - 0*G) = P.
func refForgeE0(victim *refPt, a *big.Int) []byte {
	R := refMul(a, victim)
	if R == nil {
		return nil
	}
	rr := new(big.Int).Mod(R.X, c13N)
	if rr.Sign() == 0 {
		return nil
	}
	ainv := new(big.Int).ModInverse(a, c13N)
	ss := new(big.Int).Mul(rr, ainv)
	ss.Mod(ss, c13N)
	if ss.Sign() == 0 {
		return nil
	}
	v := byte(R.Y.Bit(0))
	if R.X.Cmp(c13N) >= 0 {
		v |= 2
	}
	return append(append(refPad32(rr), refPad32(ss)...), v)
}

type c13Hash struct {
	label string
	bytes []byte
}

func c13ForgeHashes(realID []byte) []c13Hash {
	z := func(n int) []byte { return make([]byte, n) }
	return []c13Hash{
		{"nil", nil},
		{"empty-non-nil", []byte{}},
		{"1-byte-00", []byte{0}},
		{"1-byte-01", []byte{1}},
		{"31-zero-bytes", z(31)},
		{"32-zero-bytes", z(32)},
		{"32-bytes-n", refPad32(c13N)},
		{"32-bytes-real-id", realID},
		{"33-bytes-zero-then-01", append(z(32), 1)},
		{"33-bytes-01-then-zero", append([]byte{1}, z(32)...)},
		{"33-zero-bytes", z(33)},
		{"64-zero-bytes", z(64)},
	}
}

// forgeCrypto: crypto level. A signature forged from the public key alone may
// recover / verify under the victim key only where textbook ECDSA says it is a
// valid signature for a legal (1..32 byte) hash, i.e. only for e = 0 (mod n).
func (c *c13Ctx) forgeCrypto(k *c13Key, a *big.Int, h c13Hash) {
	r := c.r
	r.Eval(1)
	sigb := refForgeE0(k.pub, a)
	if sigb == nil {
		return
	}
	cs := map[string]string{"victim": k.name, "a": a.Text(16), "hash": h.label, "hash_hex": hex.EncodeToString(h.bytes), "hash_is_nil": fmt.Sprint(h.bytes == nil), "sig_hex": hex.EncodeToString(sigb)}
	r.Nontrivial("forge/" + k.name + "/" + a.Text(16) + "/" + h.label)
	rr, ss := new(big.Int).SetBytes(sigb[:32]), new(big.Int).SetBytes(sigb[32:64])
	legal := len(h.bytes) >= 1 && len(h.bytes) <= 32
	valid := legal && refVerify(rr, ss, k.pub, h.bytes)
	sig, err := crypto.ParseSignature(sigb)
	if err != nil {
		return // v>1 forms etc. are simply not representable: fine
	}
	refUn := append([]byte{4}, append(refPad32(k.pub.X), refPad32(k.pub.Y)...)...)
	var pk *crypto.PublicKey
	if p := ev.Catch(func() { pk, err = sig.RecoverPublicKey(h.bytes) }); p != "" {
		r.Violation("RecoverPublicKey-panics/hash="+h.label, p, cs)
		return
	}
	if !legal && err == nil {
		r.Violation("RecoverPublicKey-accepts-illegal-hash/hash="+h.label, fmt.Sprintf("a hash of %d bytes (nil=%v) was accepted: %v", len(h.bytes), h.bytes == nil, cs), cs)
	}
	if pk != nil && bytes.Equal(pk.SerializeUncompressed(), refUn) {
		if !valid {
			r.Violation("forged-signature-recovers-victim-key/hash="+h.label,
				fmt.Sprintf("a signature built from the PUBLIC key of %s alone recovers that key for hash %q (%d bytes): %v", k.name, h.label, len(h.bytes), cs), cs)
		} else {
			c.count("forgery_mathematically_valid_e0_recovered", 1)
		}
	} else {
		c.count("forgery_not_recovered", 1)
	}
	var ok bool
	if p := ev.Catch(func() { ok = sig.Verify(h.bytes, k.priv.PublicKey()) }); p != "" {
		r.Violation("Signature.Verify-panics/hash="+h.label, p, cs)
		return
	}
	if ok && !valid {
		r.Violation("Signature.Verify-accepts-forgery/hash="+h.label, fmt.Sprintf("%v", cs), cs)
	}
}

// un-hashable / odd data shapes (raw JSON text of the `data` member)
var c13OddData = []struct{ name, dataType, data string }{
	{"true", "", `true`},
	{"false", "", `false`},
	{"number", "", `1`},
	{"fraction", "", `1.5`},
	{"dict-bool-leaf", "", `{"a":true}`},
	{"list-number-bool", "", `[1,true]`},
	{"nested-bool-leaf", "", `{"a":{"b":[false]}}`},
	{"string-no-type", "", `"0x1234"`},
	{"null", "", `null`},
	{"empty-dict", "", `{}`},
	{"empty-list", "", `[]`},
	{"not-json", "", `tru`},
	{"message-true", "message", `true`},
	{"unknown-type-true", "base", `{"a":true}`},
	{"deposit-true", "deposit", `true`},
	{"no-data", "", ``},
}

type c13ForgeTx struct {
	Victim int    `json:"victim_key"`
	Data   string `json:"data_shape"`
	A      string `json:"a_hex"`
	Sig    string `json:"sig_hex"`
	Forge  bool   `json:"forged_tx_case"`
}

// forgeTx: transaction level. from = victim, signature forged from the public
// key; every constructor; accepted only if there is a real 32-byte id under
// which (r,s) verifies for the victim (never the case for these).
func (c *c13Ctx) forgeTx(ki, di int, a *big.Int) {
	r := c.r
	k := c.keys[ki]
	od := c13OddData[di]
	sigb := refForgeE0(k.pub, a)
	if sigb == nil {
		return
	}
	cs := c13ForgeTx{Victim: ki, Data: od.name, A: a.Text(16), Sig: hex.EncodeToString(sigb), Forge: true}
	r.Nontrivial("forgetx/" + k.name + "/" + od.name + "/" + cs.A)
	rr, ss := new(big.Int).SetBytes(sigb[:32]), new(big.Int).SetBytes(sigb[32:64])
	attacker := "hx00000000000000000000000000000000000a77ac"
	nid := common.HexInt64{Value: 1}
	m := c13Bin{
		Version:   common.HexUint16{Value: 3},
		From:      *common.MustNewAddressFromString(k.addr),
		To:        *common.MustNewAddressFromString(attacker),
		Value:     common.NewHexInt(1000000000),
		StepLimit: *common.NewHexInt(1000000),
		TimeStamp: common.HexInt64{Value: 1700000000000000},
		NID:       &nid,
		Signature: sigb,
	}
	if od.dataType != "" {
		dt := od.dataType
		m.DataType = &dt
	}
	if od.data != "" {
		m.Data = json.RawMessage(od.data)
	}
	bin, err := codec.MarshalToBytes(&m)
	if err != nil {
		panic(err)
	}
	var jb strings.Builder
	jb.WriteString(`{"version":"0x3","from":"` + k.addr + `","to":"` + attacker + `","value":"0x3b9aca00","stepLimit":"0xf4240","timestamp":"0x60a0e4bc5a000","nid":"0x1"`)
	if od.dataType != "" {
		jb.WriteString(`,"dataType":"` + od.dataType + `"`)
	}
	if od.data != "" {
		jb.WriteString(`,"data":` + od.data)
	}
	jb.WriteString(`,"signature":"` + base64.StdEncoding.EncodeToString(sigb) + `"}`)
	js := []byte(jb.String())
	for pres := 0; pres < c13NPres; pres++ {
		r.Eval(1)
		var acc bool
		var stage string
		var id []byte
		if p := ev.Catch(func() { acc, stage, id = c13Submit(pres, js, bin) }); p != "" {
			r.Violation("panic-in-verify/forged/"+c13PresName[pres], fmt.Sprintf("%+v: %s", cs, p), cs)
			continue
		}
		if acc && !(len(id) == 32 && refVerify(rr, ss, k.pub, id)) {
			r.Violation("accepted-forged-signature/data="+od.name+"/"+c13PresName[pres],
				fmt.Sprintf("Verify()==nil for a transfer from %s whose signature was built from the public key alone; id=%x (len %d), data=%s dataType=%q", k.addr, id, len(id), od.data, od.dataType), cs)
		}
		c.mu.Lock()
		if acc {
			c.accepted["forged-tx"]++
		} else {
			c.rejected["forged-tx"]++
			c.stage["forged/"+stage]++
			if stage == "verify" && len(id) != 32 {
				c.stage["forged/verify-with-uncomputable-id"]++
			}
		}
		c.mu.Unlock()
	}
}

func (c *c13Ctx) count(k string, n int) {
	c.mu.Lock()
	c.stage[k] += n
	c.mu.Unlock()
}

// historyFamily: verification results must not depend on what was verified
// before. One locked OS thread, collector off (whatever a component keeps
// between calls is handed to the next call); baselines first, in a clean
// state. Every [poison, probe] pair: poison = a forged transfer with one of
// the un-hashable/odd data shapes (binary and raw JSON) or a valid transaction;
// probe = each (key, tx) with its correct signature (must be accepted, id as
// in the clean state) and with another key's signature (must be rejected),
// in every presentation.
func (c *c13Ctx) historyFamily(nKeys, nTx int) {
	r := c.r
	runtime.LockOSThread()
	defer runtime.UnlockOSThread()
	old := debug.SetGCPercent(-1)
	defer debug.SetGCPercent(old)
	type probe struct {
		name    string
		js, bin []byte
		want    bool
		id      []byte
	}
	var probes []probe
	for ki := 0; ki < nKeys; ki++ {
		for ti := 0; ti < nTx; ti++ {
			k, t := c.keys[ki], &c13Tmpls[ti]
			id, data, err := c13Unsigned(t, k.addr)
			if err != nil {
				panic(err)
			}
			good := c.goodSig(k, id)
			bad := c.goodSig(c.keys[(ki+1)%nKeys], id)
			probes = append(probes,
				probe{fmt.Sprintf("correct/key=%s/tx=%s", k.name, t.name), t.json(k.addr, good), c13BinBytes(&data, good), true, id},
				probe{fmt.Sprintf("other-key/key=%s/tx=%s", k.name, t.name), t.json(k.addr, bad), c13BinBytes(&data, bad), false, id})
		}
	}
	// clean-state baseline
	for _, p := range probes {
		for pres := 0; pres < c13NPres; pres++ {
			acc, _, id := c13Submit(pres, p.js, p.bin)
			if acc != p.want || !bytes.Equal(id, p.id) {
				r.Sanity(false, "history baseline of %s/%s is already off (accepted=%v)", p.name, c13PresName[pres], acc)
			}
		}
	}
	type poison struct {
		name string
		run  func()
	}
	var poisons []poison
	victim := c.keys[0]
	forged := refForgeE0(victim.pub, big.NewInt(2))
	for di := range c13OddData {
		od := c13OddData[di]
		nid := common.HexInt64{Value: 1}
		m := c13Bin{Version: common.HexUint16{Value: 3}, From: *common.MustNewAddressFromString(victim.addr),
			To: *common.MustNewAddressFromString("hx00000000000000000000000000000000000a77ac"), Value: common.NewHexInt(1),
			StepLimit: *common.NewHexInt(1000000), TimeStamp: common.HexInt64{Value: 1700000000000000}, NID: &nid, Signature: forged}
		if od.dataType != "" {
			dt := od.dataType
			m.DataType = &dt
		}
		if od.data != "" {
			m.Data = json.RawMessage(od.data)
		}
		bin, err := codec.MarshalToBytes(&m)
		if err != nil {
			panic(err)
		}
		js := []byte(`{"version":"0x3","from":"` + victim.addr + `","to":"hx00000000000000000000000000000000000a77ac","stepLimit":"0xf4240","timestamp":"0x1","signature":"` +
			base64.StdEncoding.EncodeToString(forged) + `"`)
		if od.data != "" {
			js = append(js, []byte(`,"data":`+od.data)...)
		}
		js = append(js, '}')
		poisons = append(poisons,
			poison{"odd-data=" + od.name + "/binary", func() { ev.Catch(func() { c13Submit(c13PresBin, nil, bin) }) }},
			poison{"odd-data=" + od.name + "/rawjson", func() { ev.Catch(func() { c13Submit(c13PresRaw, js, nil) }) }})
	}
	for i := range probes {
		p := probes[i]
		poisons = append(poisons, poison{"probe:" + p.name + "/binary", func() { c13Submit(c13PresBin, p.js, p.bin) }})
	}
	n := 0
	for _, po := range poisons {
		for _, p := range probes {
			for pres := 0; pres < c13NPres; pres++ {
				po.run()
				r.Eval(1)
				acc, stage, id := c13Submit(pres, p.js, p.bin)
				n++
				if acc != p.want || (id != nil && !bytes.Equal(id, p.id)) {
					kind := strings.SplitN(p.name, "/", 2)[0]
					pn := po.name
					if strings.HasPrefix(pn, "probe:") {
						pn = "valid-transaction"
					}
					r.Violation(fmt.Sprintf("result-depends-on-history/after=%s/then=%s/%s", pn, kind, c13PresName[pres]),
						fmt.Sprintf("after %s, %s via %s: accepted=%v (clean state: %v) stage=%s id=%x (clean state %x)", po.name, p.name, c13PresName[pres], acc, p.want, stage, id, p.id),
						map[string]string{"after": po.name, "then": p.name, "presentation": c13PresName[pres]})
				}
				if n%2048 == 0 {
					runtime.GC()
					runtime.GC()
				}
			}
		}
	}
	r.Set("history_pairs", n)
}

func c13Flip(b []byte, bit int) []byte {
	o := append([]byte(nil), b...)
	o[bit/8] ^= 1 << uint(bit%8)
	return o
}

// goodSig signs id with k through goloop's own signer and cross-checks the
// result with the reference verifier.
func (c *c13Ctx) goodSig(k *c13Key, id []byte) []byte {
	s, err := crypto.NewSignature(id, k.priv)
	if err != nil {
		panic(err)
	}
	rsv, err := s.SerializeRSV()
	if err != nil {
		panic(err)
	}
	return rsv
}

func (c *c13Ctx) cases(ki, ti int, twoBit bool) []c13Case {
	k := c.keys[ki]
	t := &c13Tmpls[ti]
	var out []c13Case
	add := func(kind, from string, sig []byte) {
		out = append(out, c13Case{Key: ki, Tx: ti, From: from, Sig: hex.EncodeToString(sig), Kind: kind})
	}
	id, _, err := c13Unsigned(t, k.addr)
	if err != nil {
		panic(err)
	}
	good := c.goodSig(k, id)
	add("correct", k.addr, good)
	for bit := 0; bit < 65*8; bit++ {
		add("bitflip", k.addr, c13Flip(good, bit))
	}
	if twoBit {
		for a := 0; a < 65*8; a++ {
			for b := a + 1; b < 65*8; b++ {
				add("bitflip2", k.addr, c13Flip(c13Flip(good, a), b))
			}
		}
	}
	for v := 0; v < 256; v++ {
		if byte(v) == good[64] {
			continue
		}
		s := append([]byte(nil), good...)
		s[64] = byte(v)
		add("vflag", k.addr, s)
	}
	add("len64-noV", k.addr, good[:64])
	add("len0", k.addr, nil)
	add("len1", k.addr, good[:1])
	add("len63", k.addr, good[:63])
	add("len66", k.addr, append(append([]byte(nil), good...), 0))
	add("len66", k.addr, append(append([]byte(nil), good...), good[64]))
	zero := make([]byte, 32)
	ff := bytes.Repeat([]byte{0xff}, 32)
	nb := refPad32(c13N)
	nm1 := refPad32(new(big.Int).Sub(c13N, big.NewInt(1)))
	one := refPad32(big.NewInt(1))
	rOrig, sOrig := good[:32], good[32:64]
	for _, v := range []byte{0, 1} {
		for _, rv := range [][]byte{rOrig, zero, ff, nb, nm1, one} {
			for _, sv := range [][]byte{sOrig, zero, ff, nb, nm1, one} {
				if bytes.Equal(rv, rOrig) && bytes.Equal(sv, sOrig) {
					continue
				}
				add("rs-extreme", k.addr, append(append(append([]byte(nil), rv...), sv...), v))
			}
		}
	}
	// malleated twin (r, n-s) with both flags, and (n-r, s)
	sBig := new(big.Int).SetBytes(sOrig)
	twinS := refPad32(new(big.Int).Sub(c13N, sBig))
	for _, v := range []byte{good[64], good[64] ^ 1} {
		add("twin", k.addr, append(append(append([]byte(nil), rOrig...), twinS...), v))
	}
	rBig := new(big.Int).SetBytes(rOrig)
	negR := refPad32(new(big.Int).Sub(c13N, rBig))
	for _, v := range []byte{0, 1} {
		add("neg-r", k.addr, append(append(append([]byte(nil), negR...), sOrig...), v))
	}
	// r and s swapped
	for _, v := range []byte{0, 1} {
		add("rs-swapped", k.addr, append(append(append([]byte(nil), sOrig...), rOrig...), v))
	}
	// signatures forged from the public key alone for e = 0
	for _, a := range []*big.Int{big.NewInt(1), c13HashKey("verif-c13-forge-a")} {
		if f := refForgeE0(k.pub, a); f != nil {
			add("forged-e0", k.addr, f)
		}
	}
	// signature by every other key over this id
	for oi, o := range c.keys {
		if oi == ki {
			continue
		}
		add("other-key", k.addr, c.goodSig(o, id))
	}
	// signature by this key over every other transaction's id, and over
	// near-miss hashes of this id
	for oi := range c13Tmpls {
		if oi == ti {
			continue
		}
		oid, _, err := c13Unsigned(&c13Tmpls[oi], k.addr)
		if err != nil {
			panic(err)
		}
		add("other-id", k.addr, c.goodSig(k, oid))
	}
	for _, bit := range []int{0, 7, 128, 255} {
		add("other-id", k.addr, c.goodSig(k, c13Flip(id, bit)))
	}
	add("other-id", k.addr, c.goodSig(k, crypto.SHA3Sum256(id)))
	// sender address is not the signer's: every single-bit neighbour of the
	// signer's address, the contract-typed twin, and other keys' addresses;
	// the signer signs the id of *that* transaction.
	raw, _ := hex.DecodeString(k.addr[2:])
	fromVariants := []string{"cx" + k.addr[2:]}
	for bit := 0; bit < 160; bit++ {
		fromVariants = append(fromVariants, "hx"+hex.EncodeToString(c13Flip(raw, bit)))
	}
	for oi, o := range c.keys {
		if oi != ki {
			fromVariants = append(fromVariants, o.addr)
		}
	}
	for _, f := range fromVariants {
		fid, _, err := c13Unsigned(t, f)
		if err != nil {
			panic(err)
		}
		kind := "from-neighbour"
		if f[:2] == "cx" {
			kind = "from-contract-twin"
		} else if c.byAd[f] != nil {
			kind = "from-other-key"
		}
		add(kind, f, c.goodSig(k, fid))
	}
	return out
}

// roundTrip: sign -> recover -> same key, and all serialisations of a signature.
func (c *c13Ctx) roundTrip(k *c13Key, ki int, hash []byte) {
	r := c.r
	r.Eval(1)
	tag := fmt.Sprintf("key=%s hash=%x", k.name, hash)
	cs := map[string]string{"key": k.name, "hash": hex.EncodeToString(hash)}
	r.Nontrivial("rt/" + tag)
	sig, err := crypto.NewSignature(hash, k.priv)
	if err != nil {
		r.Violation("sign-failed", tag+": "+err.Error(), cs)
		return
	}
	rsv, err := sig.SerializeRSV()
	if err != nil || len(rsv) != 65 {
		r.Violation("SerializeRSV-failed", tag, cs)
		return
	}
	rr, ss := new(big.Int).SetBytes(rsv[:32]), new(big.Int).SetBytes(rsv[32:64])
	if !refVerify(rr, ss, k.pub, hash) {
		r.Violation("signature-not-valid-under-own-key", tag+fmt.Sprintf(" sig=%x", rsv), cs)
	}
	if rsv[64] > 3 {
		r.Violation("fresh-signature-V-out-of-range", tag+fmt.Sprintf(" v=%d", rsv[64]), cs)
	} else if q := refRecover(rr, ss, int(rsv[64]), hash); q == nil || q.X.Cmp(k.pub.X) != 0 || q.Y.Cmp(k.pub.Y) != 0 {
		r.Violation("fresh-signature-V-wrong", tag+fmt.Sprintf(" sig=%x", rsv), cs)
	}
	pk, err := sig.RecoverPublicKey(hash)
	refUn := append([]byte{4}, append(refPad32(k.pub.X), refPad32(k.pub.Y)...)...)
	if err != nil {
		r.Violation("recover-failed-on-own-signature", tag+": "+err.Error(), cs)
	} else {
		if !pk.Equal(k.priv.PublicKey()) {
			r.Violation("recover-returns-different-key", tag, cs)
		}
		if !bytes.Equal(pk.SerializeUncompressed(), refUn) {
			r.Violation("recovered-key-differs-from-reference-dG", tag, cs)
		}
		if common.NewAccountAddressFromPublicKey(pk).String() != k.addr {
			r.Violation("address-differs-from-reference", tag, cs)
		}
	}
	if !sig.Verify(hash, k.priv.PublicKey()) {
		r.Violation("Signature.Verify-rejects-own-signature", tag, cs)
	}
	for oi, o := range c.keys {
		// (for e = 0 mod n a signature of d also verifies under -d; the
		// reference decides what is mathematically valid)
		if oi != ki && sig.Verify(hash, o.priv.PublicKey()) != refVerify(rr, ss, o.pub, hash) {
			r.Violation("Signature.Verify-differs-from-reference-under-other-key", tag+" other="+o.name, cs)
		}
	}
	// serialisations
	p1, err := crypto.ParseSignature(rsv)
	if err != nil {
		r.Violation("ParseSignature-roundtrip", tag+": "+err.Error(), cs)
	} else if b, _ := p1.SerializeRSV(); !bytes.Equal(b, rsv) {
		r.Violation("ParseSignature-roundtrip", tag, cs)
	}
	vrs, err := sig.SerializeVRS()
	if err != nil || len(vrs) != 65 || vrs[0] != rsv[64] || !bytes.Equal(vrs[1:], rsv[:64]) {
		r.Violation("SerializeVRS-inconsistent", tag, cs)
	} else if p2, err := crypto.ParseSignatureVRS(vrs); err != nil {
		r.Violation("ParseSignatureVRS-roundtrip", tag, cs)
	} else if b, _ := p2.SerializeRSV(); !bytes.Equal(b, rsv) {
		r.Violation("ParseSignatureVRS-roundtrip", tag, cs)
	}
	if rs, err := sig.SerializeRS(); err != nil || !bytes.Equal(rs, rsv[:64]) {
		r.Violation("SerializeRS-inconsistent", tag, cs)
	}
	if p3, err := crypto.ParseSignature(rsv[:64]); err != nil || p3.HasV() {
		r.Violation("ParseSignature-64", tag, cs)
	} else {
		if _, err := p3.RecoverPublicKey(hash); err == nil {
			r.Violation("recover-without-V-succeeds", tag, cs)
		}
		if !p3.Verify(hash, k.priv.PublicKey()) {
			r.Violation("Signature.Verify-64-rejects", tag, cs)
		}
	}
	bs, err := codec.BC.MarshalToBytes(sig)
	var back crypto.Signature
	if err != nil {
		r.Violation("rlp-encode", tag, cs)
	} else if _, err := codec.BC.UnmarshalFromBytes(bs, &back); err != nil {
		r.Violation("rlp-decode", tag, cs)
	} else if b, _ := back.SerializeRSV(); !bytes.Equal(b, rsv) {
		r.Violation("rlp-roundtrip", tag, cs)
	}
	cs1 := common.Signature{Signature: sig}
	js, err := json.Marshal(cs1)
	var cs2 common.Signature
	if err != nil || json.Unmarshal(js, &cs2) != nil || cs2.Signature == nil {
		r.Violation("json-roundtrip", tag, cs)
	} else if b, _ := cs2.Signature.SerializeRSV(); !bytes.Equal(b, rsv) {
		r.Violation("json-roundtrip", tag, cs)
	} else if string(js) != `"`+base64.StdEncoding.EncodeToString(rsv)+`"` {
		r.Violation("json-not-base64-of-RSV", tag, cs)
	}
	mb, err := cs1.MarshalBinary()
	var cs3 common.Signature
	if err != nil || !bytes.Equal(mb, rsv) || cs3.UnmarshalBinary(mb) != nil || cs3.Signature == nil {
		r.Violation("binary-roundtrip", tag, cs)
	} else if b, _ := cs3.Signature.SerializeRSV(); !bytes.Equal(b, rsv) {
		r.Violation("binary-roundtrip", tag, cs)
	}
}

func TestVerifC13(t *testing.T) {
	r := ev.Start(t, "C13", "exploration")
	r.Rule("for each (key, v3 transaction template): the correct signature and the whole mutation alphabet " +
		"{every 1-bit flip of the 65 bytes, V=0..255, 64-byte form, lengths 0/1/63/66, r,s in {orig,0,ff..,n,n-1,1}^2 x V{0,1}, " +
		"(r,n-s) twin, (n-r,s), r<->s, signature by every other key, signature by the same key over other ids, " +
		"sender address = every 1-bit neighbour / contract twin / other key's address}; thorough adds every 2-bit flip for one (key,tx); " +
		"each case through JSON, raw-JSON and binary constructors; non-trivial = distinct (key,tx,from,signature bytes); " +
		"plus a history family (one locked OS thread, collector off): every pair [forged un-hashable transfer (16 data shapes, binary/raw JSON) or valid transaction, then (key,tx) with its correct signature / another key's signature in each presentation] must give the clean-state result; plus sign/recover/serialise round trip for every key x hash; plus signatures forged from the public key alone (R=a*P, r=R.x, s=r/a) x hashes {nil, empty, 1/31/32/33/64 bytes, zero, n, real id} at the crypto level and x 16 un-hashable/odd data shapes as binary/JSON transfers from the victim")
	r.Assume("reference secp256k1/ECDSA arithmetic written with math/big in the harness is correct (it is cross-checked against goloop on every unmutated signature)",
		"golang.org/x/crypto/sha3 is trusted (used by both sides for the address)",
		"the transaction id is taken from goloop (its correctness is C12); C13 checks that it does not depend on the signature",
		"V in 4..7 (decred's 'compressed key' flag) is not treated as malformed: such signatures are accepted iff (r,s) verifies under the sender's key, and are counted in coverage")
	c := &c13Ctx{r: r, byAd: map[string]*c13Key{}, accepted: map[string]int{}, rejected: map[string]int{}, stage: map[string]int{}, vAccept: map[int]int{}, memo: map[string]bool{}}
	nm1 := new(big.Int).Sub(c13N, big.NewInt(1))
	all := []*c13Key{
		c13MakeKey("A", c13HashKey("verif-c13-key-A")),
		c13MakeKey("B", c13HashKey("verif-c13-key-B")),
		c13MakeKey("n-1", nm1),
		c13MakeKey("C", c13HashKey("verif-c13-key-C")),
		c13MakeKey("1", big.NewInt(1)),
		c13MakeKey("2", big.NewInt(2)),
		c13MakeKey("n-2", new(big.Int).Sub(c13N, big.NewInt(2))),
		c13MakeKey("2^255", new(big.Int).Lsh(big.NewInt(1), 255)),
	}
	for _, k := range all {
		r.Sanity(refOnCurve(k.pub), "reference public key not on curve")
		c.byAd[k.addr] = k
	}
	nKeys := r.Pick(3, 6)
	nTx := len(c13Tmpls)
	c.keys = all[:nKeys]

	if ev.Replaying() {
		var ftx c13ForgeTx
		ev.ReplayCase(&ftx)
		if ftx.Forge {
			a, _ := new(big.Int).SetString(ftx.A, 16)
			for di := range c13OddData {
				if c13OddData[di].name == ftx.Data {
					c.keys = all
					c.forgeTx(ftx.Victim, di, a)
				}
			}
			r.Finish(false)
			return
		}
		var cs c13Case
		ev.ReplayCase(&cs)
		if cs.Sig == "" && cs.Kind == "" {
			// crypto-level cases carry their own description; re-run that whole (small) part
			hs := c13ForgeHashes(make([]byte, 32))
			for _, k := range all {
				for _, a := range []*big.Int{big.NewInt(1), big.NewInt(2), c13HashKey("verif-c13-forge-a")} {
					for _, h := range hs {
						c.forgeCrypto(k, a, h)
					}
				}
			}
			r.Finish(false)
			return
		}
		c.run(cs)
		r.Finish(false)
		return
	}

	// part 0: history independence (first: its baselines need a clean state)
	c.historyFamily(nKeys, len(c13Tmpls))

	// part 1: round trips (all 8 keys, boundary hashes)
	c.keys = all
	var hashes [][]byte
	for ti := range c13Tmpls {
		id, _, err := c13Unsigned(&c13Tmpls[ti], all[0].addr)
		if err != nil {
			t.Fatal(err)
		}
		hashes = append(hashes, id)
	}
	hashes = append(hashes,
		make([]byte, 32), bytes.Repeat([]byte{0xff}, 32), refPad32(big.NewInt(1)),
		refPad32(c13N), refPad32(nm1), refPad32(new(big.Int).Add(c13N, big.NewInt(1))),
		[]byte{0x01}, []byte{0x00}, bytes.Repeat([]byte{0xab}, 31), bytes.Repeat([]byte{0x80}, 20))
	type rt struct{ k, h int }
	var rts []rt
	for ki := range all {
		for hi := range hashes {
			rts = append(rts, rt{ki, hi})
		}
	}
	ev.Par(len(rts), 16, func(i int) { c.roundTrip(all[rts[i].k], rts[i].k, hashes[rts[i].h]) })
	r.Set("roundtrip_cases", len(rts))
	c.keys = all[:nKeys]

	// part 1b: forgeries from the public key alone, crypto level (all 8 keys)
	{
		c.keys = all
		as := []*big.Int{big.NewInt(1), big.NewInt(2), c13HashKey("verif-c13-forge-a"), new(big.Int).Sub(c13N, big.NewInt(1))}
		hs := c13ForgeHashes(hashes[0])
		type fc struct{ k, a, h int }
		var fcs []fc
		for ki := range all {
			for ai := range as {
				for hi := range hs {
					fcs = append(fcs, fc{ki, ai, hi})
				}
			}
		}
		ev.Par(len(fcs), 16, func(i int) { c.forgeCrypto(all[fcs[i].k], as[fcs[i].a], hs[fcs[i].h]) })
		r.Set("forgery_crypto_cases", len(fcs))
		// a forgery must really be one: for e = 0 the reference itself recovers the victim
		f := refForgeE0(all[0].pub, as[2])
		q := refRecover(new(big.Int).SetBytes(f[:32]), new(big.Int).SetBytes(f[32:64]), int(f[64]), make([]byte, 32))
		r.Sanity(q != nil && q.X.Cmp(all[0].pub.X) == 0 && q.Y.Cmp(all[0].pub.Y) == 0, "reference forgery does not recover the victim key for e=0")
		c.keys = all[:nKeys]
	}
	// part 1c: forged transfers with un-hashable / odd data, transaction level
	{
		as := []*big.Int{big.NewInt(1), c13HashKey("verif-c13-forge-a")}
		type ft struct{ k, d, a int }
		var fts []ft
		for ki := 0; ki < nKeys; ki++ {
			for di := range c13OddData {
				for ai := range as {
					fts = append(fts, ft{ki, di, ai})
				}
			}
		}
		ev.Par(len(fts), 16, func(i int) { c.forgeTx(fts[i].k, fts[i].d, as[fts[i].a]) })
		r.Set("forgery_tx_cases", len(fts))
	}

	// part 2: mutation alphabet
	var cases []c13Case
	for ki := 0; ki < nKeys; ki++ {
		for ti := 0; ti < nTx; ti++ {
			cases = append(cases, c.cases(ki, ti, r.Thorough() && ki == 0 && ti == 0)...)
		}
	}
	r.Set("keys", nKeys)
	r.Set("transactions", nTx)
	r.Set("mutation_cases", len(cases))
	done := make([]bool, len(cases))
	ev.Par(len(cases), 16, func(i int) {
		if r.Expired() {
			return
		}
		c.run(cases[i])
		done[i] = true
	})
	exhaustive := true
	for _, d := range done {
		if !d {
			exhaustive = false
		}
	}
	tot := func(m map[string]int) (n int) {
		for _, v := range m {
			n += v
		}
		return
	}
	r.Set("accepted_by_kind", c.accepted)
	r.Set("rejected_by_kind", c.rejected)
	r.Set("rejected_at_stage", c.stage)
	va := map[string]int{}
	var vs []int
	for v := range c.vAccept {
		vs = append(vs, v)
	}
	sort.Ints(vs)
	for _, v := range vs {
		va[fmt.Sprint(v)] = c.vAccept[v]
	}
	r.Set("accepted_by_V_byte", va)
	if exhaustive {
		r.Sanity(c.accepted["correct"] == nKeys*nTx*c13NPres, "not every correct signature was accepted: %d", c.accepted["correct"])
		r.Sanity(c.accepted["twin"] == nKeys*nTx*c13NPres, "exactly one malleated twin per case should verify (it is a valid signature of the sender): %d", c.accepted["twin"])
		r.Sanity(c.stage["construct"] > 0 && c.stage["verify"] > 0, "both rejection stages must occur: %v", c.stage)
		r.Sanity(c.stage["forgery_mathematically_valid_e0_recovered"] > 0, "e=0 forgeries must be real (recover the victim for a zero hash)")
		r.Sanity(c.stage["forged/verify-with-uncomputable-id"] > 0, "no forged transaction reached Verify with an uncomputable id: %v", c.stage)
		r.Sanity(c.accepted["forged-tx"] == 0 && c.accepted["forged-e0"] == 0, "forged signatures accepted")
		r.Sanity(tot(c.rejected) > 100*tot(c.accepted)/10, "suspiciously many acceptances")
	}
	r.Sample(cases[0])
	r.Sample(cases[1])
	for _, k := range []string{"vflag", "twin", "other-key", "from-neighbour"} {
		for _, cs := range cases {
			if cs.Kind == k {
				r.Sample(cs)
				break
			}
		}
	}
	r.Finish(exhaustive)
}
