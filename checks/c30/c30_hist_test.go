//go:build verif

package network

// C30, reader/writer HISTORY family.
//
// The other families give every stream a fresh PacketReader and stop at the first
// error. Here ONE PacketReader lives through a history: streams of 2-3 packets in
// which every position is intact or damaged, the reader is used on after a rejection
// (mode "continue", only damage that leaves the framing intact so that the next packet
// starts at the right offset), or is Reset() onto a new stream after a failure of any
// kind (mode "reset": length-field damage, extend-info damage, truncation, hash
// failure, clean EOF). Oracle: what the long-lived reader decides and decodes for a
// packet equals what a FRESH PacketReader decides and decodes for the same bytes alone
// (history independence), and an intact packet is decoded equal to what was written.
// Mode "writer": one PacketWriter over a failing io.Writer, Reset() onto a good one;
// the same *Packet written twice.

import (
	"bytes"
	"errors"
	"fmt"
	"io"
	"sync"
	"sync/atomic"

	"github.com/icon-project/goloop/verifshim/ev"
	"github.com/icon-project/goloop/verifshim/opseq"
)

type c30HistCase struct {
	Mode    string    `json:"mode"` // continue | reset | writer
	Pkts    []c30Spec `json:"pkts"`
	States  []string  `json:"states,omitempty"` // per position: "intact" or "<class>^<xor>" / "trunc:<where>"
	Uniform int       `json:"uniform,omitempty"`
	K       int       `json:"k,omitempty"`       // reset: index of the damaged packet (stream 1 = pkts[..k], stream 2 = the rest)
	FailAt  int       `json:"fail_at,omitempty"` // writer: index of the Write call of the underlying writer that fails (-1 none)
	Partial bool      `json:"partial,omitempty"` // writer: the failing call consumes half of its bytes
	NoReset bool      `json:"no_reset,omitempty"`
}

func (h *c30HistCase) String() string {
	s := fmt.Sprintf("history/%s [", h.Mode)
	for i, p := range h.Pkts {
		if i > 0 {
			s += " "
		}
		s += fmt.Sprintf("{plen:%d ext:%d/%d}", p.PLen, p.Hint, p.ELen)
	}
	s += "]"
	if h.States != nil {
		s += fmt.Sprintf(" states=%v", h.States)
	}
	if h.Mode == "reset" {
		s += fmt.Sprintf(" k=%d", h.K)
	}
	if h.Mode == "writer" {
		s += fmt.Sprintf(" failAt=%d partial=%v noReset=%v", h.FailAt, h.Partial, h.NoReset)
	}
	if h.Uniform > 0 {
		s += fmt.Sprintf(" uniform=%d", h.Uniform)
	}
	return s
}

type c30HistStats struct {
	cont, reset, writer, rejectedThenIntact, resetAfterFailure, writerFailures int64
}

// ---- damage classes

type c30Damage struct {
	name    string
	framing bool // true: leaves every length field intact (the next packet starts where it should)
	off     func(s c30Spec) (int, bool)
	trunc   bool
}

func c30Damages() []c30Damage {
	at := func(o int) func(c30Spec) (int, bool) { return func(c30Spec) (int, bool) { return o, true } }
	pay := packetHeaderSize
	return []c30Damage{
		{"protocol", true, at(0), false},
		{"subProtocol", true, at(2), false},
		{"src", true, at(4), false},
		{"src-last", true, at(4 + peerIDSize - 1), false},
		{"dest", true, at(4 + peerIDSize), false},
		{"ttl", true, at(5 + peerIDSize), false},
		{"payload-first", true, func(s c30Spec) (int, bool) { return pay, s.PLen > 0 }, false},
		{"payload-last", true, func(s c30Spec) (int, bool) { return pay + s.PLen - 1, s.PLen > 1 }, false},
		{"hash-first", true, func(s c30Spec) (int, bool) { return pay + s.PLen, true }, false},
		{"hash-last", true, func(s c30Spec) (int, bool) { return pay + s.PLen + 7, true }, false},
		{"ext-first", true, func(s c30Spec) (int, bool) { return pay + s.PLen + packetFooterSize, s.ELen > 0 }, false},
		{"ext-last", true, func(s c30Spec) (int, bool) { return s.size() - 1, s.ELen > 1 }, false},
		// framing-breaking: only used before a Reset
		{"len0", false, at(6 + peerIDSize), false},
		{"len1", false, at(7 + peerIDSize), false},
		{"len2", false, at(8 + peerIDSize), false},
		{"len3", false, at(9 + peerIDSize), false},
		{"extinfo-hi", false, func(s c30Spec) (int, bool) { return pay + s.PLen + 8, true }, false},
		{"extinfo-lo", false, func(s c30Spec) (int, bool) { return pay + s.PLen + 9, true }, false},
		{"trunc:hdr-mid", false, at(15), true},
		{"trunc:hdr-end", false, at(packetHeaderSize), true},
		{"trunc:payload-mid", false, func(s c30Spec) (int, bool) { return pay + s.PLen/2, s.PLen > 1 }, true},
		{"trunc:footer-mid", false, func(s c30Spec) (int, bool) { return pay + s.PLen + 5, true }, true},
		{"trunc:ext-mid", false, func(s c30Spec) (int, bool) { return pay + s.PLen + packetFooterSize + s.ELen/2, s.ELen > 1 }, true},
		{"trunc:end-1", false, func(s c30Spec) (int, bool) { return s.size() - 1, true }, true},
	}
}

var c30DamageByName = func() map[string]c30Damage {
	m := map[string]c30Damage{}
	for _, d := range c30Damages() {
		m[d.name] = d
	}
	return m
}()

// state string: "intact", "<class>^<xx>", "trunc:<where>"
func c30StateName(d c30Damage, xor byte) string {
	if d.trunc {
		return d.name
	}
	return fmt.Sprintf("%s^%02x", d.name, xor)
}

var c30SegCache sync.Map // spec -> []byte (clean serialisation of one packet)

func c30Segment(s c30Spec) []byte {
	if b, ok := c30SegCache.Load(s); ok {
		return b.([]byte)
	}
	b, err := c30Stream([]c30Spec{s})
	if err != nil {
		panic(err)
	}
	v, _ := c30SegCache.LoadOrStore(s, b)
	return v.([]byte)
}

// c30Apply returns the bytes of one packet in the given state (ok=false: state not applicable).
func c30Apply(s c30Spec, state string) (out []byte, ok bool) {
	seg := c30Segment(s)
	if state == "intact" {
		return seg, true
	}
	name, xor := state, byte(0)
	if i := bytes.IndexByte([]byte(state), '^'); i >= 0 {
		name = state[:i]
		fmt.Sscanf(state[i+1:], "%02x", &xor)
	}
	d, known := c30DamageByName[name]
	if !known {
		return nil, false
	}
	o, app := d.off(s)
	if !app || o >= len(seg) || len(seg) != s.size() {
		return nil, false // (a serialisation of unexpected length is reported by c30HistTier)
	}
	if d.trunc {
		return seg[:o], true
	}
	out = append([]byte(nil), seg...)
	out[o] ^= xor
	return out, true
}

// outcome of reading one packet
type c30Outcome struct {
	ok  bool
	pkt *Packet
	pan string
}

func c30ReadOne(pr *PacketReader) (o c30Outcome) {
	o.pan = ev.Catch(func() {
		p, err := pr.ReadPacket()
		o.ok, o.pkt = err == nil, p
	})
	return
}

func c30SamePacket(a, b *Packet) string {
	switch {
	case a.protocol != b.protocol:
		return "protocol"
	case a.subProtocol != b.subProtocol:
		return "subProtocol"
	case (a.src == nil) != (b.src == nil) || (a.src != nil && !a.src.Equal(b.src)):
		return "src"
	case a.dest != b.dest:
		return "dest"
	case a.ttl != b.ttl:
		return "ttl"
	case a.lengthOfPayload != b.lengthOfPayload || !bytes.Equal(a.payload, b.payload):
		return "payload"
	case a.hashOfPacket != b.hashOfPacket:
		return "hash"
	case a.extendInfo != b.extendInfo || !bytes.Equal(a.ext, b.ext):
		return "ext"
	}
	return ""
}

var c30FreshCache sync.Map // "spec|state" -> c30Outcome

// c30Fresh: what a brand-new PacketReader makes of these bytes alone.
func c30Fresh(s c30Spec, state string, seg []byte) c30Outcome {
	k := fmt.Sprintf("%v|%s", s, state)
	if v, ok := c30FreshCache.Load(k); ok {
		return v.(c30Outcome)
	}
	o := c30ReadOne(NewPacketReader(&c30Chunker{data: seg}))
	c30FreshCache.Store(k, o)
	return o
}

// ---- mode continue

func c30HistContinue(r *ev.Run, hs *c30HistStats, h *c30HistCase) bool {
	viol := func(sig, f string, a ...interface{}) {
		c := &c30Case{Pkts: h.Pkts, CorOff: -1, Family: "history", Hist: h}
		r.Violation(sig, fmt.Sprintf(f, a...)+"; case="+h.String(), c)
	}
	var stream []byte
	segs := make([][]byte, len(h.Pkts))
	for i, s := range h.Pkts {
		seg, ok := c30Apply(s, h.States[i])
		if !ok {
			return false
		}
		if h.States[i] != "intact" {
			if d := c30DamageByName[stateClass(h.States[i])]; !d.framing {
				return false // would desynchronise the framing: not a "continue" history
			}
		}
		segs[i] = seg
		stream = append(stream, seg...)
	}
	atomic.AddInt64(&hs.cont, 1)
	pr := NewPacketReader(&c30Chunker{data: stream, uniform: h.Uniform})
	rejectedBefore := false
	for i, s := range h.Pkts {
		fresh := c30Fresh(s, h.States[i], segs[i])
		if fresh.pan != "" {
			viol("history:fresh-reader-panic", "packet #%d alone: %s", i, fresh.pan)
			return true
		}
		if h.States[i] == "intact" {
			if !fresh.ok {
				viol("history:fresh-reader-rejects-intact", "packet #%d", i)
				return true
			} else if d := c30Diff(s, fresh.pkt); d != "" {
				viol("history:fresh-reader-field-mismatch:"+d, "packet #%d", i)
				return true
			}
		}
		got := c30ReadOne(pr)
		switch {
		case got.pan != "":
			viol("history:panic", "reading packet #%d: %s", i, got.pan)
			return true
		case got.ok != fresh.ok:
			if h.States[i] == "intact" && rejectedBefore {
				viol("history:intact-packet-rejected-after-earlier-rejection",
					"intact packet #%d is rejected by a PacketReader that rejected an earlier packet (a fresh reader accepts the same bytes)", i)
			} else if h.States[i] == "intact" {
				viol("history:intact-packet-rejected", "intact packet #%d rejected by the long-lived reader, accepted by a fresh one", i)
			} else {
				viol("history:decision-differs-from-fresh-reader:"+stateClass(h.States[i]),
					"packet #%d (%s): long-lived reader accepted=%v, fresh reader accepted=%v", i, h.States[i], got.ok, fresh.ok)
			}
			return true
		case got.ok:
			if d := c30SamePacket(got.pkt, fresh.pkt); d != "" {
				viol("history:fields-differ-from-fresh-reader:"+d, "packet #%d (%s)", i, h.States[i])
				return true
			}
		}
		if !got.ok {
			if h.States[i] == "intact" {
				// cannot happen here (covered above), kept for clarity
				return true
			}
			rejectedBefore = true
		} else if rejectedBefore && h.States[i] == "intact" {
			atomic.AddInt64(&hs.rejectedThenIntact, 1)
		}
	}
	if _, err := pr.ReadPacket(); err != io.EOF {
		viol("history:no-EOF-after-last", "err=%v", err)
	}
	return true
}

func stateClass(state string) string {
	if i := bytes.IndexByte([]byte(state), '^'); i >= 0 {
		return state[:i]
	}
	return state
}

// ---- mode reset

func c30HistReset(r *ev.Run, hs *c30HistStats, h *c30HistCase) bool {
	viol := func(sig, f string, a ...interface{}) {
		c := &c30Case{Pkts: h.Pkts, CorOff: -1, Family: "history", Hist: h}
		r.Violation(sig, fmt.Sprintf(f, a...)+"; case="+h.String(), c)
	}
	k := h.K
	state := h.States[k]
	var s1, s2 []byte
	for i := 0; i < k; i++ {
		s1 = append(s1, c30Segment(h.Pkts[i])...)
	}
	seg, ok := c30Apply(h.Pkts[k], state)
	if !ok {
		return false
	}
	s1 = append(s1, seg...)
	for i := k + 1; i < len(h.Pkts); i++ {
		s2 = append(s2, c30Segment(h.Pkts[i])...)
	}
	atomic.AddInt64(&hs.reset, 1)
	pr := NewPacketReader(&c30Chunker{data: s1, uniform: h.Uniform})
	for i := 0; i < k; i++ {
		got := c30ReadOne(pr)
		if got.pan != "" || !got.ok {
			viol("reset:earlier-packet-lost", "packet #%d before the damaged one: ok=%v panic=%q", i, got.ok, got.pan)
			return true
		}
		if d := c30Diff(h.Pkts[i], got.pkt); d != "" {
			viol("reset:earlier-packet-differs:"+d, "packet #%d", i)
			return true
		}
	}
	// read the damaged packet and on until the reader fails (at most 3 more reads)
	failed := false
	for j := 0; j < 3; j++ {
		got := c30ReadOne(pr)
		if got.pan != "" {
			viol("reset:panic", "reading the damaged packet: %s", got.pan)
			return true
		}
		if !got.ok {
			failed = true
			break
		}
	}
	if !failed {
		viol("reset:reader-never-fails", "stream 1 ends after the damaged packet, yet 3 more reads succeeded")
		return true
	}
	if state != "intact" {
		atomic.AddInt64(&hs.resetAfterFailure, 1)
	}
	pr.Reset(&c30Chunker{data: s2, uniform: h.Uniform})
	for i := k + 1; i < len(h.Pkts); i++ {
		got := c30ReadOne(pr)
		if got.pan != "" {
			viol("reset:panic-after-Reset", "%s", got.pan)
			return true
		}
		if !got.ok {
			viol("reset:packet-rejected-after-Reset:"+stateClass(state), "intact packet #%d of the new stream is rejected after Reset (the reader had failed on %s)", i, state)
			return true
		}
		if d := c30Diff(h.Pkts[i], got.pkt); d != "" {
			viol("reset:field-mismatch-after-Reset:"+d, "packet #%d (reader had failed on %s)", i, state)
			return true
		}
	}
	if _, err := pr.ReadPacket(); err != io.EOF {
		viol("reset:no-EOF-after-last", "err=%v", err)
	}
	return true
}

// ---- mode writer

type c30FailWriter struct {
	buf     bytes.Buffer
	calls   int
	failAt  int
	partial bool
	failed  bool
}

var errC30Broken = errors.New("verif: broken pipe")

func (w *c30FailWriter) Write(p []byte) (int, error) {
	i := w.calls
	w.calls++
	if i == w.failAt || w.failed {
		w.failed = true
		if w.partial && i == w.failAt {
			n := len(p) / 2
			w.buf.Write(p[:n])
			return n, errC30Broken
		}
		return 0, errC30Broken
	}
	return w.buf.Write(p)
}

func c30HistWriter(r *ev.Run, hs *c30HistStats, h *c30HistCase) bool {
	viol := func(sig, f string, a ...interface{}) {
		c := &c30Case{Pkts: h.Pkts, CorOff: -1, Family: "history", Hist: h}
		r.Violation(sig, fmt.Sprintf(f, a...)+"; case="+h.String(), c)
	}
	atomic.AddInt64(&hs.writer, 1)
	var clean []byte
	for _, s := range h.Pkts {
		clean = append(clean, c30Segment(s)...)
	}
	fw := &c30FailWriter{failAt: h.FailAt, partial: h.Partial}
	var good bytes.Buffer
	var pw *PacketWriter
	pan := ev.Catch(func() {
		pw = NewPacketWriter(fw)
		err0 := pw.WritePacket(h.Pkts[0].build())
		first := c30Segment(h.Pkts[0])
		if err0 == nil && !bytes.Equal(fw.buf.Bytes(), first) {
			viol("writer:silent-loss", "WritePacket returned nil but %d of %d bytes reached the writer", fw.buf.Len(), len(first))
			return
		}
		if err0 != nil {
			atomic.AddInt64(&hs.writerFailures, 1)
		}
		if !bytes.Equal(fw.buf.Bytes(), first[:fw.buf.Len()]) {
			viol("writer:garbage-before-failure", "bytes that reached the failing writer are not a prefix of the packet")
			return
		}
		if h.NoReset {
			// keep using the broken writer: every further packet must either fail or be complete and in order
			for i := 1; i < len(h.Pkts); i++ {
				e := pw.WritePacket(h.Pkts[i].build())
				if e == nil && err0 != nil {
					viol("writer:success-after-failure-without-Reset", "packet #%d reported written on a writer whose stream is broken", i)
					return
				}
			}
			if n := fw.buf.Len(); n > len(clean) || !bytes.Equal(fw.buf.Bytes(), clean[:n]) {
				viol("writer:stream-not-a-prefix", "bytes on the broken writer are not a prefix of the packet sequence")
			}
			return
		}
		pw.Reset(&good)
		for i := 1; i < len(h.Pkts); i++ {
			if e := pw.WritePacket(h.Pkts[i].build()); e != nil {
				viol("writer:error-after-Reset", "packet #%d after Reset onto a good writer: %v (first writer failed=%v)", i, e, err0 != nil)
				return
			}
		}
		if want := clean[len(first):]; !bytes.Equal(good.Bytes(), want) {
			viol("writer:stream-differs-after-Reset", "after Reset the new writer got %d bytes, want %d (leftovers of the failed packet / lost bytes)", good.Len(), len(want))
		}
	})
	if pan != "" {
		viol("writer:panic", "%s", pan)
	}
	return true
}

// c30HistTwice: the same *Packet written twice (cached header/footer/hash) decodes twice.
func c30HistTwice(r *ev.Run, hs *c30HistStats, s c30Spec) {
	h := &c30HistCase{Mode: "twice", Pkts: []c30Spec{s}}
	atomic.AddInt64(&hs.writer, 1)
	var buf bytes.Buffer
	pw := NewPacketWriter(&buf)
	p := s.build()
	e1, e2 := pw.WritePacket(p), pw.WritePacket(p)
	seg := c30Segment(s)
	if e1 != nil || e2 != nil || !bytes.Equal(buf.Bytes(), append(append([]byte(nil), seg...), seg...)) {
		r.Violation("writer:same-packet-twice", fmt.Sprintf("errs %v/%v, %d bytes; case=%s", e1, e2, buf.Len(), h), &c30Case{Pkts: h.Pkts, CorOff: -1, Family: "history", Hist: h})
	}
}

func c30HistRun(r *ev.Run, hs *c30HistStats, h *c30HistCase) bool {
	switch h.Mode {
	case "continue":
		return c30HistContinue(r, hs, h)
	case "reset":
		return c30HistReset(r, hs, h)
	case "writer":
		return c30HistWriter(r, hs, h)
	case "twice":
		c30HistTwice(r, hs, h.Pkts[0])
	}
	return true
}

// ---- enumeration

func c30HistTier(r *ev.Run, hs *c30HistStats) (complete bool) {
	quick := r.Quick()
	corpus := []c30Shape{{0, 0, 0}, {1, 1, 1}, {100, 0, 0}, {1024, packetExtendMaxHint, packetExtendMaxLen}, {5000, 0, 0}, {2, 2, 20}}
	damages := c30Damages()
	var contStates, contStates1 []string // all xor values / one xor value
	var resetStates []string
	contStates, contStates1 = []string{"intact"}, []string{"intact"}
	resetStates = []string{"intact"}
	for _, d := range damages {
		for _, x := range []byte{0x01, 0x80} {
			if d.trunc && x != 0x01 {
				continue
			}
			st := c30StateName(d, x)
			if d.framing {
				contStates = append(contStates, st)
				if x == 0x80 {
					contStates1 = append(contStates1, st)
				}
			}
			resetStates = append(resetStates, st)
		}
	}
	// the family addresses bytes by their offset in the packet layout: the writer must produce that layout
	for i := 0; i < 3; i++ {
		for _, sh := range corpus {
			sp := c30FieldsFor(i, sh)
			seg, err := c30Stream([]c30Spec{sp})
			if err != nil || len(seg) != sp.size() {
				c := &c30Case{Pkts: []c30Spec{sp}, CorOff: -1, Family: "write"}
				r.Violation("write:stream-length", fmt.Sprintf("PacketWriter produced %d bytes (err=%v), want %d; case=%s", len(seg), err, sp.size(), c30Desc(c)), c)
				r.Eval(1)
				return true // layout broken: nothing of this family can be addressed
			}
		}
	}
	var cases []c30HistCase
	specsOf := func(seq []int) []c30Spec {
		out := make([]c30Spec, len(seq))
		for i, ci := range seq {
			out[i] = c30FieldsFor(i, corpus[ci])
		}
		return out
	}
	nc := len(corpus)
	if quick {
		nc = 4 // quick: triples over the first 4 corpus packets
	}
	// continue: all ordered pairs x full state product; all ordered triples x state product (one xor value)
	opseq.Sequences(len(corpus), 2, 3, func(seq []int) bool {
		if len(seq) == 3 {
			for _, ci := range seq {
				if ci >= nc {
					return true
				}
			}
		}
		specs := specsOf(seq)
		alpha := contStates
		if len(seq) == 3 {
			alpha = contStates1
		}
		dims := make([]int, len(seq))
		for i := range dims {
			dims[i] = len(alpha)
		}
		opseq.Product(dims, func(ix []int) bool {
			states := make([]string, len(ix))
			damaged := false
			for i, j := range ix {
				states[i] = alpha[j]
				damaged = damaged || j != 0
			}
			if !damaged {
				return true // all-intact streams are the other families
			}
			for _, u := range []int{0, 7} {
				if u != 0 && len(seq) == 3 {
					continue
				}
				cases = append(cases, c30HistCase{Mode: "continue", Pkts: specs, States: states, Uniform: u})
			}
			return true
		})
		// reset: damaged packet k (every state incl. intact = clean EOF), the rest on a new stream
		for k := 0; k+1 < len(seq); k++ {
			for _, st := range resetStates {
				states := make([]string, len(seq))
				for i := range states {
					states[i] = "intact"
				}
				states[k] = st
				for _, u := range []int{0, 7} {
					cases = append(cases, c30HistCase{Mode: "reset", Pkts: specs, States: states, K: k, Uniform: u})
				}
			}
		}
		// writer: the underlying writer fails at its j-th call (or never), then Reset / no Reset
		if len(seq) == 2 || !quick {
			for fail := -1; fail < 4; fail++ {
				for _, partial := range []bool{false, true} {
					if fail < 0 && partial {
						continue
					}
					for _, noReset := range []bool{false, true} {
						cases = append(cases, c30HistCase{Mode: "writer", Pkts: specs, FailAt: fail, Partial: partial, NoReset: noReset})
					}
				}
			}
		}
		return true
	})
	var applicable, incomplete int64
	ev.Par(len(cases), 16, func(i int) {
		if i%4096 == 0 && r.Expired() {
			atomic.StoreInt64(&incomplete, 1)
		}
		if atomic.LoadInt64(&incomplete) != 0 {
			return
		}
		if c30HistRun(r, hs, &cases[i]) {
			atomic.AddInt64(&applicable, 1)
		}
	})
	for i := range corpus {
		c30HistTwice(r, hs, c30FieldsFor(0, corpus[i]))
		applicable++
	}
	r.Eval(int(applicable))
	opseq.Sequences(len(corpus), 2, 3, func(seq []int) bool {
		for _, m := range []string{"continue", "reset", "writer"} {
			r.Nontrivial(fmt.Sprintf("history|%s|%v", m, seq))
		}
		return true
	})
	r.Set("history_cases_generated", len(cases))
	r.Set("history_cases_applicable", applicable)
	r.Set("history_continue_runs", hs.cont)
	r.Set("history_intact_packets_read_after_a_rejection_on_the_same_reader", hs.rejectedThenIntact)
	r.Set("history_reset_runs", hs.reset)
	r.Set("history_resets_after_a_failure", hs.resetAfterFailure)
	r.Set("history_writer_runs", hs.writer)
	r.Set("history_writer_runs_with_failed_first_packet", hs.writerFailures)
	if incomplete == 0 {
		r.Sanity(hs.rejectedThenIntact > 1000 && hs.resetAfterFailure > 1000 && hs.writerFailures > 10, "history family vacuous: %d/%d/%d", hs.rejectedThenIntact, hs.resetAfterFailure, hs.writerFailures)
	}
	return incomplete == 0
}
