//go:build verif

package network

// C30 — P2P packet framing round-trips under any stream chunking and detects
// header/payload corruption.
//
// Everything below drives the REAL Packet / PacketWriter / PacketReader code.
// The environment (how the byte stream is cut into Read results, whether the
// final bytes arrive together with io.EOF, which byte was altered in transit)
// is enumerated, never sampled.

import (
	"bytes"
	"fmt"
	"io"
	"runtime"
	"runtime/debug"
	"sort"
	"sync"
	"sync/atomic"
	"testing"

	"github.com/icon-project/goloop/module"
	"github.com/icon-project/goloop/verifshim/ev"
	"github.com/icon-project/goloop/verifshim/opseq"
)

// ---------------------------------------------------------------- case model

type c30Spec struct {
	Proto uint16 `json:"proto"`
	Sub   uint16 `json:"sub"`
	Src   int    `json:"src"` // index into c30SrcIDs
	Dest  byte   `json:"dest"`
	TTL   byte   `json:"ttl"`
	PLen  int    `json:"plen"`
	Hint  int    `json:"hint"`
	ELen  int    `json:"elen"`
	Seed  int    `json:"seed"` // content seed of payload/ext bytes
}

func (s c30Spec) size() int { return packetHeaderSize + s.PLen + packetFooterSize + s.ELen }

type c30Case struct {
	Pkts    []c30Spec    `json:"pkts"`
	Cuts    []int        `json:"cuts,omitempty"`    // absolute offsets a Read never crosses
	Uniform int          `json:"uniform,omitempty"` // additionally cut at every multiple of Uniform
	EOFData bool         `json:"eof_with_data,omitempty"`
	CorOff  int          `json:"corrupt_off"` // -1: none
	CorXor  byte         `json:"corrupt_xor,omitempty"`
	Family  string       `json:"family"`
	Hist    *c30HistCase `json:"hist,omitempty"` // family "history" (c30_hist_test.go)
}

var c30SrcIDs = [][]byte{
	{0x01, 0x02, 0x03, 0x04, 0x05, 0x06, 0x07, 0x08, 0x09, 0x0a, 0x0b, 0x0c, 0x0d, 0x0e, 0x0f, 0x10, 0x11, 0x12, 0x13, 0x14},
	{0xff, 0xfe, 0xfd, 0xfc, 0xfb, 0xfa, 0xf9, 0xf8, 0xf7, 0xf6, 0xf5, 0xf4, 0xf3, 0xf2, 0xf1, 0xf0, 0x00, 0x00, 0x80, 0x7f},
}

var c30Content sync.Map // [2]int{n, seed} -> []byte

// c30Bytes is deterministic filler (an LCG stream); it is content, not a
// sampled dimension of the space. Slices are cached and must not be modified.
func c30Bytes(n, seed int) []byte {
	k := [2]int{n, seed}
	if b, ok := c30Content.Load(k); ok {
		return b.([]byte)
	}
	b := make([]byte, n)
	x := uint32(seed)*2654435761 + 12345
	for i := range b {
		x = x*1664525 + 1013904223
		b[i] = byte(x >> 24)
	}
	v, _ := c30Content.LoadOrStore(k, b)
	return v.([]byte)
}

// build creates the packet the way goloop does: NewPacket + header fields; an
// extension is attached exactly like PeerToPeer.sendToFriends does it
// (updateHash, extendInfo, footerToBytes(true), ext).
func (s c30Spec) build() *Packet {
	p := NewPacket(module.ProtocolInfo(s.Proto), module.ProtocolInfo(s.Sub), c30Bytes(s.PLen, s.Seed))
	p.src = NewPeerID(c30SrcIDs[s.Src])
	p.dest = s.Dest
	p.ttl = s.TTL
	if s.ELen > 0 || s.Hint > 0 {
		_ = p.updateHash(false)
		p.extendInfo = newPacketExtendInfo(byte(s.Hint), s.ELen)
		p.footerToBytes(true)
		p.ext = c30Bytes(s.ELen, s.Seed+7777)
	}
	return p
}

// c30Stream writes the packets through the real PacketWriter.
func c30Stream(specs []c30Spec) ([]byte, error) {
	total := 0
	for _, s := range specs {
		total += s.size()
	}
	var buf bytes.Buffer
	buf.Grow(total)
	pw := NewPacketWriter(&buf)
	for _, s := range specs {
		if err := pw.WritePacket(s.build()); err != nil {
			return nil, err
		}
	}
	return buf.Bytes(), nil
}

// c30Chunker is the environment: an io.Reader over a fixed byte stream whose
// Read results never cross a cut point.
type c30Chunker struct {
	data    []byte
	pos     int
	cuts    []int // sorted
	ci      int
	uniform int
	eofData bool
	reads   int
}

func (c *c30Chunker) Read(p []byte) (int, error) {
	c.reads++
	if c.pos >= len(c.data) {
		return 0, io.EOF
	}
	if len(p) == 0 {
		return 0, nil
	}
	lim := len(c.data)
	for c.ci < len(c.cuts) && c.cuts[c.ci] <= c.pos {
		c.ci++
	}
	if c.ci < len(c.cuts) && c.cuts[c.ci] < lim {
		lim = c.cuts[c.ci]
	}
	if c.uniform > 0 {
		if nb := (c.pos/c.uniform + 1) * c.uniform; nb < lim {
			lim = nb
		}
	}
	n := copy(p, c.data[c.pos:lim])
	c.pos += n
	if c.eofData && c.pos >= len(c.data) {
		return n, io.EOF
	}
	return n, nil
}

// c30ReadAll reads packets with the real PacketReader until it fails.
func c30ReadAll(rd io.Reader, max int) (pkts []*Packet, err error, panicked string) {
	panicked = ev.Catch(func() {
		pr := NewPacketReader(rd)
		for i := 0; i < max; i++ {
			var pkt *Packet
			pkt, err = pr.ReadPacket()
			if err != nil {
				return
			}
			pkts = append(pkts, pkt)
		}
	})
	return
}

// c30Diff compares a read packet with what was written, field by field, as the
// property lists them. "" = equal.
func c30Diff(s c30Spec, p *Packet) string {
	switch {
	case p.protocol.Uint16() != s.Proto:
		return "protocol"
	case p.subProtocol.Uint16() != s.Sub:
		return "subProtocol"
	case p.src == nil || !bytes.Equal(p.src.Bytes(), c30SrcIDs[s.Src]):
		return "src"
	case p.dest != s.Dest:
		return "dest"
	case p.ttl != s.TTL:
		return "ttl"
	case int(p.lengthOfPayload) != s.PLen:
		return "lengthOfPayload"
	case !bytes.Equal(p.payload, c30Bytes(s.PLen, s.Seed)):
		return "payload"
	case p.extendInfo.len() != s.ELen:
		return "extLen"
	case int(p.extendInfo.hint()) != s.Hint:
		return "extHint"
	case !bytes.Equal(p.ext, c30Bytes(s.ELen, s.Seed+7777)):
		return "ext"
	}
	return ""
}

// ---------------------------------------------------------------- oracles

type c30Stats struct {
	runs, chunkRuns, corruptRuns, rejected, tolerated, relays, eofDataRuns int64
	maxReads                                                               int64
}

// c30CheckClean: the stream is intact; every packet must come back equal and the
// reader must then report io.EOF (no invented packet).
func c30CheckClean(r *ev.Run, st *c30Stats, c *c30Case, stream []byte) {
	atomic.AddInt64(&st.runs, 1)
	atomic.AddInt64(&st.chunkRuns, 1)
	if c.EOFData {
		atomic.AddInt64(&st.eofDataRuns, 1)
	}
	ch := &c30Chunker{data: stream, cuts: c.Cuts, uniform: c.Uniform, eofData: c.EOFData}
	pkts, err, pan := c30ReadAll(ch, len(c.Pkts)+1)
	for {
		old := atomic.LoadInt64(&st.maxReads)
		if int64(ch.reads) <= old || atomic.CompareAndSwapInt64(&st.maxReads, old, int64(ch.reads)) {
			break
		}
	}
	if pan != "" {
		r.Violation("roundtrip:panic:"+c.Family, fmt.Sprintf("panic %q reading intact stream; case=%s", pan, c30Desc(c)), c)
		return
	}
	if len(pkts) < len(c.Pkts) {
		r.Violation("roundtrip:intact-packet-rejected:"+c.Family,
			fmt.Sprintf("packet #%d of an intact stream rejected: %v; case=%s", len(pkts), err, c30Desc(c)), c)
		return
	}
	if len(pkts) > len(c.Pkts) {
		r.Violation("roundtrip:extra-packet:"+c.Family, fmt.Sprintf("reader produced more packets than written; case=%s", c30Desc(c)), c)
		return
	}
	for i, p := range pkts {
		if d := c30Diff(c.Pkts[i], p); d != "" {
			r.Violation("roundtrip:field-mismatch:"+d, fmt.Sprintf("packet #%d differs in %s (got %v); case=%s", i, d, p, c30Desc(c)), c)
			return
		}
	}
	if err != io.EOF {
		r.Violation("roundtrip:no-EOF-after-last:"+c.Family, fmt.Sprintf("after the last packet err=%v, want io.EOF; case=%s", err, c30Desc(c)), c)
	}
}

// c30CheckRelay: a packet that was read is itself a packet that can be written
// (relaying); it must serialise to the very bytes it was read from.
func c30CheckRelay(r *ev.Run, st *c30Stats, c *c30Case, stream []byte) {
	atomic.AddInt64(&st.relays, 1)
	pkts, _, pan := c30ReadAll(&c30Chunker{data: stream}, len(c.Pkts))
	if pan != "" || len(pkts) != len(c.Pkts) {
		return // reported by c30CheckClean
	}
	var buf bytes.Buffer
	pw := NewPacketWriter(&buf)
	for _, p := range pkts {
		if err := pw.WritePacket(p); err != nil {
			r.Violation("relay:write-error", fmt.Sprintf("re-writing a read packet failed: %v; case=%s", err, c30Desc(c)), c)
			return
		}
	}
	if !bytes.Equal(buf.Bytes(), stream) {
		r.Violation("relay:bytes-differ", fmt.Sprintf("re-written packets differ from the bytes they were read from; case=%s", c30Desc(c)), c)
	}
}

// region of a stream offset: packet index and part.
func c30Region(specs []c30Spec, off int) (k int, part string, rel int) {
	base := 0
	for i, s := range specs {
		if off < base+s.size() {
			o := off - base
			switch {
			case o < packetHeaderSize:
				return i, "header", o
			case o < packetHeaderSize+s.PLen:
				return i, "payload", o - packetHeaderSize
			case o < packetHeaderSize+s.PLen+8:
				return i, "footer-hash", o - packetHeaderSize - s.PLen
			case o < packetHeaderSize+s.PLen+packetFooterSize:
				return i, "footer-extinfo", o - packetHeaderSize - s.PLen - 8
			default:
				return i, "ext", o - packetHeaderSize - s.PLen - packetFooterSize
			}
		}
		base += s.size()
	}
	return -1, "", 0
}

func c30HeaderField(rel int) string {
	switch {
	case rel < 2:
		return "protocol"
	case rel < 4:
		return "subProtocol"
	case rel < 4+peerIDSize:
		return "src"
	case rel == 4+peerIDSize:
		return "dest"
	case rel == 5+peerIDSize:
		return "ttl"
	}
	return "length"
}

// c30CheckCorrupt: one byte of the stream was altered in transit (stream is
// modified in place and restored).
func c30CheckCorrupt(r *ev.Run, st *c30Stats, c *c30Case, stream []byte) {
	atomic.AddInt64(&st.runs, 1)
	atomic.AddInt64(&st.corruptRuns, 1)
	k, part, rel := c30Region(c.Pkts, c.CorOff)
	stream[c.CorOff] ^= c.CorXor
	pkts, err, pan := c30ReadAll(&c30Chunker{data: stream, cuts: c.Cuts, uniform: c.Uniform}, len(c.Pkts)+1)
	stream[c.CorOff] ^= c.CorXor
	if pan != "" {
		r.Violation("corrupt:panic:"+part, fmt.Sprintf("panic %q; case=%s", pan, c30Desc(c)), c)
		return
	}
	// packets before the altered one are intact and must be delivered unchanged
	if len(pkts) < k {
		r.Violation("corrupt:earlier-packet-lost", fmt.Sprintf("only %d packets read before altered packet #%d (err=%v); case=%s", len(pkts), k, err, c30Desc(c)), c)
		return
	}
	for i := 0; i < k; i++ {
		if d := c30Diff(c.Pkts[i], pkts[i]); d != "" {
			r.Violation("corrupt:earlier-packet-differs:"+d, fmt.Sprintf("packet #%d before the altered one differs in %s; case=%s", i, d, c30Desc(c)), c)
			return
		}
	}
	accepted := len(pkts) > k
	switch part {
	case "header", "payload":
		if accepted {
			sub := part
			if part == "header" {
				sub = "header-" + c30HeaderField(rel)
			}
			r.Violation("corrupt:accepted:"+sub,
				fmt.Sprintf("packet #%d with altered %s byte %d (xor %#02x) was accepted: %v; case=%s", k, part, rel, c.CorXor, pkts[k], c30Desc(c)), c)
			return
		}
		atomic.AddInt64(&st.rejected, 1)
	case "footer-hash":
		// not demanded by the statement, but an accepted packet must still be the written one
		if accepted {
			if d := c30Diff(c.Pkts[k], pkts[k]); d != "" {
				r.Violation("corrupt:footer-hash-accepted-and-differs:"+d, fmt.Sprintf("case=%s", c30Desc(c)), c)
				return
			}
			atomic.AddInt64(&st.tolerated, 1)
		} else {
			atomic.AddInt64(&st.rejected, 1)
		}
	default:
		// extend info / ext bytes are not covered by the packet hash by design:
		// only "no panic, earlier packets intact" is demanded
		if accepted {
			atomic.AddInt64(&st.tolerated, 1)
		} else {
			atomic.AddInt64(&st.rejected, 1)
		}
	}
}

func c30Desc(c *c30Case) string {
	s := "["
	for i, p := range c.Pkts {
		if i > 0 {
			s += " "
		}
		s += fmt.Sprintf("{pi:%#04x/%#04x src:%d dest:%#02x ttl:%d plen:%d ext:%d/%d}", p.Proto, p.Sub, p.Src, p.Dest, p.TTL, p.PLen, p.Hint, p.ELen)
	}
	s += "] " + c.Family
	if len(c.Cuts) > 0 {
		s += fmt.Sprintf(" cuts=%v", c.Cuts)
	}
	if c.Uniform > 0 {
		s += fmt.Sprintf(" uniform=%d", c.Uniform)
	}
	if c.EOFData {
		s += " eof-with-data"
	}
	if c.CorOff >= 0 {
		s += fmt.Sprintf(" corrupt@%d^%#02x", c.CorOff, c.CorXor)
	}
	return s
}

// ---------------------------------------------------------------- enumeration

type c30Shape struct{ PLen, Hint, ELen int }

// boundaries of the parts of every packet in the stream (sorted, distinct).
func c30Boundaries(specs []c30Spec) []int {
	m := map[int]struct{}{}
	base := 0
	for _, s := range specs {
		for _, b := range []int{base, base + packetHeaderSize, base + packetHeaderSize + s.PLen,
			base + packetHeaderSize + s.PLen + packetFooterSize, base + s.size()} {
			m[b] = struct{}{}
		}
		base += s.size()
	}
	out := make([]int, 0, len(m))
	for b := range m {
		out = append(out, b)
	}
	sort.Ints(out)
	return out
}

const c30Window = 12

func c30WindowCuts(b, total, w int) []int {
	var out []int
	for d := -w; d <= w; d++ {
		if o := b + d; o > 0 && o < total {
			out = append(out, o)
		}
	}
	return out
}

// c30FieldsFor derives header fields for the i-th packet of a shape stream so that
// neighbouring packets differ in every field.
func c30FieldsFor(i int, sh c30Shape) c30Spec {
	protos := []uint16{0x0000, 0x0100, 0xffff}
	subs := []uint16{0x0000, 0x0501}
	dests := []byte{0x00, 0x01, 0x02, 0xff}
	ttls := []byte{0, 1, 255}
	return c30Spec{Proto: protos[i%3], Sub: subs[i%2], Src: i % 2, Dest: dests[(i+3)%4], TTL: ttls[(i+1)%3],
		PLen: sh.PLen, Hint: sh.Hint, ELen: sh.ELen, Seed: i + 1}
}

// c30Level says which environment families are enumerated for one stream.
type c30Level struct {
	uniform     []int // uniform chunk sizes
	cutsMax     int   // streams <= 200 bytes: every chunking with <= cutsMax cuts at every byte offset
	win1        int   // >0: every single cut within +-win1 of each part boundary
	win2        int   // >0: every cut pair from the same or adjacent +-win2 boundary windows
	relay       bool
	corrupt     int // 0 none, -1 header only (xor 0x80), 1 header + payload edges, 2 + every payload offset (stride inside payloads > 2048)
	corruptStep int
	xors        []byte // substitution masks (default 0x01, 0x80, 0xff)
	edge        int    // payload edge window for corrupt levels without every offset (default 12)
	part, parts int    // this job runs the cases whose running index = part (mod parts)
}

func c30Range(n int) []int {
	out := make([]int, n)
	for i := range out {
		out[i] = i + 1
	}
	return out
}

// c30Explore runs every environment of the level against one stream.
func c30Explore(r *ev.Run, st *c30Stats, specs []c30Spec, lv c30Level) (complete bool) {
	stream, err := c30Stream(specs)
	total := 0
	for _, s := range specs {
		total += s.size()
	}
	base := c30Case{Pkts: specs, CorOff: -1}
	if err != nil || len(stream) != total {
		c := base
		c.Family = "write"
		r.Violation("write:stream-length", fmt.Sprintf("PacketWriter produced %d bytes (err=%v), want %d; case=%s", len(stream), err, total, c30Desc(&c)), &c)
		return true
	}
	if lv.parts == 0 {
		lv.parts = 1
	}
	idx, done := 0, 0
	defer func() { r.Eval(done) }()
	mine := func() bool { // partition of the case list over parallel jobs
		idx++
		if (idx-1)%lv.parts != lv.part {
			return false
		}
		done++
		return true
	}
	clean := func(c c30Case) {
		if mine() {
			c30CheckClean(r, st, &c, stream)
		}
	}
	skey := c30Desc(&base)
	// default environment: everything at once; EOF separately / together with the last bytes
	for _, eofData := range []bool{false, true} {
		c := base
		c.Family, c.EOFData = "all-at-once", eofData
		clean(c)
	}
	r.Nontrivial(skey + "|all-at-once")
	if lv.relay && mine() {
		c := base
		c.Family = "relay"
		c30CheckRelay(r, st, &c, stream)
	}
	for _, u := range lv.uniform {
		if r.Expired() {
			return false
		}
		c := base
		c.Family, c.Uniform = "uniform", u
		clean(c)
		if u == 1 || u == 7 {
			c.EOFData = true
			clean(c)
		}
	}
	if len(lv.uniform) > 0 {
		r.Nontrivial(skey + "|uniform")
	}
	if total <= 200 {
		for a := 1; a < total && lv.cutsMax >= 1; a++ {
			c := base
			c.Family, c.Cuts = "cuts<=2", []int{a}
			clean(c)
			for b := a + 1; b < total && lv.cutsMax >= 2; b++ {
				c := base
				c.Family, c.Cuts = "cuts<=2", []int{a, b}
				clean(c)
			}
		}
		r.Nontrivial(skey + "|cuts<=2")
	} else {
		bs := c30Boundaries(specs)
		if lv.win1 > 0 {
			single := map[int]struct{}{}
			for _, b := range bs {
				for _, o := range c30WindowCuts(b, total, lv.win1) {
					single[o] = struct{}{}
				}
			}
			var singles []int
			for o := range single {
				singles = append(singles, o)
			}
			sort.Ints(singles)
			for _, o := range singles {
				if r.Expired() {
					return false
				}
				c := base
				c.Family, c.Cuts = "boundary-cut1", []int{o}
				clean(c)
			}
			r.Nontrivial(skey + "|boundary-cut1")
		}
		if lv.win2 > 0 {
			wins := make([][]int, len(bs))
			for i, b := range bs {
				wins[i] = c30WindowCuts(b, total, lv.win2)
			}
			seen := map[[2]int]struct{}{}
			for i := range bs {
				for j := i; j <= i+1 && j < len(bs); j++ {
					for _, a := range wins[i] {
						for _, b := range wins[j] {
							if a >= b {
								continue
							}
							k := [2]int{a, b}
							if _, dup := seen[k]; dup {
								continue
							}
							seen[k] = struct{}{}
							c := base
							c.Family, c.Cuts = "boundary-cut2", []int{a, b}
							clean(c)
						}
					}
					if r.Expired() {
						return false
					}
				}
			}
			r.Nontrivial(skey + "|boundary-cut2")
		}
	}
	if lv.corrupt != 0 {
		offs := map[int]struct{}{}
		xors := []byte{0x01, 0x80, 0xff}
		if lv.corrupt < 0 {
			xors = []byte{0x80}
		}
		if lv.xors != nil {
			xors = lv.xors
		}
		edge := c30Window
		if lv.edge > 0 {
			edge = lv.edge
		}
		b0 := 0
		for _, s := range specs {
			hdrEnd := b0 + packetHeaderSize
			payEnd := hdrEnd + s.PLen
			for o := b0; o < hdrEnd; o++ {
				offs[o] = struct{}{}
			}
			if lv.corrupt < 0 {
				b0 += s.size()
				continue
			}
			if lv.corrupt >= 2 && s.PLen <= 2048 {
				for o := hdrEnd; o < payEnd; o++ {
					offs[o] = struct{}{}
				}
			} else {
				for d := 0; d < edge && d < s.PLen; d++ {
					offs[hdrEnd+d] = struct{}{}
					offs[payEnd-1-d] = struct{}{}
				}
				if lv.corrupt >= 2 {
					for o := hdrEnd; o < payEnd; o += lv.corruptStep {
						offs[o] = struct{}{}
					}
				}
			}
			// footer completely, ext edges (unhashed regions: no panic, earlier packets intact)
			for o := payEnd; o < payEnd+packetFooterSize; o++ {
				offs[o] = struct{}{}
			}
			for d := 0; d < 3 && d < s.ELen; d++ {
				offs[payEnd+packetFooterSize+d] = struct{}{}
				offs[b0+s.size()-1-d] = struct{}{}
			}
			b0 += s.size()
		}
		list := make([]int, 0, len(offs))
		for o := range offs {
			list = append(list, o)
		}
		sort.Ints(list)
		for _, o := range list {
			if r.Expired() {
				return false
			}
			for _, x := range xors {
				if !mine() {
					continue
				}
				c := base
				c.Family, c.CorOff, c.CorXor = "corrupt", o, x
				c30CheckCorrupt(r, st, &c, stream)
			}
		}
		// header corruptions under a non-default chunking as well
		for _, o := range list {
			if _, part, _ := c30Region(specs, o); part != "header" || lv.corrupt < 0 || !mine() {
				continue
			}
			c := base
			c.Family, c.CorOff, c.CorXor, c.Uniform = "corrupt", o, 0x80, 1
			if total > 8192 {
				c.Uniform = 4093
			}
			c30CheckCorrupt(r, st, &c, stream)
		}
		r.Nontrivial(skey + "|corrupt")
	}
	return true
}

func c30RunCase(r *ev.Run, st *c30Stats, c *c30Case) {
	stream, err := c30Stream(c.Pkts)
	if err != nil {
		r.Violation("write:stream-length", err.Error(), c)
		return
	}
	r.Eval(1)
	switch {
	case c.Family == "relay":
		c30CheckRelay(r, st, c, stream)
	case c.CorOff >= 0:
		c30CheckCorrupt(r, st, c, stream)
	default:
		c30CheckClean(r, st, c, stream)
	}
}

func TestVerifC30(t *testing.T) {
	r := ev.Start(t, "C30", "exploration")
	st := &c30Stats{}
	if ev.Replaying() {
		var c c30Case
		ev.ReplayCase(&c)
		if c.Hist != nil {
			r.Eval(1)
			c30HistRun(r, &c30HistStats{}, c.Hist)
			r.Sample(c)
			r.Finish(false)
			return
		}
		c30RunCase(r, st, &c)
		r.Sample(c)
		r.Finish(false)
		return
	}
	maxPayload := DefaultPacketPayloadMax
	quick := r.Quick()
	// The reader allocates a fresh buffer per maximum-size payload; an (untouched) ballast
	// raises the GC heap goal so that those buffers are recycled inside the heap instead of
	// being returned to and re-faulted from the OS on every run.
	ballast := make([]byte, 32<<20)
	defer runtime.KeepAlive(ballast)
	defer debug.SetGCPercent(debug.SetGCPercent(100))
	common := "Streams are written by the real PacketWriter and read by the real PacketReader from an io.Reader whose chunking is enumerated. " +
		"Part A = one-packet streams over the full field product protocol{0,0x100,0xffff} x sub{0,0x501} x src{2 ids} x dest{0,1,2,0xff} x ttl{0,1,255} x payloadLen x ext(hint,len){(0,0),(1,1),(63,1023)}; " +
		"part B = sequences of 1..3 packet shapes over payloadLen{0,1,2,1023,1024,4066,4096,max=1MiB} x ext (24 shapes), header fields rotating with the position. " +
		"Every stream: all-at-once with EOF delivered separately and together with the last bytes, relay (re-serialise what was read). " +
		"Families: uniform = cut at every multiple of k; cuts<=2 = every chunking with at most 2 cuts at every byte offset (streams <= 200 bytes); " +
		"boundary-cut1/2 (longer streams) = every single cut within +-w bytes of every header/payload/footer/ext boundary, every cut pair from the same or adjacent boundary windows; " +
		"corrupt = one byte xor {0x01,0x80,0xff}: header or payload byte => that packet must be rejected and earlier packets delivered intact; footer/ext bytes => no panic, earlier packets intact. " +
		"history = ONE PacketReader over all ordered pairs/triples of a 6-packet corpus (payload 0,1,2,100,1024,5000; with/without extension) where every position is intact or damaged (12 framing-preserving classes: protocol, subProtocol, src first/last, dest, ttl, payload first/last, hash first/last, ext first/last; xor 0x01/0x80; triples xor 0x80, quick triples over 4 corpus packets), reading on after every rejection: decision and decoded fields equal those of a fresh PacketReader on the same bytes, intact packets equal what was written; " +
		"Reset = the reader fails on packet k (all 12 classes + 4 length bytes + 2 extend-info bytes + 6 truncation points + clean EOF) and is Reset() onto a new stream holding the remaining packets, which must decode cleanly; both under all-at-once and uniform-7 chunking; " +
		"writer = one PacketWriter whose io.Writer fails at its 0..3rd call (completely / after half the bytes / never), then Reset() onto a good writer (the rest must arrive byte-exact) or no Reset (further writes must fail, bytes on the wire stay a prefix); the same *Packet written twice. "
	if quick {
		r.Rule(common + "QUICK: A: payloadLen{0,1,2,1023,1024}; <=200B: cuts<=1, uniform 1..64, corrupt every offset; longer: uniform{1,7,64}, cut1 w=4, corrupt header+12-byte payload edges+footer. " +
			"B singles: uniform 1..64, cuts<=2 or cut1/cut2 w=12, corrupt every header/payload offset (stride 97 above 2048 B); max payload: uniform{1,64}, cut1 w=4, corrupt xor 0x80 at header, 2-byte edges, stride 131101. " +
			"B pairs: all 21^2 non-max pairs (uniform 8 sizes, cut1 w=12, cut2 w=2, corrupt header+edges) + one max payload next to 2 partner shapes (uniform{1,64}, cut1 w=2). " +
			"B triples: the 4 shapes payloadLen{0,1} x ext{(0,0),(1,1)} with cuts<=2 and uniform 1..64. distinct_nontrivial = distinct (stream, family) pairs")
	} else {
		r.Rule(common + "THOROUGH: A: payloadLen{0,1,2,1023,1024,max}; <=200B: cuts<=2, uniform 1..64, corrupt every offset; 1023/1024: uniform 1..64, cut1 w=12, corrupt every offset; max: uniform{1,64}, corrupt header xor 0x80. " +
			"B singles: uniform 1..64, cuts<=2 or cut1/cut2 w=12, corrupt every header/payload offset (stride 97 above 2048 B, 997 for max). " +
			"B pairs: all 21^2 non-max pairs (uniform 1..64, cut1/cut2 w=12, corrupt header+edges) + max payload next to 4 partner shapes and max-max (uniform 8 sizes, cut1 w=4, cut2 w=2, corrupt header xor 0x80). " +
			"B triples: all 21^3 non-max triples (<=200B: cuts<=2 + uniform 1..64; else uniform 8 sizes, cut1 w=12, cut2 w=2) + max payloads next to 2 partner shapes (uniform{1,7,64}, cut1 w=2). distinct_nontrivial = distinct (stream, family) pairs")
	}
	r.Assume("a chunking is a partition of the byte stream into the results of successive Read calls; Read never returns 0 bytes without error",
		"payload/ext contents are one fixed pseudo-random filler per (length, position); detection of a shortened-length header relies on that filler not colliding with FNV-1a (deterministic, not a sampled dimension)",
		"extend-info and ext bytes are not covered by the packet hash by design: corruption there is only required not to panic and not to disturb earlier packets",
		"writer-side short writes (io.ErrShortWrite retry with a wall-clock sleep) are not explored")

	protos := []uint16{0x0000, 0x0100, 0xffff}
	subs := []uint16{0x0000, 0x0501}
	dests := []byte{0x00, 0x01, 0x02, 0xff}
	ttls := []byte{0, 1, 255}
	plensA := []int{0, 1, 2, 1023, 1024, maxPayload}
	exts := [][2]int{{0, 0}, {1, 1}, {packetExtendMaxHint, packetExtendMaxLen}}

	type job struct {
		specs []c30Spec
		lv    c30Level
	}
	var jobs []job
	add := func(specs []c30Spec, lv c30Level, parts int) {
		for p := 0; p < parts; p++ {
			l := lv
			l.part, l.parts = p, parts
			jobs = append(jobs, job{specs, l})
		}
	}

	// ---- part A: full field product, one packet per stream
	if quick {
		plensA = plensA[:len(plensA)-1] // quick: the maximum payload only appears in part B
	}
	var dimsA = []int{len(protos), len(subs), 2, len(dests), len(ttls), len(plensA), len(exts)}
	u8 := []int{1, 2, 3, 5, 7, 16, 61, 64}
	nA := 0
	opseq.Product(dimsA, func(ix []int) bool {
		s := c30Spec{Proto: protos[ix[0]], Sub: subs[ix[1]], Src: ix[2], Dest: dests[ix[3]], TTL: ttls[ix[4]],
			PLen: plensA[ix[5]], Hint: exts[ix[6]][0], ELen: exts[ix[6]][1], Seed: 1}
		lv := c30Level{uniform: c30Range(64), cutsMax: r.Pick(1, 2), relay: true, corrupt: 2, corruptStep: 65537}
		switch {
		case s.PLen > 8192:
			// maximum payload: the chunking families are exercised on the shape streams of part B;
			// the field product gets the cheap environments
			lv.uniform, lv.corrupt = []int{1, 64}, -1
		case s.size() > 200:
			lv.win1 = c30Window
			if quick {
				lv.uniform, lv.win1, lv.corrupt = []int{1, 7, 64}, 4, 1
			}
		}
		add([]c30Spec{s}, lv, 1)
		nA++
		return true
	})

	// ---- part B: sequences of shapes
	plensB := []int{0, 1, 2, 1023, 1024, DefaultPacketBufferSize - packetHeaderSize, DefaultPacketBufferSize, maxPayload}
	var shapes []c30Shape
	for _, pl := range plensB {
		for _, e := range exts {
			shapes = append(shapes, c30Shape{pl, e[0], e[1]})
		}
	}
	// shapes allowed next to a maximum-size payload: 4 in thorough pairs, 2 in triples and quick pairs
	partner := func(sh c30Shape, n int) bool {
		ps := []c30Shape{{0, 0, 0}, {1024, packetExtendMaxHint, packetExtendMaxLen}, {1, 1, 1}, {DefaultPacketBufferSize, 0, 0}}
		for _, p := range ps[:n] {
			if p == sh {
				return true
			}
		}
		return false
	}
	nB, nBskipped := 0, 0
	opseq.Sequences(len(shapes), 1, 3, func(seq []int) bool {
		big, small, tiny, np, midExt := 0, true, true, 4, false
		if len(seq) == 3 || quick {
			np = 2
		}
		partnersOnly := true
		for _, i := range seq {
			sh := shapes[i]
			if sh.PLen > 8192 {
				big++
				midExt = midExt || sh.ELen == 1
			} else if !partner(sh, np) {
				partnersOnly = false
			}
			if sh.PLen > 2 || sh.ELen > 1 {
				small = false
			}
			if sh.PLen > 1 || sh.ELen > 1 {
				tiny = false
			}
		}
		skip := len(seq) >= 2 && big > 0 && !partnersOnly
		if quick {
			// quick: triples only over the 4 smallest shapes (these get ALL <=2-cut chunkings);
			// at most one maximum-size payload per stream
			skip = skip || (len(seq) == 3 && !tiny) || (len(seq) == 2 && big > 1) || (len(seq) == 2 && big > 0 && midExt)
		}
		if skip {
			nBskipped++
			return true
		}
		specs := make([]c30Spec, len(seq))
		for i, si := range seq {
			specs[i] = c30FieldsFor(i, shapes[si])
		}
		lv := c30Level{uniform: c30Range(64), cutsMax: 2, win1: c30Window, relay: true}
		parts := 1
		switch len(seq) {
		case 1:
			lv.win2, lv.corrupt, lv.corruptStep = c30Window, 2, 97
			if big > 0 {
				parts = r.Pick(8, 32)
				lv.corruptStep = r.Pick(16411, 997)
				if quick {
					lv.uniform, lv.win1, lv.win2 = []int{1, 64}, 4, 0
					lv.xors, lv.edge, lv.corruptStep = []byte{0x80}, 2, 131101
					parts = 4
				}
			}
		case 2:
			lv.win2, lv.corrupt = r.Pick(2, c30Window), 1
			if quick && !small {
				lv.uniform = u8
			}
			if big > 0 {
				lv.uniform, lv.win1, lv.win2, lv.corrupt = u8, 4, 2, -1
				parts = 4
				if quick {
					lv.uniform, lv.win1, lv.win2, lv.corrupt = []int{1, 64}, 2, 0, 0
					parts = 2
				}
			}
		case 3:
			if !small {
				lv.uniform, lv.win2 = u8, 2
			}
			if big > 0 {
				lv.uniform, lv.win1, lv.win2 = []int{1, 7, 64}, 2, 0
				parts = 2
			}
		}
		add(specs, lv, parts)
		nB++
		return true
	})

	// reader/writer history family first (cheap; c30_hist_test.go)
	histOK := c30HistTier(r, &c30HistStats{})

	var incomplete int64
	ev.Par(len(jobs), 16, func(i int) {
		if r.Expired() {
			atomic.AddInt64(&incomplete, 1)
			return
		}
		if !c30Explore(r, st, jobs[i].specs, jobs[i].lv) {
			atomic.AddInt64(&incomplete, 1)
		}
	})

	// written-out samples (real cases, re-run here)
	for _, c := range []c30Case{
		{Pkts: []c30Spec{c30FieldsFor(0, c30Shape{2, 1, 1}), c30FieldsFor(1, c30Shape{0, 0, 0})}, Cuts: []int{29, 31}, CorOff: -1, Family: "cuts<=2"},
		{Pkts: []c30Spec{c30FieldsFor(0, c30Shape{1024, 63, 1023})}, Uniform: 7, CorOff: -1, Family: "uniform"},
		{Pkts: []c30Spec{c30FieldsFor(0, c30Shape{1, 0, 0})}, CorOff: 25, CorXor: 0x80, Family: "corrupt"},
	} {
		c := c
		c30RunCase(r, st, &c)
		r.Sample(map[string]interface{}{"case": c, "desc": c30Desc(&c)})
	}

	r.Set("streams_partA_field_product", nA)
	r.Set("streams_partB_shape_sequences", nB)
	r.Set("streams_partB_not_in_this_tier", nBskipped)
	r.Set("shapes", len(shapes))
	r.Set("jobs", len(jobs))
	r.Set("chunking_runs", atomic.LoadInt64(&st.chunkRuns))
	r.Set("eof_with_data_runs", atomic.LoadInt64(&st.eofDataRuns))
	r.Set("corruption_runs", atomic.LoadInt64(&st.corruptRuns))
	r.Set("corruptions_rejected", atomic.LoadInt64(&st.rejected))
	r.Set("corruptions_tolerated_unhashed_region", atomic.LoadInt64(&st.tolerated))
	r.Set("relay_runs", atomic.LoadInt64(&st.relays))
	r.Set("max_reads_in_one_run", atomic.LoadInt64(&st.maxReads))
	r.Set("jobs_incomplete", incomplete)
	r.Sanity(st.rejected > 0, "no corruption was ever rejected")
	r.Sanity(st.tolerated > 0, "no corruption of an unhashed region was ever tolerated (oracle regions suspicious)")
	r.Sanity(st.maxReads > 1000, "chunker never produced many reads")
	r.Sanity(st.chunkRuns > 1000, "too few chunking runs")
	r.Finish(incomplete == 0 && histOK)
}
