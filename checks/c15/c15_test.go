//go:build verif

package service_test

import (
	"bytes"
	"fmt"
	"math/big"
	"sort"
	"sync"
	"sync/atomic"
	"testing"

	"github.com/icon-project/goloop/common"
	"github.com/icon-project/goloop/module"
	"github.com/icon-project/goloop/service"
	"github.com/icon-project/goloop/verifshim/ev"
)

// ---- universe ---------------------------------------------------------------

const (
	c15Default  = int64(100_000) // step cost "default" = minimum charge
	c15Input    = int64(200)     // step cost per input byte
	c15CallCost = int64(25_000)  // step cost "contractCall"
	c15Invoke   = int64(2_000_000)
	c15MsgBytes = 14 // len(`"0x68656c6c6f"`): input bytes of the message data
	c15DeadAddr = "cx000000000000000000000000000000000000dead"
)

var (
	c15Wallets = []module.Wallet{fixWallet(0xA1), fixWallet(0xB2), fixWallet(0xC3)}
	c15God     = fixWallet(0x60)
	c15Prices  = []*big.Int{big.NewInt(0), big.NewInt(1), big.NewInt(12_500_000_000)}
)

// c15Case is one block on one pre-state; it is the replay unit.
type c15Case struct {
	Price int       `json:"price"` // index into c15Prices
	Bal   [3]string `json:"bal"`   // balances of A, B, C before the block (decimal)
	Txs   []txSpec  `json:"txs"`
}

func (c *c15Case) key() string {
	var b bytes.Buffer
	fmt.Fprintf(&b, "%d/%s/%s/%s", c.Price, c.Bal[0], c.Bal[1], c.Bal[2])
	for _, t := range c.Txs {
		b.WriteString("/")
		b.WriteString(t.key())
	}
	return b.String()
}

type c15Env struct {
	r      *ev.Run
	mk     *txMaker
	uni    []module.Address // A, B, C, treasury, dead contract, god
	names  []string
	outc   sync.Map // outcome class -> *int64
	twice  int64
	valRun int64
	valRej int64
}

func (e *c15Env) count(class string) {
	v, _ := e.outc.LoadOrStore(class, new(int64))
	atomic.AddInt64(v.(*int64), 1)
}

func c15BalanceDomain(price *big.Int, full bool) []*big.Int {
	if !full {
		return []*big.Int{big.NewInt(0), big.NewInt(7)}
	}
	if price.Sign() == 0 {
		return []*big.Int{big.NewInt(0), big.NewInt(1), big.NewInt(2), big.NewInt(1_000_000_000_000)}
	}
	f := new(big.Int).Mul(big.NewInt(c15Default), price) // minimum fee
	fm := new(big.Int).Mul(big.NewInt(c15Default+c15Input*c15MsgBytes), price)
	return []*big.Int{
		big.NewInt(0),
		new(big.Int).Sub(f, big.NewInt(1)),
		new(big.Int).Set(f),
		fm,
		new(big.Int).Add(new(big.Int).Mul(f, big.NewInt(2)), big.NewInt(1)),
		new(big.Int).Mul(f, big.NewInt(1_000_000)),
	}
}

// c15Dom selects a sub-domain of transactions.
type c15Dom struct {
	tos      []int  // indices into uni (0..4)
	msg      []bool // data types
	below    bool   // stepLimit min-1 (message only: still >= minimum charge)
	plusOne  bool   // stepLimit min+1
	aboveInv bool   // stepLimit above the chain's invoke limit (clamped)
	values   []int  // indices into {absent,0,1,bal-L*P,bal-L*P+1,bal}
	noTen    bool   // omit stepLimit 10*min
}

var (
	c15DomFull = c15Dom{tos: []int{0, 1, 2, 3, 4}, msg: []bool{false, true}, below: true, plusOne: true, aboveInv: true, values: []int{0, 1, 2, 3, 4, 5}}
	// second-level domains for blocks of two transactions
	c15DomPairThorough = c15Dom{tos: []int{0, 1, 2, 3, 4}, msg: []bool{false, true}, below: true, values: []int{0, 1, 2, 3, 4, 5}}
	c15DomPairQuick    = c15Dom{tos: []int{0, 1, 3, 4}, msg: []bool{false}, values: []int{0, 2, 3, 4}}
	c15DomPairQuick1   = c15Dom{tos: []int{0, 1, 3, 4}, msg: []bool{false}, values: []int{0, 2, 3, 4}, noTen: true}
)

// c15TxDomain lists the transactions of sender `from` (index) for a pre-state.
func c15TxDomain(e *c15Env, d *c15Dom, from int, bal, price *big.Int, nonce int) []txSpec {
	var out []txSpec
	for _, ti := range d.tos {
		to := e.uni[ti].String()
		for _, msg := range d.msg {
			min := c15Default
			if msg {
				min += c15Input * c15MsgBytes
			}
			var limits []int64
			if msg && d.below {
				limits = append(limits, min-1) // >= minimum charge, < required steps
			}
			limits = append(limits, min)
			if d.plusOne {
				limits = append(limits, min+1)
			}
			if !d.noTen {
				limits = append(limits, 10*min)
			}
			if d.aboveInv {
				limits = append(limits, c15Invoke+c15Default)
			}
			for _, lim := range limits {
				maxFee := new(big.Int).Mul(big.NewInt(lim), price)
				cands := []*big.Int{
					nil, big.NewInt(0), big.NewInt(1),
					new(big.Int).Sub(bal, maxFee),
					new(big.Int).Add(new(big.Int).Sub(bal, maxFee), big.NewInt(1)),
					new(big.Int).Set(bal),
				}
				seen := map[string]bool{}
				for _, vi := range d.values {
					v := cands[vi]
					s := txSpec{From: from, To: to, Limit: lim, Msg: msg, Nonce: nonce}
					if v != nil {
						if v.Sign() < 0 || seen[v.String()] {
							continue
						}
						seen[v.String()] = true
						vs := v.String()
						s.Value = &vs
					}
					out = append(out, s)
				}
			}
		}
	}
	return out
}

type c15Outcome struct {
	Status []int    `json:"status"`
	Used   []string `json:"used"`
	Price  []string `json:"price"`
	Post   []string `json:"post"`
	Result string   `json:"result"`
}

// c15Exec runs the block and returns the observation (receipts + balances).
func (e *c15Env) exec(fn *fixNode, parent module.Transition, c *c15Case, validated bool) (*c15Outcome, error) {
	txs := make([]module.Transaction, len(c.Txs))
	for i, s := range c.Txs {
		txs[i] = e.mk.make(s)
	}
	tr, err := fn.runBlock(parent, txs, validated)
	if err != nil {
		return nil, err
	}
	wss := service.VerifWorldSnapshot(tr)
	if wss == nil {
		return nil, fmt.Errorf("no world snapshot after execution")
	}
	o := &c15Outcome{Result: hexs(tr.Result())}
	rl := tr.NormalReceipts()
	for i := range c.Txs {
		rct, err := rl.Get(i)
		if err != nil {
			return nil, fmt.Errorf("receipt %d: %v", i, err)
		}
		o.Status = append(o.Status, int(rct.Status()))
		o.Used = append(o.Used, rct.StepUsed().String())
		o.Price = append(o.Price, rct.StepPrice().String())
	}
	if _, err := rl.Get(len(c.Txs)); err == nil {
		return nil, fmt.Errorf("more receipts than transactions")
	}
	for _, a := range e.uni {
		o.Post = append(o.Post, balanceOf(wss, a).String())
	}
	return o, nil
}

func bigOf(s string) *big.Int {
	v, ok := new(big.Int).SetString(s, 10)
	if !ok {
		panic("bad int " + s)
	}
	return v
}

// check applies the accounting oracle of C15 to one executed block.
func (e *c15Env) check(c *c15Case, pre []*big.Int, o *c15Outcome) {
	price := c15Prices[c.Price]
	idx := map[string]int{}
	for i, a := range e.uni {
		idx[a.String()] = i
	}
	model := make([]*big.Int, len(pre))
	for i := range pre {
		model[i] = new(big.Int).Set(pre[i])
	}
	fail := func(sig, detail string) {
		e.r.Violation(sig, fmt.Sprintf("%s\ncase=%s\noutcome=%+v", detail, c.key(), *o), c)
	}
	isSender := map[int]bool{}
	isRecipient := map[int]bool{}
	fees := new(big.Int)
	for i, t := range c.Txs {
		used, rp := bigOf(o.Used[i]), bigOf(o.Price[i])
		st := module.Status(o.Status[i])
		ok := st == module.StatusSuccess
		// steps used between the minimum charge and the step limit
		if used.Cmp(big.NewInt(c15Default)) < 0 {
			fail("stepUsed<minimumCharge", fmt.Sprintf("tx%d stepUsed=%s minimum=%d status=%d", i, used, c15Default, st))
		}
		if used.Cmp(big.NewInt(t.Limit)) > 0 {
			fail("stepUsed>stepLimit", fmt.Sprintf("tx%d stepUsed=%s stepLimit=%d status=%d", i, used, t.Limit, st))
		}
		// reported price is the chain's step price, except the documented
		// "cannot even pay the minimum fee" failure which reports price 0
		if rp.Cmp(price) != 0 {
			if ok {
				fail("receipt-stepPrice!=chainStepPrice-on-success", fmt.Sprintf("tx%d price=%s chain=%s", i, rp, price))
			} else if rp.Sign() != 0 || st != module.StatusOutOfBalance {
				fail("receipt-stepPrice!=chainStepPrice-on-failure", fmt.Sprintf("tx%d price=%s chain=%s status=%d", i, rp, price, st))
			}
		}
		fee := new(big.Int).Mul(used, rp)
		fees.Add(fees, fee)
		from := t.From
		to := idx[t.To]
		isSender[from] = true
		isRecipient[to] = true
		model[from].Sub(model[from], fee)
		if ok && t.Value != nil {
			v := bigOf(*t.Value)
			model[from].Sub(model[from], v)
			model[to].Add(model[to], v)
		}
		for j, m := range model {
			if m.Sign() < 0 {
				fail("balance-negative-after-tx", fmt.Sprintf("after tx%d the accounting of %s is %s", i, e.names[j], m))
			}
		}
		// outcome classes (vacuity)
		switch {
		case ok:
			e.count("success")
		case st == module.StatusOutOfBalance && rp.Sign() == 0 && price.Sign() != 0:
			e.count("fail:out-of-balance,price-zeroed")
		case st == module.StatusOutOfBalance:
			e.count("fail:out-of-balance,fee-charged")
		case st == module.StatusOutOfStep:
			e.count("fail:out-of-step")
		default:
			e.count(fmt.Sprintf("fail:status-%d", st))
		}
	}
	tIdx := idx[fixTreasuryAddr]
	model[tIdx].Add(model[tIdx], fees)
	sumPre, sumPost := new(big.Int), new(big.Int)
	for j := range e.uni {
		post := bigOf(o.Post[j])
		sumPre.Add(sumPre, pre[j])
		sumPost.Add(sumPost, post)
		if post.Sign() < 0 {
			fail("balance-negative", fmt.Sprintf("%s=%s", e.names[j], post))
		}
		if d := post.Cmp(model[j]); d != 0 {
			rel := "less-than-accounting"
			if d > 0 {
				rel = "more-than-accounting"
			}
			role := "bystander"
			switch {
			case j == tIdx:
				role = "treasury"
			case isSender[j]:
				role = "sender"
			case isRecipient[j]:
				role = "recipient"
			}
			fail(role+"-balance-"+rel, fmt.Sprintf("%s: pre=%s post=%s accounting(from receipts)=%s", e.names[j], pre[j], post, model[j]))
		}
	}
	if sumPre.Cmp(sumPost) != 0 {
		fail("total-not-conserved", fmt.Sprintf("sum pre=%s post=%s", sumPre, sumPost))
	}
}

func (o *c15Outcome) equal(p *c15Outcome) bool {
	return fmt.Sprintf("%+v", *o) == fmt.Sprintf("%+v", *p)
}

// evalCase executes one block (twice when `twice`), applies the oracle, and in
// addition runs it through the validating path (validated=false): if the block
// passes validation there its outcome must be the same.
func (e *c15Env) evalCase(fn *fixNode, parent module.Transition, c *c15Case, pre []*big.Int, twice, validating bool) {
	e.r.Eval(1)
	o, err := e.exec(fn, parent, c, true)
	if err != nil {
		e.r.Violation("transition-failed", fmt.Sprintf("%v\ncase=%s", err, c.key()), c)
		return
	}
	e.r.Nontrivial(c.key())
	e.check(c, pre, o)
	if twice {
		atomic.AddInt64(&e.twice, 1)
		o2, err := e.exec(fn, parent, c, true)
		if err != nil || !o.equal(o2) {
			e.r.Sanity(false, "non-deterministic execution: case=%s first=%+v second=%+v err=%v", c.key(), *o, o2, err)
		}
	}
	if validating {
		atomic.AddInt64(&e.valRun, 1)
		o3, err := e.exec(fn, parent, c, false)
		if err != nil {
			atomic.AddInt64(&e.valRej, 1) // block rejected by validation: nothing executed
		} else if !o.equal(o3) {
			e.r.Violation("validating-path-differs", fmt.Sprintf("case=%s\nvalidated=true: %+v\nvalidated=false: %+v", c.key(), *o, *o3), c)
		}
	}
}

func (e *c15Env) preBalances(fn *fixNode, c *c15Case) (module.Transition, []*big.Int, error) {
	bals := make([]*big.Int, 3)
	for i := 0; i < 3; i++ {
		bals[i] = bigOf(c.Bal[i])
	}
	parent, err := fn.preState(e.mk, 3, c15Default, bals)
	if err != nil {
		return nil, nil, err
	}
	wss := service.VerifWorldSnapshot(parent)
	if wss == nil {
		return nil, nil, fmt.Errorf("no snapshot in funding transition")
	}
	pre := make([]*big.Int, len(e.uni))
	for i, a := range e.uni {
		pre[i] = balanceOf(wss, a)
	}
	for i := 0; i < 3; i++ {
		if pre[i].Cmp(bals[i]) != 0 {
			return nil, nil, fmt.Errorf("pre-state balance not installed")
		}
	}
	return parent, pre, nil
}

func TestVerifC15(t *testing.T) {
	r := ev.Start(t, "C15", "exploration")
	r.Rule("pre-states: stepPrice {0,1,12.5e9} x balance(A),balance(B) from 6 boundary values {0,F-1,F,Fmsg,2F+1,1e6*F} (F=minimum fee; 4 values at price 0) x balance(C) {0,7} (quick: {0}). Blocks of one transaction: sender A x recipient {A,B,C,treasury,code-less cx address} x {plain,message} x stepLimit {min-1 (message only),min,min+1,10*min,invokeLimit+default} x value {absent,0,1,bal-limit*price,bal-limit*price+1,bal}. Blocks of two transactions: first from A, second from A or B, thorough: same product with stepLimit {min-1 (message only),min,10*min}; quick: recipients {A,B,treasury,cx}, plain, stepLimit {min} for the first and {min,10*min} for the second, value {absent,1,bal-limit*price,bal-limit*price+1}. A case is one (pre-state, block); all cases are distinct and each is executed by a real transition")
	r.Assume("pre-states are produced by a real funding block (god account transfers the exact balances) executed on the finalized genesis state; case blocks are children of that (unfinalized) transition",
		"blocks run as alreadyValidated transitions (the proposer path), so execution-time balance/step failures are reachable; the validating path is cross-checked separately",
		"basic platform, revision 8, no fee sharing, concurrency level 1; accounts: three EOAs, treasury, god, one code-less contract address")

	env := &c15Env{r: r, mk: &txMaker{wallets: append(append([]module.Wallet{}, c15Wallets...), c15God)}}
	for _, w := range c15Wallets {
		env.uni = append(env.uni, w.Address())
	}
	env.uni = append(env.uni, common.MustNewAddressFromString(fixTreasuryAddr), common.MustNewAddressFromString(c15DeadAddr), c15God.Address())
	env.names = []string{"A", "B", "C", "treasury", "deadContract", "god"}

	god := new(big.Int).Lsh(big.NewInt(1), 100)
	// every work unit boots its own node (own database, own managers): nothing
	// is shared between parallel workers
	newNode := func(pi int) (*fixNode, error) {
		return newFixNode(&fixChainCfg{StepPrice: c15Prices[pi], Revision: 8, Default: c15Default, Input: c15Input, CallCost: c15CallCost,
			InvokeLimit: c15Invoke, GodBalance: god, God: c15God.Address()}, nil)
	}

	if ev.Replaying() {
		var c c15Case
		ev.ReplayCase(&c)
		fn, err := newNode(c.Price)
		if err != nil {
			t.Fatalf("node: %v", err)
		}
		defer fn.Close()
		parent, pre, err := env.preBalances(fn, &c)
		if err != nil {
			t.Fatalf("pre-state: %v", err)
		}
		env.evalCase(fn, parent, &c, pre, true, true)
		r.Finish(false)
		return
	}

	// work units: one pre-state each
	type unit struct {
		price int
		bal   [3]*big.Int
	}
	var units []unit
	for pi, p := range c15Prices {
		full := c15BalanceDomain(p, true)
		small := c15BalanceDomain(p, false)
		if r.Quick() {
			small = small[:1] // quick: C starts empty only
		}
		for _, a := range full {
			for _, b := range full {
				for _, c := range small {
					units = append(units, unit{pi, [3]*big.Int{a, b, c}})
				}
			}
		}
	}
	// visit pre-states of the three prices interleaved, so that a capped run still sees all prices
	{
		var byPrice [3][]unit
		for _, u := range units {
			byPrice[u.price] = append(byPrice[u.price], u)
		}
		units = units[:0]
		for i := 0; len(units) < len(byPrice[0])+len(byPrice[1])+len(byPrice[2]); i++ {
			for p := 0; p < 3; p++ {
				if i < len(byPrice[p]) {
					units = append(units, byPrice[p][i])
				}
			}
		}
	}
	thorough := r.Thorough()
	var expired int32
	var unitsDone int64
	var samples sync.Map
	ev.Par(len(units), 16, func(ui int) {
		u := units[ui]
		fn, err := newNode(u.price)
		if err != nil {
			r.Sanity(false, "node: %v", err)
			return
		}
		defer fn.Close()
		price := c15Prices[u.price]
		base := c15Case{Price: u.price, Bal: [3]string{u.bal[0].String(), u.bal[1].String(), u.bal[2].String()}}
		parent, pre, err := env.preBalances(fn, &base)
		if err != nil {
			r.Sanity(false, "pre-state: %v", err)
			return
		}
		single := c15TxDomain(env, &c15DomFull, 0, u.bal[0], price, 0)
		pd := &c15DomPairQuick
		if thorough {
			pd = &c15DomPairThorough
		}
		pd1 := pd
		if !thorough {
			pd1 = &c15DomPairQuick1
		}
		first := c15TxDomain(env, pd1, 0, u.bal[0], price, 0)
		second := append(c15TxDomain(env, pd, 0, u.bal[0], price, 1), c15TxDomain(env, pd, 1, u.bal[1], price, 1)...)
		// blocks of one transaction (sender A; by symmetry of the balance domain this covers B)
		for i, t1 := range single {
			if atomic.LoadInt32(&expired) != 0 || r.Expired() {
				atomic.StoreInt32(&expired, 1)
				return
			}
			c := base
			c.Txs = []txSpec{t1}
			env.evalCase(fn, parent, &c, pre, thorough || i%4 == 0, true)
			if i == 7 && ui%40 == 0 {
				samples.Store(ui, c)
			}
		}
		// blocks of two transactions
		n := 0
		for _, t1 := range first {
			for _, t2 := range second {
				if n&63 == 0 && (atomic.LoadInt32(&expired) != 0 || r.Expired()) {
					atomic.StoreInt32(&expired, 1)
					return
				}
				c := base
				c.Txs = []txSpec{t1, t2}
				env.evalCase(fn, parent, &c, pre, n%16 == 0, false)
				n++
			}
		}
		atomic.AddInt64(&unitsDone, 1)
	})

	// vacuity: every outcome class must occur
	classes := map[string]int64{}
	env.outc.Range(func(k, v interface{}) bool { classes[k.(string)] = atomic.LoadInt64(v.(*int64)); return true })
	var cl []string
	for k := range classes {
		cl = append(cl, k)
	}
	sort.Strings(cl)
	r.Set("outcome_classes", classes)
	for _, need := range []string{"success", "fail:out-of-balance,price-zeroed", "fail:out-of-balance,fee-charged", "fail:out-of-step"} {
		r.Sanity(classes[need] > 0, "outcome class %q never occurred (classes=%v)", need, cl)
	}
	r.Sanity(len(cl) >= 5, "expected a fifth outcome class (transfer to a code-less contract address), got %v", cl)
	r.Set("pre_states", len(units))
	r.Set("pre_states_completed", atomic.LoadInt64(&unitsDone))
	r.Set("blocks_run_twice_for_determinism", atomic.LoadInt64(&env.twice))
	r.Set("blocks_also_run_through_validating_path", atomic.LoadInt64(&env.valRun))
	r.Set("blocks_rejected_by_validating_path", atomic.LoadInt64(&env.valRej))
	r.Sanity(env.valRun > env.valRej && env.valRej > 0, "validating path: run=%d rejected=%d", env.valRun, env.valRej)
	samples.Range(func(k, v interface{}) bool { r.Sample(v); return true })
	r.Finish(atomic.LoadInt32(&expired) == 0)
}

