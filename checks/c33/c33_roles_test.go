//go:build verif

package network

// C33, role-history tier: "accepts originator broadcasts only from peers
// holding the validator role" — the role a connected peer holds is not a
// constant: consensus pushes the validator list of every height through
// manager.SetRole -> PeerIDSet.ClearAndAdd -> PeerToPeer.onAllowedPeerIDSetUpdate,
// which gives / strips p2pRoleRoot of the connected peers. Here the membership
// is driven through that real path on a real PeerToPeer (newPeerToPeer) with
// three connected peers, for EVERY history of validator sets up to a length,
// and after every step of every history the whole packet grid is handed in by
// every peer and compared with the reference model, whose roles are derived
// from the set that was passed to SetRole LAST — never from earlier ones.

import (
	"fmt"
	"strings"
	"sync"
	"sync/atomic"

	"github.com/icon-project/goloop/module"
	"github.com/icon-project/goloop/verifshim/ev"
)

type c33RoleCase struct {
	Stage   string `json:"stage"`   // "roles"
	SelfIn  bool   `json:"self_in"` // the node itself is a member of every validator set of the history
	History []int  `json:"history"` // successive validator sets as bit masks over {P1,P2,P3}
	Desc    string `json:"desc,omitempty"`
}

func c33MaskName(m int, selfIn bool) string {
	var s []string
	if selfIn {
		s = append(s, "S")
	}
	for i := 0; i < 3; i++ {
		if m&(1<<uint(i)) != 0 {
			s = append(s, fmt.Sprintf("P%d", i+1))
		}
	}
	return "{" + strings.Join(s, ",") + "}"
}

// kind of the last replacement (what the implementation has to react to)
func c33TransitionKind(prev, next int, first bool) string {
	switch {
	case first:
		return "first-set"
	case prev == next:
		return "same-set"
	case next&^prev == 0:
		return "shrink-only"
	case prev&^next == 0:
		return "grow-only"
	}
	return "swap"
}

type c33RoleStats struct {
	histories, deliveries, steps, skippedUnrestricted int64
	kinds                                             sync.Map
	delivered, refusedByRole                          int64
}

func c33RunRoles(r *ev.Run, c *c33RoleCase, st *c33RoleStats) {
	atomic.AddInt64(&st.histories, 1)
	ids := c33MakeIDs()
	set := c33PacketSet(0)
	wire := c33Wire(ids, set)
	self := &Peer{id: ids.self, netAddress: "10.0.0.100:7100", attr: make(map[string]interface{}), logger: c33Log}
	p2p := newPeerToPeer("verif-c33", self, nil, nil, c33Log)
	nm := &manager{p2p: p2p, logger: c33Log}
	sys := &c33Sys{p2p: p2p}
	p2p.setCbFunc(c33Proto, func(pkt *Packet, p *Peer) {
		sys.calls++
		sys.lastP, sys.lastK = p, pkt
	}, nil)
	conns := [3]PeerConnectionType{p2pConnTypeFriend, p2pConnTypeParent, p2pConnTypeOther}
	for i := 0; i < 3; i++ {
		pis := newProtocolInfos()
		pis.Add(c33Proto)
		p := &Peer{id: ids.peers[i], in: i%2 == 0, netAddress: NetAddress(fmt.Sprintf("10.0.0.%d:7100", i+1)), attr: make(map[string]interface{}), logger: c33Log}
		p.setConnType(conns[i])
		p.setProtocolInfos(pis)
		p2p.m[conns[i]].Add(p)
		sys.peers[i] = p
	}
	var hist []string
	desc := func() string {
		c.Desc = "validator sets passed to SetRole: " + strings.Join(hist, " -> ")
		return c.Desc
	}
	prev := 0
	for step, mask := range c.History {
		atomic.AddInt64(&st.steps, 1)
		hist = append(hist, c33MaskName(mask, c.SelfIn))
		var args []module.PeerID
		if c.SelfIn {
			args = append(args, ids.self)
		}
		for i := 0; i < 3; i++ {
			if mask&(1<<uint(i)) != 0 {
				args = append(args, ids.peers[i])
			}
		}
		kind := c33TransitionKind(prev, mask, step == 0)
		if pan := ev.Catch(func() { nm.SetRole(int64(step+1), module.RoleValidator, args...) }); pan != "" {
			r.Violation("roles:panic-in-SetRole", pan+" — "+desc(), c)
			return
		}
		cnt, _ := st.kinds.LoadOrStore(kind, new(int64))
		atomic.AddInt64(cnt.(*int64), 1)
		// An EMPTY allowed set means "no validator list configured": resolveRole then
		// accepts whatever role a peer declares, so "the current validator set" does
		// not restrict anything and the role-dependent verdicts are not judged.
		unrestricted := len(args) == 0
		for i := 0; i < 3; i++ {
			in := mask&(1<<uint(i)) != 0
			if nm.HasRole(module.RoleValidator, ids.peers[i]) != in {
				r.Violation("roles:manager.HasRole-differs-from-the-set-passed-to-SetRole", fmt.Sprintf("P%d: HasRole=%v — %s", i+1, !in, desc()), c)
				return
			}
			if !unrestricted && sys.peers[i].HasRole(p2pRoleRoot) != in {
				r.Violation("roles:connected-peer-role-differs-from-current-validator-set:after-"+kind,
					fmt.Sprintf("P%d holds p2pRoleRoot=%v but membership in the current set is %v — %s", i+1, !in, in, desc()), c)
				// keep going: the packet grid shows the consequence
			}
		}
		// the packet grid from every peer, against the model whose roles are the CURRENT set
		cfg := c33Cfg{Conns: [3]int{int(conns[0]), int(conns[1]), int(conns[2])}}
		for i := 0; i < 3; i++ {
			if mask&(1<<uint(i)) != 0 {
				cfg.Roles[i] = 2
			}
		}
		p2p.packetPool = NewPacketPool(DefaultPacketPoolNumBucket, DefaultPacketPoolBucketLen)
		mod := c33NewModel(cfg, set)
		for sender := 0; sender < 3; sender++ {
			for k := range set {
				e := c33Event{sender, k}
				verdict, why := mod.expect(e)
				var calls int
				if pan := ev.Catch(func() { calls, _ = sys.deliver(wire[k], sender) }); pan != "" {
					r.Violation("roles:panic-in-onPacket", pan+" — "+desc(), c)
					return
				}
				atomic.AddInt64(&st.deliveries, 1)
				pk := set[k]
				roleDependent := !pk.oneHop() && pk.Dest == p2pDestAny && pk.Src <= 1 && pk.Src == sender
				if roleDependent && unrestricted {
					atomic.AddInt64(&st.skippedUnrestricted, 1)
					mod.commit(e, calls >= 1)
					continue
				}
				what := fmt.Sprintf("P%d hands in %v after %s", sender+1, pk, kind)
				switch {
				case calls > 1:
					r.Violation("roles:callback-invoked-more-than-once-for-one-packet", what+" — "+desc(), c)
				case calls == 1 && verdict == c33No:
					sig := "roles:delivered:" + why
					if roleDependent {
						sig = "roles:delivered:broadcast-from-originator-not-in-current-validator-set:after-" + kind
					}
					r.Violation(sig, what+" — "+desc(), c)
				case calls == 0 && verdict == c33Yes:
					sig := "roles:not-delivered:" + why
					if roleDependent {
						sig = "roles:not-delivered:broadcast-from-originator-in-current-validator-set:after-" + kind
					}
					r.Violation(sig, what+" — "+desc(), c)
				}
				if roleDependent {
					if calls == 1 {
						atomic.AddInt64(&st.delivered, 1)
					} else if why == "broadcast-from-originator-without-validator-role" {
						atomic.AddInt64(&st.refusedByRole, 1)
					}
				}
				mod.commit(e, calls >= 1)
			}
		}
		prev = mask
	}
}

func c33RoleCases(maxLen int) []*c33RoleCase {
	var out []*c33RoleCase
	var rec func(h []int)
	rec = func(h []int) {
		if len(h) > 0 {
			for _, selfIn := range []bool{false, true} {
				out = append(out, &c33RoleCase{Stage: "roles", SelfIn: selfIn, History: append([]int(nil), h...)})
			}
		}
		if len(h) == maxLen {
			return
		}
		for m := 0; m < 8; m++ {
			rec(append(h, m))
		}
	}
	rec(nil)
	return out
}

// c33RolesTier runs every history and records the evidence keys.
func c33RolesTier(r *ev.Run) (complete bool) {
	maxLen := r.Pick(2, 3)
	cases := c33RoleCases(maxLen)
	st := &c33RoleStats{}
	var done int64
	ev.Par(len(cases), 16, func(i int) {
		if r.Expired() {
			return
		}
		c := cases[i]
		r.Nontrivial(fmt.Sprintf("roles/%v/%v", c.SelfIn, c.History))
		c33RunRoles(r, c, st)
		atomic.AddInt64(&done, 1)
	})
	kinds := map[string]int64{}
	st.kinds.Range(func(k, v interface{}) bool { kinds[k.(string)] = *(v.(*int64)); return true })
	r.Eval(int(st.deliveries))
	r.Set("roles_histories", st.histories)
	r.Set("roles_history_max_length", maxLen)
	r.Set("roles_setrole_steps", st.steps)
	r.Set("roles_grid_deliveries", st.deliveries)
	r.Set("roles_replacements_by_kind", kinds)
	r.Set("roles_originator_broadcasts_delivered", st.delivered)
	r.Set("roles_originator_broadcasts_refused_by_role", st.refusedByRole)
	r.Set("roles_role_dependent_checks_skipped_empty_allowed_set", st.skippedUnrestricted)
	for _, k := range []string{"first-set", "same-set", "shrink-only", "grow-only", "swap"} {
		r.Sanity(kinds[k] > 0 || r.Expired(), "role histories: replacement kind %q never exercised", k)
	}
	r.Sanity(st.delivered > 0 && st.refusedByRole > 0 || r.Expired(), "role histories: originator broadcasts were not both delivered and refused")
	return int(done) == len(cases)
}
