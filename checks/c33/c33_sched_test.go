//go:build verif

package network

// C33, scheduler tier: "no matter how many peers relay it" also quantifies over
// schedules — every peer has its own receive routine, and all of them call
// PeerToPeer.onPacket concurrently. network/pool.go is built on the vsync shim
// (recipe rewrite), so every Lock/RLock/Unlock/RUnlock of the PacketPool is a
// scheduling point of the cooperative scheduler of lib/explore, and ALL
// interleavings of 2-3 receive routines inside a preemption bound are
// enumerated (stateless DFS, every execution on fresh real objects).

import (
	"bytes"
	"fmt"
	"sort"
	"strings"

	"github.com/icon-project/goloop/verifshim/ev"
	"github.com/icon-project/goloop/verifshim/explore"
	"github.com/icon-project/goloop/verifshim/vsync"
)

type c33SchedCase struct {
	Stage   string        `json:"stage"` // "sched"
	Name    string        `json:"name"`
	Harness string        `json:"harness"` // "onPacket" | "Put"
	PoolB   int           `json:"pool_buckets"`
	PoolL   int           `json:"pool_bucket_len"`
	Preload []c33Pkt      `json:"preload"` // handed in sequentially (by P1) before the threads start
	Threads []c33SchedThr `json:"threads"` // thread i: peer P(i+1) hands in this packet
	P       int           `json:"preemption_bound"`
	Trace   explore.Trace `json:"trace,omitempty"`
}

type c33SchedThr struct {
	Peer int    `json:"peer"`
	Pkt  c33Pkt `json:"pkt"`
}

func (c c33SchedCase) String() string {
	var th []string
	for _, t := range c.Threads {
		th = append(th, fmt.Sprintf("P%d:%v", t.Peer+1, t.Pkt))
	}
	pool := "default"
	if c.PoolB != 0 {
		pool = fmt.Sprintf("%dx%d", c.PoolB, c.PoolL)
	}
	return fmt.Sprintf("%s[%s pool=%s preload=%v threads={%s} P<=%d]", c.Name, c.Harness, pool, c.Preload, strings.Join(th, " | "), c.P)
}

type c33SchedObs struct {
	cb      map[int]int  // packet index (in the case's packet list) -> callback invocations during the concurrent phase
	putTrue map[int]int  // packet index -> number of Put calls that returned true (Put harness)
	winner  map[int]int  // packet index -> thread that got it delivered / whose Put returned true
	after   map[int]bool // packet index -> a sequential re-delivery after the threads finished was accepted again
	pre     int          // callbacks during preload
}

func c33SchedCases(thorough bool) []c33SchedCase {
	P := 2
	if thorough {
		P = 3
	}
	X0 := c33Pkt{2, p2pDestAny, 0, 0}  // broadcast of a not connected validator, relayed
	X1 := c33Pkt{2, p2pDestAny, 0, 1}  // another one
	R0 := c33Pkt{2, p2pDestRoot, 0, 0} // multicast to validators
	O0 := c33Pkt{0, p2pDestAny, 0, 0}  // originated by P1 itself
	A := c33Pkt{2, p2pDestSeed, 0, 1}  // preload filler
	var cs []c33SchedCase
	for _, h := range []string{"onPacket", "Put"} {
		cs = append(cs,
			c33SchedCase{Name: "same-packet-2-relays", Harness: h, Threads: []c33SchedThr{{0, X0}, {1, X0}}},
			c33SchedCase{Name: "same-packet-3-relays", Harness: h, Threads: []c33SchedThr{{0, X0}, {1, X0}, {2, X0}}},
			c33SchedCase{Name: "same-multicast-2-relays", Harness: h, Threads: []c33SchedThr{{1, R0}, {2, R0}}},
			c33SchedCase{Name: "originator-and-2-relays", Harness: h, Threads: []c33SchedThr{{0, O0}, {1, O0}, {2, O0}}},
			c33SchedCase{Name: "two-packets-rollover-2x2", Harness: h, PoolB: 2, PoolL: 2, Preload: []c33Pkt{A}, Threads: []c33SchedThr{{0, X0}, {1, X0}, {2, X1}}},
			c33SchedCase{Name: "two-packets-2x2-empty", Harness: h, PoolB: 2, PoolL: 2, Threads: []c33SchedThr{{0, X0}, {1, X1}, {2, X0}}},
			c33SchedCase{Name: "same-packet-2-relays-3x2-rollover", Harness: h, PoolB: 3, PoolL: 2, Preload: []c33Pkt{A}, Threads: []c33SchedThr{{1, X0}, {2, X0}}},
		)
	}
	for i := range cs {
		cs[i].Stage = "sched"
		cs[i].P = P
	}
	return cs
}

// distinct packets of a case, in first-appearance order of the threads
func (c c33SchedCase) packets() []c33Pkt {
	var out []c33Pkt
	seen := map[c33Pkt]bool{}
	for _, t := range c.Threads {
		if !seen[t.Pkt] {
			seen[t.Pkt] = true
			out = append(out, t.Pkt)
		}
	}
	return out
}

func c33SchedBody(c c33SchedCase) func(x *explore.Exec) {
	ids := c33MakeIDs()
	pk := c.packets()
	idx := map[c33Pkt]int{}
	for i, p := range pk {
		idx[p] = i
	}
	wire := c33Wire(ids, pk)
	preWire := c33Wire(ids, c.Preload)
	parse := func(w []byte) *Packet {
		pkt := &Packet{}
		if _, err := pkt.ReadFrom(bytes.NewReader(w)); err != nil {
			panic(err)
		}
		return pkt
	}
	hashIdx := map[uint64]int{}
	for i, w := range wire {
		hashIdx[parse(w).hashOfPacket] = i
	}
	return func(x *explore.Exec) {
		obs := &c33SchedObs{cb: map[int]int{}, putTrue: map[int]int{}, winner: map[int]int{}, after: map[int]bool{}}
		x.Data = obs
		// all three peers are validators with a determined connection: every hand-in is authorized
		cfg := c33Cfg{Roles: [3]int{2, 2, 2}, Conns: [3]int{int(p2pConnTypeFriend), int(p2pConnTypeFriend), int(p2pConnTypeOther)}, PoolB: c.PoolB, PoolL: c.PoolL}
		sys := c33NewSys(cfg, ids)
		concurrent := false
		sys.p2p.setCbFunc(c33Proto, func(pkt *Packet, p *Peer) {
			i, ok := hashIdx[pkt.hashOfPacket]
			if !ok {
				obs.pre++
				return
			}
			if concurrent {
				obs.cb[i]++
				for ti, t := range c.Threads {
					if sys.peers[t.Peer] == p && idx[t.Pkt] == i {
						obs.winner[i] = ti
					}
				}
			} else {
				obs.after[i] = true
			}
		}, nil)
		for _, w := range preWire {
			if c.Harness == "onPacket" {
				pkt := parse(w)
				pkt.sender = sys.peers[0].ID()
				sys.p2p.onPacket(pkt, sys.peers[0])
			} else {
				sys.p2p.packetPool.Put(parse(w))
			}
		}
		concurrent = true
		var wg vsync.WaitGroup
		wg.Add(len(c.Threads))
		for ti := range c.Threads {
			ti := ti
			t := c.Threads[ti]
			explore.Go(func() {
				defer wg.Done()
				pkt := parse(wire[idx[t.Pkt]]) // every receive routine parses its own copy
				p := sys.peers[t.Peer]
				pkt.sender = p.ID()
				if c.Harness == "onPacket" {
					sys.p2p.onPacket(pkt, p)
				} else if sys.p2p.packetPool.Put(pkt) {
					obs.putTrue[idx[t.Pkt]]++
					obs.winner[idx[t.Pkt]] = ti
				}
			})
		}
		wg.Wait()
		concurrent = false
		// afterwards, sequentially: the packets are still within the retention the geometry guarantees
		// (at most 2 newer packets were accepted after any of them, and only in the 2x2 / 3x2 cases)
		for i := range pk {
			if c.Harness == "onPacket" {
				pkt := parse(wire[i])
				pkt.sender = sys.peers[2].ID()
				sys.p2p.onPacket(pkt, sys.peers[2])
			} else if sys.p2p.packetPool.Put(parse(wire[i])) {
				obs.after[i] = true
			}
		}
	}
}

// guaranteedAfter: is packet i of the case still guaranteed to be remembered
// after the concurrent phase (fewer than (B-1)*L newer accepted packets)?
func (c c33SchedCase) guaranteedAfter(i int) bool {
	if c.PoolB == 0 {
		return true
	}
	newerMax := len(c.packets()) - 1 // at most all other packets of the concurrent phase were accepted later
	return newerMax < (c.PoolB-1)*c.PoolL
}

func c33SchedJudge(c c33SchedCase, obs *c33SchedObs, out *explore.Outcome) (sig, detail string) {
	switch {
	case out.Panic != "":
		return "sched:panic-in-" + c.Harness, out.Panic
	case out.Deadlock:
		return "sched:deadlock-in-" + c.Harness, strings.Join(out.Waiting, "; ")
	case out.Horizon:
		return "sched:step-horizon-in-" + c.Harness, ""
	}
	pk := c.packets()
	for i, p := range pk {
		n := obs.cb[i]
		what := "application callback ran"
		if c.Harness == "Put" {
			n = obs.putTrue[i]
			what = "PacketPool.Put returned true"
		}
		if n > 1 {
			return fmt.Sprintf("sched:flooded-packet-delivered-%d-times-under-concurrent-relays:%s", n, c.Harness),
				fmt.Sprintf("%s %d times for %v handed in concurrently by several peers", what, n, p)
		}
		if n == 0 {
			return "sched:flooded-packet-not-delivered-on-first-sight:" + c.Harness, fmt.Sprintf("%s 0 times for %v", what, p)
		}
		if obs.after[i] && c.guaranteedAfter(i) {
			return "sched:flooded-packet-accepted-again-after-concurrent-relays:" + c.Harness,
				fmt.Sprintf("%v was accepted again by a sequential hand-in right after the concurrent phase", p)
		}
	}
	return "", ""
}

func c33SchedOutcome(c c33SchedCase, obs *c33SchedObs) string {
	var ks []int
	for k := range obs.winner {
		ks = append(ks, k)
	}
	sort.Ints(ks)
	var sb strings.Builder
	for _, k := range ks {
		fmt.Fprintf(&sb, "pkt%d<-thread%d ", k, obs.winner[k])
	}
	return sb.String()
}

type c33SchedTotals struct {
	executions, blocked, choicePoints int64
	cases                             int
	complete                          bool
	outcomes                          map[string]int // per case: number of distinct outcomes
	maxDepth                          int
	byPreemptions                     []int64
}

// c33RunSched explores one case; violations are replayed before they are reported.
func c33RunSched(r *ev.Run, c c33SchedCase, tot *c33SchedTotals) {
	body := c33SchedBody(c)
	opt := explore.Options{MaxPreemptions: c.P, MaxSteps: 20000}
	nviol := 0
	opt.Stop = func() bool { return nviol >= 3 || r.Expired() }
	outcomes := map[string]int{}
	res := explore.Explore(opt, body, func(x *explore.Exec, out *explore.Outcome) {
		obs := x.Data.(*c33SchedObs)
		outcomes[c33SchedOutcome(c, obs)]++
		sig, detail := c33SchedJudge(c, obs, out)
		if sig == "" {
			return
		}
		nviol++
		tr := append(explore.Trace(nil), out.Trace...)
		x2, out2, err := explore.Replay(tr, opt, body)
		if err != nil {
			r.Sanity(false, "sched: replay of a violating execution diverged: %v", err)
			return
		}
		if sig2, _ := c33SchedJudge(c, x2.Data.(*c33SchedObs), out2); sig2 != sig {
			r.Sanity(false, "sched: violation %q did not reproduce on replay (got %q)", sig, sig2)
			return
		}
		cc := c
		cc.Trace = tr
		r.Violation(sig, fmt.Sprintf("%s\n case: %v\n schedule (choice/alternatives): %s (%d preemptions)", detail, c, tr.String(), out.Preemptions), cc)
	})
	tot.executions += res.Executions
	tot.blocked += res.BlockedExecutions
	tot.choicePoints += res.ChoicePoints
	tot.cases++
	if !res.Complete && nviol == 0 {
		tot.complete = false
	}
	if res.MaxDepth > tot.maxDepth {
		tot.maxDepth = res.MaxDepth
	}
	for i, n := range res.ByPreemptions {
		for len(tot.byPreemptions) <= i {
			tot.byPreemptions = append(tot.byPreemptions, 0)
		}
		tot.byPreemptions[i] += n
	}
	tot.outcomes[c.Name+"/"+c.Harness] = len(outcomes)
}

// c33SchedTier runs the whole scheduler tier and records its evidence keys.
func c33SchedTier(r *ev.Run) (complete bool) {
	if err := vsync.SelfCheck(); err != nil {
		r.Sanity(false, "vsync self check failed: %v", err)
		return false
	}
	cases := c33SchedCases(r.Thorough())
	tot := &c33SchedTotals{complete: true, outcomes: map[string]int{}}
	for _, c := range cases {
		if r.Expired() {
			tot.complete = false
			break
		}
		// determinism self-test of the body (same decisions -> same observations)
		if err := explore.SelfTest(explore.Options{MaxPreemptions: c.P, MaxSteps: 20000}, c33SchedBody(c), func(x *explore.Exec, out *explore.Outcome) string {
			return c33SchedOutcome(c, x.Data.(*c33SchedObs)) + fmt.Sprint(x.Data.(*c33SchedObs).cb, x.Data.(*c33SchedObs).putTrue)
		}); err != nil {
			r.Sanity(false, "sched: body of %s is not deterministic: %v", c.Name, err)
			tot.complete = false
			continue
		}
		r.Nontrivial("sched/" + c.Name + "/" + c.Harness)
		c33RunSched(r, c, tot)
	}
	r.Eval(int(tot.executions))
	r.Set("sched_cases", tot.cases)
	r.Set("sched_preemption_bound_completed", cases[0].P)
	r.Set("sched_executions", tot.executions)
	r.Set("sched_blocked_executions", tot.blocked)
	r.Set("sched_choice_points", tot.choicePoints)
	r.Set("sched_max_decision_depth", tot.maxDepth)
	r.Set("sched_executions_by_preemptions", tot.byPreemptions)
	r.Set("sched_distinct_outcomes_per_case", tot.outcomes)
	r.Set("sched_complete", tot.complete)
	minOut := 1 << 30
	for _, n := range tot.outcomes {
		if n < minOut {
			minOut = n
		}
	}
	r.Sanity(tot.cases == len(cases) || r.Expired(), "scheduler tier: cases skipped")
	r.Sanity(minOut >= 2 || r.Violations() > 0, "scheduler tier: a case saw fewer than 2 distinct outcomes (both relay orders must be observed): %v", tot.outcomes)
	r.Sanity(tot.blocked > 0, "scheduler tier: no execution ever blocked on the pool lock")
	return tot.complete
}

func c33SchedReplay(r *ev.Run, c c33SchedCase) {
	body := c33SchedBody(c)
	x, out, err := explore.Replay(c.Trace, explore.Options{MaxPreemptions: -1, MaxSteps: 20000}, body)
	if err != nil {
		r.Sanity(false, "sched replay diverged: %v", err)
		return
	}
	if sig, detail := c33SchedJudge(c, x.Data.(*c33SchedObs), out); sig != "" {
		r.Violation(sig, fmt.Sprintf("%s\n case: %v\n schedule: %s", detail, c, c.Trace.String()), c)
	}
}
