//go:build verif

package network

// C33 — flooded messages are delivered once and only from authorized origins.
//
// Explicit-state BFS over event sequences "peer Pi hands packet k to
// PeerToPeer.onPacket" on a hand-assembled in-package PeerToPeer (real
// onPacket, real PacketPool, real Peer objects; no sockets, no goroutines).
// A state is identified by the canonical contents of the real packet pool plus
// the reference model's bookkeeping; it is re-created by replaying the
// shortest event history on fresh real objects. Every transition compares the
// number of callback invocations with the reference model below, which is a
// transcription of the property statement.

import (
	"bytes"
	"fmt"
	"sort"
	"strconv"
	"strings"
	"sync"
	"sync/atomic"
	"testing"

	"github.com/icon-project/goloop/common/log"
	"github.com/icon-project/goloop/module"
	"github.com/icon-project/goloop/verifshim/ev"
)

// ---------------------------------------------------------------- configuration

type c33Cfg struct {
	Roles   [3]int `json:"roles"`        // PeerRoleFlag of P1..P3: 0 none, 1 seed, 2 root, 3 root+seed
	Conns   [3]int `json:"conns"`        // PeerConnectionType of P1..P3: 0 none(undetermined), 1 parent, 5 friend, 6 other, ...
	PoolB   int    `json:"pool_buckets"` // packet pool geometry (0: the production default 20 x 500)
	PoolL   int    `json:"pool_bucket_len"`
	Packets int    `json:"packet_set"` // which packet alphabet (0 full, 1 reduced for the small pool)
	Senders int    `json:"senders"`    // number of peers that hand packets in (3, or 2 for the small pool run)
	Self    int    `json:"self_role"`  // role of the node itself (must not matter)
}

func (c c33Cfg) String() string {
	rn := []string{"none", "seed", "root", "root+seed"}
	var s []string
	for i := 0; i < 3; i++ {
		s = append(s, fmt.Sprintf("P%d=%s/%s", i+1, rn[c.Roles[i]], c33ConnName(c.Conns[i])))
	}
	pool := "pool=default"
	if c.PoolB != 0 {
		pool = fmt.Sprintf("pool=%dx%d", c.PoolB, c.PoolL)
	}
	return strings.Join(s, " ") + " self=" + rn[c.Self] + " " + pool
}

func c33ConnName(c int) string {
	if c >= 0 && c < len(strPeerConnectionType) {
		return strPeerConnectionType[c]
	}
	return fmt.Sprint(c)
}

// packet sources: 0 = P1, 1 = P2, 2 = X (a node that is not connected), 3 = S (the node itself)
var c33SrcNames = []string{"P1", "P2", "X", "S(self)"}

type c33Pkt struct {
	Src     int  `json:"src"`
	Dest    byte `json:"dest"`
	TTL     byte `json:"ttl"`
	Payload int  `json:"payload"`
}

func (p c33Pkt) String() string {
	dn := map[byte]string{p2pDestAny: "any", p2pDestRoot: "root", p2pDestSeed: "seed", p2pDestPeer: "peer"}
	return fmt.Sprintf("{src=%s dest=%s ttl=%d payload=%d}", c33SrcNames[p.Src], dn[p.Dest], p.TTL, p.Payload)
}

func (p c33Pkt) oneHop() bool { return p.TTL != 0 || p.Dest == p2pDestPeer }

func c33PacketSet(which int) []c33Pkt {
	var out []c33Pkt
	switch which {
	case 0:
		for src := 0; src < 4; src++ {
			for _, dest := range []byte{p2pDestAny, p2pDestRoot, p2pDestSeed, p2pDestPeer} {
				for _, ttl := range []byte{0, 1, 2} {
					for pl := 0; pl < 2; pl++ {
						out = append(out, c33Pkt{src, dest, ttl, pl})
					}
				}
			}
		}
	case 1:
		// small-pool run: flooded packets from P1 and X, plus two one-hop packets
		for _, src := range []int{0, 2} {
			for _, dest := range []byte{p2pDestAny, p2pDestRoot} {
				for pl := 0; pl < 2; pl++ {
					out = append(out, c33Pkt{src, dest, 0, pl})
				}
			}
		}
		out = append(out, c33Pkt{0, p2pDestPeer, 1, 0}, c33Pkt{0, p2pDestAny, 1, 0})
	}
	return out
}

type c33Event struct {
	Sender int `json:"sender"` // index of the connected peer that hands the packet in
	Pkt    int `json:"pkt"`    // index into the packet set
}

// ---------------------------------------------------------------- the real system

var (
	c33Proto  = module.ProtocolInfo(0x0500)
	c33SubPro = module.ProtocolInfo(0x0100)
)

type c33IDs struct {
	self  module.PeerID
	peers [3]module.PeerID
	x     module.PeerID
}

func c33MakeIDs() c33IDs {
	mk := func(b byte) module.PeerID { return NewPeerID(bytes.Repeat([]byte{b}, peerIDSize)) }
	return c33IDs{self: mk(0x50), peers: [3]module.PeerID{mk(0xa1), mk(0xa2), mk(0xa3)}, x: mk(0xee)}
}

func (ids c33IDs) src(i int) module.PeerID {
	switch i {
	case 0, 1:
		return ids.peers[i]
	case 2:
		return ids.x
	}
	return ids.self
}

type c33Sys struct {
	p2p   *PeerToPeer
	peers [3]*Peer
	calls int
	lastP *Peer
	lastK *Packet
}

var c33Log = func() log.Logger {
	l := log.New()
	l.SetLevel(log.PanicLevel)
	l.SetConsoleLevel(log.PanicLevel)
	return l
}()

func c33NewSys(cfg c33Cfg, ids c33IDs) *c33Sys {
	s := &c33Sys{}
	self := &Peer{id: ids.self}
	self.setRole(PeerRoleFlag(cfg.Self))
	nb, bl := uint8(DefaultPacketPoolNumBucket), uint16(DefaultPacketPoolBucketLen)
	if cfg.PoolB != 0 {
		nb, bl = uint8(cfg.PoolB), uint16(cfg.PoolL)
	}
	// hand-assembled like network/p2p_test.go does: only what onPacket touches
	s.p2p = &PeerToPeer{
		peerHandler:     newPeerHandler(ids.self, c33Log),
		onPacketCbFuncs: make(map[uint16]packetCbFunc),
		onEventCbFuncs:  make(map[string]map[uint16]eventCbFunc),
		packetPool:      NewPacketPool(nb, bl),
		self:            self,
	}
	s.p2p.setCbFunc(c33Proto, func(pkt *Packet, p *Peer) {
		s.calls++
		s.lastP, s.lastK = p, pkt
	}, nil)
	for i := 0; i < 3; i++ {
		pis := newProtocolInfos()
		pis.Add(c33Proto)
		p := &Peer{id: ids.peers[i], attr: make(map[string]interface{}), logger: c33Log}
		p.setRole(PeerRoleFlag(cfg.Roles[i]))
		p.setConnType(PeerConnectionType(cfg.Conns[i]))
		p.setProtocolInfos(pis)
		s.peers[i] = p
	}
	return s
}

func (s *c33Sys) reset(cfg c33Cfg) {
	nb, bl := uint8(DefaultPacketPoolNumBucket), uint16(DefaultPacketPoolBucketLen)
	if cfg.PoolB != 0 {
		nb, bl = uint8(cfg.PoolB), uint16(cfg.PoolL)
	}
	s.p2p.packetPool = NewPacketPool(nb, bl)
	s.calls, s.lastP, s.lastK = 0, nil, nil
}

// pristine: nothing but the pool changed.
func (s *c33Sys) pristine(cfg c33Cfg) bool {
	for i, p := range s.peers {
		if p.Role() != PeerRoleFlag(cfg.Roles[i]) || p.ConnType() != PeerConnectionType(cfg.Conns[i]) || p.IsClosed() || !p.ProtocolInfos().Exists(c33Proto) {
			return false
		}
	}
	return len(s.p2p.onPacketCbFuncs) == 1
}

// wire image of every packet of the set (what a peer's receive routine would parse)
func c33Wire(ids c33IDs, set []c33Pkt) [][]byte {
	out := make([][]byte, len(set))
	for i, d := range set {
		pkt := NewPacket(c33Proto, c33SubPro, []byte(fmt.Sprintf("verif-c33-payload-%d", d.Payload)))
		pkt.src = ids.src(d.Src)
		pkt.dest = d.Dest
		pkt.ttl = d.TTL
		var buf bytes.Buffer
		if _, err := pkt.WriteTo(&buf); err != nil {
			panic(err)
		}
		out[i] = buf.Bytes()
	}
	return out
}

// deliver hands packet k to onPacket exactly as Peer.receiveRoutine would and
// returns how often the registered callback ran.
func (s *c33Sys) deliver(wire []byte, sender int) (calls int, pkt *Packet) {
	pkt = &Packet{}
	if _, err := pkt.ReadFrom(bytes.NewReader(wire)); err != nil {
		panic(err)
	}
	p := s.peers[sender]
	pkt.sender = p.ID()
	before := s.calls
	s.p2p.onPacket(pkt, p)
	return s.calls - before, pkt
}

// poolKey is the canonical form of the real PacketPool.
func (s *c33Sys) poolKey(hashName map[uint64]int) string {
	pp := s.p2p.packetPool
	pp.mtx.RLock()
	defer pp.mtx.RUnlock()
	b := make([]byte, 0, 64)
	b = append(b, 'c')
	b = strconv.AppendInt(b, int64(pp.cur), 10)
	var names []int
	for bi := 0; bi < pp.numOfBucket; bi++ {
		m := pp.buckets[bi]
		if m == nil {
			continue
		}
		names = names[:0]
		for h := range m {
			n, ok := hashName[h]
			if !ok {
				n = -1
			}
			names = append(names, n)
		}
		sort.Ints(names)
		b = append(b, '|')
		b = strconv.AppendInt(b, int64(bi), 10)
		b = append(b, '/')
		b = strconv.AppendInt(b, int64(pp.len[bi]), 10)
		b = append(b, ':')
		for _, n := range names {
			b = strconv.AppendInt(b, int64(n), 10)
			b = append(b, ',')
		}
	}
	return string(b)
}

// ---------------------------------------------------------------- the reference model (= the property statement)

const (
	c33No = iota
	c33Yes
	c33Either
)

type c33Model struct {
	cfg      c33Cfg
	set      []c33Pkt
	accepted map[int]int // packet index -> sequence number of its last delivery as a flooded message
	seq      int         // number of flooded deliveries so far
}

func c33NewModel(cfg c33Cfg, set []c33Pkt) *c33Model {
	return &c33Model{cfg: cfg, set: set, accepted: map[int]int{}}
}

// retention the pool geometry guarantees: a delivered packet is remembered
// at least until (buckets-1)*bucketLen newer packets have been delivered.
func (m *c33Model) guaranteed() int {
	nb, bl := DefaultPacketPoolNumBucket, DefaultPacketPoolBucketLen
	if m.cfg.PoolB != 0 {
		nb, bl = m.cfg.PoolB, m.cfg.PoolL
	}
	return (nb - 1) * bl
}

// expect says whether the application callback must run for this event and why not.
func (m *c33Model) expect(e c33Event) (verdict int, why string) {
	k := m.set[e.Pkt]
	if m.cfg.Conns[e.Sender] == int(p2pConnTypeNone) {
		return c33No, "sender-with-undetermined-connection-type"
	}
	if k.Src == 3 {
		return c33No, "self-sourced-packet"
	}
	fromSource := k.Src <= 1 && k.Src == e.Sender // sources: 0=P1 1=P2 2=X(not connected) 3=S; senders: 0=P1 1=P2 2=P3
	if k.oneHop() {
		if fromSource {
			return c33Yes, "one-hop-from-its-source"
		}
		return c33No, "one-hop-from-non-source"
	}
	// flooded: ttl == 0 and dest != peer
	if k.Dest == p2pDestAny && fromSource && m.cfg.Roles[e.Sender]&2 == 0 {
		return c33No, "broadcast-from-originator-without-validator-role"
	}
	if at, seen := m.accepted[e.Pkt]; seen {
		newer := m.seq - at - 1
		if newer < m.guaranteed() {
			return c33No, "flooded-duplicate-within-retention"
		}
		return c33Either, "flooded-duplicate-beyond-guaranteed-retention"
	}
	return c33Yes, "flooded-first-sight"
}

func (m *c33Model) commit(e c33Event, delivered bool) {
	k := m.set[e.Pkt]
	if delivered && !k.oneHop() {
		m.accepted[e.Pkt] = m.seq
		m.seq++
	}
}

// key: what of the model's bookkeeping can still influence a verdict
func (m *c33Model) key() string {
	g := m.guaranteed()
	var ks []int
	for k := range m.accepted {
		ks = append(ks, k)
	}
	sort.Ints(ks)
	b := make([]byte, 0, 32)
	for _, k := range ks {
		newer := m.seq - m.accepted[k] - 1
		if newer > g {
			newer = g
		}
		if g > 1000 {
			newer = 0 // production pool: nothing can age out within the explored depth
		}
		b = strconv.AppendInt(b, int64(k), 10)
		b = append(b, ':')
		b = strconv.AppendInt(b, int64(newer), 10)
		b = append(b, ',')
	}
	return string(b)
}

// ---------------------------------------------------------------- exploration

type c33Replay struct {
	Cfg     c33Cfg     `json:"cfg"`
	History []c33Event `json:"history"`
	Text    []string   `json:"text,omitempty"`
}

type c33Explorer struct {
	r      *ev.Run
	ids    c33IDs
	cfg    c33Cfg
	set    []c33Pkt
	wire   [][]byte
	names  map[uint64]int
	events []c33Event

	states, transitions, traces int64
	deliveredYes, deliveredNo   int64
	dupSuppressed, either       int64
	whyCount                    sync.Map
	ntSeen                      sync.Map
	sysPool                     sync.Pool
}

func c33NewExplorer(r *ev.Run, cfg c33Cfg) *c33Explorer {
	x := &c33Explorer{r: r, ids: c33MakeIDs(), cfg: cfg}
	x.set = c33PacketSet(cfg.Packets)
	x.wire = c33Wire(x.ids, x.set)
	x.names = map[uint64]int{}
	for i, w := range x.wire {
		pkt := &Packet{}
		if _, err := pkt.ReadFrom(bytes.NewReader(w)); err != nil {
			panic(err)
		}
		if prev, dup := x.names[pkt.hashOfPacket]; dup {
			r.Sanity(false, "packets %v and %v have the same hash", x.set[prev], x.set[i])
		}
		x.names[pkt.hashOfPacket] = i
	}
	senders := cfg.Senders
	if senders == 0 {
		senders = 3
	}
	for s := 0; s < senders; s++ {
		for k := range x.set {
			x.events = append(x.events, c33Event{s, k})
		}
	}
	return x
}

func (x *c33Explorer) describe(h []c33Event) []string {
	var out []string
	for _, e := range h {
		out = append(out, fmt.Sprintf("P%d hands in %v", e.Sender+1, x.set[e.Pkt]))
	}
	return out
}

// run replays history h on fresh real objects next to a fresh model, checking
// every step, and returns the canonical state key reached.
//
// "Fresh real objects": the PacketPool — the only object onPacket mutates — is
// newly constructed for every replay; the PeerToPeer shell, the three Peer
// objects and the callback registration hold no state that onPacket changes
// (asserted at the end of every replay) and are recycled per worker to keep
// the allocator out of the profile.
func (x *c33Explorer) run(h []c33Event, checkFrom int) (key string) {
	atomic.AddInt64(&x.traces, 1)
	sys, _ := x.sysPool.Get().(*c33Sys)
	if sys == nil {
		sys = c33NewSys(x.cfg, x.ids)
	} else {
		sys.reset(x.cfg)
	}
	defer x.sysPool.Put(sys)
	mod := c33NewModel(x.cfg, x.set)
	for i, e := range h {
		verdict, why := mod.expect(e)
		var calls int
		var pkt *Packet
		pan := ev.Catch(func() { calls, pkt = sys.deliver(x.wire[e.Pkt], e.Sender) })
		report := func(sig, detail string) {
			hh := append([]c33Event(nil), h[:i+1]...)
			x.r.Violation(sig, fmt.Sprintf("%s\n config: %v\n history: %s", detail, x.cfg, strings.Join(x.describe(hh), " ; ")),
				c33Replay{Cfg: x.cfg, History: hh, Text: x.describe(hh)})
		}
		if pan != "" {
			report("panic-in-onPacket", "panic: "+pan)
			return "panic"
		}
		if i >= checkFrom {
			k := x.set[e.Pkt]
			switch {
			case calls > 1:
				report("callback-invoked-more-than-once-for-one-packet", fmt.Sprintf("callback ran %d times", calls))
			case calls == 1 && verdict == c33No:
				sig := "delivered:" + why
				if why == "one-hop-from-non-source" {
					sig += fmt.Sprintf(":dest=%#x,ttl=%d", k.Dest, k.TTL)
				}
				report(sig, "the application callback ran although the property forbids it ("+why+")")
			case calls == 0 && verdict == c33Yes:
				report("not-delivered:"+why, "the application callback did not run although the property demands it ("+why+")")
			}
			if calls == 1 && (sys.lastP != sys.peers[e.Sender] || sys.lastK != pkt) {
				report("callback-got-wrong-arguments", "callback invoked with another peer/packet")
			}
			if i == len(h)-1 {
				if calls == 1 {
					atomic.AddInt64(&x.deliveredYes, 1)
				} else {
					atomic.AddInt64(&x.deliveredNo, 1)
				}
				if why == "flooded-duplicate-within-retention" {
					atomic.AddInt64(&x.dupSuppressed, 1)
				}
				if verdict == c33Either {
					atomic.AddInt64(&x.either, 1)
				}
				c, ok := x.whyCount.Load(why)
				if !ok {
					c, _ = x.whyCount.LoadOrStore(why, new(int64))
				}
				atomic.AddInt64(c.(*int64), 1)
				if x.cfg.Conns[e.Sender] != int(p2pConnTypeNone) {
					type ntKey struct {
						role, conn, sender, pkt, pool int
						why                           string
					}
					nk := ntKey{x.cfg.Roles[e.Sender], x.cfg.Conns[e.Sender], e.Sender, e.Pkt, x.cfg.PoolB, why}
					if _, dup := x.ntSeen.Load(nk); !dup {
						x.ntSeen.Store(nk, true)
						x.r.Nontrivial(fmt.Sprintf("%d/%d/%d/%v/%s/%d", nk.role, nk.conn, nk.sender, k, why, nk.pool))
					}
				}
			}
		}
		mod.commit(e, calls >= 1)
	}
	if !sys.pristine(x.cfg) {
		x.r.Violation("onPacket-mutated-peer-or-node-state", fmt.Sprintf("role/connection type/callback table changed during replay; config %v history %v", x.cfg, x.describe(h)),
			c33Replay{Cfg: x.cfg, History: h, Text: x.describe(h)})
	}
	return sys.poolKey(x.names) + "#" + mod.key()
}

// bfs explores all event sequences up to maxDepth with canonical-state
// deduplication; level-synchronous, frontier states expanded in parallel.
func (x *c33Explorer) bfs(maxDepth int) (fixpoint bool) {
	k0 := x.run(nil, 0)
	seen := map[string]struct{}{k0: {}}
	var mu sync.Mutex
	frontier := [][]c33Event{nil}
	x.states = 1
	for depth := 0; depth < maxDepth && len(frontier) > 0; depth++ {
		type succ struct {
			key string
			h   []c33Event
		}
		results := make([][]succ, len(frontier))
		var stop int32
		ev.Par(len(frontier), 16, func(fi int) {
			if atomic.LoadInt32(&stop) != 0 || x.r.Expired() {
				atomic.StoreInt32(&stop, 1)
				return
			}
			h := frontier[fi]
			var out []succ
			for _, e := range x.events {
				nh := append(append(make([]c33Event, 0, len(h)+1), h...), e)
				k := x.run(nh, len(h))
				atomic.AddInt64(&x.transitions, 1)
				out = append(out, succ{k, nh})
			}
			results[fi] = out
		})
		if stop != 0 {
			return false
		}
		var next [][]c33Event
		mu.Lock()
		for _, rs := range results { // deterministic order: frontier order, then event order
			for _, s := range rs {
				if _, dup := seen[s.key]; !dup {
					seen[s.key] = struct{}{}
					next = append(next, s.h)
				}
			}
		}
		mu.Unlock()
		x.states = int64(len(seen))
		frontier = next
	}
	return len(frontier) == 0
}

func (x *c33Explorer) flush(total *c33Totals) {
	total.mu.Lock()
	defer total.mu.Unlock()
	total.states += x.states
	total.transitions += x.transitions
	total.traces += x.traces
	total.yes += x.deliveredYes
	total.no += x.deliveredNo
	total.dup += x.dupSuppressed
	total.either += x.either
	x.whyCount.Range(func(k, v interface{}) bool {
		total.why[k.(string)] += *(v.(*int64))
		return true
	})
}

type c33Totals struct {
	mu                                                sync.Mutex
	states, transitions, traces, yes, no, dup, either int64
	why                                               map[string]int64
}

// ---------------------------------------------------------------- the check

func TestVerifC33(t *testing.T) {
	r := ev.Start(t, "C33", "model_checking")
	if ev.Replaying() {
		var probe struct {
			Stage string `json:"stage"`
		}
		ev.ReplayCase(&probe)
		if probe.Stage == "roles" {
			var rc c33RoleCase
			ev.ReplayCase(&rc)
			c33RunRoles(r, &rc, &c33RoleStats{})
			r.Finish(false)
			return
		}
		if probe.Stage == "sched" {
			var sc c33SchedCase
			ev.ReplayCase(&sc)
			c33SchedReplay(r, sc)
			r.Finish(false)
			return
		}
		var c c33Replay
		ev.ReplayCase(&c)
		x := c33NewExplorer(r, c.Cfg)
		x.run(c.History, 0)
		r.Finish(false)
		return
	}
	deepDepth := r.Pick(4, 5)
	smallDepth := r.Pick(6, 8)
	allCfgDepth := r.Pick(1, 2)
	r.Rule(fmt.Sprintf("node S with connected peers P1..P3 (role in {none,seed,root,root+seed}, connection type in {none,parent,friend,other}); packets: src in {P1,P2,X(not connected),S} x dest in {any,root,seed,peer} x ttl in {0,1,2} x 2 payloads (96); event = peer Pi hands packet k to onPacket (288). (1) all 4096 role/connection-type configurations x roles of S itself (quick: none, root; thorough: all 4): BFS to depth 1, and to depth %d with S=none; (2) %d representative configurations: BFS to depth %d (thorough: the first two to depth 6) with the production pool (20x500); (3) pool 2x2 and 3x2 with 8 flooded + 2 one-hop packets and 2 senders: BFS to depth %d (evictions and re-delivery after eviction are reached). (4) scheduler tier (lib/explore, network/pool.go on the vsync shim): 2-3 managed threads = receive routines of different peers hand the SAME flooded packet (and, with pools 2x2 / 3x2 and a preloaded packet, two different packets across a bucket rotation) to the real onPacket, and to PacketPool.Put directly; all interleavings of the pool's lock operations up to preemption bound 2 (quick) / 3 (thorough); the callback / Put==true must happen exactly once per packet and a sequential hand-in afterwards must be refused. (5) role histories: on a real newPeerToPeer with three connected peers every sequence of length <= 2 (quick) / 3 (thorough) of validator sets over all 8 subsets of {P1,P2,P3} (x S itself in/out of the sets) is pushed through the real manager.SetRole -> PeerIDSet.ClearAndAdd -> onAllowedPeerIDSetUpdate path; after every step manager.HasRole and each peer's p2pRoleRoot flag must equal membership in the set passed LAST, and the whole 96-packet grid is handed in by every peer against the model with the roles of that current set. States are identified by the canonical content of the real PacketPool (+ the model's retention bookkeeping) and re-created by replaying the shortest history on fresh real objects; every transition is checked. A transition is non-trivial if the sender has a determined connection type; distinct = (sender role, sender connection type, sender, packet, model verdict reason, pool geometry).", allCfgDepth, len(c33DeepConfigs(r.Thorough())), deepDepth, smallDepth))
	r.Assume("a packet's identity for the model is (src,dest,ttl,payload); the implementation's identity is its FNV hash — distinctness of the hashes of the 96 packets is asserted",
		"pool retention guaranteed by the geometry: a delivered flooded packet is remembered at least until (buckets-1)*bucketLen newer ones were delivered; beyond that re-delivery is allowed",
		"relayed flooded packets (sender != src) carry no verifiable origin; as in the property statement only originator broadcasts are subject to the role check",
		"the control protocol, unregistered protocols and peer close paths are outside the property and are not driven")

	tot := &c33Totals{why: map[string]int64{}}
	exhaustive := true

	// (1) every configuration, shallow
	var cfgs []c33Cfg
	conns := []int{int(p2pConnTypeNone), int(p2pConnTypeParent), int(p2pConnTypeFriend), int(p2pConnTypeOther)}
	for a := 0; a < 16; a++ {
		for b := 0; b < 16; b++ {
			for c := 0; c < 16; c++ {
				cfgs = append(cfgs, c33Cfg{Roles: [3]int{a / 4, b / 4, c / 4}, Conns: [3]int{conns[a%4], conns[b%4], conns[c%4]}})
			}
		}
	}
	var fix1 int64
	ev.Par(len(cfgs), 16, func(i int) {
		if r.Expired() {
			return
		}
		for self := 0; self < 4; self++ {
			if r.Quick() && self%2 == 1 {
				continue // quick: S in {none, root}
			}
			cfg := cfgs[i]
			cfg.Self = self
			x := c33NewExplorer(r, cfg)
			if self == 0 {
				x.bfsSeq(allCfgDepth)
			} else {
				x.bfsSeq(1)
			}
			x.flush(tot)
		}
		atomic.AddInt64(&fix1, 1)
	})
	if int(fix1) != len(cfgs) {
		exhaustive = false
	}
	r.Set("configurations_shallow", fix1)

	// (2) representative configurations, deep, production pool
	deep := c33DeepConfigs(r.Thorough())
	deepDone := 0
	for ci, cfg := range deep {
		if r.Expired() {
			exhaustive = false
			break
		}
		x := c33NewExplorer(r, cfg)
		d := deepDepth
		if r.Thorough() && ci < 2 {
			d++ // the first two configurations one level deeper
		}
		x.bfs(d)
		if r.Expired() {
			exhaustive = false
		} else {
			deepDone++
		}
		x.flush(tot)
	}
	r.Set("configurations_deep", deepDone)
	r.Set("deep_depth", deepDepth)

	// (3) small pools: eviction and re-delivery
	var evictionsSeen int64
	for _, geo := range [][2]int{{2, 2}, {3, 2}} {
		if r.Expired() {
			exhaustive = false
			break
		}
		cfg := c33Cfg{Roles: [3]int{2, 0, 0}, Conns: [3]int{int(p2pConnTypeFriend), int(p2pConnTypeOther), int(p2pConnTypeNone)},
			PoolB: geo[0], PoolL: geo[1], Packets: 1, Senders: 2}
		x := c33NewExplorer(r, cfg)
		d := smallDepth
		if geo[0] == 3 && d > 7 {
			d = 7
		}
		x.bfs(d)
		if r.Expired() {
			exhaustive = false
		}
		evictionsSeen += x.either
		x.flush(tot)
	}
	r.Set("small_pool_depth", smallDepth)
	r.Set("transitions_beyond_guaranteed_retention", evictionsSeen)

	// (4) scheduler tier: concurrent receive routines, all interleavings inside the preemption bound
	if !c33SchedTier(r) {
		exhaustive = false
	}

	// (5) role histories through manager.SetRole / PeerIDSet.ClearAndAdd / onAllowedPeerIDSetUpdate
	if !c33RolesTier(r) {
		exhaustive = false
	}

	r.States(int(tot.states))
	r.Transitions(int(tot.transitions))
	r.Traces(int(tot.traces))
	r.Eval(int(tot.transitions))
	r.Set("transitions_delivered", tot.yes)
	r.Set("transitions_not_delivered", tot.no)
	r.Set("duplicates_suppressed", tot.dup)
	for k, v := range tot.why {
		r.Set("transitions:"+k, v)
	}
	r.Set("transitions_passing_connection_gate", tot.transitions-tot.why["sender-with-undetermined-connection-type"])
	for _, w := range []string{"sender-with-undetermined-connection-type", "self-sourced-packet", "one-hop-from-its-source", "one-hop-from-non-source",
		"broadcast-from-originator-without-validator-role", "flooded-duplicate-within-retention", "flooded-first-sight", "flooded-duplicate-beyond-guaranteed-retention"} {
		r.Sanity(tot.why[w] > 0, "model branch %q never exercised", w)
	}
	r.Sanity(tot.yes > 0 && tot.no > 0 && tot.dup > 0, "delivery outcomes not all seen")

	x := c33NewExplorer(r, deep[0])
	h := []c33Event{{0, c33Find(x.set, c33Pkt{0, p2pDestAny, 0, 0})}, {1, c33Find(x.set, c33Pkt{0, p2pDestAny, 0, 0})}, {2, c33Find(x.set, c33Pkt{0, p2pDestAny, 0, 0})}}
	r.Sample(map[string]interface{}{"config": deep[0].String(), "history": x.describe(h), "expect": "delivered once (from P1, root), the relays by P2 and P3 are suppressed"})
	h2 := []c33Event{{1, c33Find(x.set, c33Pkt{1, p2pDestAny, 0, 1})}}
	r.Sample(map[string]interface{}{"config": deep[0].String(), "history": x.describe(h2), "expect": "not delivered: P2 (seed) originates a broadcast without the validator role"})
	h3 := []c33Event{{2, c33Find(x.set, c33Pkt{0, p2pDestPeer, 1, 0})}}
	r.Sample(map[string]interface{}{"config": deep[0].String(), "history": x.describe(h3), "expect": "not delivered: one-hop packet of P1 handed in by P3"})
	r.Finish(exhaustive && !r.Expired())
}

func c33Find(set []c33Pkt, p c33Pkt) int {
	for i, q := range set {
		if q == p {
			return i
		}
	}
	panic("packet not in set")
}

func c33DeepConfigs(thorough bool) []c33Cfg {
	N, P, F, O := int(p2pConnTypeNone), int(p2pConnTypeParent), int(p2pConnTypeFriend), int(p2pConnTypeOther)
	cs := []c33Cfg{
		{Roles: [3]int{2, 1, 0}, Conns: [3]int{F, P, O}},          // root friend, seed parent, citizen
		{Roles: [3]int{0, 2, 2}, Conns: [3]int{O, F, N}, Self: 2}, // originator without role; a root whose connection is undetermined; S itself is a root
		{Roles: [3]int{1, 0, 2}, Conns: [3]int{F, P, O}},
		{Roles: [3]int{2, 2, 1}, Conns: [3]int{N, O, F}, Self: 1},
	}
	if thorough {
		cs = append(cs,
			c33Cfg{Roles: [3]int{2, 2, 2}, Conns: [3]int{F, F, F}},
			c33Cfg{Roles: [3]int{0, 0, 0}, Conns: [3]int{O, O, O}},
			c33Cfg{Roles: [3]int{3, 1, 0}, Conns: [3]int{P, F, N}},
			c33Cfg{Roles: [3]int{1, 3, 2}, Conns: [3]int{O, P, F}},
		)
	}
	return cs
}

// bfsSeq is bfs without inner parallelism (used when configurations are spread over the workers).
func (x *c33Explorer) bfsSeq(maxDepth int) bool {
	k0 := x.run(nil, 0)
	seen := map[string]struct{}{k0: {}}
	frontier := [][]c33Event{nil}
	for depth := 0; depth < maxDepth && len(frontier) > 0; depth++ {
		var next [][]c33Event
		for _, h := range frontier {
			for _, e := range x.events {
				nh := append(append(make([]c33Event, 0, len(h)+1), h...), e)
				k := x.run(nh, len(h))
				x.transitions++
				if _, dup := seen[k]; !dup {
					seen[k] = struct{}{}
					next = append(next, nh)
				}
			}
		}
		frontier = next
	}
	x.states = int64(len(seen))
	return len(frontier) == 0
}
